/-
  Stream `lock` (C17): a monitor that replays an observed history of
  Open / Close / public operations on ONE storage directory — invocations and returns
  in their observed real-time order, yield points at which a goroutine was parked,
  directory listings — on the small-step model Comet/Storage/Lock.lean.

  The monitor keeps the set `S` of ALL model states that some interleaving of the
  model's atomic steps, consistent with everything observed so far, can have reached
  (subset construction over `Comet.Lock.step`, the very function the theorems in
  CometProofs/Properties/C17.lean are about).  An observation that no state of `S`
  (closed under unobserved steps) can explain is reported:
     SPECFAIL … the implementation's outcome contradicts the property

  Outcomes are observed as WHAT was called and WHETHER it failed (`open-err`, `close-err`,
  `op-err`): C17 says that certain calls fail, never which error they report, so a failed
  Open is explained by every model state in which that Open failed — for whatever reason
  (locked, or the injected fault) — and the class the harness attached to the error (guessed
  from its wording) only appears as a flag (`Proto.classFlag`).

  Exploration is reduced, exactly: a step that touches only state no other actor reads or
  writes, stays enabled once enabled, and cannot be told apart by any observation the
  harness makes (invocation, mkdir, pid write, the two ReadDirs, spawning the workers,
  closing closeChan, waiting for the workers once they are gone, closing / forgetting the
  descriptor, an operation's body, a worker's write) commutes to the left of everything
  else, so it is executed as soon as it is enabled; only the steps on the shared LOCK
  entry and `closed` flag (create, the two removes, the two kinds of `closed` test) and the
  workers' exits are explored in every order.  A goroutine the harness is going to park
  at a yield point announces it with its invocation and stops there.

  Protocol (tokens after `op`):
     inv <t> open <inj> [<point>]        inj = none|mkdir|create|writepid|readdir1|readdir2 ; point = yield point it will park at
     inv <t> close <ht>.<hi> [<point>]
     inv <t> use <kind> <ht>.<hi> <w>    kind = add|addid|remove|train|search|flush ; w=1: body may write segments
     ret <t> => <res>                    opened | open-err:<class> | closed-ok | close-err:<class> |
                                         op-ok | op-err:<class> (a call whose body cannot fail on an open
                                         handle failed: it was refused) | op-err-any:<class> (a call whose
                                         body may fail failed: refused, or got through and failed) | <anything else>
     at <t> <point>                      thread t is parked at verifPoint <point> (does not move until `go`)
     go <t>
     list => <absent|0|1> <names|->      directory listing: LOCK present?, the other names (comma separated)
     wflush <ht>.<hi> => <0|1>           a background worker of h is alive (flush point); LOCK present?
     env stale | env unstale             a foreign LOCK entry is created / removed by the environment
     env junk <name> | env unjunk <name> the environment adds / removes a non-LOCK file
     misc <what> => ok|err|panic         stateless public methods after Close (no model step)
-/
import Std.Data.HashSet
import Comet.Storage.Lock
import Comet.Driver.Proto
namespace Comet.Driver.LockStream
open Comet Comet.Driver Comet.Lock

/-- finite snapshot of a model state (the driver knows the threads and owners in play) -/
structure MState where
  dir : Dir
  threads : Array Thread
  handles : Array (Owner × Handle)
deriving BEq, Hashable

instance : Inhabited MState := ⟨{ dir := { present := false, lock := none, writes := 0 }, threads := #[], handles := #[] }⟩

def MState.toState (m : MState) : State :=
  { dir := m.dir
    threads := fun t => m.threads.getD t {}
    handles := fun o => match m.handles.find? (·.1 == o) with
      | some p => p.2
      | none => {} }

def MState.ofState (n : Nat) (owners : Array Owner) (s : State) : MState :=
  { dir := { s.dir with writes := min s.dir.writes 1 }
    threads := (Array.range n).map s.threads
    handles := owners.map fun o => (o, s.handles o) }

structure Mon where
  n : Nat
  /-- background workers may write before Close (flush / compaction can be triggered) -/
  bg : Bool
  owners : Array Owner := #[]
  frozen : List Nat := []
  /-- announced yield points: thread ↦ point it will park at during its current call -/
  parks : List (Nat × String) := []
  states : Array MState
  last : Option (List String) := none
  /-- number of calls invoked per thread -/
  invoked : Array Nat
  /-- threads with a call in flight -/
  inflight : List Nat := []
  /-- a failure was already reported: the rest of the case is not judged -/
  dead : Bool := false
  closedSeen : Bool := false

def envThread (m : Mon) : Nat := m.n - 1

def init (ps : List String) : Option Mon :=
  match ps with
  | [n, present, bg] => do
    let n ← n.toNat?
    let n := n + 1   -- last thread = the environment (foreign LOCK entries)
    let d : Dir := { present := present == "1", lock := none, writes := 0 }
    pure { n := n, bg := bg == "1", invoked := Array.replicate n 0,
           states := #[{ dir := d, threads := Array.replicate n {}, handles := #[] }] }
  | _ => none

def pointMatches (point : String) (pc : Pc) : Bool :=
  match point, pc with
  | "newStorageProvider:locked", .oReadDir1 _ => true
  | "newStorageProvider:ready", .oReadDir2 _ => true
  | "close:closed", .cSignal _ => true
  | _, _ => false

/-- steps on the shared LOCK entry / `closed` flag: explored in every order -/
def visiblePc : Pc → Bool
  | .oCreate _ | .oCleanup _ | .cTest _ | .cRemove _ | .pTest _ _ => true
  | _ => false

def parkedHere (m : Mon) (t : Nat) (pc : Pc) : Bool :=
  m.parks.any fun (t', p) => t' == t && pointMatches p pc

/-- run every private step that is enabled, and record that a worker could have written -/
partial def normalize (m : Mon) (ms : MState) : MState := Id.run do
  let mut st := ms.toState
  let mut changed := true
  while changed do
    changed := false
    for t in List.range m.n do
      if m.frozen.contains t then continue
      let mut go := true
      while go do
        let pc := (st.threads t).pc
        if visiblePc pc || parkedHere m t pc then go := false
        else match step st (.thread t) with
          | none => go := false
          | some (st', _) => st := st'; changed := true
  let ms' := MState.ofState m.n m.owners st
  let canWrite := ms'.handles.any fun (o, h) =>
    h.running != 0 && o.1 + 1 != m.n && (m.bg || h.signalled)
  return if canWrite then { ms' with dir := { ms'.dir with writes := 1 } } else ms'

/-- the explored steps of a (normalized) state -/
def visibleActors (m : Mon) (ms : MState) : List Actor :=
  let ths := (List.range m.n).filter (fun t =>
      !m.frozen.contains t && visiblePc (ms.threads.getD t {}).pc) |>.map Actor.thread
  let ws := ms.handles.toList.filterMap fun (o, h) =>
    if h.running == 0 || o.1 + 1 == m.n then none else some (Actor.worker o .exit)
  ths ++ ws

/-- closure of the state set under unobserved model steps (see the reduction above) -/
partial def closure (m : Mon) : Array MState := Id.run do
  let mut seen : Std.HashSet MState := {}
  let mut out : Array MState := #[]
  for s0 in m.states do
    let s := normalize m s0
    if !seen.contains s then
      seen := seen.insert s; out := out.push s
  let mut i := 0
  while i < out.size do
    let ms := out[i]!
    i := i + 1
    let st := ms.toState
    for a in visibleActors m ms do
      match step st a with
      | none => pure ()
      | some (st', _) =>
        let ms' := normalize m (MState.ofState m.n m.owners st')
        if !seen.contains ms' then
          seen := seen.insert ms'; out := out.push ms'
  return out

def parseOwner (s : String) : Option Owner :=
  match s.splitOn "." with
  | [a, b] => do pure (← a.toNat?, ← b.toNat?)
  | _ => none

def parseInj : String → Option (Option OStep)
  | "none" => some none
  | "mkdir" => some (some .mkdir) | "create" => some (some .create) | "writepid" => some (some .writePid)
  | "readdir1" => some (some .readDir1) | "readdir2" => some (some .readDir2)
  | _ => none

def parseKind (w : Nat) : String → Option OpKind
  | "add" => some .add | "addid" => some .addWithID | "remove" => some .remove
  | "train" => some .train | "search" => some .search | "flush" => some (.flush w)
  | _ => none

def parseRes : String → Option Res
  | "opened" => some .opened | "locked" => some .errLocked | "e-mkdir" => some .errMkdir
  | "e-create" => some .errCreate | "e-writepid" => some .errWritePid
  | "e-readdir1" => some .errReadDir1 | "e-readdir2" => some .errReadDir2
  | "closed-ok" => some .closedOk | "already-closed" => some .errAlreadyClosed
  | "op-ok" => some .opOk | "op-closed" => some .errClosed
  | _ => none

/-- What the harness observed of a returned call: its kind and whether it failed.  The class of
    the error (text after ':') is informational — Proto.sameOutcome. -/
inductive Obs
  | exact (r : Res)     -- opened / closed-ok / op-ok
  | openErr             -- Open returned an error
  | closeErr            -- Close returned an error
  | opErr               -- an operation whose body cannot fail on an open handle returned an error
  | opAnyErr            -- an operation whose body can fail on an open handle returned an error
deriving BEq

/-- (observation, error class) -/
def parseObs (r : String) : Option (Obs × String) :=
  match r.splitOn ":" with
  | ["opened"] => some (.exact .opened, "") | ["closed-ok"] => some (.exact .closedOk, "")
  | ["op-ok"] => some (.exact .opOk, "")
  | "open-err" :: c => some (.openErr, c.headD "other")
  | "close-err" :: c => some (.closeErr, c.headD "other")
  | "op-err" :: c => some (.opErr, c.headD "other")
  | "op-err-any" :: c => some (.opAnyErr, c.headD "other")
  | _ => none

def showRes : Res → String
  | .opened => "opened" | .errLocked => "locked" | .errMkdir => "e-mkdir" | .errCreate => "e-create"
  | .errWritePid => "e-writepid" | .errReadDir1 => "e-readdir1" | .errReadDir2 => "e-readdir2"
  | .closedOk => "closed-ok" | .errAlreadyClosed => "already-closed" | .opOk => "op-ok" | .errClosed => "op-closed"

def isOpenErr : Res → Bool
  | .errLocked | .errMkdir | .errCreate | .errWritePid | .errReadDir1 | .errReadDir2 => true
  | _ => false

/-- the model results an observation is explained by -/
def Obs.explainedBy : Obs → Res → Bool
  | .exact r, r' => r == r'
  | .openErr, r => isOpenErr r
  | .closeErr, r => r == .errAlreadyClosed
  | .opErr, r => r == .errClosed
  | .opAnyErr, r => r == .errClosed || r == .opOk

def Obs.name : Obs → String
  | .exact r => showRes r | .openErr => "open-err" | .closeErr => "close-err"
  | .opErr => "op-err" | .opAnyErr => "op-err-any"

def dedupRes (rs : List Res) : List Res := rs.foldl (fun acc r => if acc.contains r then acc else acc ++ [r]) []

/-- set the (single) pending call of thread `t` in every state -/
def withCall (m : Mon) (t : Nat) (cs : List Call) : Array MState :=
  m.states.flatMap fun ms =>
    (cs.map fun c => { ms with threads := ms.threads.modify t fun th => { th with todo := [c] } }).toArray

/-- run thread `t` alone for `k` steps in every state; states in which it is not enabled are dropped -/
def runAlone (m : Mon) (sts : Array MState) (sched : List Actor) : Array MState :=
  sts.filterMap fun ms =>
    match run ms.toState [] sched with
    | some (st', _) => some (MState.ofState m.n m.owners st')
    | none => none

def sortNames (xs : List String) : List String := (xs.toArray.qsort (· < ·)).toList

def op (m : Mon) (toks : List String) : Mon × String :=
  if m.dead then (m, "ok") else
  let (pre, post) := splitOutcome toks
  let fail (m : Mon) (msg : String) : Mon × String := ({ m with dead := true }, msg)
  match pre with
  | "inv" :: t :: rest =>
    match t.toNat? with
    | none => (m, "BADOP inv thread")
    | some t =>
      if t + 1 ≥ m.n then (m, "BADOP inv thread range") else
      if m.inflight.contains t then (m, "BADOP inv while in flight") else
      let idx := m.invoked.getD t 0
      let calls : Option (List Call × Bool) :=
        match rest with
        | ["open", inj] | ["open", inj, _] => (parseInj inj).map fun f => ([Call.open f], true)
        | ["close", h] | ["close", h, _] => (parseOwner h).map fun h => ([Call.close h], false)
        | ["use", kind, h, w] => do
          let h ← parseOwner h
          let w ← w.toNat?
          let k ← parseKind 1 kind
          match k with
          | .flush _ => pure (if w == 0 then [Call.op h (.flush 0)] else [Call.op h (.flush 0), Call.op h (.flush 1)], false)
          | k => pure ([Call.op h k], false)
        | _ => none
      let park : Option String := match rest with
        | ["open", _, p] | ["close", _, p] => some p
        | _ => none
      match calls with
      | none => (m, "BADOP inv call")
      | some (cs, isOpen) =>
        let m := match park with
          | some p => { m with parks := (t, p) :: m.parks.filter (·.1 != t) }
          | none => { m with parks := m.parks.filter (·.1 != t) }
        let m1 := if isOpen then { m with owners := m.owners.push (t, idx) } else m
        -- handles of a fresh owner must appear in the snapshots
        let sts := (withCall m1 t cs).map fun ms =>
          if isOpen then { ms with handles := ms.handles.push ((t, idx), {}) } else ms
        ({ m1 with states := sts, invoked := m.invoked.modify t (· + 1), inflight := t :: m.inflight },
         s!"ok conc={if m.inflight.isEmpty then 0 else 1}")
  | ["ret", t] =>
    match t.toNat?, post with
    | some t, [r] =>
      if !m.inflight.contains t then (m, "BADOP ret without inv") else
      let cl := closure m
      let want := m.invoked.getD t 0
      let done := cl.filter fun ms =>
        let th := ms.threads.getD t {}
        th.pc == .idle && th.todo.isEmpty && th.idx == want
      let allowed := dedupRes (done.toList.filterMap fun ms => (ms.threads.getD t {}).results.head?)
      let finish (sts : Array MState) : Array MState :=
        sts.map fun ms => { ms with threads := ms.threads.modify t fun th => { th with results := [] } }
      let m' := { m with inflight := m.inflight.erase t }
      let allowedS := " ".intercalate (allowed.map showRes)
      match parseObs r with
      | none => fail m' s!"SPECFAIL unexpected-outcome impl={r} model-allows=[{allowedS}]"
      | some (obs, cls) =>
        let good := done.filter fun ms => match (ms.threads.getD t {}).results.head? with
          | some res => obs.explainedBy res
          | none => false
        if !good.isEmpty then
          -- the model results that explain the observation (one, unless the failure of an Open
          -- has several possible reasons / a failed Remove may or may not have been refused)
          let rs := dedupRes (good.toList.filterMap fun ms => (ms.threads.getD t {}).results.head?)
          let only (p : Res → Bool) : Bool := rs.all p
          let flags :=
            (if only (· == .errLocked) then " locked=1" else "") ++
            (if only (fun r => isOpenErr r && r != .errLocked) then " injfail=1" else "") ++
            (if obs == .exact .opened then " opened=1" else "") ++
            (if obs == .exact .opened && m.closedSeen then " reopen=1" else "") ++
            (if obs == .exact .closedOk then " closedok=1" else "") ++
            (if only (· == .errClosed) then " uac=1" else "") ++
            (if only (· == .errAlreadyClosed) then " dblclose=1" else "") ++
            (if only (· == .opOk) then " opok=1" else "") ++
            (if cls.isEmpty then "" else s!" {classFlag cls}") ++
            (if rs.length > 1 then " reasons=1" else "") ++
            (if allowed.length > 1 then " amb=1" else "") ++
            (if m'.inflight.isEmpty then "" else " conc=1") ++
            (if m.frozen.isEmpty then "" else " parked=1") ++
            (if t + 2 == m.n then " xproc=1" else "")
          let label := match rs with | [r1] => showRes r1 | _ => obs.name
          ({ m' with states := finish good, closedSeen := m.closedSeen || obs == .exact .closedOk },
           s!"ok r-{label}=1 states={good.size}{flags}")
        else if allowed.isEmpty then
          fail m' s!"SPECFAIL call-cannot-have-returned impl={r} (in the model this call is still blocked or unfinished)"
        else
          let pred := match obs with
            | .exact .opened => "lock_mutex(open-succeeded-on-owned-or-failing-directory)"
            | .openErr => "close_releases(open-of-free-directory-failed)"
            | .exact .closedOk => "close_idempotent_effect(second-close-succeeded)"
            | .closeErr => "close(failed-on-an-open-handle)"
            | .exact .opOk => "use_after_close_fails(op-succeeded-on-closed-handle)"
            | _ => "op-failed-on-open-handle"
          fail m' s!"SPECFAIL {pred} model-allows=[{allowedS}] impl={r}"
    | _, _ => (m, "BADOP ret")
  | ["at", t, point] =>
    match t.toNat? with
    | none => (m, "BADOP at")
    | some t =>
      let cl := closure m
      let good := cl.filter fun ms => pointMatches point (ms.threads.getD t {}).pc
      if good.isEmpty then fail m s!"SPECFAIL yield-point-unreachable {point} (the model cannot be at this point now)"
      else ({ m with states := good, frozen := t :: m.frozen }, s!"ok at=1 states={good.size}")
  | ["go", t] =>
    match t.toNat? with
    | none => (m, "BADOP go")
    | some t => ({ m with frozen := m.frozen.erase t, parks := m.parks.filter (·.1 != t) }, "ok")
  | ["list"] =>
    match post with
    | flag :: rest =>
      let names : List String := match rest with
        | [] | ["-"] => []
        | [ns] => sortNames (ns.splitOn ",")
        | _ => []
      let cl := closure m
      if flag == "absent" then
        let good := cl.filter fun ms => !ms.dir.present
        if good.isEmpty then fail m "SPECFAIL directory-missing (the model says it exists)"
        else ({ m with states := good }, "ok absent=1")
      else
        let lockObs := flag == "1"
        let byLock := cl.filter fun ms => ms.dir.present && ms.dir.lock.isSome == lockObs
        if byLock.isEmpty then
          let what := if lockObs then "LOCK-left-behind(failed_open_leaves_no_lock/close_releases)"
                      else "LOCK-missing-while-owned(lock_mutex)"
          fail m s!"SPECFAIL {what} listing-lock={flag}"
        else
          let changed := match m.last with
            | none => false
            | some l => l != names
          let good := if changed then byLock.filter (fun ms => ms.dir.writes ≥ 1) else byLock
          if good.isEmpty then
            fail m s!"SPECFAIL directory-modified(open_locked_fails_unchanged) before={m.last.getD []} after={names}"
          else
            let good := good.map fun ms => { ms with dir := { ms.dir with writes := 0 } }
            ({ m with states := good, last := some names },
             s!"ok lock={flag} files={names.length} states={good.size}{if changed then " changed=1" else ""}")
    | _ => (m, "BADOP list")
  | ["wflush", h] =>
    match parseOwner h, post with
    | some h, [flag] =>
      let cl := closure m
      let alive := cl.filter fun ms => (ms.toState.handles h).running != 0
      if alive.isEmpty then fail m s!"SPECFAIL worker-alive-after-release(worker_alive_under_lock) handle={h}"
      else
        let good := alive.filter fun ms => ms.dir.lock.isSome == (flag == "1")
        if good.isEmpty then
          fail m s!"SPECFAIL flush-outside-lock(worker_alive_under_lock) handle={h} listing-lock={flag}"
        else ({ m with states := good }, "ok wflush=1")
    | _, _ => (m, "BADOP wflush")
  | ["env", "stale"] =>
    let e := envThread m
    let idx := m.invoked.getD e 0
    let m1 := { m with owners := m.owners.push (e, idx) }
    let sts := (withCall m1 e [Call.open none]).map fun ms => { ms with handles := ms.handles.push ((e, idx), {}) }
    let good := runAlone m1 sts (List.replicate 7 (Actor.thread e))
    if good.isEmpty then (m, "BADOP env stale while LOCK is present in every model state")
    else ({ m1 with states := good.map (fun ms => { ms with threads := ms.threads.modify e fun th => { th with results := [] } }),
                    invoked := m.invoked.modify e (· + 1) }, "ok stale=1")
  | ["env", "unstale"] =>
    let e := envThread m
    match (m.owners.toList.filter (·.1 == e)).getLast? with
    | none => (m, "BADOP env unstale without stale")
    | some h =>
      let sts := withCall m e [Call.close h]
      let sched := [Actor.thread e, .thread e, .thread e, .worker h .exit, .worker h .exit,
                    .thread e, .thread e, .thread e, .thread e]
      let good := runAlone m sts sched
      if good.isEmpty then (m, "BADOP env unstale not enabled")
      else ({ m with states := good.map (fun ms => { ms with threads := ms.threads.modify e fun th => { th with results := [] } }),
                     invoked := m.invoked.modify e (· + 1) }, "ok")
  | ["env", "junk", name] =>
    ({ m with last := m.last.map fun l => sortNames (name :: l.filter (· != name)) }, "ok junk=1")
  | ["env", "unjunk", name] =>
    ({ m with last := m.last.map fun l => l.filter (· != name) }, "ok")
  | "misc" :: what :: _ =>
    match post with
    | ["panic"] => fail m s!"SPECFAIL panic-after-close {what}"
    | [o] =>
      -- WriteTo / ReadFrom always report an error; accessors and TriggerCompaction return normally
      if (what == "writeto" || what == "readfrom") && o != "err" then fail m s!"SPECFAIL {what} did not fail impl={o}"
      else (m, "ok misc=1")
    | _ => (m, "BADOP misc")
  | _ => (m, "BADOP unknown")

def handler : Handler := { name := "lock", σ := Mon, init := init, op := op }

end Comet.Driver.LockStream
