/-
  Stream `ivf` (C13): replays constructor / Train / Add / Remove / Flush on the faithful
  model `Comet.IVF` (the centroids k-means produced are read from the implementation
  and are an input of the model's `train`), compares outcomes, list assignment and
  stored lists, and judges every implementation answer with the verified checker
  `checkTopK` (Comet.checkTopK_iff) against the *specification's* candidates:

    * full probe (`p ≤ 0 ∨ p ≥ nlist`): `Flat.cands (Flat.live …)` — the specification
      C01 proves of the flat index (ivf_fullprobe_exact);
    * otherwise: `probeCands … P …` for SOME legitimate probe set `P`
      (ivf_partial_exact; where centroid distances tie at the probe boundary every
      tie-consistent choice is enumerated — Go's sort.Slice is free in ties);
    * monotonicity in the number of probes on the implementation's own answers to
      the same query (ivf_scores_monotone);
    * optionally the real flat index's answer to the same search at full probe: equal
      score lists (ivf_fullprobe_same_scores_as_flat);
    * `lists` also carries the real flat index's stored entries and soft-delete set for
      the same history: the IVF lists, flattened, must be the same multiset with the same
      soft-delete set (ivf_refines_flat on the two implementations), and every stored
      entry must sit in the list of its nearest centroid (ivf_assign_mem).

  Duplicate ids.  Once an id that is still live is added again (`dup` mode), an answer
  can carry one hit per *id* that Execute's aggregation merged from several entries;
  that is outside the distinct-id reading of the search specification, so answers are
  no longer judged against `probeCands` / `Flat.cands` in that case.  What is still
  checked, after every op: outcomes and stored lists against the faithful model (which
  never looks at ids on `Add`), list membership, the refinement of the real flat index,
  and — `op cmp`, and searches with `k ≤ 0` at full probe — that the IVF index and the
  real flat index return the same ids and the same score list (nothing is truncated
  there, so ties cannot make two correct answers differ).
-/
import Comet.Driver.Proto
import Comet.Driver.Flat
import Comet.Vector.IVF
namespace Comet.Driver.IVFStream
open Comet Comet.Driver Comet.F32

/-- `float32(math.Inf(1))` -/
def infBits : UInt32 := 0x7f800000

structure Prev where
  key : String
  version : Nat
  np : Nat
  res : List (Hit UInt32)

structure St where
  kind : MetricKind
  dimI : Int
  nlistI : Int
  s : Option (IVF.State Vec)
  /-- specification state: live `(id, preprocessed vector)` pairs with the cluster
      `nearest` assigns them to -/
  live : List (Nat × (Id × Vec))
  added : List Id
  version : Nat
  prev : Option Prev
  /-- an id was added while still live: answers may merge several entries of one id -/
  dup : Bool := false

def init (ps : List String) : Option St :=
  match ps with
  | [dim, nlist, metric] => do
    let d ← dim.toInt?
    let n ← nlist.toInt?
    let mk ← MetricKind.parse metric
    pure { kind := mk, dimI := d, nlistI := n, s := IVF.new? d n, live := [], added := [],
           version := 0, prev := none }
  | _ => none

def failName : Option IVF.Fail → String
  | none => "ok"
  | some .panic => "panic"
  | some (.err e) => FlatStream.errName (some e)

/-- The implementation's outcome token agrees with the model's outcome: both succeed, or the
    implementation returned an error (of whatever class / wording — Proto.sameOutcome) where the
    model returns one.  A model *panic* is never matched by a returned error. -/
def agrees (implTok : String) (e : Option IVF.Fail) : Bool :=
  e != some .panic && sameOutcome implTok (failName e)

/-- all sublists of length `r` (order preserved) -/
def choose : Nat → List α → List (List α)
  | 0, _ => [[]]
  | _ + 1, [] => []
  | r + 1, a :: as => ((choose r as).map (a :: ·)) ++ choose (r + 1) as

def binom : Nat → Nat → Nat
  | _, 0 => 1
  | 0, _ + 1 => 0
  | n + 1, r + 1 => binom n r + binom n (r + 1)

/-- rank by rank never worse, and at least as long -/
def monoOK (sc : Scalar UInt32) (small big : List (Hit UInt32)) : Bool :=
  decide (small.length ≤ big.length) &&
  (small.zip big).all fun (a, c) => sc.le c.score a.score

def sameBits (a c : Vec) : Bool := a.size == c.size && (a.toList.zip c.toList).all fun (x, y) => x.toBits == y.toBits

def parseEntry (t : String) : Option (Id × Vec) :=
  match t.splitOn ":" with
  | [i, v] => do pure (← i.toNat?, ← parseVec v)
  | _ => none

/-- `/ e e / / e ; dels` → lists and deleted ids -/
def parseLists (toks : List String) : Option (List (List (Id × Vec)) × List Id) := do
  let body := toks.takeWhile (· != ";")
  let tail := (toks.dropWhile (· != ";")).drop 1
  let dels ← match tail with
    | [d] => parseIds d
    | _ => none
  let rec go (ts : List String) (cur : Option (List (Id × Vec))) (acc : List (List (Id × Vec))) :
      Option (List (List (Id × Vec))) :=
    match ts with
    | [] => match cur with
      | none => some acc.reverse
      | some c => some ((c.reverse :: acc).reverse)
    | t :: ts =>
      if t == "/" then
        match cur with
        | none => go ts (some []) acc
        | some c => go ts (some []) (c.reverse :: acc)
      else
        match cur, parseEntry t with
        | some c, some e => go ts (some (e :: c)) acc
        | _, _ => none
  let ls ← go body none []
  pure (ls, dels)

def sortNat (l : List Nat) : List Nat := l.mergeSort (fun a c => decide (a ≤ c))

def op (st : St) (toks : List String) : St × String :=
  let m := metric st.kind
  let (pre, post) := splitOutcome toks
  match pre with
  | ["new"] =>
    let me := if st.s.isSome then "ok" else "err"
    if post == [me] then (st, s!"ok {if st.s.isNone then "newerr=1" else ""}")
    else (st, s!"DIFF new model={me} impl={post}")
  | "train" :: vs =>
    match st.s, vs.mapM parseVec with
    | some s, some tvs =>
      let bump := { st with version := st.version + 1, prev := none }
      match post with
      | "ok" :: cts =>
        match cts.mapM parseVec with
        | none => (st, "BADOP train centroids")
        | some cs =>
          let cl := cs
          let (s', e) := IVF.step m infBits s (.train tvs.length cl)
          if e.isSome then ({ bump with s := some s' }, s!"DIFF train model={failName e} impl=ok") else
          if cl.length != s.nlist then ({ bump with s := some s' }, s!"DIFF train centroid-count model-needs={s.nlist} impl={cl.length}") else
          if cl.any (fun c => c.size != s.dim) then ({ bump with s := some s' }, "DIFF train centroid-dim") else
          -- how often do degenerate trainings occur? (counted in the evidence)
          let hexes := cl.map vecHex
          let dup := decide ((hexes.eraseDups).length < hexes.length)
          let keys := tvs.map fun v => IVF.nearest m infBits v cl
          let empty := (List.range cl.length).any fun i => !keys.contains i
          ({ bump with s := some s' },
            s!"ok trained=1 dupcent={if dup then 1 else 0} emptycl={if empty then 1 else 0} retrain={if s.trained then 1 else 0}")
      | [e] =>
        let (s', me) := IVF.step m infBits s (.train tvs.length [])
        if me.isSome && agrees e me then ({ bump with s := some s' }, s!"ok trainerr=1 {classFlag e}")
        else ({ bump with s := some s' }, s!"DIFF train model={failName me} impl={e}")
      | _ => (st, "BADOP train outcome")
    | _, _ => (st, "BADOP train")
  | ["add", id, v] =>
    match st.s, id.toNat?, parseVec v with
    | some s, some id, some v =>
      -- re-adding an id that is still live puts two entries with one id into the index
      -- (merged by Execute's aggregation): from here on answers are judged against the
      -- real flat index only (`dup` mode)
      let st := if st.live.any (·.2.1 == id) then { st with dup := true } else st
      let readd := st.added.contains id
      let purge := s.deleted.contains id
      let (s', e) := IVF.step m infBits s (.add id v)
      let st1 := { st with s := some s', added := id :: st.added, version := st.version + 1, prev := none }
      match post, e with
      | ["ok", ls], none =>
        match m.pre v, parseIds ls with
        | some v', some implLists =>
          let i := IVF.nearest m infBits v' s.centroids
          let st2 := { st1 with live := st1.live ++ [(i, (id, v'))] }
          let ds := s.centroids.map (m.dist v')
          let di := (s.centroids[i]?.map (m.dist v')).getD infBits
          let ntie := (ds.filter fun d => m.sc.le d di).length
          if st2.dup then
            -- the id may legitimately sit in several lists; the new entry's list must be among them
            if implLists.contains i then (st2, s!"ok dup=1 assign=1 tieassign={if ntie > 1 then 1 else 0}")
            else (st2, s!"SPECFAIL assign id={id} stored-in-lists={ls} but its nearest centroid is {i}")
          else
          match implLists with
          | [j] =>
            if j == i then (st2, s!"ok assign=1 tieassign={if ntie > 1 then 1 else 0} readd={if readd then 1 else 0} readdpurge={if purge then 1 else 0}") else
            match s.centroids[j]? with
            | none => (st2, s!"SPECFAIL assign list-out-of-range impl={j}")
            | some cj =>
              if m.sc.lt di (m.dist v' cj) then
                (st2, s!"SPECFAIL assign not-nearest id={id} impl-list={j} d={hex32 (m.dist v' cj)} nearest-list={i} d={hex32 di}")
              else (st2, s!"DIFF assign tie-break id={id} model={i} impl={j}")
          | _ => (st2, s!"SPECFAIL assign id={id} stored-in-lists={ls} expected exactly one ({i})")
        | _, _ => (st1, "BADOP add lists")
      | [ie], _ =>
        -- a rejected Add: "adding before training is an error" — any error; that it happened
        -- before training is read off the model state, not off the error's wording
        if e.isSome && agrees ie e then (st1, s!"ok adderr=1 {if !s.trained then "untrainedadd=1 " else ""}{classFlag ie}")
        else (st1, s!"DIFF add model={failName e} impl={ie}")
      | _, _ =>
        if !s.trained then (st1, s!"SPECFAIL untrained-add id={id} accepted before training impl={post}")
        else (st1, s!"DIFF add model={failName e} impl={post}")
    | _, _, _ => (st, "BADOP add")
  | ["remove", id] =>
    match st.s, id.toNat? with
    | some s, some id =>
      let (s', e) := IVF.step m infBits s (.remove id)
      let live' := if e.isNone then st.live.filter (fun p => p.2.1 != id) else st.live
      let st' := { st with s := some s', live := live', version := st.version + 1, prev := none }
      if (match post with | [t] => agrees t e | _ => false) then
        (st', s!"ok {if e.isNone then "removed=1" else "removeerr=1 " ++ classFlag (post.headD "?")}")
      else (st', s!"DIFF remove model={failName e} impl={post}")
    | _, _ => (st, "BADOP remove")
  | ["flush"] =>
    match st.s with
    | some s =>
      let (s', e) := IVF.step m infBits s .flush
      let st' := { st with s := some s', version := st.version + 1, prev := none }
      if (match post with | [t] => agrees t e | _ => false) then (st', agreedReply (post.headD "ok"))
      else (st', s!"DIFF flush model={failName e} impl={post}")
    | none => (st, "BADOP flush")
  | ["lists"] =>
    let ivfPart := post.takeWhile (· != ";;")
    let flatPart := (post.dropWhile (· != ";;")).drop 1
    match st.s, parseLists ivfPart with
    | some s, some (ils, idel) =>
      -- (a) property level: every stored entry sits in the list of its nearest centroid
      let misplaced := (ils.zipIdx).find? fun (l, i) =>
        l.any fun e => IVF.nearest m infBits e.2 s.centroids != i
      -- (b) property level: flattened lists = the real flat index's entries on the same history
      let key := fun (e : Id × Vec) => s!"{e.1}:{vecHex e.2}"
      let sortS := fun (l : List String) => l.mergeSort (fun a c => decide (a ≤ c))
      let flatV : Except String Bool :=
        if flatPart.isEmpty then .ok false else
        match parseLists ("/" :: flatPart) with
        | some ([fl], fdel) =>
          if sortS (ils.flatten.map key) != sortS (fl.map key) then
            .error s!"SPECFAIL refines-flat ivf-ids={sortNat (ils.flatten.map (·.1))} flat-ids={sortNat (fl.map (·.1))}"
          else if sortNat idel != sortNat fdel then
            .error s!"SPECFAIL refines-flat deleted ivf={sortNat idel} flat={sortNat fdel}"
          else .ok true
        | _ => .error "BADOP lists flat part"
      let same := ils.length == s.lists.length &&
        (ils.zip s.lists).all fun (a, c) =>
          a.length == c.length && (a.zip c).all fun (x, y) => x.1 == y.1 && sameBits x.2 y.2
      let sameDel := sortNat idel == sortNat s.deleted
      -- the specification's view: the live entries of cluster i are exactly the
      -- non-deleted entries of list i
      let specOK := (List.range s.lists.length).all fun i =>
        let l := ((s.lists[i]?).getD []).filter (fun p => !s.deleted.contains p.1)
        let sp := (st.live.filter (·.1 == i)).map (·.2)
        l.length == sp.length && (l.zip sp).all fun (x, y) => x.1 == y.1 && sameBits x.2 y.2
      match misplaced, flatV with
      | some (_, i), _ => (st, s!"SPECFAIL assign-membership list {i} holds an entry whose nearest centroid is another one")
      | none, .error e => (st, e)
      | none, .ok flatUsed =>
      if !same then (st, s!"DIFF lists model={s.lists.map (·.map (·.1))} impl={ils.map (·.map (·.1))}")
      else if !sameDel then (st, s!"DIFF deleted model={sortNat s.deleted} impl={sortNat idel}")
      else if !specOK then (st, "DIFF model-vs-spec lists")
      else (st, s!"ok emptylist={if s.lists.any (·.isEmpty) then 1 else 0} stored={s.lists.flatten.length} flatstate={if flatUsed then 1 else 0} dup={if st.dup then 1 else 0}")
    | _, _ => (st, "BADOP lists")
  | ["cmp", _agg, _q] =>
    -- the IVF index (nprobes = 0, k = 0, no threshold, no restriction) against the real flat
    -- index on the same history: same ids, same score list
    let ivfPart := post.takeWhile (· != "|")
    let flatPart := (post.dropWhile (· != "|")).drop 1
    match ivfPart, flatPart with
    | "ok" :: ih, "ok" :: fh =>
      match ih.mapM parseHit32, fh.mapM parseHit32 with
      | some ires, some fres =>
        if ires.map (·.score) != fres.map (·.score) then
          (st, s!"SPECFAIL flatref full-probe answer differs from exact search: ivf-n={ires.length} flat-n={fres.length} ivf-ids={sortNat (ires.map (·.id))} flat-ids={sortNat (fres.map (·.id))}")
        else if sortNat (ires.map (·.id)) != sortNat (fres.map (·.id)) then
          (st, s!"SPECFAIL flatref ids ivf={sortNat (ires.map (·.id))} flat={sortNat (fres.map (·.id))}")
        else (st, s!"ok dupcmp=1 n={ires.length}")
      | _, _ => (st, "BADOP cmp hits")
    | ["err", a], ["err", _] => (st, s!"ok dupcmp=1 err {classFlag a}")   -- both refuse: same outcome
    | _, _ => (st, s!"SPECFAIL flatref ivf={ivfPart.head?} flat={flatPart.head?}")
  | ["search", p, k, thr, filt, agg, q] =>
    match st.s, parseInt k, parseU32 thr, parseIds filt, FlatStream.parseAgg agg, parseVec q with
    | some s, some k, some thr, some filt, some agg, some q =>
      let pI? : Option Int := if p == "default" then some (IVF.defaultProbes s.nlist) else parseInt p
      match pI? with
      | none => (st, "BADOP search nprobes")
      | some pI =>
      let model := IVF.execute m s [q] [] k thr filt agg pI
      let implPart := post.takeWhile (· != "|")
      let flatPart := (post.dropWhile (· != "|")).drop 1
      match implPart, model with
      | ["err", e], .error me =>
        -- "searching before training is an error" — any error; which one is free
        if me != .panic then (st, s!"ok err {if !s.trained then "untrainedsearch=1 " else ""}{classFlag e}")
        else (st, s!"DIFF search-err model={failName (some me)} impl={e}")
      | ["err", e], .ok _ => (st, s!"DIFF search model=ok impl=err:{e}")
      | "ok" :: _, .error me =>
        if !s.trained then (st, "SPECFAIL untrained-search answered before training")
        else (st, s!"DIFF search model=err:{failName (some me)} impl=ok")
      | "ok" :: hits, .ok mres =>
        match hits.mapM parseHit32, m.pre q with
        | some res, some q' =>
          if st.dup then
            -- duplicate ids: no judgement against the specification; at full probe with
            -- nothing truncated the real flat index must give the same score list
            match flatPart with
            | "ok" :: fh =>
              match fh.mapM parseHit32 with
              | none => (st, "BADOP flat hits")
              | some fres =>
                if k ≤ 0 then
                  if fres.map (·.score) == res.map (·.score) then (st, "ok dup=1 dupflat=1")
                  else (st, s!"SPECFAIL flatref ivf-n={res.length} flat-n={fres.length} (duplicate ids, k<=0, full probe)")
                else (st, "ok dup=1")
            | [] => (st, "ok dup=1")
            | _ => (st, "SPECFAIL flatref flat index failed where IVF succeeded")
          else
          let sc := m.sc
          let tr := fun (h : Hit UInt32) => (⟨h.id, reduceVec sc agg [h.score]⟩ : Hit UInt32)
          let np := IVF.clampProbes pI s.nlist
          let full := np == s.nlist
          -- per live entry: its cluster and its candidate hit (if eligible and within threshold)
          let keyed : List (Nat × Hit UInt32) := st.live.filterMap fun (key, e) =>
            match Flat.cands m [e] q' thr filt with
            | [h] => some (key, tr h)
            | _ => none
          let candsOf := fun (P : List Nat) => (keyed.filter fun kh => P.contains kh.1).map (·.2)
          let ranked := IVF.rank m q' s.centroids
          let modelP := IVF.probe m q' s.centroids np
          -- 0. the model's own answer meets the specification for the model's probe set
          let selfOK := checkTopK sc.le k (candsOf modelP) mres
          if !selfOK then (st, "DIFF model-selfcheck") else
          -- 1. which probe sets are legitimate, and does the answer fit one of them?
          let verdict : Except String (Bool × Bool × Nat) :=   -- (boundary tie, non-model choice, #cands)
            if full then
              let c := (Flat.cands m (st.live.map (·.2)) q' thr filt).map tr
              if checkTopK sc.le k c res then .ok (false, false, c.length)
              else .error s!"SPECFAIL fullprobe np={np} {FlatStream.diagnose sc k c res}"
            else
              match ranked[np - 1]? with
              | none => .error "DIFF ranking shorter than nprobes"
              | some (_, t) =>
                let below := (ranked.filter fun a => sc.lt a.2 t).map (·.1)
                let ties := (ranked.filter fun a => sc.le a.2 t && sc.le t a.2).map (·.1)
                let r := np - below.length
                let base := candsOf below
                let ne := ties.filter fun i => keyed.any (·.1 == i)
                let nEmpty := ties.length - ne.length
                let cm := candsOf modelP
                if checkTopK sc.le k cm res then .ok (decide (ties.length > r), false, cm.length) else
                if ties.length ≤ r then .error s!"SPECFAIL probe np={np} P={modelP} {FlatStream.diagnose sc k cm res}" else
                let sizes := (List.range (r + 1)).filter fun s => s ≤ ne.length && r - s ≤ nEmpty
                let total := sizes.foldl (fun acc s => acc + binom ne.length s) 0
                if total > 20000 then .error s!"UNSUPPORTED tie-enumeration {total}" else
                let subsets := sizes.flatMap fun s => choose s ne
                match subsets.find? (fun T => checkTopK sc.le k (base ++ candsOf T) res) with
                | some T => .ok (true, true, (base ++ candsOf T).length)
                | none => .error s!"SPECFAIL probe np={np} ties={ties} slots={r} model-P={modelP} {FlatStream.diagnose sc k cm res}"
          match verdict with
          | .error e => (st, e)
          | .ok (tieb, alt, ncands) =>
          -- 2. monotonicity on the implementation's own answers to the same search
          let key := s!"{k} {thr} {filt} {repr agg} {vecHex q}"
          let monoV : Option Bool := match st.prev with
            | some pv =>
              if pv.key == key && pv.version == st.version then
                if pv.np ≤ np then
                  some (monoOK sc pv.res res && (if np ≤ pv.np then monoOK sc res pv.res else true))
                else some (monoOK sc res pv.res)
              else none
            | none => none
          let st' := { st with prev := some ⟨key, st.version, np, res⟩ }
          if monoV == some false then
            (st', s!"SPECFAIL monotone np={np} n={res.length} previous np={(st.prev.map (·.np)).getD 0} n={(st.prev.map (·.res.length)).getD 0}")
          else
          -- 3. the real flat index's answer to the same search (full probe only)
          let flatV : Except String Bool :=
            match flatPart with
            | [] => .ok false
            | "ok" :: fh =>
              match fh.mapM parseHit32 with
              | none => .error "BADOP flat hits"
              | some fres =>
                if !full then .error "BADOP flat reference at partial probe"
                else if fres.map (·.score) == res.map (·.score) then .ok true
                else .error s!"SPECFAIL flatref ivf-n={res.length} flat-n={fres.length}"
            | _ => .error "SPECFAIL flatref flat index failed where IVF succeeded"
          match flatV with
          | .error e => (st', e)
          | .ok flatUsed =>
          let b := fun (x : Bool) => if x then 1 else 0
          let nlive := st.live.length
          let kth : Bool := match res.getLast? with
            | some l => decide (res.length < ncands) &&
                decide (((keyed.map (·.2)).filter (·.score == l.score)).length > 1)
            | none => false
          (st', s!"ok n={res.length} cands={ncands} live={nlive} np={np} full={b full} partial={b (!full)} tieb={b tieb} alt={b alt} mono={b monoV.isSome} flat={b flatUsed} defp={b (p == "default")} trunc={b (decide (res.length < ncands))} thract={b (decide (sc.lt sc.zero thr))} filt={b (!filt.isEmpty)} kthtie={b kth} hit={b (!res.isEmpty)} less={b (decide (ncands < nlive))}")
        | _, _ => (st, "BADOP search hits")
      | _, _ => (st, "BADOP search outcome")
    | _, _, _, _, _, _ => (st, "BADOP search args")
  | _ => (st, "BADOP unknown")

def handler : Handler := { name := "ivf", σ := St, init := init, op := op }

end Comet.Driver.IVFStream
