/-
  Streams `restart` (C09), `store` (C08), `crash` (C10): replay of a trace of the real
  PersistentHybridIndex on the faithful model `Comet.Storage.Store`.

    begin <stream> <vec> <txt> <md> <limit> <flushThr> <compThr>     (0/1 flags, naturals)
    op open                         => ok | locked
    op add <id> <vdim> <tlen> <mcnt> => ok | closed
    op remove <id>                  => ok | notfound | vecnotfound | vecdeleted | closed
    op flush | rotate | evict | trigger => ok | closed
    op badadd <vdim> <tlen> <mcnt>  => err | closed      an add the store must reject
    op osearch <vec|vt> k=<k> turns=… loads=<n> exactix=<0|1> commute=<0|1> [thr=1 agg=… cut=… np=… ef=… fusion[kind]=…]
                                    => ok <store ids> ref <reference ids>   (predicate refeq, see the op)
    op search <vec|txt|md|mdg|mdgf> k=<k> turns=<t,…|-> loads=<n> => ok <id,…|-> | err <closed|noindex|other>
         turns: what each segment goroutine did, in the (serialised) order they ran:
         h = cache hit, l<id> = loaded segment <id>, f<id> = ReadFrom of segment <id> failed,
         f = getIndex failed before ReadFrom
    op bg <fwake|ffinal|flist|fwrite|fremove|cwake|cexit|clist|cload|cwrite|cswap> => <where the worker is now>
         where: idle | woken | next | flushed | exited | load | write | swap ; fwrite/cwrite add seg=<id>
    op close => ok | already        op closedone => ok
    op state => mts=<size:count:frozen:id+id…;…> segs=<id:cached,…|-> ctr=<n> fsig=<0|1> csig=<0|1>
    op ls => <name:cut,…|->         names h<id> v<id> t<id> m<id> L ; cut ∈ H D T F
    op bg fcreate => inner seg=<id>  the flush worker is parked after the os.Create calls of flushMemtable
    op imagenow <name:cut,…|-> => ok | err   the process dies now (no client call in flight); recover
    op victim                       the next op is the one the crash images are taken from
    op image <name:cut,…|-> => ok | locked | err     recover from a crash image of the victim op

  Replies: ok … | DIFF … | SPECFAIL … | KNOWN <finding> … | BADOP …
  Property-level predicates evaluated on the IMPLEMENTATION's answers:
    phantom   – every returned id was acknowledged by an earlier add           (C08/C10)
    visible   – every document acknowledged in this session, not removed, carrying the
                queried modality, is returned                                   (C08)
    durable   – every document acknowledged before the last completed Close (earlier
                sessions), or — after a crash — made durable by a completed Flush, is returned (C09/C10)
    allornone – after a crash, nothing is returned that is neither in an intact segment
                nor added since recovery                                        (C10)
    exact     – a vector-only probe returns no document whose Remove returned nil (C08)
    fresh     – a segment id handed out is larger than every id naming a file    (C09/C10)
  A failed predicate is reported as KNOWN only when the faithful model predicts exactly
  the implementation's answer and the finding's trigger holds of the trace:
    D12-flush-skips-mutable : the missing document sat in the mutable memtable when the
                              Close (or the last completed Flush before the crash) ran
    D14-compaction-no-merge : a compaction write/swap step ran earlier in the trace
    D13-shared-templates    : a segment load replaced shared content that held a live document
                              the loaded segment lacks (Ghost.loadLost), or (exact) a segment
                              load made a removed document live again (Ghost.revived), or
                              (allornone) a damaged segment is partially loadable
-/
import Comet.Driver.Proto
import Comet.Storage.Crash
namespace Comet.Driver.StoreStream
open Comet Comet.Driver Comet.Storage

structure St where
  cfg : Cfg
  s : Store
  /-- ids that sat in the mutable memtable at the Close of their session (or, in image mode,
      were not covered by a completed Flush) -/
  d12 : List Id := []
  victimNext : Bool := false
  pre : Option Store := none        -- model state before the victim op
  preSteps : List FsStep := []      -- FS steps of the victim op
  preD12 : List Id := []
  preEntries : Nat := 0             -- see vecEntries
  preDup : Bool := false            -- the templates held a duplicate vector entry before the search
  image : Bool := false             -- currently recovered from a crash image
  imgIntact : List Nat := []        -- segments intact in the current image
  imgDamaged : Bool := false        -- the current image has a partially loadable damaged segment

def parseBool01 : String → Option Bool
  | "0" => some false | "1" => some true | _ => none

def init (ps : List String) : Option St :=
  match ps with
  | [v, t, m, lim, fl, ct] => do
    let cfg : Cfg := ⟨⟨← parseBool01 v, ← parseBool01 t, ← parseBool01 m⟩, ← lim.toNat?, ← fl.toNat?, ← ct.toNat?⟩
    -- no store yet: a closed, unopened store on the empty directory
    let s : Store := ⟨cfg, Shared.empty, [], 0, [], [], 0, false, true, false, false, .exited, .exited, {}⟩
    pure { cfg := cfg, s := s }
  | _ => none

def showIds (l : List Nat) : String := if l.isEmpty then "-" else ",".intercalate (l.map toString)

def outName : Out → String
  | .ok => "ok" | .ids _ => "ok" | .errClosed => "closed" | .errAlreadyClosed => "already"
  | .errLocked => "locked" | .errNotFound => "notfound" | .errVecNotFound => "vecnotfound"
  | .errVecDeleted => "vecdeleted" | .errNoIndex => "noindex" | .notEnabled => "none"
  | .seg _ => "ok"

/-- `mdg` = metadata filter GROUPS alone, `mdgf` = groups + plain filters: the same match set as `md` -/
def parseQ : String → Option Q
  | "vec" => some .vec | "txt" => some .txt | "md" => some .md
  | "mdg" => some .md | "mdgf" => some .md | _ => none

def Doc.has (d : Doc) (tpl : Tpl) : Q → Bool
  | .vec => tpl.vec && decide (0 < d.vdim)
  | .txt => tpl.txt && decide (0 < d.tlen)
  | .md => tpl.md && decide (0 < d.mcnt)

def kvOf (key : String) (toks : List String) : Option String :=
  toks.findSome? fun t => if t.startsWith (key ++ "=") then some ((t.drop (key.length + 1)).toString) else none

def sortIds (l : List Nat) : List Nat := sortNat l.eraseDups

/-! ### turns → schedule -/

/-- resolve the harness's turn list against the model's segment list -/
def resolveTurns (cfg : Cfg) (s : Store) (turns : List String) : Except String (List SegEv) :=
  let rec go (T : Shared) (segs : List Seg) (used : List Nat) (acc : List SegEv) :
      List String → Except String (List SegEv)
    | [] => .ok acc
    | t :: rest =>
      if t == "h" then
        match segs.find? (fun g => g.cached && !used.contains g.id) with
        | some g => go T segs (g.id :: used) (acc ++ [.scan g.id]) rest
        | none => .error "turn h but the model has no unscanned cached segment"
      else if t == "f" then
        -- getIndex failed before ReadFrom was entered (a component is missing / empty / has no
        -- gzip header): nothing is touched, so which of those segments it was does not matter
        match segs.find? (fun g => !g.cached && !used.contains g.id && (openAll s.fs g.id (comps cfg.tpl)).isNone) with
        | some g => go T segs (g.id :: used) (acc ++ [.load g.id]) rest
        | none => .error "turn f but every unloaded segment opens in the model"
      else if t.startsWith "f" then
        -- ReadFrom of segment <id> was entered and failed
        match (t.drop 1).toString.toNat? with
        | none => .error s!"bad turn {t}"
        | some id =>
          match segs.find? (fun g => g.id == id) with
          | none => .error s!"turn {t}: no such segment in the model"
          | some g =>
            if g.cached || used.contains id then .error s!"turn {t}: segment already cached in the model" else
            if (openAll s.fs id (comps cfg.tpl)).isNone then .error s!"turn {t}: the model fails before ReadFrom" else
            let r := loadSeg cfg.tpl s.fs id T
            if r.1 then .error s!"turn {t}: the load succeeds in the model" else
            go r.2 segs (id :: used) (acc ++ [.load id]) rest
      else if t.startsWith "l" then
        match (t.drop 1).toString.toNat? with
        | none => .error s!"bad turn {t}"
        | some id =>
          match segs.find? (fun g => g.id == id) with
          | none => .error s!"turn {t}: no such segment in the model"
          | some g =>
            if g.cached || used.contains id then .error s!"turn {t}: segment already cached in the model" else
            let r := loadSeg cfg.tpl s.fs id T
            if !r.1 then .error s!"turn {t}: the load fails in the model" else
            go r.2 (setCached segs id true) (id :: used) (acc ++ [.load id, .scan id]) rest
      else .error s!"bad turn {t}"
  go s.T s.segs [] [] turns

/-! ### state / listing rendering -/

def showMt (m : Memtable) : String :=
  let ids := sortNat (m.info.map (·.id))
  s!"{m.size}:{m.count}:{if m.frozen then 1 else 0}:{if ids.isEmpty then "-" else "+".intercalate (ids.map toString)}"

def showState (s : Store) : String :=
  let mts := if s.mts.isEmpty then "-" else ";".intercalate (s.mts.map showMt)
  let segs := if s.segs.isEmpty then "-" else ",".intercalate (s.segs.map fun g => s!"{g.id}:{if g.cached then 1 else 0}")
  s!"mts={mts} segs={segs} ctr={s.counter} fsig={if s.flushSig then 1 else 0} csig={if s.compSig then 1 else 0}"

def kindChar : Kind → String
  | .hybrid => "h" | .vector => "v" | .text => "t" | .metadata => "m"

def cutChar : Cut → String
  | .header => "H" | .data => "D" | .trailer => "T" | .full => "F"

def showName : Name → String
  | .lock => "L"
  | .seg k id => s!"{kindChar k}{id}"

def insertStr (x : String) : List String → List String
  | [] => [x]
  | y :: ys => if x ≤ y then x :: y :: ys else y :: insertStr x ys

def sortStr (l : List String) : List String := l.foldr insertStr []

def showFS (fs : FS) : String :=
  if fs.isEmpty then "-" else
  ",".intercalate (sortStr (fs.map fun e => s!"{showName e.1}:{cutChar e.2.cut}"))

def parseName (t : String) : Option Name :=
  if t == "L" then some .lock else
  let k : Option Kind := match t.take 1 |>.toString with
    | "h" => some .hybrid | "v" => some .vector | "t" => some .text | "m" => some .metadata | _ => none
  match k, (t.drop 1).toString.toNat? with
  | some k, some id => some (.seg k id)
  | _, _ => none

def parseCut : String → Option Cut
  | "H" => some .header | "D" => some .data | "T" => some .trailer | "F" => some .full | _ => none

def parseListing (t : String) : Option (List (Name × Cut)) :=
  if t == "-" then some [] else
  (t.splitOn ",").mapM fun e => match e.splitOn ":" with
    | [n, c] => do pure (← parseName n, ← parseCut c)
    | _ => none

/-! ### property-level classification of a search answer -/

structure Verdict where
  reply : String

/-- documents that the property says must be returned by a `q` probe now -/
def mustFind (st : St) (q : Q) : List Doc :=
  let tpl := st.cfg.tpl
  let vis := st.s.gh.sess.filter (Doc.has · tpl q)
  let dur := st.s.gh.promised.filter fun d => Doc.has d tpl q && !st.s.gh.gone.contains d.id &&
    !(vis.any fun v => v.id == d.id)
  vis ++ dur

/-- How many ENTRIES a vector source can put in front of a document: an AddWithID of a live id (an
    update) appends a second entry for that id to the vector index (flat / ivf; the in-memory
    hybrid index does the same), a flushed segment carries them along. The per-source top-k is taken
    over entries, so "k large enough" for a vector probe means k ≥ this bound, not k ≥ the number of
    distinct documents. -/
def vecEntries (st : St) : Nat :=
  -- `preEntries`: live entries of the templates BEFORE the search under judgement ran (the memtable
  -- scans see that content; a load during the search may replace it)
  let fromT := if st.s.T.v.live.length > st.preEntries then st.s.T.v.live.length else st.preEntries
  let fromSegs := st.s.fs.foldl (fun m e => match e.2.payload with
    | .vector stored => if stored.length > m then stored.length else m
    | _ => m) 0
  if fromT > fromSegs then fromT else fromSegs

/-- does any vector source (templates before / after the search, any segment file) hold two entries
    for one id? Then a per-source top-k can return fewer distinct ids than it has room for. -/
def vecHasDup (st : St) : Bool :=
  let dup (l : List Nat) : Bool := decide (l.eraseDups.length < l.length)
  st.preDup || dup st.s.T.v.live || st.s.fs.any fun e => match e.2.payload with
    | .vector stored => dup stored
    | _ => false

def classifySearch (st : St) (q : Q) (k : Nat) (model impl : List Nat) (extra : String) : String :=
  let acked := st.s.gh.acked.map (·.id)
  let agree := model == impl
  match impl.find? (fun i => !acked.contains i) with
  | some i => s!"SPECFAIL phantom id={i} impl={showIds impl}"
  | none =>
    -- "k large enough" = k ≥ the number of documents the probe matches (what the model's stores
    -- hold, and what the property says must be found). Below that only size and membership are judged.
    let need := ((mustFind st q).map (·.id) ++ model).eraseDups.length
    -- duplicate entries of updated ids can crowd a live document out of a vector answer with
    -- need ≤ k < entries: which one is not determined by ids alone — judged by size and membership
    let crowded := q == .vec && decide (need ≤ k) && decide (k < vecEntries st)
    if crowded then
      if decide (k < impl.length) then s!"SPECFAIL size k={k} but {impl.length} ids returned"
      else match impl.find? (fun i => !model.contains i) with
        | some i => s!"DIFF search k={k} returned id={i} outside the model's matches {showIds model}"
        | none => s!"ok n={impl.length} dupcrowd=1 {extra}"
    else
    if k < need then
      -- with duplicate entries in a vector source fewer than k DISTINCT ids may come back
      let dups := q == .vec && vecHasDup st
      if dups && decide (impl.length ≤ k) && impl.all (fun i => model.contains i) then
        s!"ok n={impl.length} ksmall=1 dupcrowd=1 {extra}"
      else
      if impl.length != (if model.length < k then model.length else k) then
        s!"DIFF search k={k} size model-matches={model.length} impl={showIds impl}"
      else match impl.find? (fun i => !model.contains i) with
        | some i => s!"DIFF search k={k} returned id={i} outside the model's matches {showIds model}"
        | none => s!"ok n={impl.length} ksmall=1 {extra}"
    else
    let missing := ((mustFind st q).map (·.id)).eraseDups.filter fun i => !impl.contains i
    -- all-or-nothing after a crash: only intact segments and post-recovery adds may contribute
    let allowed : List Nat :=
      if st.image then (st.imgIntact.flatMap fun g => segIdsOf st.s.fs g q) ++ st.s.gh.sess.map (·.id) else []
    let leaked := if st.image then impl.filter (fun i => !allowed.contains i) else []
    -- vector-only query: the answer must be the id set of an in-memory index holding the live
    -- documents — in particular nothing whose Remove returned nil
    let revived := if q == .vec then impl.filter (fun i => st.s.gh.gone.contains i) else []
    if missing.isEmpty && leaked.isEmpty && !revived.isEmpty then
      if !agree then s!"SPECFAIL exact removed-but-returned={showIds revived} model={showIds model} impl={showIds impl}"
      else if st.s.gh.revived then s!"KNOWN D13-shared-templates removed-but-returned={showIds revived} {extra}"
      else s!"SPECFAIL exact-unexplained removed-but-returned={showIds revived} impl={showIds impl}"
    else
    if missing.isEmpty && leaked.isEmpty then
      if agree then s!"ok n={impl.length} {extra}"
      else s!"DIFF search model={showIds model} impl={showIds impl}"
    else if !agree then
      if !missing.isEmpty then s!"SPECFAIL missing ids={showIds missing} model={showIds model} impl={showIds impl}"
      else s!"SPECFAIL allornone leaked={showIds leaked} model={showIds model} impl={showIds impl}"
    else
      -- the faithful model predicts exactly this answer: which listed trigger explains it?
      match missing with
      | d :: _ =>
        -- D12 explains only a document that must come back from DISK (acknowledged in an earlier
        -- session / before the crash); inside the session that added it, it does not
        let thisSession := st.s.gh.sess.any fun x => x.id == d
        if !thisSession && st.d12.contains d then s!"KNOWN D12-flush-skips-mutable missing={showIds missing} {extra}"
        else if st.s.gh.compacted then s!"KNOWN D14-compaction-no-merge missing={showIds missing} {extra}"
        else if st.s.gh.loadLost then s!"KNOWN D13-shared-templates missing={showIds missing} {extra}"
        else s!"SPECFAIL missing-unexplained ids={showIds missing} impl={showIds impl}"
      | [] =>
        if st.imgDamaged then s!"KNOWN D13-shared-templates leaked={showIds leaked} {extra}"
        else if st.s.gh.compacted then s!"KNOWN D14-compaction-no-merge leaked={showIds leaked} {extra}"
        else s!"SPECFAIL allornone-unexplained leaked={showIds leaked} impl={showIds impl}"

/-- when the trace cannot be replayed (the schedule the implementation reports does not fit the
    model), the property-level predicates that need no model answer are still evaluated on the
    implementation's answer: a concrete failing input beats "correspondence broken" -/
def specOnly (st : St) (q : Q) (k : Nat) (impl : List Nat) : Option String :=
  let acked := st.s.gh.acked.map (·.id)
  match impl.find? (fun i => !acked.contains i) with
  | some i => some s!"SPECFAIL phantom id={i} impl={showIds impl}"
  | none =>
    let must := ((mustFind st q).map (·.id)).eraseDups
    let missing := must.filter fun i => !impl.contains i
    -- a listed finding explains a failed predicate only when the faithful model reproduces the
    -- answer; here it cannot even replay the trace, so a failed predicate is a plain failure
    if !missing.isEmpty && decide (must.length ≤ k) then
      some s!"SPECFAIL missing ids={showIds missing} impl={showIds impl} (trace not replayable on the model)"
    else none

/-! ### the op interpreter -/

def bgOfName : String → Option Bg
  | "fwake" => some .fwake | "ffinal" => some .ffinal | "flist" => some .flist
  | "fwrite" => some .fwrite | "fremove" => some .fremove | "cwake" => some .cwake
  | "cexit" => some .cexit | "clist" => some .clist | "cload" => some .cload
  | "cwrite" => some .cwrite | "cswap" => some .cswap | _ => none

def fwWhere : FW → String
  | .idle => "idle" | .woken _ => "woken" | .todo _ _ => "next" | .written _ _ _ => "flushed" | .exited => "exited"

def cwWhere : CW → String
  | .idle => "idle" | .woken => "woken"
  | .loading _ [] => "write" | .loading _ _ => "load" | .wrote _ _ => "swap" | .exited => "exited"

def isFlushBg : Bg → Bool
  | .fwake | .ffinal | .flist | .fwrite | .fremove => true
  | _ => false

/-- a freshly handed-out segment id must exceed every id that names a file -/
def freshCheck (before : Store) (id : Nat) : Option String :=
  match (FS.segIds before.fs).find? (fun j => decide (id ≤ j)) with
  | some j => some s!"SPECFAIL fresh new-segment-id={id} but a file is named with id {j}"
  | none => none

/-- apply a step, remembering the pre-state when it is the victim -/
def stepV (st : St) (step : Step) : St × Store × Out :=
  let (s', o) := exec st.s step
  let st' := if st.victimNext then
      { st with pre := some st.s, preSteps := fsStepsOf st.s step, victimNext := false,
                preD12 := st.d12 } else st
  ({ st' with s := s' }, st.s, o)

/-- The implementation's outcome token agrees with the model's outcome on success / failure.
    Which error a refused call reports (closed / not found / …, and in which words) is not part
    of C08–C10 (Proto.sameOutcome); the class is kept as a flag.  A model step whose guard is
    false (`notEnabled`) corresponds to no outcome of the implementation at all. -/
def outAgrees (post : List String) (o : Out) : Bool :=
  o != .notEnabled && match post.head? with
    | some t => sameOutcome t (outName o)
    | none => false

/-- flag part of the reply for an agreed outcome -/
def outFlags (post : List String) : String :=
  match post.head? with
  | some t => if t == "ok" then "" else s!" failed=1 {classFlag t}"
  | none => ""

def simple (st : St) (step : Step) (post : List String) (what : String) : St × String :=
  let (st', _, o) := stepV st step
  if outAgrees post o then (st', s!"ok {what}=1{outFlags post}")
  else (st', s!"DIFF {what} model={outName o} impl={post}")

def op (st : St) (toks : List String) : St × String :=
  let (pre, post) := splitOutcome toks
  match pre with
  | ["open"] =>
    let (st', _, o) := stepV st .reopen
    if outAgrees post o then ({ st' with image := false, imgIntact := [], imgDamaged := false }, s!"ok open=1{outFlags post}")
    else (st', s!"DIFF open model={outName o} impl={post}")
  | ["add", id, vd, tl, mc] =>
    match id.toNat?, vd.toNat?, tl.toNat?, mc.toNat? with
    | some id, some vd, some tl, some mc =>
      -- an id may be added again (after a Remove, or while still live: an update) as long as the
      -- new document carries the same modalities as every earlier one under that id — a re-add
      -- that drops a modality leaves the old entry of that sub-index behind (C06's subject)
      let sameMods := st.s.gh.acked.all fun d => d.id != id ||
        (decide (0 < d.vdim) == decide (0 < vd) && decide (0 < d.tlen) == decide (0 < tl) &&
         decide (0 < d.mcnt) == decide (0 < mc))
      if !sameMods then (st, "UNSUPPORTED readd-with-other-modalities") else
      let re := st.s.gh.acked.any fun d => d.id == id
      let wasGone := st.s.gh.gone.contains id
      let (st', r) := simple st (.add ⟨id, vd, tl, mc⟩) post "add"
      (st', if re && r.startsWith "ok" then r ++ s!" readd=1 aftergone={if wasGone then 1 else 0}" else r)
    | _, _, _, _ => (st, "BADOP add")
  | ["badadd", vd, tl, mc] =>
    -- an Add / AddWithID the store must reject: memtableQueue makes room first (a rotation can
    -- happen), then hybridSearchIndex.addInternal refuses before touching any sub-index
    match vd.toNat?, tl.toNat?, mc.toNat? with
    | some vd, some tl, some mc =>
      -- (any error is a refusal: `err <class>`, the class being informational)
      let flag := classFlag (post.getD 1 "unclassified")
      if !running st.s then
        if post.head? == some "err" then (st, s!"ok badadd=1 {flag}") else (st, s!"DIFF badadd model=closed impl={post}")
      else
        let d : Doc := ⟨0, vd, tl, mc⟩
        let rot := !hasRoom st.s.cfg.limit st.s.mts d
        let st' := if rot then (stepV st .rotate).1 else st
        if post.head? == some "err" then (st', s!"ok badadd=1 rotated={if rot then 1 else 0} {flag}")
        else (st', s!"SPECFAIL rejected-add: the store acknowledged a document it must refuse impl={post}")
    | _, _, _ => (st, "BADOP badadd")
  | ["remove", id] =>
    match id.toNat? with
    | some id => simple st (.remove id) post "remove"
    | none => (st, "BADOP remove")
  | ["flush"] =>
    let before := st.s
    let mutIds := match st.s.mts.getLast? with | some m => m.info.map (·.id) | none => []
    let (st', _, o) := stepV st .flush
    if !outAgrees post o then (st', s!"DIFF flush model={outName o} impl={post}") else
    if o != .ok then (st', s!"ok flusherr=1{outFlags post}") else
    -- segment ids handed out by this flush, as the implementation reports them
    let newIds := (st'.s.gh.allocated.take (st'.s.gh.allocated.length - before.gh.allocated.length)).reverse
    let implIds := match kvOf "segs" post with | some t => (parseIds t).getD [] | none => []
    -- a completed Flush: everything acknowledged so far is promised to later reopens;
    -- what sits in the mutable memtable is not written (D12)
    let st' := { st' with d12 := st'.d12 ++ mutIds }
    match implIds.findSome? (freshCheck before) with
    | some e => (st', e)
    | none =>
      if implIds != newIds then (st', s!"DIFF flush segments model={showIds newIds} impl={showIds implIds}")
      else (st', s!"ok flush=1 wrote={newIds.length} skipped={if mutIds.isEmpty then 0 else 1}")
  | ["rotate"] => simple st .rotate post "rotate"
  | ["evict"] => simple st .evict post "evict"
  | ["trigger"] => simple st .trigger post "trigger"
  | ["close"] =>
    -- D12 bookkeeping: what sits in the mutable memtable now will not be persisted
    let mutIds := match st.s.mts.getLast? with | some m => m.info.map (·.id) | none => []
    let (st', r) := simple st .close post "close"
    if running st.s then ({ st' with d12 := st'.d12 ++ mutIds }, r) else (st', r)
  | ["closedone"] =>
    simple st .closeDone post "closedone"
  | ["bg", "fcreate"] =>
    -- the flush worker ran the first half of flushMemtable (id, os.Create ×n) and is parked there
    match st.s.fw with
    | .todo _ (m :: _) =>
      let (s', id) := beginWrite st.s m.info
      let before := st.s
      let st' := { st with s := s' }
      if post.head? != some "inner" then (st', s!"DIFF bg fcreate model=inner impl={post}") else
      if kvOf "seg" post != some (toString id) then (st', s!"DIFF bg fcreate segment id model={id} impl={post}") else
      match freshCheck before id with
      | some e => (st', e)
      | none => (st', "ok fcreate=1")
    | _ => (st, s!"DIFF bg fcreate not enabled in the model (model worker: {fwWhere st.s.fw}) impl={post}")
  | ["imagenow", listing] =>
    -- the process dies NOW, between two client calls (the last one completed), possibly with a
    -- worker parked inside a write: the directory is exactly the model's; recover from it
    let (s', o) := recover st.cfg st.s.fs st.s.gh
    let intact := (listSegments s'.fs).filter fun g => (loadSeg st.cfg.tpl s'.fs g Shared.empty).1
    let damaged := (listSegments s'.fs).any fun g => partialLoadable st.cfg.tpl s'.fs g
    if showFS st.s.fs != listing then
      -- the directory is not what the model says: the trace cannot be replayed from here; what the
      -- property promises (documents acknowledged before a completed Flush) is still judged on the
      -- implementation's answers (specOnly): no store instance, no session documents any more
      ({ st with s := { st.s with gh := { st.s.gh with sess := [] } }, image := true },
        s!"DIFF imagenow model=[{showFS st.s.fs}] impl=[{listing}]")
    else
      let st' := { st with s := s', image := true, imgIntact := intact, imgDamaged := damaged }
      if outAgrees post o then (st', s!"ok imagenow=1 intact={intact.length} files={st.s.fs.length}")
      else (st', s!"SPECFAIL reopen-after-crash impl={post} model={outName o}")
  | ["bg", name] =>
    match bgOfName name with
    | none => (st, "BADOP bg")
    | some b =>
      let before := st.s
      let (st', _, o) := stepV st (.bg b)
      let wh := if isFlushBg b then fwWhere st'.s.fw else cwWhere st'.s.cw
      let segTok := match o with | .seg id => s!" seg={id}" | _ => ""
      let implWhere := post.head?.getD "?"
      let implSeg := kvOf "seg" post
      if o == .notEnabled then (st', s!"DIFF bg {name} not enabled in the model (model worker: {fwWhere before.fw}/{cwWhere before.cw}) impl={post}")
      else if implWhere != wh then (st', s!"DIFF bg {name} model={wh}{segTok} impl={post}")
      else
        match o, implSeg with
        | .seg id, some t =>
          if t != toString id then (st', s!"DIFF bg {name} segment id model={id} impl={t}") else
          match freshCheck before id with
          | some e => (st', e)
          | none => (st', s!"ok bg={name} {name}=1")
        | .seg id, none => (st', s!"DIFF bg {name} model wrote seg={id} impl={post}")
        | _, _ => (st', s!"ok {name}=1")
  | ["search", q, kTok, turns, loads] =>
    match parseQ q, kvOf "turns" [turns], kvOf "loads" [loads], (kvOf "k" [kTok]).bind String.toNat? with
    | some q, some turns, some loads, some k =>
      let tl := if turns == "-" then [] else turns.splitOn ","
      match post with
      | ["err", e] =>
        -- the search failed: accepted exactly when the model's search fails too (closed store,
        -- modality not configured), whatever the error says
        let (_, o, _) := execSearch st.s q []
        if outName o != "ok" && o != .notEnabled then (st, s!"ok searcherr=1 {classFlag e}")
        else (st, s!"SPECFAIL search-error impl=err:{e} model={outName o}")
      | "ok" :: rest =>
        match (match rest with | [x] => parseIds x | [] => some [] | _ => none) with
        | none => (st, "BADOP search ids")
        | some implIds =>
          let impl := sortIds implIds
          if tl.length != st.s.segs.length then
            -- the implementation ran a different number of segment goroutines than there are registered
            -- segments: the model keeps ITS semantics (one goroutine per segment, in list order), so that
            -- what the deviation costs later shows up against the code's real behaviour
            let (sOwn, _, _) := execSearch st.s q (serialSched (st.s.segs.map (·.id)))
            ({ st with s := sOwn }, (specOnly st q k impl).getD s!"DIFF search turns={tl.length} model-segments={st.s.segs.length}") else
          match resolveTurns st.cfg st.s tl with
          | .error e => (st, (specOnly st q k impl).getD s!"DIFF search schedule: {e}")
          | .ok sched =>
            let (s', o, nl) := execSearch st.s q sched
            match o with
            | .ids m =>
              let model := sortIds m
              let st' := { st with s := s' }
              if toString nl != loads then (st', s!"DIFF search loads model={nl} impl={loads}") else
              let nmust := (mustFind st q).length
              let preLive := st.s.T.v.live
              let stJ : St := { st with s := s', preEntries := preLive.length,
                                        preDup := decide (preLive.eraseDups.length < preLive.length) }
              let r := classifySearch stJ q k model impl
                s!"must={nmust} segs={tl.length} loads={nl} nonempty={if impl.isEmpty then 0 else 1} kexact={if k == model.length && model.length > 0 then 1 else 0}"
              (st', r)
            | e => (st, s!"DIFF search model={outName e} impl=ok")
      | _ => (st, "BADOP search outcome")
    | _, _, _, _ => (st, "BADOP search args")
  | "osearch" :: mode :: args =>
    -- a probe with search options (threshold / aggregation / autocut / nprobes / efSearch / fusion /
    -- k exactly large enough), answered by the store and by the REFERENCE in-memory hybrid index
    -- that was fed the same acknowledged adds and removes. The model has no scores: it replays the
    -- schedule (state, loads), supplies the match sets, and decides when the property promises
    -- equality of the two id sets.
    let isVT := mode == "vt"
    match kvOf "turns" args, (kvOf "loads" args), (kvOf "k" args).bind String.toNat?,
          (kvOf "exactix" args), (kvOf "commute" args) with
    | some turns, some loads, some k, some exactix, some commute =>
      let tl := if turns == "-" then [] else turns.splitOn ","
      let refIds? : Option (List Nat) := match post.dropWhile (· != "ref") with
        | ["ref", x] => if x == "err" then none else parseIds x
        | _ => none
      match post with
      | "err" :: e :: _ => (st, s!"SPECFAIL search-error impl=err:{e} on an option probe")
      | "ok" :: x :: _ =>
        match parseIds x, refIds? with
        | some implIds, some refIds =>
          let impl := sortIds implIds
          let ref := sortIds refIds
          let acked := st.s.gh.acked.map (·.id)
          match impl.find? (fun i => !acked.contains i) with
          | some i => (st, s!"SPECFAIL phantom id={i} impl={showIds impl}")
          | none =>
          if tl.length != st.s.segs.length then
            let (sOwn, _, _) := execSearch st.s .vec (serialSched (st.s.segs.map (·.id)))
            ({ st with s := sOwn }, (specOnly st .vec k impl).getD s!"DIFF osearch turns={tl.length} model-segments={st.s.segs.length}") else
          match resolveTurns st.cfg st.s tl with
          | .error e => (st, s!"DIFF osearch schedule: {e}")
          | .ok sched =>
            let (s', ov, nl) := execSearch st.s .vec sched
            let mv := match ov with | .ids m => sortIds m | _ => []
            let mt := if isVT then (match (execSearch st.s .txt sched).2.1 with | .ids m => sortIds m | _ => []) else []
            let st' := { st with s := s' }
            if toString nl != loads then (st', s!"DIFF osearch loads model={nl} impl={loads}") else
            if decide (k < impl.length) then (st', s!"SPECFAIL size k={k} but {impl.length} ids returned") else
            match impl.find? (fun i => !(mv.contains i || mt.contains i)) with
            | some i => (st', s!"DIFF osearch returned id={i} outside the model's matches vec={showIds mv} txt={showIds mt}")
            | none =>
              -- the documents a single in-memory index holding the live documents has
              let live := st'.s.gh.acked.filter fun d => !st'.s.gh.gone.contains d.id
              let lv := sortIds ((live.filter (Doc.has · st.cfg.tpl .vec)).map (·.id))
              let lt := sortIds ((live.filter (Doc.has · st.cfg.tpl .txt)).map (·.id))
              -- equality is promised when the vector index is exact, the store (per the faithful
              -- model, i.e. no known finding has struck) presents exactly the live documents, and
              -- either every source saw the same content (no load during this search) or the
              -- options act per document (threshold, aggregation, nprobes — not autocut, not fusion)
              let same := mv == lv && (!isVT || mt == lt)
              -- vector+text: hybridSearch.Execute truncates EACH modality's list to k before fusing, and
              -- which of several equally scored hits survive that truncation is not determined (Go map
              -- order, unstable sort): two identical in-memory indexes then return different id SETS
              -- (min fusion, tied BM25 scores; reproduced 162 : 38 over 200 fresh instances). The set is
              -- determined only when k cannot truncate any modality's list; below that the reference is
              -- one of several valid answers and equality with it is more than the property states.
              let ent := vecEntries { st' with preEntries := st.s.T.v.live.length }
              let vtDetermined := (!isVT || decide (((mv ++ mt).eraseDups).length ≤ k)) &&
                decide (ent ≤ k || ent == lv.length)
              -- after an UPDATE (an id added again with new content) a segment load can put the older
              -- content back under the same id (D13 at the level of contents): the id-level model
              -- cannot tell, so equality with the reference is only demanded on histories without re-adds
              let promised := exactix == "1" && same && (commute == "1" || nl == 0) && vtDetermined &&
                !st'.s.gh.readded
              if promised then
                if impl == ref then (st', s!"ok refeq=1 n={impl.length} vt={if isVT then 1 else 0} segs={tl.length} loads={nl}")
                else (st', s!"SPECFAIL refeq store={showIds impl} reference={showIds ref} (same live documents, options {args})")
              else (st', s!"ok sanity=1 n={impl.length} same={if same then 1 else 0} vtsmallk={if vtDetermined then 0 else 1}")
        | _, _ => (st, "BADOP osearch ids")
      | _ => (st, "BADOP osearch outcome")
    | _, _, _, _, _ => (st, "BADOP osearch args")
  | ["state"] =>
    let m := showState st.s
    let i := " ".intercalate post
    if m == i then (st, "ok state=1") else (st, s!"DIFF state model=[{m}] impl=[{i}]")
  | ["ls"] =>
    let m := showFS st.s.fs
    let i := post.head?.getD "-"
    if m == i then (st, "ok ls=1") else (st, s!"DIFF ls model=[{m}] impl=[{i}]")
  | ["victim"] => ({ st with victimNext := true }, "ok")
  | ["image", listing] =>
    match st.pre, parseListing listing with
    | some pre, some files =>
      -- which prefix of the victim's FS steps has exactly these names?
      let names := sortStr (files.map fun e => showName e.1)
      let steps := st.preSteps
      let ks := (List.range (steps.length + 1)).filter fun k =>
        sortStr ((applySteps pre.fs (steps.take k)).map fun e => showName e.1) == names
      match ks.getLast? with
      | none => (st, s!"DIFF image: no prefix of the model's {steps.length} FS steps has the files [{listing}]; model final=[{showFS (applySteps pre.fs steps)}]")
      | some k =>
        let created := createdBy steps
        -- files not created by the victim op must be intact
        match files.find? (fun e => !created.contains e.1 && e.2 != .full && e.1 != .lock) with
        | some e => (st, s!"DIFF image: file {showName e.1} not written by the crashed operation is damaged")
        | none =>
          let cuts : Name → Cut := fun n => match files.find? (·.1 == n) with | some e => e.2 | none => .full
          let img := crashImage pre.fs steps k cuts
          let (s', o) := recover st.cfg img pre.gh
          -- durable := documents covered by a COMPLETED flush/close before the victim op:
          -- everything acknowledged except what sat in the mutable memtable of `pre`
          -- (D12) — the property promises them all.
          -- "all": a segment that loads (since ae56580: exactly the segments all of whose component
          -- files are complete, `loadSeg_ok_iff_complete`); "damaged": a segment whose load fails
          -- AFTER some component was deserialised into the shared templates — now including a
          -- last component that lacks only (part of) its gzip trailer (the drain fails after
          -- everything has been published)
          let intact := (listSegments s'.fs).filter fun g => (loadSeg st.cfg.tpl s'.fs g Shared.empty).1
          let damaged := (listSegments s'.fs).any fun g => partialLoadable st.cfg.tpl s'.fs g
          let lastTrailer := (listSegments s'.fs).any fun g =>
            !(loadSeg st.cfg.tpl s'.fs g Shared.empty).1 && (comps st.cfg.tpl).all fun k =>
              match FS.find s'.fs (.seg k g) with
              | some f => f.cut == .full || (f.cut == .trailer && some k == (comps st.cfg.tpl).getLast?)
              | none => false
          let st' := { st with s := s', image := true, imgIntact := intact, imgDamaged := damaged,
                               d12 := st.preD12 }
          if post.head? != some "ok" then (st', s!"SPECFAIL reopen-after-crash impl={post} model={outName o}")
          else if o == .ok then (st', s!"ok image=1 k={k} partial={if damaged then 1 else 0} intact={intact.length} last_trailer_rejected={if lastTrailer then 1 else 0}")
          else (st', s!"DIFF image open model={outName o} impl={post}")
    | _, _ => (st, "BADOP image")
  | _ => (st, "BADOP unknown")

def handlerRestart : Handler := { name := "restart", σ := St, init := init, op := op }
def handlerStore : Handler := { name := "store", σ := St, init := init, op := op }
def handlerCrash : Handler := { name := "crash", σ := St, init := init, op := op }

end Comet.Driver.StoreStream
