/-
  Stream `pq` (C14): replays a constructor / Train / Add / Remove / Flush / search
  history of a real PQIndex or IVFPQIndex on the faithful models (Comet.Vector.PQ,
  Comet.Vector.IVFPQ, instantiated at IEEE binary32) and on the specification.

  Inputs that stand for k-means (trained codebooks, coarse centroids) arrive on the
  `train` line, exported from the implementation; their shape is checked.

  What is judged, per line:
    new     constructor acceptance (`newOk`)
    train   outcome ok / err against the model's Train gate (a panic is a violation)
    add     outcome; the stored code is recomputed bit-exactly (arg-min of float32
            squared distances, `uint8` conversion) and must equal the implementation's;
            property level: every code entry must be a nearest codeword of its subspace
    state   list membership, order, codes and tombstones against the model state
    search  errors against the model; answers with the verified checker `checkTopK`
            against the specification's candidates (live entries (of the probed lists),
            eligible, within threshold, score = √Σ_m table[m][code[m]] recomputed
            bit-exactly from the exported codebooks, codes = plain arg-min indexes).
            IVFPQ: the harness passes the centroid order produced by the
            same deterministic `sort.Slice` call; the driver validates with `checkTopK`
            that it is a legitimate choice of the `nprobes` nearest lists.
            On the first hits both sides of `adc_error_bound` are evaluated in binary64
            (a numeric test of the tie between the float instance and the real-valued
            theorem, flag eb=1).
-/
import Comet.Driver.Proto
import Comet.Driver.Flat
import Comet.F32PQ
import Comet.Vector.IVFPQ
namespace Comet.Driver.PQStream
open Comet Comet.Driver Comet.F32 Comet.PQ

inductive Kind | pq | ivfpq
deriving DecidableEq, Repr

structure St where
  kind : Kind
  metric : MetricKind
  dimI : Int
  MI : Int
  nbitsI : Int
  nlistI : Int
  created : Bool
  pq : PQ.State UInt32
  iv : IVFPQ.State UInt32
  /-- specification live list, with plain arg-min codes (what the property text asks) -/
  liveS : List (Id × Stored UInt32)
  added : List Id

def init (ps : List String) : Option St :=
  match ps with
  | [kind, dim, M, nbits, nlist, metric] => do
    let k ← match kind with | "pq" => some Kind.pq | "ivfpq" => some Kind.ivfpq | _ => none
    let mk ← MetricKind.parse metric
    pure { kind := k, metric := mk, dimI := ← dim.toInt?, MI := ← M.toInt?, nbitsI := ← nbits.toInt?,
           nlistI := ← nlist.toInt?, created := false, pq := PQ.init 0 1 1,
           iv := IVFPQ.init 0 1 1 1, liveS := [], added := [] }
  | _ => none

/-! ### parsing -/

/-- "-" is the empty vector; otherwise 8 hex digits per component, as bit patterns -/
def parseBits (s : String) : Option (List UInt32) :=
  if s == "-" then some [] else
  let r : Bool × Nat × Nat × List UInt32 :=
    s.foldl (fun (st : Bool × Nat × Nat × List UInt32) ch =>
      let (ok, cnt, cur, acc) := st
      match hexVal ch with
      | none => (false, cnt, cur, acc)
      | some v =>
        let cur := cur * 16 + v
        if cnt == 7 then (ok, 0, 0, UInt32.ofNat cur :: acc) else (ok, cnt + 1, cur, acc))
      (true, 0, 0, [])
  if r.1 && r.2.1 == 0 then some r.2.2.2.reverse else none

def chunk (n : Nat) (l : List α) : List (List α) :=
  if n == 0 then [] else
  let rec go (fuel : Nat) (l : List α) (acc : List (List α)) : List (List α) :=
    match fuel with
    | 0 => acc.reverse
    | fuel + 1 => if l.isEmpty then acc.reverse else go fuel (l.drop n) (l.take n :: acc)
  go (l.length + 1) l []

/-- two hex digits per code entry ("-" = empty) -/
def parseCode (s : String) : Option (List Nat) :=
  if s == "-" then some [] else
  if s.length % 2 != 0 then none else
  (chunk 2 s.toList).mapM fun cs => parseHex (String.ofList cs)

def codeHex (c : List Nat) : String :=
  if c.isEmpty then "-" else String.join (c.map fun x => toHex 2 x)

def failName : Fail → String
  | .err e => Comet.Driver.FlatStream.errName (some e)
  | .panic => "panic"

def outName : Out → String
  | .ok => "ok" | .err e => Comet.Driver.FlatStream.errName (some e) | .panic => "panic"

/-! ### model access -/

def St.m (st : St) : Metric (List UInt32) UInt32 := listMetric st.metric
def St.o (_ : St) : Ops UInt32 := pqArith.ops scalar

def St.trained (st : St) : Bool := match st.kind with | .pq => st.pq.trained | .ivfpq => st.iv.trained
def St.nbits (st : St) : Nat := match st.kind with | .pq => st.pq.nbits | .ivfpq => st.iv.nbits
def St.dim (st : St) : Nat := match st.kind with | .pq => st.pq.dim | .ivfpq => st.iv.dim
def St.dsub (st : St) : Nat := match st.kind with | .pq => st.pq.dsub | .ivfpq => st.iv.dsub
def St.cbs (st : St) : List (List (List UInt32)) := match st.kind with | .pq => st.pq.cbs | .ivfpq => st.iv.cbs
def St.cents (st : St) : List (List UInt32) := match st.kind with | .pq => [] | .ivfpq => st.iv.cents

/-- the specification's lifted metric; `tr = trunc8` (faithful) or `id` (property text) -/
def St.lift (st : St) (tr : Nat → Nat) : Metric (Stored UInt32) UInt32 :=
  match st.kind with
  | .pq => PQ.lift st.m pqArith tr st.dsub st.cbs
  | .ivfpq => IVFPQ.lift st.m pqArith tr st.dsub st.cents st.cbs

def St.stepModel (st : St) (op : Flat.Op (List UInt32)) : St × Out :=
  match st.kind with
  | .pq => let (s', o) := PQ.step st.m pqArith st.pq op; ({ st with pq := s' }, o)
  | .ivfpq => let (s', o) := IVFPQ.step st.m pqArith st.iv op; ({ st with iv := s' }, o)

def St.stepSpec (st : St) (op : Flat.Op (List UInt32)) : St :=
  if !st.trained then st else
  { st with liveS := Flat.specStep (st.lift id) st.dim st.liveS (PQ.liftOp op) }

/-- the model's lists as (id, code) -/
def St.modelLists (st : St) : List (List (Id × List Nat)) :=
  match st.kind with
  | .pq => [st.pq.entries.map fun p => (p.1, p.2.code)]
  | .ivfpq => st.iv.lists.map fun l => l.map fun p => (p.1, p.2.code)

def St.modelDeleted (st : St) : List Id :=
  match st.kind with | .pq => st.pq.deleted | .ivfpq => st.iv.deleted

def St.entryOf (st : St) (id : Id) : Option (Stored UInt32) :=
  match st.kind with
  | .pq => (st.pq.entries.find? (·.1 == id)).map (·.2)
  | .ivfpq => (st.iv.lists.flatten.find? (·.1 == id)).map (·.2)

/-- the vector whose sub-vectors a stored code quantises: the preprocessed vector (PQ),
    its residual to the centroid of list `li` (IVFPQ) -/
def St.encoded (st : St) (v' : List UInt32) (li : Nat) : List UInt32 :=
  match st.kind with
  | .pq => v'
  | .ivfpq => vsub st.o v' ((st.cents[li]?).getD [])

/-- property level: is every entry of `code` a nearest codeword of its subspace? -/
def isNearest (tabs : List (List UInt32)) (code : List Nat) : Bool :=
  code.length == tabs.length &&
  (tabs.zip code).all fun (t, c) =>
    match t[c]? with
    | none => false
    | some d => t.all fun d' => !scalar.lt d' d

/-! ### binary64 evaluation of both sides of `adc_error_bound` -/

def toF (u : UInt32) : Float := (Float32.ofBits u).toFloat

def dist64 (a c : List UInt32) : Float :=
  ((List.zipWith (fun x y => let d := toF x - toF y; d * d) a c).foldl (· + ·) 0).sqrt

/-- `|score − ‖q−x‖| ≤ ‖x−x̂‖` up to float32 rounding of the inputs -/
def errBoundOK (score : UInt32) (q x xhat : List UInt32) : Bool :=
  let s := toF score
  let dqx := dist64 q x
  let dxx := dist64 x xhat
  let lhs := (s - dqx).abs
  lhs ≤ dxx + 1e-4 * (s + dqx + dxx) + 1e-30

/-! ### ops -/

def parseKind : String → Option (Option AggKind)
  | "def" => some none | s => (Comet.Driver.FlatStream.parseAgg s).map some

def hitTies (c res : List (Hit UInt32)) : Bool :=
  match res.getLast? with
  | some l => decide ((c.filter (·.score == l.score)).length > 1) && decide (res.length < c.length)
  | none => false

/-- specification candidates of one preprocessed query (`probed` only for IVFPQ) -/
def St.candsOf (st : St) (tr : Nat → Nat) (live : List (Id × Stored UInt32))
    (probed : List (Hit UInt32)) (q' : List UInt32) (thr : UInt32) (filt : List Id) :
    List (Hit UInt32) :=
  match st.kind with
  | .pq => Flat.cands (st.lift tr) live (inject q') thr filt
  | .ivfpq => IVFPQ.cands (st.lift tr) live probed (inject q') thr filt

def opNew (st : St) (post : List String) : St × String :=
  let ok := match st.kind with
    | .pq => PQ.newOk st.dimI st.MI st.nbitsI
    | .ivfpq => IVFPQ.newOk st.dimI st.nlistI st.MI st.nbitsI
  let want := if ok then "ok" else "err"
  -- would the parameters be fine with a representable code size?
  let okBut := match st.kind with
    | .pq => PQ.newOk st.dimI st.MI 8
    | .ivfpq => IVFPQ.newOk st.dimI st.nlistI st.MI 8
  -- A constructor that accepts a code size the model rejects: report the broken tie, but
  -- keep replaying (with that `nbits`) so that a concrete mis-encoding can be exhibited.
  let goOn := !ok && post == ["ok"] && okBut && decide (8 < st.nbitsI) && decide (st.nbitsI ≤ 16)
  if post != [want] && !goOn then (st, s!"DIFF new model={want} impl={post}") else
  if !ok && !goOn then (st, s!"ok err nb9={if st.nbitsI > 8 then 1 else 0}") else
  let st' : St := { st with
    created := true
    pq := PQ.init st.dimI.toNat st.MI.toNat st.nbitsI.toNat
    iv := IVFPQ.init st.dimI.toNat st.MI.toNat st.nbitsI.toNat st.nlistI.toNat }
  if goOn then (st', s!"DIFF new model=err impl=ok nbits={st.nbitsI} (replay continues)") else
  (st', "ok")

/-- `ok <nc> c₀ … <nb> b₀ …` → centroids, codebooks (codewords of `dsub` components) -/
def parseOracle (dsub : Nat) (toks : List String) :
    Option (List (List UInt32) × List (List (List UInt32))) := do
  match toks with
  | nc :: rest =>
    let nc ← nc.toNat?
    let cents ← (rest.take nc).mapM parseBits
    match rest.drop nc with
    | nb :: rest2 =>
      let nb ← nb.toNat?
      if rest2.length != nb then none else
      let flats ← rest2.mapM parseBits
      pure (cents, flats.map (chunk dsub))
    | [] => none
  | [] => none

def opTrain (st : St) (n : Nat) (dimsOK : Bool) (post : List String) : St × String :=
  if st.trained then (st, "UNSUPPORTED retrain") else
  let ksub := 2 ^ st.nbits
  match post with
  | "ok" :: oracle =>
    match parseOracle st.dsub oracle with
    | none => (st, "BADOP train oracle")
    | some (cents, cbs) =>
      let shapeOK := match st.kind with
        | .pq => cbWF st.pq.M ksub st.dsub cbs && cents.isEmpty
        | .ivfpq => cbWF st.iv.M ksub st.dsub cbs && IVFPQ.centsWF st.iv.nlist st.iv.dim cents
      match st.kind with
      | .pq =>
        let (s', o) := PQ.train st.pq n dimsOK cbs
        if o != .ok then (st, s!"DIFF train model={outName o} impl=ok") else
        if !shapeOK then (st, "DIFF train-shape codebooks") else
        ({ st with pq := s' }, s!"ok trained=1 minsize={if n == ksub then 1 else 0}")
      | .ivfpq =>
        let (s', o) := IVFPQ.train st.iv n dimsOK cents cbs
        if o != .ok then (st, s!"DIFF train model={outName o} impl=ok") else
        if !shapeOK then (st, "DIFF train-shape centroids/codebooks") else
        ({ st with iv := s' }, s!"ok trained=1 minsize={if n == max (st.iv.nlist * 10) ksub then 1 else 0}")
  | ["err", e] =>
    let o := match st.kind with
      | .pq => (PQ.train st.pq n dimsOK []).2
      | .ivfpq => (IVFPQ.train st.iv n dimsOK [] []).2
    -- a refused Train: the model refuses too; which error is reported is free (Proto.sameOutcome)
    if o != .ok && o != .panic then
      (st, s!"ok err small={if n < ksub then 1 else 0} {classFlag e}") else
      (st, s!"DIFF train model={outName o} impl=err:{e}")
  | ["panic"] =>
    let o := match st.kind with
      | .pq => (PQ.train st.pq n dimsOK []).2
      | .ivfpq => (IVFPQ.train st.iv n dimsOK [] []).2
    (st, s!"SPECFAIL panic train model={outName o} n={n} ksub={ksub}")
  | _ => (st, "BADOP train outcome")

def opAdd (st : St) (id : Id) (v : List UInt32) (post : List String) : St × String :=
  -- adding an id that is currently live (a duplicate) is outside the property's quantifier;
  -- re-adding a removed id is inside
  if st.liveS.any (·.1 == id) then (st, "UNSUPPORTED add-of-live-id") else
  let (st1, o) := st.stepModel (.add id v)
  let st2 := { (st1.stepSpec (.add id v)) with added := id :: st.added }
  match post, o with
  | ["panic"], .panic => (st2, "SPECFAIL panic add (model agrees)")
  | ["panic"], _ => (st2, s!"SPECFAIL panic add model={outName o}")
  | ["err", e], .err _ => (st2, s!"ok err {classFlag e}")   -- both refuse; which error: free
  | ["ok", li, code], .ok =>
    match li.toNat?, parseCode code, st2.entryOf id, st.m.pre v with
    | some li, some code, some e, some v' =>
      let readd := st.added.contains id
      let appended := (st.liveS.length < st2.liveS.length)
      let codeS := match st2.liveS.getLast? with | some p => p.2.code | none => []
      if !appended then (st2, "DIFF add spec did not append") else
      -- property level: the implementation's code must name a nearest codeword of every
      -- subspace of the vector (its residual to the centroid of the list it was put in)
      let tabs := tables st.o st.dsub st.cbs (st.encoded v' li)
      if !isNearest tabs code then
        (st2, s!"SPECFAIL code-not-nearest id={id} impl={li}:{codeHex code} argmin={e.list}:{codeS}")
      else if li == e.list && code == e.code then
        if e.code != codeS then (st2, s!"DIFF model code differs from arg-min id={id}")
        else (st2, s!"ok enc=1 hi={if codeS.any (· ≥ 128) then 1 else 0} readd={if readd then 1 else 0}")
      else
        (st2, s!"DIFF add tie-break/list model={e.list}:{codeHex e.code} impl={li}:{codeHex code}")
    | _, _, _, _ => (st2, "BADOP add outcome")
  | _, _ => (st2, s!"DIFF add model={outName o} impl={post}")

def opSimple (st : St) (op : Flat.Op (List UInt32)) (name : String) (post : List String) :
    St × String :=
  let (st1, o) := st.stepModel op
  let st2 := st1.stepSpec op
  let impl := match post with | ["err", e] => e | [x] => x | _ => "?"
  if impl == "panic" then (st2, s!"SPECFAIL panic {name}") else
  if impl != "?" && o != .panic && sameOutcome impl (outName o) then
    (st2, if o == .ok then "ok" else s!"ok err {classFlag impl}") else
    (st2, s!"DIFF {name} model={outName o} impl={post}")

def parseState (toks : List String) : Option (List (List (Id × List Nat)) × List Id) :=
  let rec go (toks : List String) (cur : List (Id × List Nat))
      (acc : List (List (Id × List Nat))) : Option (List (List (Id × List Nat)) × List Id) :=
    match toks with
    | [] => none
    | ["D", ids] => do pure (acc.reverse, ← parseIds ids)
    | ";" :: rest => go rest [] (cur.reverse :: acc)
    | t :: rest =>
      match t.splitOn ":" with
      | [i, c] => do go rest ((← i.toNat?, ← parseCode c) :: cur) acc
      | _ => none
  go toks [] []

def sortNat (l : List Nat) : List Nat := l.mergeSort (fun a b => decide (a ≤ b))

def opState (st : St) (post : List String) : St × String :=
  match parseState post with
  | none => (st, "BADOP state")
  | some (lists, del) =>
    if lists != st.modelLists then
      (st, s!"DIFF state lists model={st.modelLists.map (·.length)} impl={lists.map (·.length)}")
    else if sortNat del != sortNat st.modelDeleted then (st, "DIFF state deleted")
    else (st, s!"ok stored={(lists.map (·.length)).foldl (· + ·) 0}")

structure SearchArgs where
  k : Int
  thr : UInt32
  filt : List Id
  agg : AggKind
  nprobes : Int
  order : List Nat
  nodes : List Id
  qs : List (List UInt32)

def parseSearch (st : St) (pre : List String) : Option SearchArgs :=
  match pre with
  | k :: thr :: filt :: agg :: np :: order :: nodes :: qs => do
    let k ← if k == "def" then some (10 : Int) else parseInt k
    let agg ← parseKind agg
    let np ← if np == "def" then some (IVFPQ.defaultProbes st.iv.nlist) else parseInt np
    pure { k := k, thr := ← parseU32 thr, filt := ← parseIds filt, agg := agg.getD .sum,
           nprobes := np, order := ← parseIds order, nodes := ← parseIds nodes,
           qs := ← qs.mapM parseBits }
  | _ => none

def St.execModel (st : St) (a : SearchArgs) : Except Fail (List (Hit UInt32)) :=
  match st.kind with
  | .pq => PQ.execute st.m pqArith st.pq a.qs a.nodes a.k a.thr a.filt a.agg
  | .ivfpq => IVFPQ.execute st.m pqArith st.iv a.qs a.nodes a.k a.nprobes a.thr a.filt a.agg

/-- probed lists from the harness's centroid order, validated with `checkTopK` against the
    model's own centroid distances -/
def St.probed (st : St) (a : SearchArgs) (q' : List UInt32) : Option (List (Hit UInt32)) :=
  match st.kind with
  | .pq => some []
  | .ivfpq =>
    let hits := IVFPQ.centroidHits st.m q' st.iv.cents
    let np := IVFPQ.clampProbes a.nprobes st.iv.nlist
    -- no hint (multi-query searches): only with every list probed, where any order is valid
    if a.order.isEmpty then (if np == st.iv.nlist then some hits else none) else
    let probed := (a.order.take np).filterMap fun i => hits.find? (·.id == i)
    if checkTopK scalar.le a.nprobes hits probed then some probed else none

/-- evaluate both sides of the error bound on up to three hits of a single-query answer -/
def St.errBound (st : St) (q' : List UInt32) (res : List (Hit UInt32)) : Bool :=
  (res.take 3).all fun h =>
    match st.entryOf h.id with
    | none => true
    | some e =>
      match recon st.cbs e.code with
      | none => true
      | some r =>
        let c := match st.kind with | .pq => [] | .ivfpq => (st.cents[e.list]?).getD []
        let qa := match st.kind with | .pq => q' | .ivfpq => vsub st.o q' c
        let xa := match st.kind with | .pq => e.vec | .ivfpq => vsub st.o e.vec c
        errBoundOK h.score qa xa r

def opSearch (st : St) (pre post : List String) : St × String :=
  match parseSearch st pre with
  | none => (st, "BADOP search args")
  | some a =>
    let model := st.execModel a
    match post, model with
    | ["panic"], _ => (st, "SPECFAIL panic search")
    | ["err", e], .error me =>
      -- both fail (untrained, wrong dimension, zero vector, …): which error is reported is free
      if me != .panic then (st, s!"ok err {classFlag e}") else (st, s!"DIFF search-err model={failName me} impl={e}")
    | ["err", e], .ok _ => (st, s!"DIFF search model=ok impl=err:{e}")
    | "ok" :: _, .error me => (st, s!"DIFF search model=err:{failName me} impl=ok")
    | "ok" :: hits, .ok mres =>
      match hits.mapM parseHit32 with
      | none => (st, "BADOP search hits")
      | some res =>
        let single := a.qs.length == 1 && a.nodes.isEmpty
        if !single && decide (a.k > 0) then (st, "UNSUPPORTED multi-query with k>0") else
        -- the query vectors actually searched: given ones, then the stored vectors of the nodes
        let nodeQs := a.nodes.filterMap fun i => st.entryOf i |>.map (·.vec)
        let allQs := a.qs ++ nodeQs
        -- PQ answers [] for an index without codes before it looks at the query
        if st.kind == .pq && st.pq.entries.isEmpty then
          if res.isEmpty then (st, "ok n=0 cands=0 empty=1") else (st, "SPECFAIL topk nonempty answer on empty index")
        else
        match allQs.mapM st.m.pre with
        | none => (st, "DIFF search model=ok but a query does not preprocess")
        | some qs' =>
          match qs'.mapM (st.probed a) with
          | none => (st, s!"DIFF probe-order hint is not a valid choice of the nearest lists order={a.order}")
          | some probeds =>
            let mkC (probeds : List (List (Hit UInt32))) (live : List (Id × Stored UInt32)) :
                List (Hit UInt32) :=
              let per := (qs'.zip probeds).map fun (q', pr) => st.candsOf id live pr q' a.thr a.filt
              if single then
                per.flatten.map fun h => (⟨h.id, reduceVec scalar a.agg [h.score]⟩ : Hit UInt32)
              else
                let all := per.flatten
                if all.isEmpty then all else vecAggregate scalar a.agg all
            let cS := mkC probeds st.liveS
            -- the model's own answer must meet the specification (pq_topk / ivfpq_topk) for
            -- the model's own (stable) choice of the nearest lists
            let probedsM := qs'.map fun q' =>
              ((IVFPQ.centroidHits st.m q' st.iv.cents).mergeSort (hitLe scalar.le)).take
                (IVFPQ.clampProbes a.nprobes st.iv.nlist)
            let cM := if st.kind == .ivfpq then mkC probedsM st.liveS else cS
            if !checkTopK scalar.le a.k cM mres && decide (st.nbits ≤ 8) then (st, "DIFF model-vs-spec") else
            let flags (c : List (Hit UInt32)) : String :=
              let live := st.liveS.length
              let nl := st.iv.nlist
              let np := IVFPQ.clampProbes a.nprobes nl
              s!"n={res.length} cands={c.length} live={live} tie={if hitTies c res then 1 else 0} " ++
              s!"multi={if single then 0 else 1} partial={if st.kind == .ivfpq && np < nl then 1 else 0} " ++
              s!"model={mres.length}"
            if checkTopK scalar.le a.k cS res then
              if single && !(qs'.all fun q' => st.errBound q' res) then
                (st, "DIFF errbound: |score - |q-x|| > |x-recon| beyond rounding")
              else (st, s!"ok {flags cS} eb={if single && !res.isEmpty then 1 else 0}")
            else (st, s!"SPECFAIL topk {Comet.Driver.FlatStream.diagnose scalar a.k cS res}")
    | _, _ => (st, "BADOP search outcome")

def op (st : St) (toks : List String) : St × String :=
  let (pre, post) := splitOutcome toks
  match pre with
  | ["new"] => opNew st post
  | _ =>
  if !st.created then (st, "BADOP index not constructed") else
  match pre with
  | ["train", n, dimsOK] =>
    match n.toNat? with
    | some n => opTrain st n (dimsOK == "1") post
    | none => (st, "BADOP train")
  | ["add", id, v] =>
    match id.toNat?, parseBits v with
    | some id, some v => opAdd st id v post
    | _, _ => (st, "BADOP add")
  | ["remove", id] =>
    match id.toNat? with
    | some id => opSimple st (.remove id) "remove" post
    | none => (st, "BADOP remove")
  | ["flush"] => opSimple st .flush "flush" post
  | ["state"] => opState st post
  | "search" :: args => opSearch st args post
  | _ => (st, "BADOP unknown")

def handler : Handler := { name := "pq", σ := St, init := init, op := op }

end Comet.Driver.PQStream
