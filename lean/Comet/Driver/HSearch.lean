/-
  Stream `hsearch` (C05): the composition performed by hybridSearch.Execute.

  The harness issues a hybrid search AND, separately, the metadata / vector / text
  sub-searches with exactly the options the hybrid search is documented to pass on
  (k, aggregation, cutoff, nprobes, efSearch, threshold, candidate ids).  The driver runs
  the model `HybridSearch.execute` with those answers as oracles and judges the hybrid
  answer with the verified checker `checkTopK` (descending) against the model's combined
  score map; scores are float64 bit patterns.  For a flat vector index it additionally
  checks that the vector candidates are the exact filtered k-NN (Flat specification).

    begin hsearch <dim> <metric> <vkind>
    op doc <id> <vec>   => ok          -- a live document's raw vector (flat exactness check)
    op undoc <id>       => ok
    op search k=.. fusion=.. vw=.. tw=.. K=.. filt=<0|1> meta=<noindex|err|ok:ids> vq=<0|1> qv=<vec|-> thr=<hex32>
              vres=<noindex|err|ok:id:hex32,…> tq=<0|1> tres=<…> => ok id:hex64 … | err
-/
import Comet.Driver.Proto
import Comet.HybridSearch
namespace Comet.Driver.HSearchStream
open Comet Comet.Driver Comet.F32 Comet.HybridSearch

structure St where
  kind : MetricKind
  exact : Bool
  dim : Nat
  live : List (Id × Vec)     -- preprocessed vectors of live documents

def init (ps : List String) : Option St :=
  match ps with
  | [dim, metric, vkind] => do
    pure { kind := ← MetricKind.parse metric, exact := vkind == "flat", dim := ← dim.toNat?, live := [] }
  | _ => none

def hex64 (u : UInt64) : String := toHex 16 u.toNat
def parseU64 (s : String) : Option UInt64 := do
  let n ← parseHex s
  if n < 18446744073709551616 then some (UInt64.ofNat n) else none

@[inline] def fb (x : Float) : UInt64 := x.toBits
@[inline] def bf (u : UInt64) : Float := Float.ofBits u

def kvs (toks : List String) : List (String × String) :=
  toks.filterMap fun t => match t.splitOn "=" with
    | [k, v] => some (k, v) | _ => none

def get (m : List (String × String)) (k : String) : Option String := m.lookup k

/-- "ok:1:3f800000,2:40000000" | "ok:-" | "err" | "noindex" -/
inductive Sub | noindex | err | ok (m : List (Id × UInt32))

def parseSub (s : String) : Option Sub :=
  if s == "noindex" then some .noindex
  else if s == "err" then some .err
  else if s == "ok:-" then some (.ok [])
  else if s.startsWith "ok:" then do
    let body := (s.drop 3).toString
    let ps ← (body.splitOn ",").mapM fun e => match e.splitOn ":" with
      | [i, sc] => do pure ((← i.toNat?), (← parseU32 sc))
      | _ => none
    pure (.ok ps)
  else none

inductive MetaRes | noindex | err | ok (ids : List Id)
def parseMetaRes (s : String) : Option MetaRes :=
  if s == "noindex" then some .noindex
  else if s == "err" then some .err
  else if s.startsWith "ok:" then (parseIds (s.drop 3).toString).map .ok
  else none

def toF64 (m : List (Id × UInt32)) : ScoreMap UInt64 :=
  m.map fun p => (p.1, fb (Float32.ofBits p.2).toFloat)

/-! fusion.go, in float64, operation by operation -/
def fWeighted (vw tw : Float) (v t : ScoreMap UInt64) : ScoreMap UInt64 :=
  let c : ScoreMap UInt64 := v.map fun p => (p.1, fb (bf p.2 * vw))
  t.foldl (fun c p =>
    match c.lookup p.1 with
    | some ex => c.map fun q => if q.1 == p.1 then (q.1, fb (bf ex + bf p.2 * tw)) else q
    | none => c ++ [(p.1, fb (bf p.2 * tw))]) c

def fMax (v t : ScoreMap UInt64) : ScoreMap UInt64 :=
  t.foldl (fun c p =>
    match c.lookup p.1 with
    | some ex => if bf p.2 > bf ex then c.map fun q => if q.1 == p.1 then (q.1, p.2) else q else c
    | none => c ++ [p]) v

def fMin (v t : ScoreMap UInt64) : ScoreMap UInt64 :=
  v.filterMap fun p => match t.lookup p.1 with
    | some ts => some (p.1, if bf p.2 < bf ts then p.2 else ts)
    | none => none

/-- rank = position in a best-first ordering (stable on the given order) -/
def ranks (m : ScoreMap UInt64) (ascending : Bool) : List (Id × Nat) :=
  let sorted := m.mergeSort fun a b => if ascending then bf a.2 ≤ bf b.2 else bf a.2 ≥ bf b.2
  sorted.zipIdx.map fun (p, i) => (p.1, i)

def fRRF (k : Float) (v t : ScoreMap UInt64) : ScoreMap UInt64 :=
  let vr := ranks v true
  let tr := ranks t false
  let c : ScoreMap UInt64 := vr.map fun p => (p.1, fb (1.0 / (k + p.2.toFloat)))
  tr.foldl (fun c p =>
    let s := 1.0 / (k + p.2.toFloat)
    match c.lookup p.1 with
    | some ex => c.map fun q => if q.1 == p.1 then (q.1, fb (bf ex + s)) else q
    | none => c ++ [(p.1, fb s)]) c

def hasTies (m : ScoreMap UInt64) : Bool :=
  let ss := m.map (·.2)
  ss.any fun s => (ss.filter (· == s)).length > 1

def parseHit64 (s : String) : Option (Hit UInt64) :=
  match s.splitOn ":" with
  | [i, sc] => do pure ⟨← i.toNat?, ← parseU64 sc⟩
  | _ => none

def showHit64 (h : Hit UInt64) : String := s!"{h.id}:{hex64 h.score}"

def geF (a b : UInt64) : Bool := bf a ≥ bf b

def op (st : St) (toks : List String) : St × String :=
  let (pre, post) := splitOutcome toks
  match pre with
  | ["doc", id, v] =>
    match id.toNat?, parseVec v with
    | some id, some v =>
      match (metric st.kind).pre v with
      | some v' => ({ st with live := st.live.filter (·.1 != id) ++ [(id, v')] }, "ok")
      | none => (st, "BADOP doc zero vector")
    | _, _ => (st, "BADOP doc")
  | ["undoc", id] =>
    match id.toNat? with
    | some id => ({ st with live := st.live.filter (·.1 != id) }, "ok")
    | none => (st, "BADOP undoc")
  | "search" :: args =>
    let m := kvs args
    match (get m "k").bind String.toNat?, get m "fusion", (get m "vw").bind parseU64, (get m "tw").bind parseU64,
          (get m "K").bind parseU64, get m "filt", (get m "meta").bind parseMetaRes, get m "vq", get m "tq",
          (get m "vres").bind parseSub, (get m "tres").bind parseSub, (get m "qv").bind parseVec,
          (get m "thr").bind parseU32 with
    | some k, some fusion, some vw, some tw, some kk, some filt, some mres, some vq, some tq, some vres, some tres,
      some qv, some thr =>
      let cut : Int := ((get m "cut").bind String.toInt?).getD (-1)
      let ntq : Nat := ((get m "ntq").bind String.toNat?).getD 0
      -- option plumbing: what Execute obtained internally vs the separately issued sub-search
      let sameSub (a b : Option Sub) (single : Bool) : Bool :=
        match a, b with
        | some (.ok x), some (.ok y) =>
          let sx := (x.map fun p => (Float32.ofBits p.2).toFloat).mergeSort (· ≤ ·)
          let sy := (y.map fun p => (Float32.ofBits p.2).toFloat).mergeSort (· ≤ ·)
          (x.all fun p => y.contains p) && x.length == y.length ||
          -- ties may resolve differently between two runs (Go map order): same score list
          (single && sx.map Float.toBits == sy.map Float.toBits) ||
          -- multi-query text search: per-query ties change the aggregate (and autocut); not compared
          !single
        | some .noindex, some .noindex => true
        | some .err, some .err => true
        | _, none => true
        | _, _ => false
      if !(sameSub (some vres) ((get m "vext").bind parseSub) true) then
        (st, "DIFF option plumbing: the vector sub-search Execute ran differs from the documented call") else
      if !(sameSub (some tres) ((get m "text").bind parseSub) (ntq ≤ 1)) then
        (st, "DIFF option plumbing: the text sub-search Execute ran differs from the documented call") else
      let combine : ScoreMap UInt64 → ScoreMap UInt64 → ScoreMap UInt64 :=
        match fusion with
        | "weighted_sum" => fWeighted (bf vw) (bf tw)
        | "max" => fMax
        | "min" => fMin
        | _ => fRRF (bf kk)
      let subOracle : Sub → Option (List Id → Except Err (ScoreMap UInt64))
        | .noindex => none
        | .err => some fun _ => .error .other
        | .ok t => some fun _ => .ok (toF64 t)
      let env : Env UInt64 :=
        { metaSearch := match mres with
            | .noindex => none | .err => some (.error .other) | .ok ids => some (.ok ids),
          vecSearch := subOracle vres, txtSearch := subOracle tres,
          combine, one := fb 1.0, ge := geF }
      let q : Query UInt64 := ⟨filt == "1", vq == "1", tq == "1", k⟩
      let model := execute env q
      -- side checks on the oracles: restriction respected; flat candidates = exact filtered k-NN
      let cands : List Id := match mres with | .ok ids => if filt == "1" then ids else [] | _ => []
      let respects (s : Sub) : Bool := match s with
        | .ok t => cands.isEmpty || t.all fun p => cands.contains p.1
        | _ => true
      if !(respects vres && respects tres) then (st, "SPECFAIL sub-search ignores the candidate restriction") else
      let flatOk : Bool :=
        match st.exact && cut == -1, vq == "1", vres, (metric st.kind).pre qv with
        | true, true, .ok t, some q' =>
          let c := Flat.cands (metric st.kind) st.live q' thr cands
          -- the captured map has no order: judge it as a set (sort by score first)
          let hits : List (Hit UInt32) := (t.map fun p => (⟨p.1, p.2⟩ : Hit UInt32)).mergeSort
            (hitLe (metric st.kind).sc.le)
          checkTopK (metric st.kind).sc.le (k : Int) c hits
        | _, _, _, _ => true
      if !flatOk then (st, "SPECFAIL vector candidates are not the exact filtered k nearest neighbours") else
      match post, model with
      | "err" :: _, .error _ => (st, "ok err")
      | "err" :: _, .ok _ => (st, "SPECFAIL search failed but the composition succeeds")
      | "ok" :: _, .error _ => (st, "SPECFAIL search succeeded but a queried modality is not configured / a sub-search failed")
      | "ok" :: hits, .ok mres' =>
        match hits.mapM parseHit64 with
        | none => (st, "BADOP hits")
        | some res =>
          -- the combined score map the model ranks
          let restrict := cands
          let vm := match vres with | .ok t => if vq == "1" then toF64 t else [] | _ => []
          let tm := match tres with | .ok t => if tq == "1" then toF64 t else [] | _ => []
          let early : Bool := filt == "1" && (match mres with | .ok [] => true | _ => false)
          let combined : ScoreMap UInt64 := if early then [] else combineStage env q restrict vm tm
          let c := toHits combined
          let rrfTie := fusion == "reciprocal_rank" && (hasTies vm || hasTies tm)
          if k == 0 then (st, "UNSUPPORTED k=0") else
          if rrfTie then
            -- ranks inside a tie group are free: judge ids and shape only
            let idsOk := res.all (fun h => c.any (·.id == h.id)) && res.length == sanitizeK (k : Int) c.length
            if idsOk then (st, s!"ok n={res.length} rrftie=1") else (st, "SPECFAIL rrf (tied) ids/len")
          else if checkTopK geF (k : Int) c res then
            let both := !vm.isEmpty && !tm.isEmpty
            (st, s!"ok n={res.length} comb={c.length} both={if both then 1 else 0} metaonly={if vq != "1" && tq != "1" then 1 else 0} trunc={if res.length < c.length then 1 else 0} model={mres'.length}")
          else
            let why :=
              if res.length != sanitizeK (k : Int) c.length then s!"len want={sanitizeK (k : Int) c.length} got={res.length}"
              else match res.find? (fun h => !c.contains h) with
                | some h => match c.find? (·.id == h.id) with
                  | some h' => s!"score id={h.id} impl={hex64 h.score} model={hex64 h'.score}"
                  | none => s!"id {h.id} is in no modality's answer"
                | none => "order/selection"
            (st, s!"SPECFAIL hybrid result is not the top-k of the composition: {why}")
      | _, _ => (st, "BADOP outcome")
    | _, _, _, _, _, _, _, _, _, _, _, _, _ => (st, "BADOP search args")
  | _ => (st, "BADOP unknown")

def handler : Handler := { name := "hsearch", σ := St, init := init, op := op }

end Comet.Driver.HSearchStream
