/-
  Streams of C11.

  `conc`  — a logged concurrent history of the real code (2..16 goroutines, one shared instance):
            every op carries invocation / response numbers from one atomic clock.  `judge`
            runs the verified checker `checkVisibility` (Comet.Conc.Proto.checkVisibility_iff;
            the model satisfies the same predicate in every interleaving: lin_visibility), the
            allowed-error rule (consequence of no_spurious_error / Good.addedStored: a failing
            Remove must be explainable by the state some linearisation gives), and id uniqueness
            (ids_unique).
  `sched` — a directed schedule of the store's rotation protocol, realised on the real store at
            the verifPoint yield points; replayed on Comet.Conc.Rot and compared step by step.
-/
import Comet.Driver.Proto
import Comet.Conc.RemoveProto
import Comet.Conc.Rotation
namespace Comet.Driver.ConcStream
open Comet Comet.Driver Comet.Conc.Proto

structure Rec where
  g : Nat
  op : String          -- add | remove | search | flush | write | compact | close | rotate
  id : Nat := 0
  inv : Nat
  resp : Nat
  out : String         -- ok | notfound | deleted | frozen | closed | panic | other
  res : List Nat := []
  /-- add: the vector added under `id`; search: nothing -/
  vec : Option F32.Vec := none
  /-- search (kinds whose score is the metric distance): the queries and the scored hits -/
  qs : List F32.Vec := []
  scored : List (Nat × UInt32) := []
  /-- search: score aggregation over the queries (sum | max | mean) -/
  agg : String := "sum"

structure St where
  kind : String
  recs : List Rec := []
  autoIds : List Nat := []
  bad : Option String := none

def init (ps : List String) : Option St :=
  match ps with
  | kind :: _ =>
    -- "hnswfill": an HNSW index that never holds more than 2M+1 vertices and sees no removal — every
    -- neighbour list keeps everything (C12: hnsw_small_exact), so completeness (V1) IS judged
    if ["flat", "hnsw", "hnswfill", "ivf", "pq", "ivfpq", "bm25", "meta", "hybrid", "store"].contains kind
    then some { kind := kind } else none
  | _ => none

def toHOp (r : Rec) : Option HOp :=
  match r.op with
  | "add" => some { kind := .add, id := r.id, inv := r.inv, resp := r.resp, ok := r.out == "ok" }
  | "remove" => some { kind := .remove, id := r.id, inv := r.inv, resp := r.resp, ok := r.out == "ok" }
  | "search" =>
    if r.out == "ok" then some { kind := .search, inv := r.inv, resp := r.resp, res := r.res } else none
  | "flush" | "write" => some { kind := .flush, inv := r.inv, resp := r.resp, ok := r.out == "ok" }
  | _ => none

/-- which clauses of VisibilityOK are judged for a kind.  hnsw: a search is approximate (V1,
    completeness, is C12's subject); store: all memtables and segment loads share the template
    indexes (known findings D13 / D14, C08's subject), only "never returns an id that was not
    added" is judged here. -/
def needV1 (kind : String) : Bool := kind != "hnsw" && kind != "store"
def needV2 (kind : String) : Bool := kind != "store"

def visFail (kind : String) (h : List HOp) : Option String :=
  if needV1 kind && needV2 kind then
    if checkVisibility h then none else
      -- diagnose
      match h.find? (fun S => S.kind == .search && !(checkV1 h S && checkV2 h S && checkV3 h S)) with
      | some S =>
        let w := if !checkV1 h S then "V1-missing" else if !checkV2 h S then "V2-removed-returned" else "V3-phantom"
        some s!"{w} search@[{S.inv},{S.resp}] res={S.res}"
      | none => some "visibility"
  else
    match h.find? (fun S => S.kind == .search &&
        !((!needV1 kind || checkV1 h S) && (!needV2 kind || checkV2 h S) && checkV3 h S)) with
    | some S =>
      let w := if needV1 kind && !checkV1 h S then "V1-missing"
               else if needV2 kind && !checkV2 h S then "V2-removed-returned" else "V3-phantom"
      some s!"{w} search@[{S.inv},{S.resp}] res={S.res}"
    | none => none

def overlaps (a b : Rec) : Bool := decide (a.inv < b.resp) && decide (b.inv < a.resp)

/-- The allowed-error rule.  Whether a failing response is legitimate is decided from the
    SITUATION, never from the error's wording (any outcome other than `ok` / `panic` is "an
    error", whatever its text says; the class the harness derives from the text is only a
    histogram flag):
    * a failing `Remove(id)` is legitimate iff, under the visibility rule, `id` could have been
      absent or already removed at some point of the call's interval — i.e. it is NOT the case
      that an add of `id` completed before the call began while no successful removal of `id`
      began before the call ended (consequence of no_spurious_error / Good.addedStored);
      a successful `Remove(id)` needs an add of `id` that began before it ended;
    * a failing Add / search / Flush / WriteTo is legitimate iff the same call fails
      sequentially.  The stream only issues calls that succeed sequentially (right dimension,
      non-zero vectors, trained indexes), so the one legitimate situation is the store after
      `Close` began (before the call ended).
    Returns (violations, 0). -/
def judgeErrors (kind : String) (rs : List Rec) : List String × Nat :=
  let closeInv : Option Nat := (rs.find? (·.op == "close")).map (·.inv)
  let closing (r : Rec) : Bool := kind == "store" && match closeInv with
    | some c => decide (c < r.resp)
    | none => false
  rs.foldl (fun (acc : List String × Nat) r =>
    let fail (why : String) := (s!"{why} {r.op}({r.id}) g={r.g} @[{r.inv},{r.resp}] => {r.out}" :: acc.1, acc.2)
    if r.out == "panic" then fail "panic"
    else match r.op with
    | "remove" =>
      if kind == "store" then acc   -- the store's Remove looks at the mutable memtable only (sequential quirk, C08)
      else if r.out == "ok" then
        if kind == "bm25" || kind == "meta" then acc   -- these never report absence
        else if rs.any fun a => a.op == "add" && a.id == r.id && decide (a.inv < r.resp) then acc
        else fail "remove-ok-of-never-added"
      else
        let addedBefore := rs.any fun a => a.op == "add" && a.out == "ok" && a.id == r.id && decide (a.resp < r.inv)
        let removalBegun := rs.any fun m => m.op == "remove" && m.out == "ok" && m.id == r.id &&
          (m.g != r.g || m.inv != r.inv) && decide (m.inv < r.resp)
        if addedBefore && !removalBegun then fail "remove-failed-on-a-document-that-was-live-throughout" else acc
    | "bad" =>
      -- a call that fails sequentially (zero vector under cosine, wrong dimension, untrained index,
      -- unknown node id, no query, wrong operand type, closed store): it must fail — and leave the
      -- index usable, which the rest of the history (and the watchdog) shows
      if r.out == "ok" then fail s!"call-that-fails-sequentially-succeeded ({r.agg})" else acc
    | "close" =>
      -- a Close may only fail because another Close began before it ended
      if r.out == "ok" || (kind == "store" && rs.any fun c => c.op == "close" && (c.g != r.g || c.inv != r.inv) && decide (c.inv < r.resp))
      then acc else fail "spurious-error"
    | _ => if r.out == "ok" || closing r then acc else fail "spurious-error") ([], 0)

/- Scores (flat, IVF, HNSW, hybrid over flat; metric l2, default sum aggregation): every hit's
    score must be the metric distance between the logged query and a vector the harness added
    under that id — bit for bit (Comet.F32 replicates distance.go exactly).  With two queries
    (one read-locked region each) a document may be seen by one or both: d₁, d₂ or d₁ + d₂.
    A search overwritten by another goroutine's candidates (shared scratch memory) fails here. -/
/-- non-empty subsequences (a document may be seen by any non-empty subset of the queries: the
    read lock is taken once per query) -/
def subseqs {α} : List α → List (List α)
  | [] => []
  | x :: xs => let r := subseqs xs; [x] :: (r.map (x :: ·)) ++ r

def aggScore (agg : String) (ds : List UInt32) : UInt32 :=
  let fs := ds.map F32.f
  match agg with
  | "max" => F32.b (fs.tail.foldl (fun m x => if x > m then x else m) (fs.headD 0))
  | "mean" => F32.b (fs.foldl (· + ·) 0 / Float32.ofNat fs.length)
  | _ => F32.b (fs.foldl (· + ·) 0)

def scoreFail (rs : List Rec) : Option String :=
  let vecsOf (id : Nat) : List F32.Vec := rs.filterMap fun r => if r.op == "add" && r.id == id then r.vec else none
  let dist (q v : F32.Vec) : UInt32 := F32.b (F32.euclid q v)
  let okHit (agg : String) (qs : List F32.Vec) (id : Nat) (sc : UInt32) : Bool :=
    let vs := vecsOf id
    vs.isEmpty ||   -- unknown id: V3 (phantom) is judged by the visibility check
    vs.any fun v => (subseqs (qs.map fun q => dist q v)).any fun ds => aggScore agg ds == sc
  rs.findSome? fun r =>
    if r.op != "search" || r.qs.isEmpty || r.qs.length > 4 then none else
    match r.scored.find? fun (id, sc) => !okHit r.agg r.qs id sc with
    | some (id, sc) =>
      let want := (vecsOf id).map fun v => r.qs.map fun q => hex32 (dist q v)
      some s!"search g={r.g} @[{r.inv},{r.resp}] ({r.agg} over {r.qs.length} queries) returned id {id} with score {hex32 sc}, the distance(s) to that document are {want}"
    | none => none

def dupOf : List Nat → Option Nat
  | [] => none
  | x :: xs => if xs.contains x then some x else dupOf xs

def judge (st : St) : String :=
  match st.bad with
  | some b => s!"BADOP {b}"
  | none =>
    let rs := st.recs.reverse
    let h := rs.filterMap toHOp
    let (errs, known) := judgeErrors st.kind rs
    match dupOf st.autoIds with
    | some d => s!"SPECFAIL ids_unique duplicate auto id {d}"
    | none =>
      match errs with
      | e :: _ => s!"SPECFAIL no_spurious_error {e}"
      | [] =>
        match rs.findSome? fun r => if r.op == "search" then (dupOf r.res).map fun d => s!"search g={r.g} @[{r.inv},{r.resp}] returned id {d} twice" else none with
        | some w => s!"SPECFAIL lin_visibility duplicate {w}"
        | none =>
        match scoreFail rs with
        | some w => s!"SPECFAIL score_is_distance a search returned a score that is not the distance to that document: {w}"
        | none =>
        match visFail st.kind h with
        | some w => s!"SPECFAIL lin_visibility {w}"
        | none =>
          let searches := rs.filter (·.op == "search")
          let writes := rs.filter fun r => r.op == "add" || r.op == "remove" || r.op == "flush"
          let ov := searches.any fun s => writes.any fun w => w.g != s.g && overlaps s w
          let ovw := writes.any fun a => writes.any fun b => a.g != b.g && overlaps a b
          let rem := rs.any fun r => r.op == "remove" && r.out == "ok"
          let ne := searches.any fun s => !s.res.isEmpty
          let nscored := (searches.map (·.scored.length)).foldl (· + ·) 0
          let classes := ((rs.filter fun r => r.out != "ok").map fun r => (r.out.splitOn ":").headD "other").eraseDups
          let clsFlags := " ".intercalate (classes.map fun c => s!"errclass_{c}=1")
          let flags := clsFlags ++ " " ++ s!"ops={rs.length} searches={searches.length} autoids={st.autoIds.length} scoredhits={nscored} " ++
            s!"overlap_sw={if ov then 1 else 0} overlap_ww={if ovw then 1 else 0} removed={if rem then 1 else 0} nonempty={if ne then 1 else 0}"
          if known > 0 then s!"SPECFAIL no_spurious_error frozen={known}" else s!"ok {flags}"

def parseRes (s : String) : Option (List Nat) := parseIds s

def op (st : St) (toks : List String) : St × String :=
  let (pre, post) := splitOutcome toks
  let outc := post.headD "other"
  match pre with
  | ["judge"] => (st, judge st)
  | ["autoid", _, id] =>
    match id.toNat? with
    | some id => ({ st with autoIds := id :: st.autoIds }, "ok")
    | none => ({ st with bad := some "autoid" }, "BADOP autoid")
  | "panic" :: _ => (st, "ok")   -- the runner classifies `op panic` lines itself
  | "search" :: g :: inv :: resp :: rest =>
    match g.toNat?, inv.toNat?, resp.toNat? with
    | some g, some inv, some resp =>
      -- optional queries: hex vectors separated by ';'
      let qs : Option (List F32.Vec) := match rest with
        | [] => some []
        | [q] => (q.splitOn ";").mapM parseVec
        | [q, _] => (q.splitOn ";").mapM parseVec
        | _ => none
      let agg : String := match rest with
        | [_, a] => a
        | _ => "sum"
      -- hits: `id` or `id:scorehex`, comma separated
      let hits : Option (List (Nat × Option UInt32)) :=
        if outc != "ok" then some [] else
        match post with
        | [_, "-"] => some []
        | [_, ids] => (ids.splitOn ",").mapM fun t =>
            match t.splitOn ":" with
            | [i] => i.toNat?.map fun i => (i, none)
            | [i, sc] => do pure ((← i.toNat?), some (← parseU32 sc))
            | _ => none
        | _ => none
      match qs, hits with
      | some qs, some hits =>
        let scored := hits.filterMap fun (i, sc) => sc.map fun sc => (i, sc)
        ({ st with recs := { g := g, op := "search", inv := inv, resp := resp, out := outc,
                             res := hits.map (·.1), qs := qs, scored := scored, agg := agg } :: st.recs }, "ok")
      | _, _ => ({ st with bad := some "search line" }, "BADOP search line")
    | _, _, _ => ({ st with bad := some "search" }, "BADOP search")
  | ["bad", g, inv, resp, what] =>
    match g.toNat?, inv.toNat?, resp.toNat? with
    | some g, some inv, some resp =>
      ({ st with recs := { g := g, op := "bad", inv := inv, resp := resp, out := outc, agg := what } :: st.recs }, "ok")
    | _, _, _ => ({ st with bad := some "bad" }, "BADOP bad")
  | name :: g :: id :: inv :: resp :: rest =>
    match g.toNat?, id.toNat?, inv.toNat?, resp.toNat? with
    | some g, some id, some inv, some resp =>
      if !(["add", "remove"].contains name) then ({ st with bad := some name }, s!"BADOP {name}") else
      let vec : Option (Option F32.Vec) := match rest with
        | [] => some none
        | [v] => (parseVec v).map some
        | _ => none
      match vec with
      | some vec =>
        ({ st with recs := { g := g, op := name, id := id, inv := inv, resp := resp, out := outc, vec := vec } :: st.recs }, "ok")
      | none => ({ st with bad := some "vector" }, "BADOP vector")
    | _, _, _, _ => ({ st with bad := some name }, s!"BADOP {name}")
  | [name, g, inv, resp] =>
    match g.toNat?, inv.toNat?, resp.toNat? with
    | some g, some inv, some resp =>
      if !(["flush", "write", "compact", "close", "rotate"].contains name) then
        ({ st with bad := some name }, s!"BADOP {name}") else
      ({ st with recs := { g := g, op := name, inv := inv, resp := resp, out := outc } :: st.recs }, "ok")
    | _, _, _ => ({ st with bad := some name }, s!"BADOP {name}")
  | _ => ({ st with bad := some "unknown" }, "BADOP unknown")

def handler : Handler := { name := "conc", σ := St, init := init, op := op }

end Comet.Driver.ConcStream

namespace Comet.Driver.SchedStream
open Comet Comet.Driver Comet.Conc.Rot

/-!
  Directed schedules of the store's add / rotate / flush protocol on the real store (one
  72-byte document per 100-byte memtable, so an add rotates iff the mutable memtable is not
  empty), replayed on `Comet.Conc.Rot` with the locked add (`rstep true`).

    add t d            a complete AddWithID
    hold t d           an adder is stopped at the yield point after memtable.addWithID's frozen
                       check — since 22d1a03 INSIDE the queue-locked region
    spawn rotate|flush|add d   started while the adder is held: must stay BLOCKED (the queue lock
                       covers pick, frozen check and write); `completed` = the lock does not
                       cover the write (the former shape, D15) → SPECFAIL
    release t          the held add finishes, then the spawned operations run in some order:
                       the model keeps every order as a candidate state
    fsnap / fwrite / fdrop f   one flusher stepped through flushMemtables:next / :flushed
    rotate, flush      complete operations
    state              the store's bookkeeping (documents per queue memtable, documents counted
                       in segments) must equal one candidate; every acknowledged document must
                       be visible (add_never_fails_or_lost)
-/

inductive Spawned | rotate | flush | add (d : Nat)
  deriving Repr, DecidableEq

structure St where
  cands : List RSt := [{}]
  holder : Option (Nat × Nat) := none
  spawned : List Spawned := []

def init (ps : List String) : Option St :=
  match ps with
  | ["rotation"] => some {}
  | _ => none

def showDocs (ds : List Nat) : String := if ds.isEmpty then "-" else ",".intercalate (ds.map toString)

/-- the model's bookkeeping in the harness's format:
    `q=<docs of frozen memtable 1>;<…>|mut=<docs of the mutable memtable>|seg=<number of docs in segments>` -/
def showState (s : RSt) : String :=
  let q := ";".intercalate (s.frozenQ.map fun m => showDocs ((docsOf s m).mergeSort (· ≤ ·)))
  s!"q={if s.frozenQ.isEmpty then "-" else q}|mut={showDocs ((docsOf s s.mutable).mergeSort (· ≤ ·))}|seg={s.segments.length}"

/-- one-document memtables: an add rotates iff the mutable memtable already holds a document -/
def addM (t d : Nat) (s : RSt) : RSt := rstep true s (.pick t d (!(docsOf s s.mutable).isEmpty))

/-- a complete flushMemtables() by a fresh flusher -/
def flushM (s : RSt) : RSt :=
  let f := 1000 + s.segments.length + s.snaps.length
  let s1 := rstep true s (.flushSnap f)
  let n := s.frozenQ.length
  let s2 := (List.range n).foldl (fun s _ => rstep true (rstep true s (.flushWrite f)) (.flushDrop f)) s1
  rstep true s2 (.flushWrite f)

/-- an operation that was started while an adder was held, as a little thread of regions -/
inductive Thr
  | rot
  | add (d : Nat)
  | fl (f : Nat) (started : Bool)
  deriving Repr, DecidableEq

def snapRest (s : RSt) (f : Nat) : Option (List Nat) := (s.snaps.find? (·.1 == f)).map (·.2)

/-- one region of such a thread; `none` = the operation returned -/
def thrStep (s : RSt) : Thr → RSt × Option Thr
  | .rot => (rstep true s .rotate, none)
  | .add d => (addM 99 d s, none)
  | .fl f false => (rstep true s (.flushSnap f), some (.fl f true))
  | .fl f true =>
    if s.cur.any (·.1 == f) then (rstep true s (.flushDrop f), some (.fl f true))
    else match snapRest s f with
      | some [] => (rstep true s (.flushWrite f), none)
      | some _ => (rstep true s (.flushWrite f), some (.fl f true))
      | none => (s, none)

/-- order-insensitive normal form (segment documents and flusher tables are sets for everything
    the stream observes): keeps the number of distinct configurations polynomial -/
def canon (s : RSt) : RSt :=
  { s with segments := s.segments.mergeSort (· ≤ ·),
           snaps := s.snaps.mergeSort (fun a b => a.1 ≤ b.1),
           cur := s.cur.mergeSort (fun a b => a.1 ≤ b.1) }

/-- every final state reachable by interleaving the regions of the threads (they run
    concurrently once the held add has released the queue lock): breadth-first over the
    CONFIGURATIONS (state, remaining threads) with duplicates removed at every level, so the
    cost is the number of distinct configurations, not the number of interleavings -/
def explore : Nat → List (RSt × List Thr) → List RSt → List RSt
  | 0, frontier, done => (done ++ frontier.map (·.1)).eraseDups
  | fuel + 1, frontier, done =>
    let fin := frontier.filter (·.2.isEmpty)
    let live := frontier.filter (!·.2.isEmpty)
    let done' := (done ++ fin.map (·.1)).eraseDups
    if live.isEmpty then done' else
    let next := live.flatMap fun (s, thrs) =>
      (List.range thrs.length).filterMap fun i =>
        match thrs[i]? with
        | none => none
        | some t =>
          let (s', t') := thrStep s t
          some (canon s', match t' with
            | some t'' => thrs.set i t''
            | none => thrs.eraseIdx i)
    explore fuel next.eraseDups done'

def toThr (i : Nat) : Spawned → Thr
  | .rotate => .rot
  | .add d => .add d
  | .flush => .fl (2000 + i) false

def mapC (st : St) (f : RSt → RSt) : St := { st with cands := st.cands.map f }

def op (st : St) (toks : List String) : St × String :=
  let (pre, post) := splitOutcome toks
  match pre with
  | ["add", t, d] =>
    match t.toNat?, d.toNat? with
    | some t, some d =>
      let st' := mapC st (addM t d)
      if post == ["ok"] then (st', "ok")
      else (st', s!"SPECFAIL no_spurious_error add({d}) failed: {post}")
    | _, _ => (st, "BADOP add")
  | ["hold", t, d] =>
    match t.toNat?, d.toNat? with
    | some t, some d =>
      if post == ["held"] then ({ st with holder := some (t, d), spawned := [] }, "ok held=1")
      else (mapC st (addM t d), s!"SPECFAIL add({d}) did not reach its yield point: {post}")
    | _, _ => (st, "BADOP hold")
  | "spawn" :: what =>
    let sp : Option Spawned := match what with
      | ["rotate"] => some .rotate
      | ["flush"] => some .flush
      | ["add", d] => d.toNat?.map .add
      | _ => none
    match sp with
    | none => (st, "BADOP spawn")
    | some sp =>
      let st' := { st with spawned := st.spawned ++ [sp] }
      if post == ["blocked"] then (st', "ok blocked=1")
      else (st', s!"SPECFAIL add_never_fails_or_lost {what} completed while an add was between its frozen check and its write: the queue lock does not cover the write (former shape, D15)")
  | ["release", _] =>
    match st.holder with
    | none => (st, "BADOP release without hold")
    | some (t, d) =>
      let after := st.cands.map (addM t d)
      let thrs := (List.range st.spawned.length).zip st.spawned |>.map fun (i, sp) => toThr i sp
      let cands := explore 200 (after.map fun s => (s, thrs)) []
      let st' := { st with cands := cands.eraseDups, holder := none, spawned := [] }
      if post == ["ok"] then (st', s!"ok cands={st'.cands.length}")
      else (st', s!"SPECFAIL no_spurious_error held add({d}) failed: {post}")
  | ["spawned", "add", d] =>
    if post == ["ok"] then (st, "ok") else (st, s!"SPECFAIL no_spurious_error spawned add({d}) failed: {post}")
  | ["rotate"] => (mapC st fun s => rstep true s .rotate, "ok")
  | ["flush"] =>
    let st' := mapC st flushM
    if post == ["ok"] then (st', "ok") else (st', s!"SPECFAIL flush failed: {post}")
  | ["fsnap", f] =>
    match f.toNat? with
    | some f =>
      -- the implementation's answer (snapshot empty or not) selects among the candidate states
      let st1 := mapC st fun s => rstep true s (.flushSnap f)
      let wantEmpty := post == ["empty"]
      let keep := st1.cands.filter fun s => (snapRest s f == some []) == wantEmpty
      let keep' := if wantEmpty then keep.map fun s => rstep true s (.flushWrite f) else keep
      if post != ["empty"] && post != ["parked"] then (st1, s!"BADOP fsnap {post}")
      else if keep'.isEmpty then (st1, s!"DIFF fsnap impl={post} no candidate state has such a snapshot")
      else ({ st1 with cands := keep' }, s!"ok {if wantEmpty then "empty" else "parked"}=1")
    | none => (st, "BADOP fsnap")
  | ["fwrite", f] =>
    match f.toNat? with
    | some f => (mapC st fun s => rstep true s (.flushWrite f), if post == ["parked"] then "ok" else s!"DIFF fwrite impl={post}")
    | none => (st, "BADOP fwrite")
  | ["fdrop", f] =>
    match f.toNat? with
    | some f =>
      let st1 := mapC st fun s => rstep true s (.flushDrop f)
      let wantDone := post == ["done"]
      let keep := st1.cands.filter fun s => (snapRest s f == some []) == wantDone
      let keep' := if wantDone then keep.map fun s => rstep true s (.flushWrite f) else keep
      if post != ["done"] && post != ["parked"] then (st1, s!"BADOP fdrop {post}")
      else if keep'.isEmpty then (st1, s!"DIFF fdrop impl={post} no candidate state agrees")
      else ({ st1 with cands := keep' }, "ok")
    | none => (st, "BADOP fdrop")
  | ["state"] =>
    match post with
    | [impl] =>
      let ok := st.cands.filter fun s => showState s == impl
      match ok with
      | [] =>
        -- independent of the model's bookkeeping: are the acknowledged documents accounted for at all?
        let parts := impl.splitOn "|"
        let idsIn (p : String) : Nat := match (p.splitOn "=") with
          | [_, v] => ((v.splitOn ";").map fun m => if m == "-" then 0 else (m.splitOn ",").length).foldl (· + ·) 0
          | _ => 0
        let held := match parts with
          | [q, m, sg] => idsIn q + idsIn m + (match sg.splitOn "=" with | [_, n] => n.toNat?.getD 0 | _ => 0)
          | _ => 0
        let acked := (st.cands.head?.map (·.acked.length)).getD 0
        if held < acked then
          (st, s!"SPECFAIL add_never_fails_or_lost {acked} documents acknowledged, only {held} in queue memtables and segments: impl={impl}")
        else (st, s!"DIFF state model={(st.cands.map showState)} impl={impl}")
      | s :: _ =>
        let lost := s.acked.filter fun d => !visibleDoc s d
        if lost.isEmpty && s.failed.isEmpty then
          ({ st with cands := ok }, s!"ok acked={s.acked.length} cands={st.cands.length} dupseg={if s.segments.length > s.segments.eraseDups.length then 1 else 0}")
        else ({ st with cands := ok }, s!"SPECFAIL add_never_fails_or_lost lost={showDocs lost} failed={showDocs s.failed}")
    | _ => (st, "BADOP state")
  | _ => (st, "BADOP unknown")

def handler : Handler := { name := "sched", σ := St, init := init, op := op }

end Comet.Driver.SchedStream
