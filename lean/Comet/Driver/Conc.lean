/-
  Streams of C11.

  `conc`  — a logged concurrent history of the real code (2..16 goroutines, one shared instance):
            every op carries invocation / response numbers from one atomic clock.  `judge`
            runs the verified checker `checkVisibility` (Comet.Conc.Proto.checkVisibility_iff;
            the model satisfies the same predicate in every interleaving: lin_visibility), the
            allowed-error rule (consequence of no_spurious_error / Good.addedStored: a failing
            Remove must be explainable by the state some linearisation gives), and id uniqueness
            (ids_unique).
  `sched` — a directed schedule of the store's rotation protocol, realised on the real store at
            the verifPoint yield points; replayed on Comet.Conc.Rot and compared step by step.
-/
import Comet.Driver.Proto
import Comet.Conc.RemoveProto
import Comet.Conc.Rotation
namespace Comet.Driver.ConcStream
open Comet Comet.Driver Comet.Conc.Proto

structure Rec where
  g : Nat
  op : String          -- add | remove | search | flush | write | compact | close | rotate
  id : Nat := 0
  inv : Nat
  resp : Nat
  out : String         -- ok | notfound | deleted | frozen | closed | panic | other
  res : List Nat := []

structure St where
  kind : String
  recs : List Rec := []
  autoIds : List Nat := []
  bad : Option String := none

def init (ps : List String) : Option St :=
  match ps with
  | kind :: _ =>
    if ["flat", "hnsw", "ivf", "pq", "ivfpq", "bm25", "meta", "hybrid", "store"].contains kind
    then some { kind := kind } else none
  | _ => none

def toHOp (r : Rec) : Option HOp :=
  match r.op with
  | "add" => some { kind := .add, id := r.id, inv := r.inv, resp := r.resp, ok := r.out == "ok" }
  | "remove" => some { kind := .remove, id := r.id, inv := r.inv, resp := r.resp, ok := r.out == "ok" }
  | "search" =>
    if r.out == "ok" then some { kind := .search, inv := r.inv, resp := r.resp, res := r.res } else none
  | "flush" | "write" => some { kind := .flush, inv := r.inv, resp := r.resp, ok := r.out == "ok" }
  | _ => none

/-- which clauses of VisibilityOK are judged for a kind.  hnsw: a search is approximate (V1,
    completeness, is C12's subject); store: all memtables and segment loads share the template
    indexes (known findings D13 / D14, C08's subject), only "never returns an id that was not
    added" is judged here. -/
def needV1 (kind : String) : Bool := kind != "hnsw" && kind != "store"
def needV2 (kind : String) : Bool := kind != "store"

def visFail (kind : String) (h : List HOp) : Option String :=
  if needV1 kind && needV2 kind then
    if checkVisibility h then none else
      -- diagnose
      match h.find? (fun S => S.kind == .search && !(checkV1 h S && checkV2 h S && checkV3 h S)) with
      | some S =>
        let w := if !checkV1 h S then "V1-missing" else if !checkV2 h S then "V2-removed-returned" else "V3-phantom"
        some s!"{w} search@[{S.inv},{S.resp}] res={S.res}"
      | none => some "visibility"
  else
    match h.find? (fun S => S.kind == .search &&
        !((!needV1 kind || checkV1 h S) && (!needV2 kind || checkV2 h S) && checkV3 h S)) with
    | some S =>
      let w := if needV1 kind && !checkV1 h S then "V1-missing"
               else if needV2 kind && !checkV2 h S then "V2-removed-returned" else "V3-phantom"
      some s!"{w} search@[{S.inv},{S.resp}] res={S.res}"
    | none => none

def overlaps (a b : Rec) : Bool := decide (a.inv < b.resp) && decide (b.inv < a.resp)

/-- the allowed-error rule; returns (violations, known D15 count) -/
def judgeErrors (kind : String) (rs : List Rec) : List String × Nat :=
  let closeInv : Option Nat := (rs.find? (·.op == "close")).map (·.inv)
  let closedOK (r : Rec) : Bool := match closeInv with
    | some c => decide (c < r.resp)
    | none => false
  rs.foldl (fun (acc : List String × Nat) r =>
    let fail (why : String) := (s!"{why} {r.op}({r.id}) g={r.g} @[{r.inv},{r.resp}] => {r.out}" :: acc.1, acc.2)
    if r.out == "panic" then fail "panic"
    else if r.out == "closed" then (if kind == "store" && closedOK r then acc else fail "spurious-closed")
    else match r.op with
    | "add" =>
      if r.out == "ok" then acc
      else if r.out == "frozen" && kind == "store" then
        -- known finding D15: trigger = another add / rotation overlaps this add in time
        if rs.any fun o => (o.op == "add" || o.op == "rotate") && (o.g != r.g || o.inv != r.inv) && overlaps o r
        then (acc.1, acc.2 + 1) else fail "frozen-without-concurrent-rotation"
      else fail "spurious-error"
    | "remove" =>
      if kind == "store" || kind == "bm25" || kind == "meta" then
        -- store: Remove looks at the mutable memtable only (sequential quirk, C08); bm25 / meta: always nil
        (if r.out == "ok" || kind == "store" then acc else fail "spurious-error")
      else if r.out == "ok" then
        if rs.any fun a => a.op == "add" && a.id == r.id && decide (a.inv < r.resp) then acc
        else fail "remove-ok-of-never-added"
      else if r.out == "notfound" then
        let addedBefore := rs.any fun a => a.op == "add" && a.out == "ok" && a.id == r.id && decide (a.resp < r.inv)
        let removedFlushed := rs.any fun m => m.op == "remove" && m.out == "ok" && m.id == r.id && decide (m.inv < r.resp) &&
          (kind == "hybrid" ||   -- hybrid forgets the document at Remove (docInfo)
           rs.any fun f => (f.op == "flush" || f.op == "write" || f.op == "add") && decide (f.inv < r.resp) && decide (m.inv < f.resp))
        if addedBefore && !removedFlushed then fail "spurious-notfound" else acc
      else if r.out == "deleted" then
        if rs.any fun m => m.op == "remove" && m.out == "ok" && m.id == r.id && (m.g != r.g || m.inv != r.inv) && decide (m.inv < r.resp)
        then acc else fail "spurious-already-deleted"
      else fail "spurious-error"
    | _ => if r.out == "ok" then acc else fail "spurious-error") ([], 0)

def dupOf : List Nat → Option Nat
  | [] => none
  | x :: xs => if xs.contains x then some x else dupOf xs

def judge (st : St) : String :=
  match st.bad with
  | some b => s!"BADOP {b}"
  | none =>
    let rs := st.recs.reverse
    let h := rs.filterMap toHOp
    let (errs, known) := judgeErrors st.kind rs
    match dupOf st.autoIds with
    | some d => s!"SPECFAIL ids_unique duplicate auto id {d}"
    | none =>
      match errs with
      | e :: _ => s!"SPECFAIL no_spurious_error {e}"
      | [] =>
        match visFail st.kind h with
        | some w => s!"SPECFAIL lin_visibility {w}"
        | none =>
          let searches := rs.filter (·.op == "search")
          let writes := rs.filter fun r => r.op == "add" || r.op == "remove" || r.op == "flush"
          let ov := searches.any fun s => writes.any fun w => w.g != s.g && overlaps s w
          let ovw := writes.any fun a => writes.any fun b => a.g != b.g && overlaps a b
          let rem := rs.any fun r => r.op == "remove" && r.out == "ok"
          let ne := searches.any fun s => !s.res.isEmpty
          let flags := s!"ops={rs.length} searches={searches.length} autoids={st.autoIds.length} " ++
            s!"overlap_sw={if ov then 1 else 0} overlap_ww={if ovw then 1 else 0} removed={if rem then 1 else 0} nonempty={if ne then 1 else 0}"
          if known > 0 then s!"KNOWN D15-memtable-add-after-unlock frozen={known} {flags}" else s!"ok {flags}"

def parseRes (s : String) : Option (List Nat) := parseIds s

def op (st : St) (toks : List String) : St × String :=
  let (pre, post) := splitOutcome toks
  let outc := post.headD "other"
  match pre with
  | ["judge"] => (st, judge st)
  | ["autoid", _, id] =>
    match id.toNat? with
    | some id => ({ st with autoIds := id :: st.autoIds }, "ok")
    | none => ({ st with bad := some "autoid" }, "BADOP autoid")
  | "panic" :: _ => (st, "ok")   -- the runner classifies `op panic` lines itself
  | [name, g, id, inv, resp] =>
    match g.toNat?, id.toNat?, inv.toNat?, resp.toNat? with
    | some g, some id, some inv, some resp =>
      if !(["add", "remove"].contains name) then ({ st with bad := some name }, s!"BADOP {name}") else
      ({ st with recs := { g := g, op := name, id := id, inv := inv, resp := resp, out := outc } :: st.recs }, "ok")
    | _, _, _, _ => ({ st with bad := some name }, s!"BADOP {name}")
  | [name, g, inv, resp] =>
    match g.toNat?, inv.toNat?, resp.toNat? with
    | some g, some inv, some resp =>
      if !(["search", "flush", "write", "compact", "close", "rotate"].contains name) then
        ({ st with bad := some name }, s!"BADOP {name}") else
      let res : Option (List Nat) := if name == "search" && outc == "ok" then
          (match post with
           | [_, ids] => parseRes ids
           | _ => none) else some []
      match res with
      | some res =>
        ({ st with recs := { g := g, op := name, inv := inv, resp := resp, out := outc, res := res } :: st.recs }, "ok")
      | none => ({ st with bad := some "search result" }, "BADOP search result")
    | _, _, _ => ({ st with bad := some name }, s!"BADOP {name}")
  | _ => ({ st with bad := some "unknown" }, "BADOP unknown")

def handler : Handler := { name := "conc", σ := St, init := init, op := op }

end Comet.Driver.ConcStream

namespace Comet.Driver.SchedStream
open Comet Comet.Driver Comet.Conc.Rot

/-- directed schedules of the rotation protocol, replayed on `Comet.Conc.Rot` -/
structure St where
  s : RSt := {}
  acts : List RAct := []
  known : Nat := 0

def init (ps : List String) : Option St :=
  match ps with
  | ["rotation"] => some {}
  | _ => none

def showDocs (ds : List Nat) : String := if ds.isEmpty then "-" else ",".intercalate (ds.map toString)

/-- the model's bookkeeping in the harness's format:
    `q=<docs of frozen memtable 1>;<…>|mut=<docs of the mutable memtable>|seg=<number of docs in segments>` -/
def showState (s : RSt) : String :=
  let q := ";".intercalate (s.frozenQ.map fun m => showDocs ((docsOf s m).mergeSort (· ≤ ·)))
  s!"q={if s.frozenQ.isEmpty then "-" else q}|mut={showDocs ((docsOf s s.mutable).mergeSort (· ≤ ·))}|seg={s.segments.length}"

def stepAll (st : St) (as : List RAct) : St :=
  { st with s := as.foldl rstep st.s, acts := st.acts ++ as }

def op (st : St) (toks : List String) : St × String :=
  let (pre, post) := splitOutcome toks
  match pre with
  | ["pick", t, d, rot] =>
    match t.toNat?, d.toNat? with
    | some t, some d => (stepAll st [.pick t d (rot == "1")], "ok")
    | _, _ => (st, "BADOP pick")
  | ["check", t] =>
    match t.toNat? with
    | some t =>
      let st' := stepAll st [.check t]
      let modelFrozen := st'.s.failed.length > st.s.failed.length
      match post with
      | ["frozen"] =>
        if modelFrozen then
          -- trigger: a rotation ran while this add was between pick and check (= the model's
          -- verdict); the faithful model predicts exactly this error
          ({ st' with known := st'.known + 1 }, "KNOWN D15-memtable-add-after-unlock add-on-frozen-fails")
        else (st', "SPECFAIL no_spurious_error add failed with 'memtable is frozen' although no rotation ran since its pick")
      | ["ok"] => if modelFrozen then (st', "DIFF check model=frozen impl=ok") else (st', "ok")
      | _ => (st', s!"SPECFAIL no_spurious_error add failed: {post}")
    | none => (st, "BADOP check")
  | ["write", t] =>
    match t.toNat? with
    | some t =>
      let st' := stepAll st [.write t]
      if post == ["ok"] then (st', "ok") else (st', s!"SPECFAIL no_spurious_error add failed: {post}")
    | none => (st, "BADOP write")
  | ["rotate"] => (stepAll st [.rotate], "ok")
  | ["flush"] =>
    -- flushMemtables(): every frozen memtable of the queue, oldest first: write, then drop
    let as := st.s.frozenQ.flatMap fun m => [RAct.flushWrite m, RAct.flushDrop m]
    let st' := stepAll st as
    if post == ["ok"] then (st', "ok") else (st', s!"SPECFAIL flush failed: {post}")
  | ["state"] =>
    let model := showState st.s
    match post with
    | [impl] =>
      if impl != model then (st, s!"DIFF state model={model} impl={impl}") else
      let lost := st.s.acked.filter fun d => !visibleDoc st.s d
      if lost.isEmpty then
        (st, s!"ok acked={st.s.acked.length} rotation_free={if noRotationDuringAdd {} st.acts then 1 else 0}")
      else if noRotationDuringAdd {} st.acts then
        (st, s!"SPECFAIL rotation_partial lost={showDocs lost} without a rotation concurrent with an add")
      else ({ st with known := st.known + 1 },
            s!"KNOWN D15-memtable-add-after-unlock add-after-flush-lost lost={showDocs lost}")
    | _ => (st, "BADOP state")
  | _ => (st, "BADOP unknown")

def handler : Handler := { name := "sched", σ := St, init := init, op := op }

end Comet.Driver.SchedStream
