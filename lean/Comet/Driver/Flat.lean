/-
  Stream `flat` (C01; reused by C02): replays a history on the faithful model and on
  the specification, compares outcomes, and judges every implementation answer with
  the verified checker `checkTopK` (soundness/completeness: Comet.checkTopK_iff)
  against the specification's candidate list (`Flat.cands (Flat.live …)`).
-/
import Comet.Driver.Proto
namespace Comet.Driver.FlatStream
open Comet Comet.Driver Comet.F32

structure St where
  kind : MetricKind
  s : Flat.State Vec
  live : List (Id × Vec)
  added : List Id

def init (ps : List String) : Option St :=
  match ps with
  | [dim, metric] => do
    let d ← dim.toNat?
    let mk ← MetricKind.parse metric
    pure { kind := mk, s := Flat.init d, live := [], added := [] }
  | _ => none

def errName : Option Err → String
  | none => "ok"
  | some .dim => "dim" | some .zero => "zero" | some .notFound => "notfound"
  | some .deleted => "deleted" | some .untrained => "untrained" | some .noQuery => "noquery"
  | some .other => "other"

def parseAgg : String → Option AggKind
  | "sum" => some .sum | "max" => some .max | "mean" => some .mean | _ => none

/-- explain why `checkTopK` rejected an answer -/
def diagnose (sc : Scalar UInt32) (k : Int) (c res : List (Hit UInt32)) : String :=
  if !sortedB sc.le res then "unsorted"
  else if res.length != sanitizeK k c.length then
    s!"len want={sanitizeK k c.length} got={res.length} cands={c.length}"
  else
    match res.find? (fun h => !c.contains h) with
    | some h =>
      match c.find? (·.id == h.id) with
      | some h' => s!"score id={h.id} impl={hex32 h.score} spec={hex32 h'.score}"
      | none => s!"phantom id={h.id}"
    | none =>
      match subtractAll c res with
      | none => "duplicate"
      | some rest =>
        match res.getLast?, rest.find? (fun r => res.any fun a => !sc.le a.score r.score) with
        | some l, some r => s!"notbest kept={showHit32 l} dropped={showHit32 r}"
        | _, _ => "notbest"

def op (st : St) (toks : List String) : St × String :=
  let m := metric st.kind
  let (pre, post) := splitOutcome toks
  match pre with
  | ["add", id, v] =>
    match id.toNat?, parseVec v with
    | some id, some v =>
      -- adding an id that is currently live is outside C01/C06's quantifier (duplicates)
      if st.live.any (·.1 == id) then (st, "UNSUPPORTED add-of-live-id") else
      let (s', e) := Flat.step m st.s (.add id v)
      let live' := Flat.specStep m st.s.dim st.live (.add id v)
      let st' := { st with s := s', live := live', added := id :: st.added }
      if outcomeAgrees post (errName e) then (st', agreedReply (post.headD "ok")) else (st', s!"DIFF add model={errName e} impl={post}")
    | _, _ => (st, "BADOP add")
  | ["remove", id] =>
    match id.toNat? with
    | some id =>
      let (s', e) := Flat.step m st.s (.remove id)
      let live' := Flat.specStep m st.s.dim st.live (.remove id)
      let st' := { st with s := s', live := live' }
      if outcomeAgrees post (errName e) then (st', agreedReply (post.headD "ok")) else (st', s!"DIFF remove model={errName e} impl={post}")
    | none => (st, "BADOP remove")
  | ["flush"] =>
    let (s', e) := Flat.step m st.s .flush
    let st' := { st with s := s' }
    if outcomeAgrees post (errName e) then (st', agreedReply (post.headD "ok")) else (st', s!"DIFF flush model={errName e} impl={post}")
  | ["vecs"] =>
    -- stored (preprocessed) vectors exported by the implementation, in slice order
    let impl := post.filterMap fun t => match t.splitOn ":" with
      | [i, v] => do pure (← i.toNat?, ← parseVec v)
      | _ => none
    let same := impl.length == st.s.vecs.length &&
      (impl.zip st.s.vecs).all fun (a, c) => a.1 == c.1 && vecHex a.2 == vecHex c.2
    if impl.length != post.length then (st, "BADOP vecs")
    else if same then (st, "ok") else (st, s!"DIFF vecs model={st.s.vecs.length} impl={impl.length}")
  | ["search", k, thr, filt, agg, q] =>
    match parseInt k, parseU32 thr, parseIds filt, parseAgg agg, parseVec q with
    | some k, some thr, some filt, some agg, some q =>
      let model := Flat.execute m st.s [q] [] k thr filt agg
      match post, model with
      | ["err", e], .error _ => (st, agreedErr e)   -- which error: not part of the property (Proto.sameOutcome)
      | ["err", e], .ok _ => (st, s!"DIFF search model=ok impl=err:{e}")
      | "ok" :: _, .error me => (st, s!"DIFF search model=err:{errName (some me)} impl=ok")
      | "ok" :: hits, .ok mres =>
        match hits.mapM parseHit32, m.pre q with
        | some res, some q' =>
          -- specification candidates (single-query aggregation applied per hit)
          let c0 := Flat.cands m st.live q' thr filt
          let c := c0.map fun h => (⟨h.id, reduceVec m.sc agg [h.score]⟩ : Hit UInt32)
          let sc0 := Flat.scan m st.s q' thr filt
          if sc0 != c0 then (st, "DIFF model-vs-spec candidates") else
          if checkTopK m.sc.le k c res then
            let nlive := st.live.length
            let tie : Bool := match res.getLast? with
              | some l => decide ((c.filter (·.score == l.score)).length > 1) && decide (res.length < c.length)
              | none => false
            (st, s!"ok n={res.length} cands={c.length} live={nlive} stored={st.s.vecs.length} tie={if tie then 1 else 0} model={mres.length}")
          else (st, s!"SPECFAIL topk {diagnose m.sc k c res}")
        | _, _ => (st, "BADOP search hits")
      | _, _ => (st, "BADOP search outcome")
    | _, _, _, _, _ => (st, "BADOP search args")
  | _ => (st, "BADOP unknown")

def handler : Handler := { name := "flat", σ := St, init := init, op := op }

end Comet.Driver.FlatStream
