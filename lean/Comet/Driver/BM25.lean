/-
  Stream `bm25` (C03): replays a history of Add / Remove / Flush on the faithful
  model (`Comet.BM25`) and on the specification (`BM25.spec`), compares the exported
  implementation state field by field with the model after every op, and judges every
  search answer against the specification's candidates:

    * ids must be specification candidates (live, eligible, sharing a token),
    * each score must agree with the specification's score up to 1e-6 relative
      (`math.Log` vs libm `log`: the only place a tolerance is used),
    * order and selection are judged by the verified checker `checkTopK`
      (`checkTopK_iff : checkTopK … = true ↔ IsTopK …`) on the implementation's OWN
      scores: exact descending order among the returned hits, and "at least as good
      up to the score tolerance" against the non-returned candidates (whose scores
      only the model can supply).

  Multi-query searches truncate per query *before* aggregating; which of several
  documents tied at a per-query k-th place survive is the implementation's free choice,
  so the final answer is accepted when SOME valid per-query selection explains it
  (bounded enumeration; beyond the bound only necessary conditions are checked and
  the reply carries `ambig=1`).
-/
import Comet.Driver.Proto
import Comet.BM25F
namespace Comet.Driver.BM25Stream
open Comet Comet.Driver Comet.BM25 Comet.BM25F

abbrev Tok := Nat

structure St where
  s : State Tok
  c : Spec Tok
  replaced : Bool

def init (ps : List String) : Option St :=
  match ps with
  | [] => some { s := BM25.init, c := Spec.empty, replaced := false }
  | _ => none

def hex64 (u : UInt64) : String := toHex 16 u.toNat

def parseKV (key : String) (t : String) : Option String :=
  if t.startsWith (key ++ "=") then some ((t.drop (key.length + 1)).toString) else none

/-- "-" = empty; otherwise `sep`-separated items -/
def items (sep : String) (s : String) : List String := if s == "-" then [] else s.splitOn sep

def parseNats (sep : String) (s : String) : Option (List Nat) := (items sep s).mapM String.toNat?

def parsePairs (s : String) : Option (List (Nat × Nat)) :=
  (items "," s).mapM fun it => match it.splitOn ":" with
    | [a, c] => do pure (← a.toNat?, ← c.toNat?)
    | _ => none

def parseTriples (s : String) : Option (List (Nat × Nat × Nat)) :=
  (items "," s).mapM fun it => match it.splitOn ":" with
    | [a, c, d] => do pure (← a.toNat?, ← c.toNat?, ← d.toNat?)
    | _ => none

/-- `id:t.t.t;id:;…` -/
def parseDocToks (s : String) : Option (List (Nat × List Nat)) :=
  (items ";" s).mapM fun it => match it.splitOn ":" with
    | [a, ""] => do pure (← a.toNat?, [])
    | [a, ts] => do pure (← a.toNat?, ← (ts.splitOn ".").mapM String.toNat?)
    | _ => none

def sameMap [DecidableEq α] [DecidableEq β] (impl model : List (α × β)) : Bool :=
  impl.length == model.length && impl.all fun p => aget model p.1 == some p.2

def sameSet (a c : List Nat) : Bool := a.length == c.length && a.all (c.contains ·)

def parseAgg : String → Option (Option AggKind)
  | "sum" => some (some .sum) | "max" => some (some .max) | "mean" => some (some .mean)
  | "default" => some (some .sum)      -- aggregationKind == "" → SumAggregation
  | "bad" => some none                 -- a kind string NewTextAggregation rejects
  | _ => none

def errName : BM25.Err → String
  | .noQuery => "noquery" | .badAgg => "badagg"

/-! ### judging one answer against a candidate list -/

def subst (cands res : List (Hit UInt32)) : List (Hit UInt32) :=
  cands.map fun c => match res.find? (·.id == c.id) with
    | some r => r
    | none => c

/-- `none` = accepted -/
def judge (k : Int) (cands res : List (Hit UInt32)) : Option String :=
  match res.find? (fun r => !cands.any (·.id == r.id)) with
  | some r => some s!"match-set phantom id={r.id}"
  | none =>
    match res.find? (fun r => !cands.any (fun c => c.id == r.id && closeRel r.score c.score)) with
    | some r =>
      let sp := ((cands.find? (·.id == r.id)).map (hex32 ·.score)).getD "?"
      some s!"score id={r.id} impl={hex32 r.score} spec={sp}"
    | none =>
      if !sortedB geExact res then some "order unsorted" else
      let c' := subst cands res
      if checkTopK geTol k c' res then none else
      if res.length != sanitizeK k c'.length then
        some s!"topk len want={sanitizeK k c'.length} got={res.length} cands={c'.length}"
      else match subtractAll c' res with
        | none => some "topk duplicate"
        | some rest =>
          match res.getLast?, rest.find? (fun r => res.any fun a => !geTol a.score r.score) with
          | some l, some r => some s!"topk notbest kept={showHit32 l} dropped={showHit32 r}"
          | _, _ => some "topk notbest"

/-! ### valid per-query selections (multi-query searches only) -/

def subsetsOfSize : Nat → List α → List (List α)
  | 0, _ => [[]]
  | _ + 1, [] => []
  | r + 1, a :: t => (subsetsOfSize r t).map (a :: ·) ++ subsetsOfSize (r + 1) t

def choose : Nat → Nat → Nat
  | _, 0 => 1
  | 0, _ + 1 => 0
  | n + 1, r + 1 => choose n r + choose n (r + 1)

structure Sel where
  definite : List (Hit UInt32)
  free : List (Hit UInt32)
  r : Nat

def descSort (xs : List (Hit UInt32)) : List (Hit UInt32) := xs.mergeSort (hitLe geExact)

/-- the selections `searchSingleQuery` may return for candidates `c` and this `k` -/
def selOf (k : Int) (c : List (Hit UInt32)) : Sel :=
  if k ≤ 0 ∨ k ≥ (c.length : Int) then ⟨c, [], 0⟩ else
  let kk := k.toNat
  let sorted := descSort c
  match sorted[kk - 1]?, sorted[kk]? with
  | some kth, some nxt =>
    let top := sorted.take kk
    let bot := sorted.drop kk
    let freeTop := top.filter fun d => geTol nxt.score d.score
    let freeBot := bot.filter fun d => geTol d.score kth.score
    let defn := top.filter fun d => !geTol nxt.score d.score
    ⟨defn, freeTop ++ freeBot, kk - defn.length⟩
  | _, _ => ⟨c, [], 0⟩

def Sel.count (s : Sel) : Nat := choose s.free.length s.r
def Sel.all (s : Sel) : List (List (Hit UInt32)) := (subsetsOfSize s.r s.free).map (s.definite ++ ·)

def product : List (List α) → List (List α)
  | [] => [[]]
  | xs :: rest => let ps := product rest; xs.flatMap fun x => ps.map (x :: ·)

def aggOf (kind : AggKind) (sel : List (List (Hit UInt32))) : List (Hit UInt32) :=
  let all := sel.flatten
  if all.isEmpty then all else textAggregate F32.scalar kind all

def enumCap : Nat := 4000

def b2s (b : Bool) : String := if b then "1" else "0"

def hasDup [DecidableEq α] : List α → Bool
  | [] => false
  | a :: t => t.contains a || hasDup t

def op (st : St) (toks : List String) : St × String :=
  let (pre, post) := splitOutcome toks
  let consistent (st' : St) (reply : String) : St × String :=
    if st'.s.docTokens == st'.c.corpus && st'.s.deleted == st'.c.tomb then (st', reply)
    else (st', "DIFF model-vs-spec state")
  match pre with
  | ["add", id, ts] =>
    match id.toNat?, parseNats "," ts with
    | some id, some ts =>
      let rep := (aget st.c.corpus id).isSome
      let st' := { st with s := BM25.add st.s id ts, c := specStep st.c (.add id ts),
                           replaced := st.replaced || rep }
      if post == ["ok"] then consistent st' s!"ok replace={b2s rep} readd={b2s (st.c.tomb.contains id)} empty={b2s ts.isEmpty} dup={b2s (hasDup ts)}"
      else (st', s!"DIFF add model=ok impl={post}")
    | _, _ => (st, "BADOP add")
  | ["remove", id] =>
    match id.toNat? with
    | some id =>
      let known := (aget st.c.corpus id).isSome
      let again := st.c.tomb.contains id
      let st' := { st with s := BM25.remove st.s id, c := specStep st.c (.remove id) }
      if post == ["ok"] then consistent st' s!"ok absent={b2s (!known)} again={b2s again}"
      else (st', s!"DIFF remove model=ok impl={post}")
    | none => (st, "BADOP remove")
  | ["flush"] =>
    let st' := { st with s := BM25.flush st.s, c := specStep st.c .flush }
    if post == ["ok"] then consistent st' s!"ok flushed={b2s (!st.c.tomb.isEmpty)}"
    else (st', s!"DIFF flush model=ok impl={post}")
  | ["state"] =>
    match post with
    | [n, tot, avg, len, df, tf, del, dt] =>
      match (parseKV "n" n).bind String.toInt?, (parseKV "tot" tot).bind String.toInt?,
            (parseKV "avg" avg).bind parseHex, (parseKV "len" len).bind parsePairs,
            (parseKV "df" df).bind parsePairs, (parseKV "tf" tf).bind parseTriples,
            (parseKV "del" del).bind (parseNats ","), (parseKV "dt" dt).bind parseDocToks with
      | some n, some tot, some avg, some len, some df, some tf, some del, some dt =>
        let s := st.s
        let mavg := (avgF s.avgDocLen).toBits.toNat
        let mdf := s.postings.map fun p => (p.1, p.2.length)
        let mtf := s.tf.flatMap fun p => p.2.map fun e => ((p.1, e.1), e.2)
        let itf := tf.map fun (a, c, d) => ((a, c), d)
        if n != s.numDocs then (st, s!"DIFF numDocs model={s.numDocs} impl={n}")
        else if tot != s.totalTokens then (st, s!"DIFF totalTokens model={s.totalTokens} impl={tot}")
        else if avg != mavg then (st, s!"DIFF avgDocLen model={toHex 16 mavg} impl={toHex 16 avg}")
        else if !sameMap len s.docLengths then (st, "DIFF docLengths")
        else if !sameMap df mdf then (st, s!"DIFF df model={mdf} impl={df}")
        else if !sameMap itf mtf then (st, "DIFF tf")
        else if !sameSet del s.deleted then (st, s!"DIFF deleted model={s.deleted} impl={del}")
        else if !sameMap dt s.docTokens then (st, "DIFF docTokens")
        -- the specification's statistics, for the record (theorem bm25_inv ties them to the model)
        else if s.numDocs != (st.c.N : Int) || s.totalTokens != (st.c.total : Int) || s.avgDocLen != st.c.avg then
          (st, "DIFF model-vs-spec stats")
        else (st, s!"ok pending={b2s (!s.deleted.isEmpty)}")
      | _, _, _, _, _, _, _, _ => (st, "BADOP state fields")
    | _ => (st, "BADOP state")
  | "search" :: k :: filt :: agg :: qs =>
    match parseInt k, parseIds filt, parseAgg agg, qs.mapM (parseNats ",") with
    | some k, some filt, some kind, some queries =>
      let model := BM25.execute scoring F32.scalar st.s queries k filt kind
      match post, model with
      -- both refuse the search (no query / unknown aggregation kind); which error: free (Proto.sameOutcome)
      | ["err", e], .error me => (st, s!"{agreedErr e} model-{errName me}=1")
      | ["err", e], .ok _ => (st, s!"DIFF search model=ok impl=err:{e}")
      | "ok" :: _, .error me => (st, s!"DIFF search model=err:{errName me} impl=ok")
      | "ok" :: hits, .ok mres =>
        match hits.mapM parseHit32, kind with
        | some res, some kind =>
          -- specification candidates per query (float64), and as float32 results
          let c64 := queries.map fun q => specCands scoring st.c q filt
          let c32 := c64.map fun c => c.map fun h => (⟨h.id, scoring.toS h.score⟩ : Hit UInt32)
          -- the faithful model's score map must be the specification's candidate set, bit for bit
          let modelOK := (queries.zip c64).all fun (q, c) =>
            let m := if q.isEmpty || st.s.numDocs == 0 then [] else toHits (scoreMap scoring st.s filt q)
            m.length == c.length && m.all (c.contains ·)
          if !modelOK then (st, "DIFF model-vs-spec candidates") else
          let sels := c32.map (selOf k)
          let heapPath := c32.any fun c => 0 < k && k < (c.length : Int)
          let tie := sels.any (!·.free.isEmpty)
          let unfiltered := queries.map fun q => (specCands scoring st.c q []).length
          let filtCut := !filt.isEmpty && (unfiltered.zip c32).any fun (u, c) => c.length < u
          let exact := match c32 with
            | [c] => res.all fun r => c.any fun h => h.id == r.id && h.score == r.score
            | _ => true
          let flags := s!"n={res.length} nonempty={b2s (!res.isEmpty)} big={b2s (res.length > 10)} bitexact={b2s exact} cands={(c32.map List.length).foldl max 0} heap={b2s heapPath} tie={b2s tie} multi={b2s (queries.length > 1)} filt={b2s filtCut} tomb={b2s (!st.c.tomb.isEmpty)} repl={b2s st.replaced} dupq={b2s (queries.any hasDup)} trunc={b2s heapPath} model={mres.length}"
          match c32 with
          | [c] =>
            -- single query: aggregation of singletons is the identity on scores
            let c := c.map fun h => (⟨h.id, reduceVec F32.scalar kind [h.score]⟩ : Hit UInt32)
            match judge k c res with
            | none => (st, s!"ok {flags}")
            | some why => (st, s!"SPECFAIL {why}")
          | _ =>
            let total := sels.foldl (fun acc s => acc * s.count) 1
            if total ≤ enumCap then
              let combos := product (sels.map Sel.all)
              let verdicts := combos.map fun sel => judge k (aggOf kind sel) res
              if verdicts.any Option.isNone then (st, s!"ok {flags} combos={total}")
              else match verdicts.head? with
                | some (some why) => (st, s!"SPECFAIL multi {why}")
                | _ => (st, "SPECFAIL multi no-selection")
            else
              -- necessary conditions only
              let union := c32.flatten
              let maxAgg := aggOf kind c32
              let idsOK := res.all fun r => union.any (·.id == r.id)
              let lenOK := decide (res.length ≤ sanitizeK k maxAgg.length)
              if idsOK && lenOK && sortedB geExact res && !hasDup (res.map (·.id))
              then (st, s!"ok {flags} ambig=1")
              else (st, "SPECFAIL multi necessary-conditions")
        | _, _ => (st, "BADOP search hits")
      | _, _ => (st, "BADOP search outcome")
    | _, _, _, _ => (st, "BADOP search args")
  | _ => (st, "BADOP unknown")

def handler : Handler := { name := "bm25", σ := St, init := init, op := op }

end Comet.Driver.BM25Stream
