/-
  Comet.Hybrid — write path of the hybrid index (hybrid_search_index.go: Add, AddWithID,
  addInternal, Remove, Flush) over *visibility models* of the three sub-indexes.

  A visibility model keeps exactly what decides whether a document is findable and with
  which content: the content stored under each id and the soft-delete tombstones.  How a
  kind ranks or scores is the business of C01–C04; C06 is about which content is reachable
  at all.  States are finite maps written as total functions `Id → …` (absent = `[]` /
  `none`), which keeps every law a one-line case split.

    VecIdx  : flat / IVF / PQ / IVFPQ / HNSW alike — Add validates (dimension, zero vector
              under cosine, trained), purges ALL tombstoned entries when the id is
              tombstoned (flushLocked), appends; Remove soft-deletes (error when nothing
              is stored under the id, or when it is already tombstoned); Flush purges.
    TxtIdx  : BM25 — Add hard-removes an existing document of that id, clears the
              tombstone, stores; Remove soft-deletes (never an error); Flush purges.
    MetaIdx : roaring metadata — Add validates all value types first, then merges the
              fields into the id's entry; Remove is hard and never fails.

  Parameters: `vpre : V → Except Err V` is validation + the metric's preprocessing of the
  vector kind; `mok : M → Bool` says whether every metadata value has a supported type.
-/
import Comet.TopK
import Comet.Vector.Flat
namespace Comet.Hybrid

variable {V T M : Type}

/-! ### vector sub-index -/
structure VecIdx (V : Type) where
  entries : Id → List V      -- everything stored under the id, oldest first (incl. tombstoned)
  deleted : Id → Bool

namespace VecIdx
def empty : VecIdx V := ⟨fun _ => [], fun _ => false⟩
/-- `flushLocked` -/
def purge (x : VecIdx V) : VecIdx V :=
  ⟨fun j => if x.deleted j then [] else x.entries j, fun _ => false⟩
/-- returns the index as it is after the call, and the error if any (validation
    precedes every mutation in all five kinds) -/
def add (vpre : V → Except Err V) (x : VecIdx V) (id : Id) (v : V) : VecIdx V × Option Err :=
  match vpre v with
  | .error e => (x, some e)
  | .ok v' =>
    let x1 := if x.deleted id then x.purge else x
    (⟨fun j => if j = id then x1.entries j ++ [v'] else x1.entries j, x1.deleted⟩, none)
def remove (x : VecIdx V) (id : Id) : VecIdx V × Option Err :=
  if (x.entries id).isEmpty then (x, some .notFound)
  else if x.deleted id then (x, some .deleted)
  else (⟨x.entries, fun j => if j = id then true else x.deleted j⟩, none)
def flush (x : VecIdx V) : VecIdx V := x.purge
/-- the vectors a search can return under `id` -/
def visible (x : VecIdx V) (id : Id) : List V := if x.deleted id then [] else x.entries id
end VecIdx

/-! ### text sub-index -/
structure TxtIdx (T : Type) where
  docs : Id → Option T
  deleted : Id → Bool

namespace TxtIdx
def empty : TxtIdx T := ⟨fun _ => none, fun _ => false⟩
def add (x : TxtIdx T) (id : Id) (t : T) : TxtIdx T :=
  ⟨fun j => if j = id then some t else x.docs j, fun j => if j = id then false else x.deleted j⟩
def remove (x : TxtIdx T) (id : Id) : TxtIdx T :=
  if (x.docs id).isNone then x
  else if x.deleted id then x
  else ⟨x.docs, fun j => if j = id then true else x.deleted j⟩
def flush (x : TxtIdx T) : TxtIdx T :=
  ⟨fun j => if x.deleted j then none else x.docs j, fun _ => false⟩
def visible (x : TxtIdx T) (id : Id) : Option T := if x.deleted id then none else x.docs id
end TxtIdx

/-! ### metadata sub-index -/
structure MetaIdx (M : Type) where
  docs : Id → List M      -- one element per `Add`; a document's fields are the union

namespace MetaIdx
def empty : MetaIdx M := ⟨fun _ => []⟩
def add (mok : M → Bool) (x : MetaIdx M) (id : Id) (m : M) : MetaIdx M × Option Err :=
  if mok m then (⟨fun j => if j = id then x.docs j ++ [m] else x.docs j⟩, none)
  else (x, some .other)
def remove (x : MetaIdx M) (id : Id) : MetaIdx M := ⟨fun j => if j = id then [] else x.docs j⟩
def visible (x : MetaIdx M) (id : Id) : List M := x.docs id
end MetaIdx

/-! ### the hybrid index -/
structure Info where
  hasVector : Bool
  hasText : Bool
  hasMeta : Bool
deriving DecidableEq, Repr

structure State (V T M : Type) where
  vec : Option (VecIdx V)
  txt : Option (TxtIdx T)
  mdx : Option (MetaIdx M)
  info : Id → Option Info
  counter : Nat             -- the global node-id counter (node.go)

def init (hasV hasT hasM : Bool) (counter : Nat) : State V T M :=
  { vec := if hasV then some .empty else none,
    txt := if hasT then some .empty else none,
    mdx := if hasM then some .empty else none,
    info := fun _ => none, counter }

structure Params (V M : Type) where
  vpre : V → Except Err V
  mok : M → Bool

/-- a document as passed to Add: each modality supplied or not
    (`vector != nil && len(vector) > 0`, `text != ""`, `len(metadata) > 0`) -/
structure Doc (V T M : Type) where
  vec : Option V
  txt : Option T
  md : Option M

/-- step 1 of addInternal: the vector sub-add -/
def addVec (p : Params V M) (s : State V T M) (id : Id) (d : Doc V T M) :
    State V T M × Bool × Option Err :=
  match s.vec, d.vec with
  | some x, some v => ({ s with vec := some (x.add p.vpre id v).1 }, true, (x.add p.vpre id v).2)
  | _, _ => (s, false, none)

/-- step 2: the text sub-add (BM25 Add cannot fail) -/
def addTxt (s : State V T M) (id : Id) (d : Doc V T M) : State V T M × Bool :=
  match s.txt, d.txt with
  | some x, some t => ({ s with txt := some (x.add id t) }, true)
  | _, _ => (s, false)

/-- step 3: the metadata sub-add -/
def addMeta (p : Params V M) (s : State V T M) (id : Id) (d : Doc V T M) :
    State V T M × Bool × Option Err :=
  match s.mdx, d.md with
  | some x, some m => ({ s with mdx := some (x.add p.mok id m).1 }, true, (x.add p.mok id m).2)
  | _, _ => (s, false, none)

/-- the up-front validation added by the fix -/
def badMeta (p : Params V M) (s : State V T M) (d : Doc V T M) : Bool :=
  match s.mdx, d.md with
  | some _, some m => !p.mok m
  | _, _ => false

/-- `addInternal` (after comet commit "fix: a rejected Add leaves no partial document").
    Returns the state as it is when the call returns — on failure: with whatever the
    earlier sub-adds already did — and the error if any.  That a failure leaves the state
    untouched is therefore a THEOREM (`add_fail_unchanged`), not a modelling convention. -/
def addInternal (p : Params V M) (s : State V T M) (id : Id) (d : Doc V T M) :
    State V T M × Option Err :=
  if badMeta p s d then (s, some .other) else
  let r1 := addVec p s id d
  if r1.2.2.isSome then (r1.1, r1.2.2) else
  let r2 := addTxt r1.1 id d
  let r3 := addMeta p r2.1 id d
  if r3.2.2.isSome then (r3.1, r3.2.2) else
  ({ r3.1 with info := fun j => if j = id then some ⟨r1.2.1, r2.2, r3.2.1⟩ else r3.1.info j }, none)

/-- the unrepaired `addInternal` (no up-front validation), kept to state what was wrong -/
def addInternalOld (p : Params V M) (s : State V T M) (id : Id) (d : Doc V T M) :
    State V T M × Option Err :=
  let r1 := addVec p s id d
  if r1.2.2.isSome then (r1.1, r1.2.2) else
  let r2 := addTxt r1.1 id d
  let r3 := addMeta p r2.1 id d
  if r3.2.2.isSome then (r3.1, r3.2.2) else
  ({ r3.1 with info := fun j => if j = id then some ⟨r1.2.1, r2.2, r3.2.1⟩ else r3.1.info j }, none)

inductive Op (V T M : Type)
  | add (d : Doc V T M)                 -- auto id
  | addWithID (id : Id) (d : Doc V T M)
  | remove (id : Id)
  | flush

/-- outcome: the id returned by `Add` (also on failure: NewVectorNode draws it first) and the error -/
structure Out where
  id : Option Id
  err : Option Err

def removeVec (s : State V T M) (id : Id) (inf : Info) : State V T M × Option Err :=
  match s.vec with
  | some x =>
    if inf.hasVector then ({ s with vec := some (x.remove id).1 }, (x.remove id).2) else (s, none)
  | none => (s, none)

def removeTxt (s : State V T M) (id : Id) (inf : Info) : State V T M :=
  match s.txt with
  | some x => if inf.hasText then { s with txt := some (x.remove id) } else s
  | none => s

def removeMeta (s : State V T M) (id : Id) (inf : Info) : State V T M :=
  match s.mdx with
  | some x => if inf.hasMeta then { s with mdx := some (x.remove id) } else s
  | none => s

/-- `hybridSearchIndex.Remove`: returns the state when the call returns, and the error -/
def remove (s : State V T M) (id : Id) : State V T M × Option Err :=
  match s.info id with
  | none => (s, some .notFound)
  | some inf =>
    let r1 := removeVec s id inf
    if r1.2.isSome then r1 else
    let s3 := removeMeta (removeTxt r1.1 id inf) id inf
    ({ s3 with info := fun j => if j = id then none else s3.info j }, none)

def flush (s : State V T M) : State V T M :=
  { s with vec := s.vec.map VecIdx.flush, txt := s.txt.map TxtIdx.flush }

def step (p : Params V M) (s : State V T M) : Op V T M → State V T M × Out
  | .add d =>
    let id := s.counter + 1
    let r := addInternal p { s with counter := id } id d
    (r.1, ⟨some id, r.2⟩)
  | .addWithID id d =>
    let r := addInternal p s id d
    (r.1, ⟨none, r.2⟩)
  | .remove id =>
    let r := remove s id
    (r.1, ⟨none, r.2⟩)
  | .flush => (flush s, ⟨none, none⟩)

def run (p : Params V M) (s : State V T M) (ops : List (Op V T M)) : State V T M :=
  ops.foldl (fun s op => (step p s op).1) s

/-! ### what a user can observe: per-modality content findable under an id -/
def vecVisible (s : State V T M) (id : Id) : List V :=
  match s.vec with | some x => x.visible id | none => []
def txtVisible (s : State V T M) (id : Id) : Option T :=
  match s.txt with | some x => x.visible id | none => none
def metaVisible (s : State V T M) (id : Id) : List M :=
  match s.mdx with | some x => x.visible id | none => []

/-- the three observations of one id -/
def observe (s : State V T M) (id : Id) : List V × Option T × List M :=
  (vecVisible s id, txtVisible s id, metaVisible s id)

end Comet.Hybrid
