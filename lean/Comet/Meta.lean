/-
  Comet.Meta — faithful model of metadata_index.go / metadata_index_search.go
  (RoaringMetadataIndex: Add, Remove, getExistenceBitmap, queryCategorical,
  queryNumeric, toInt64, Not, Execute, executeSimpleFilters, executeFilterGroups,
  executeGroup, evaluateFilter).  Quirks are kept:

  * `Add` first validates every value (`validateMetadata`, since the repair of D5, commit
    350a3cb: an unsupported dynamic type is rejected before anything is touched), then puts
    the id into `allDocs`, then walks the metadata map (the `default:` error branch of that
    loop is still there, unreachable after the validation);
  * the categorical key is the *string* `field + ":" + value`;
  * `getExistenceBitmap` on a non-numeric field unions the keys with prefix `field:`
    and `len(key) >= len(prefix)` (since the repair of D7, commit eaadada; it was `>`,
    which dropped the empty-string value);
  * a field is numeric iff a BSI exists under its name (BSIs are never deleted);
  * numeric comparisons go through roaring's `BSI.CompareValue` (Comet.BSI, wrong for
    mixed signs — D8);
  * `Not` has no case for `range` (identity — D9);
  * `Execute`: groups take precedence over simple filters; simple filters stop at the
    first empty intermediate result (later filters are not even evaluated, so their
    errors are not reported); a group with no filter yields all documents; any
    `Logic` other than `AND` behaves like `OR`.

  The specification (`Comet/MetaSpec.lean`) is separate.
-/
import Comet.BSI
namespace Comet.Meta

/-- a stored metadata value after `Add`'s type switch: `int`/`int64` → `int`,
    `float64` → `int (int64(v*100))` (the conversion is computed by the harness,
    independently of comet), `string` → `str`, `bool` → `str "true"/"false"`. -/
inductive Value
  | int (x : I64)
  | str (s : String)
deriving DecidableEq, Repr

/-- a filter operand (`interface{}`): numbers carry the `int64` that `toInt64` yields
    and their `fmt.Sprintf("%v", ·)` rendering (used when the field is categorical);
    strings and bools (`"true"`/`"false"`) are `str` (`toInt64` rejects them). -/
inductive Operand
  | int (x : I64) (txt : String)
  | str (s : String)
deriving DecidableEq, Repr

def Operand.val : Operand → Value
  | .int x _ => .int x
  | .str s => .str s

/-- `fmt.Sprintf("%v", value)` -/
def Operand.txt : Operand → String
  | .int _ t => t
  | .str s => s

/-- `toInt64`: `none` = "cannot convert %T to int64" -/
def Operand.toInt64 : Operand → Option I64
  | .int x _ => some x
  | .str _ => none

inductive CmpOp | eq | ne | gt | gte | lt | lte
deriving DecidableEq, Repr

/-- `Filter{Field, Operator, Value, Value2}` for the eleven operators of the property -/
inductive Filter
  | cmp (op : CmpOp) (field : String) (v : Operand)
  | range (field : String) (lo hi : Operand)
  /-- `in` (`neg = false`) / `not_in`; `vs = none`: `Value` is neither `[]string` nor `[]interface{}` -/
  | isIn (neg : Bool) (field : String) (vs : Option (List Operand))
  /-- `exists` (`neg = false`) / `not_exists` -/
  | ex (neg : Bool) (field : String)
deriving Repr

def Filter.field : Filter → String
  | .cmp _ f _ | .range f _ _ | .isIn _ f _ | .ex _ f => f

/-- the `Operator` string -/
def Filter.opName : Filter → String
  | .cmp .eq _ _ => "eq" | .cmp .ne _ _ => "ne" | .cmp .gt _ _ => "gt"
  | .cmp .gte _ _ => "gte" | .cmp .lt _ _ => "lt" | .cmp .lte _ _ => "lte"
  | .range _ _ _ => "range"
  | .isIn false _ _ => "in" | .isIn true _ _ => "not_in"
  | .ex false _ => "exists" | .ex true _ => "not_exists"

/-- `Not(filter)`: the operator table of metadata_index.go; no case for `range`. -/
def notF : Filter → Filter
  | .cmp .eq f v => .cmp .ne f v
  | .cmp .ne f v => .cmp .eq f v
  | .cmp .gt f v => .cmp .lte f v
  | .cmp .gte f v => .cmp .lt f v
  | .cmp .lt f v => .cmp .gte f v
  | .cmp .lte f v => .cmp .gt f v
  | .isIn n f vs => .isIn (!n) f vs
  | .ex n f => .ex (!n) f
  | .range f lo hi => .range f lo hi

inductive ErrKind
  /-- "unsupported operator for categorical field: …" -/
  | unsupportedCat
  /-- "unsupported operator for numeric field: …" -/
  | unsupportedNum
  /-- "cannot convert %T to int64" -/
  | convert
  /-- "'in' / 'not_in' operator requires []string or []interface{} value" -/
  | inList
deriving DecidableEq, Repr

/-- `group = some i`: wrapped as "error executing group i: …" -/
structure Err where
  group : Option Nat
  kind : ErrKind
deriving DecidableEq, Repr

structure State where
  /-- `map["field:value"] → bitmap` (keys are never deleted) -/
  categorical : List (String × RB)
  /-- `map[field] → BSI` (never deleted) -/
  numeric : List (String × BSI.T)
  allDocs : RB
deriving Repr

def init : State := ⟨[], [], []⟩

/-- Go map update `m[k] = f(m[k])` on an association list with unique keys -/
def upsert {β : Type} (k : String) (f : Option β → β) : List (String × β) → List (String × β)
  | [] => [(k, f none)]
  | (k', v) :: r => if k' == k then (k', f (some v)) :: r else (k', v) :: upsert k f r

/-- `fmt.Sprintf("%s:%s", field, value)` -/
def keyOf (field value : String) : String := field ++ ":" ++ value

/-- `addCategorical` -/
def addCategorical (s : State) (field value : String) (id : Nat) : State :=
  let upd : Option RB → RB := fun o => match o with
    | some bm => RB.add bm id
    | none => RB.add [] id          -- `roaring.New()` first
  { s with categorical := upsert (keyOf field value) upd s.categorical }

/-- `addNumeric` -/
def addNumeric (s : State) (field : String) (id : Nat) (v : I64) : State :=
  let upd : Option BSI.T → BSI.T := fun o => match o with
    | some b => BSI.setValue b id v
    | none => BSI.setValue BSI.new id v   -- `bsi.NewBSI(bsi.Min64BitSigned, bsi.Max64BitSigned)` first
  { s with numeric := upsert field upd s.numeric }

/-- the `for key, value := range metadata` loop of `Add`, in the order the map iteration
    happened to take; `none` = a value of unsupported dynamic type.  Returns the state
    and whether the error was returned. -/
def addKVs (id : Nat) : State → List (String × Option Value) → State × Bool
  | s, [] => (s, false)
  | s, (k, some (.int x)) :: r => addKVs id (addNumeric s k id x) r
  | s, (k, some (.str v)) :: r => addKVs id (addCategorical s k v id) r
  | s, (_, none) :: _ => (s, true)

/-- `validateMetadata`: every value has a type `Add` can store -/
def validateMetadata (kvs : List (String × Option Value)) : Bool := kvs.all (·.2.isSome)

/-- `Add` -/
def add (s : State) (id : Nat) (kvs : List (String × Option Value)) : State × Bool :=
  if !validateMetadata kvs then (s, true) else
  addKVs id { s with allDocs := RB.add s.allDocs id } kvs

/-- `Remove` (always returns nil) -/
def remove (s : State) (id : Nat) : State :=
  { categorical := s.categorical.map fun kb => (kb.1, RB.remove kb.2 id)
    numeric := s.numeric.map fun kb => (kb.1, BSI.clearValues kb.2 [id])
    allDocs := RB.remove s.allDocs id }

inductive HOp
  | add (id : Nat) (kvs : List (String × Option Value))
  | remove (id : Nat)
deriving Repr

def step (s : State) : HOp → State
  | .add id kvs => (add s id kvs).1
  | .remove id => remove s id

def run (ops : List HOp) : State := ops.foldl step init

/-- `len(key) >= len(prefix) && key[:len(prefix)] == prefix` (a byte-wise prefix test;
    on valid UTF-8 it coincides with the character-wise one) -/
def hasPrefix (key pre : String) : Bool :=
  decide (key.toList.length ≥ pre.toList.length) && pre.toList.isPrefixOf key.toList

/-- `getExistenceBitmap` -/
def getExistenceBitmap (s : State) (field : String) : RB :=
  match s.numeric.lookup field with
  | some b => b.eBM
  | none =>
    let pre := field ++ ":"
    s.categorical.foldl (fun acc kb => if hasPrefix kb.1 pre then RB.or acc kb.2 else acc) []

/-- `idx.categorical[key]` with the `exists` flag -/
def catLookup (s : State) (key : String) : Option RB := s.categorical.lookup key

/-- one round of the `in` loop: `if bitmap, exists := idx.categorical[key]; exists { result.Or(bitmap) }` -/
def inStep (s : State) (f : String) (acc : RB) (v : Operand) : RB :=
  match catLookup s (keyOf f v.txt) with
  | some bm => RB.or acc bm
  | none => acc

/-- one round of the `not_in` loop: `result.AndNot(bitmap)` when the key exists -/
def notInStep (s : State) (f : String) (acc : RB) (v : Operand) : RB :=
  match catLookup s (keyOf f v.txt) with
  | some bm => RB.andNot acc bm
  | none => acc

/-- `queryCategorical` -/
def queryCategorical (s : State) : Filter → Except ErrKind RB
  | .cmp .eq f v =>
    match catLookup s (keyOf f v.txt) with
    | some bm => .ok bm
    | none => .ok []
  | .cmp .ne f v =>
    match catLookup s (keyOf f v.txt) with
    | some bm => .ok (RB.andNot s.allDocs bm)
    | none => .ok s.allDocs
  | .isIn false f (some vs) =>
    .ok (vs.foldl (inStep s f) [])
  | .isIn true f (some vs) =>
    .ok (vs.foldl (notInStep s f) s.allDocs)
  | .isIn _ _ none => .error .inList
  | _ => .error .unsupportedCat

/-- `queryNumeric` -/
def queryNumeric (b : BSI.T) : Filter → Except ErrKind RB
  | .cmp op _ v =>
    match v.toInt64 with
    | none => .error .convert
    | some x =>
      match op with
      | .eq => .ok (BSI.compareValue b .eq x 0)
      | .ne => .ok (RB.andNot b.eBM (BSI.compareValue b .eq x 0))
      | .gt => .ok (BSI.compareValue b .gt x 0)
      | .gte => .ok (BSI.compareValue b .ge x 0)
      | .lt => .ok (BSI.compareValue b .lt x 0)
      | .lte => .ok (BSI.compareValue b .le x 0)
  | .range _ lo hi =>
    match lo.toInt64 with
    | none => .error .convert
    | some l =>
      match hi.toInt64 with
      | none => .error .convert
      | some h => .ok (BSI.compareValue b .range l h)
  | _ => .error .unsupportedNum

/-- `evaluateFilter` -/
def evaluateFilter (s : State) (flt : Filter) : Except ErrKind RB :=
  match flt with
  | .ex false f => .ok (getExistenceBitmap s f)
  | .ex true f => .ok (RB.andNot s.allDocs (getExistenceBitmap s f))
  | _ =>
    match s.numeric.lookup flt.field with
    | some b => queryNumeric b flt
    | none => queryCategorical s flt

/-- the loop of `executeSimpleFilters`; `res = none` is the nil bitmap -/
def simpleLoop (s : State) : List Filter → Option RB → Except ErrKind RB
  | [], none => .ok []
  | [], some r => .ok r
  | f :: fs, res =>
    match evaluateFilter s f with
    | .error e => .error e
    | .ok bm =>
      let r := match res with | none => bm | some r => RB.and r bm
      if r.isEmpty then .ok r else simpleLoop s fs (some r)

def executeSimpleFilters (s : State) (fs : List Filter) : Except ErrKind RB := simpleLoop s fs none

/-- `LogicOperator`: anything that is not `AND` combines with `Or` -/
inductive Logic | and | or | other
deriving DecidableEq, Repr

structure Group where
  logic : Logic
  filters : List Filter
deriving Repr

/-- the loop of `executeGroup` (non-empty filter list) -/
def groupLoop (s : State) (logic : Logic) : List Filter → Option RB → Except ErrKind RB
  | [], none => .ok []       -- unreachable: the caller handles the empty group
  | [], some r => .ok r
  | f :: fs, res =>
    match evaluateFilter s f with
    | .error e => .error e
    | .ok bm =>
      let r := match res with
        | none => bm
        | some r => if logic == .and then RB.and r bm else RB.or r bm
      if logic == .and && r.isEmpty then .ok r else groupLoop s logic fs (some r)

/-- `executeGroup` -/
def executeGroup (s : State) (g : Group) : Except ErrKind RB :=
  if g.filters.isEmpty then .ok s.allDocs else groupLoop s g.logic g.filters none

/-- the loop of `executeFilterGroups` -/
def groupsLoop (s : State) : List Group → Nat → Option RB → Except Err RB
  | [], _, none => .ok []
  | [], _, some r => .ok r
  | g :: gs, i, res =>
    match executeGroup s g with
    | .error e => .error ⟨some i, e⟩
    | .ok gr =>
      let r := match res with | none => gr | some r => RB.or r gr
      groupsLoop s gs (i + 1) (some r)

def executeFilterGroups (s : State) (gs : List Group) : Except Err RB := groupsLoop s gs 0 none

/-- `Execute` -/
def execute (s : State) (fs : List Filter) (gs : List Group) : Except Err RB :=
  if !gs.isEmpty then executeFilterGroups s gs
  else if !fs.isEmpty then
    match executeSimpleFilters s fs with
    | .error e => .error ⟨none, e⟩
    | .ok r => .ok r
  else .ok s.allDocs

end Comet.Meta
