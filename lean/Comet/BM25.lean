/-
  Comet.BM25 — model of bm25_index.go / bm25_index_search.go (+ the text side of
  aggregation.go / limiter.go through Comet.Agg) and the specification C03 is
  stated against.

  Conventions (DESIGN.md §2): Go maps are association lists (`aget/aset/aerase`);
  roaring bitmaps are duplicate-free id lists; every incremental field of
  `BM25SearchIndex` is mirrored, so bookkeeping errors are representable:

      docTokens docLengths postings tf numDocs totalTokens avgDocLen deletedDocs

  The token type is abstract: `tokenize (normalize text)` (UAX#29 segments of the
  NFKC-normalised, lower-cased text) is an external library and enters as the token
  list carried by the `add` op / the query.  The BM25 formula enters as
  `Scoring.score`, applied exactly where the Go code applies it (once per query-token
  OCCURRENCE and posting), with `N = numDocs` and `avgDocLen` read from the state —
  soft-deleted documents included.

  Core Lean only (linked into the driver).
-/
import Comet.TopK
import Comet.Scalar
import Comet.Agg
namespace Comet.BM25

/-! ### Go maps as association lists -/
section AList
variable {α β : Type} [DecidableEq α]

/-- `m[a]` with the comma-ok form (`none` = key absent). -/
def aget : List (α × β) → α → Option β
  | [], _ => none
  | (k, v) :: t, a => if k = a then some v else aget t a

/-- `delete(m, a)` -/
def aerase (l : List (α × β)) (a : α) : List (α × β) := l.filter fun p => decide (p.1 ≠ a)

/-- `m[a] = b` (in place when the key exists, appended otherwise; Go's order is unspecified). -/
def aset : List (α × β) → α → β → List (α × β)
  | [], a, b => [(a, b)]
  | (k, v) :: t, a, b => if k = a then (k, b) :: t else (k, v) :: aset t a b

def akeys (l : List (α × β)) : List α := l.map (·.1)
end AList

/-- `avgDocLen float64`: either the literal `0` or the quotient
    `float64(totalTokens) / float64(numDocs)` computed by the last `updateAvgDocLen`;
    kept symbolic so that a stale average is distinguishable from a fresh one. -/
inductive Avg
  | zero
  | quot (total : Int) (n : Int)
deriving DecidableEq, Repr

structure State (Tok : Type) where
  docTokens   : List (Id × List Tok)          -- map[uint32][]string
  docLengths  : List (Id × Nat)               -- map[uint32]int
  postings    : List (Tok × List Id)          -- map[string]*roaring.Bitmap
  tf          : List (Tok × List (Id × Nat))  -- map[string]map[uint32]int
  numDocs     : Int                           -- atomic.Uint32 (wrap-around at 2^32 not modelled)
  totalTokens : Int                           -- int
  avgDocLen   : Avg
  deleted     : List Id                       -- deletedDocs *roaring.Bitmap
deriving Repr

def init : State Tok := ⟨[], [], [], [], 0, 0, .zero, []⟩

inductive Op (Tok : Type)
  | add (id : Id) (tokens : List Tok)
  | remove (id : Id)
  | flush
deriving Repr, DecidableEq

section Model
variable {Tok : Type} [DecidableEq Tok]

/-! #### reads with Go's zero-value defaults -/

/-- `ix.docTokens[d]` (nil when absent) -/
def toksOf (s : State Tok) (d : Id) : List Tok := (aget s.docTokens d).getD []
/-- iteration domain of `ix.postings[t]` (a nil bitmap is skipped by the callers) -/
def postOf (s : State Tok) (t : Tok) : List Id := (aget s.postings t).getD []
/-- `ix.tf[t][d]` — reading a nil inner map or an absent key yields 0 in Go -/
def tfOf (s : State Tok) (t : Tok) (d : Id) : Nat := (aget ((aget s.tf t).getD []) d).getD 0
/-- `ix.docLengths[d]` — 0 when absent -/
def lenOf (s : State Tok) (d : Id) : Nat := (aget s.docLengths d).getD 0

/-- `updateAvgDocLen` -/
def updateAvg (s : State Tok) : State Tok :=
  if s.numDocs = 0 then { s with avgDocLen := .zero }
  else { s with avgDocLen := .quot s.totalTokens s.numDocs }

/-- `bitmap.Add(id)` -/
def bmAdd (l : List Id) (id : Id) : List Id := if id ∈ l then l else l ++ [id]
/-- `bitmap.Remove(id)` -/
def bmRemove (l : List Id) (id : Id) : List Id := l.filter fun d => decide (d ≠ id)

/-- Add-loop body, postings half:
    `if ix.postings[t] == nil { ix.postings[t] = roaring.New() }; ix.postings[t].Add(id)` -/
def addPost (id : Id) (p : List (Tok × List Id)) (t : Tok) : List (Tok × List Id) :=
  aset p t (bmAdd ((aget p t).getD []) id)

/-- Add-loop body, tf half:
    `if ix.tf[t] == nil { ix.tf[t] = make(map[uint32]int) }; ix.tf[t][id]++` -/
def addTf (id : Id) (f : List (Tok × List (Id × Nat))) (t : Tok) : List (Tok × List (Id × Nat)) :=
  let m := (aget f t).getD []
  aset f t (aset m id ((aget m id).getD 0 + 1))

/-- the body of `for _, t := range tokens` in `Add` -/
def addTok (id : Id) (pf : List (Tok × List Id) × List (Tok × List (Id × Nat))) (t : Tok) :=
  (addPost id pf.1 t, addTf id pf.2 t)

/-- removeInternal-loop body, postings half:
    `if bitmap := ix.postings[t]; bitmap != nil { bitmap.Remove(id); if bitmap.IsEmpty() { delete(ix.postings, t) } }` -/
def rmPost (id : Id) (p : List (Tok × List Id)) (t : Tok) : List (Tok × List Id) :=
  match aget p t with
  | none => p
  | some l =>
    let l' := bmRemove l id
    if l'.isEmpty then aerase p t else aset p t l'

/-- removeInternal-loop body, tf half:
    `if tfMap := ix.tf[t]; tfMap != nil { delete(tfMap, id); if len(tfMap) == 0 { delete(ix.tf, t) } }` -/
def rmTf (id : Id) (f : List (Tok × List (Id × Nat))) (t : Tok) : List (Tok × List (Id × Nat)) :=
  match aget f t with
  | none => f
  | some m =>
    let m' := aerase m id
    if m'.isEmpty then aerase f t else aset f t m'

def rmTok (id : Id) (pf : List (Tok × List Id) × List (Tok × List (Id × Nat))) (t : Tok) :=
  (rmPost id pf.1 t, rmTf id pf.2 t)

/-- `removeInternal` (hard removal; does not touch `deletedDocs`). -/
def removeInternal (s : State Tok) (id : Id) : State Tok :=
  match aget s.docTokens id with
  | none => s
  | some tokens =>
    let docLen := lenOf s id
    let pf := tokens.foldl (rmTok id) (s.postings, s.tf)
    let s2 : State Tok :=
      { s with postings := pf.1, tf := pf.2,
               docTokens := aerase s.docTokens id, docLengths := aerase s.docLengths id,
               numDocs := s.numDocs - 1, totalTokens := s.totalTokens - docLen }
    if s2.numDocs ≠ 0 then updateAvg s2
    else { s2 with avgDocLen := .zero, totalTokens := 0 }

/-- `Add`, the part after the old document (if any) has been dropped:
    store tokens and length, bump the counters, index every token, refresh the average. -/
def addNew (s : State Tok) (id : Id) (tokens : List Tok) : State Tok :=
  let docLen := tokens.length
  let pf := tokens.foldl (addTok id) (s.postings, s.tf)
  updateAvg
    { s with docTokens := aset s.docTokens id tokens,
             docLengths := aset s.docLengths id docLen,
             numDocs := s.numDocs + 1,
             totalTokens := s.totalTokens + docLen,
             postings := pf.1, tf := pf.2 }

/-- `Add(id, text)` with `tokens = tokenize(normalize(text))`.  An existing id is
    hard-removed first (statistics decremented), then its soft-delete bit is cleared
    (`ix.deletedDocs.Remove(id)`, the repair of D4), then the new text is indexed. -/
def add (s : State Tok) (id : Id) (tokens : List Tok) : State Tok :=
  let s1 := if (aget s.docTokens id).isSome then removeInternal s id else s
  let s2 := { s1 with deleted := bmRemove s1.deleted id }
  addNew s2 id tokens

/-- `Remove(id)`: soft; unknown and already-removed ids are silently accepted (nil). -/
def remove (s : State Tok) (id : Id) : State Tok :=
  if (aget s.docTokens id).isNone then s
  else if id ∈ s.deleted then s
  else { s with deleted := s.deleted ++ [id] }

/-- `Flush()`: `removeInternal` for every bit, then clear. -/
def flush (s : State Tok) : State Tok :=
  if s.deleted.isEmpty then s
  else { s.deleted.foldl removeInternal s with deleted := [] }

/-- All three operations return a nil error in every case. -/
def step (s : State Tok) : Op Tok → State Tok
  | .add id toks => add s id toks
  | .remove id => remove s id
  | .flush => flush s

def run (s : State Tok) (ops : List (Op Tok)) : State Tok := ops.foldl step s

/-! #### search -/

/-- What the search needs from float64 / float32: `R` is the accumulator type
    (float64), `S` the result type (float32). -/
structure Scoring (R S : Type) where
  zero  : R
  add   : R → R → R
  /-- `idf * (tf*(K1+1)) / (tf + K1*(1-B+B*(docLen/avgDocLen)))` with
      `idf = math.Log((N-df+0.5)/(df+0.5) + 1.0)` -/
  score : (N : Int) → (df tf docLen : Nat) → (avg : Avg) → R
  le    : R → R → Bool       -- Go `a <= b` on float64
  toS   : R → S              -- `float32(score)`

/-- `DocumentFilter.IsEligible` (a nil filter — no ids given — admits everything). -/
def eligible (filter : List Id) (id : Id) : Bool := filter.isEmpty || filter.contains id

/-- `scores[docID] += score` -/
def accum (sc : Scoring R S) (scores : List (Id × R)) (d : Id) (x : R) : List (Id × R) :=
  aset scores d (sc.add ((aget scores d).getD sc.zero) x)

/-- body of `for _, t := range qtokens` -/
def scoreTok (sc : Scoring R S) (s : State Tok) (F : List Id) (scores : List (Id × R)) (t : Tok) :
    List (Id × R) :=
  match aget s.postings t with
  | none => scores
  | some bitmap =>
    let df := bitmap.length
    bitmap.foldl (fun scores d =>
      if d ∈ s.deleted then scores
      else if !eligible F d then scores
      else accum sc scores d (sc.score s.numDocs df (tfOf s t d) (lenOf s d) s.avgDocLen)) scores

def scoreMap (sc : Scoring R S) (s : State Tok) (F : List Id) (q : List Tok) : List (Id × R) :=
  q.foldl (scoreTok sc s F) []

/-! container/heap is used as a priority queue only: `Pop` returns *a* minimum.
    The model's `popMin` takes the first one; the ranking theorems are proved for
    every lawful `popMin` and every iteration order of the score map. -/
abbrev PopMin (R : Type) := List (Hit R) → Option (Hit R × List (Hit R))

def popMin (le : R → R → Bool) : PopMin R
  | [] => none
  | a :: t =>
    match popMin le t with
    | none => some (a, [])
    | some (m, rest) => if le a.score m.score then some (a, t) else some (m, a :: rest)

/-- `for i := n-1; i >= 0; i-- { out[i] = heap.Pop(h) }` read left to right: ascending pops. -/
def drain (pm : PopMin R) : Nat → List (Hit R) → List (Hit R)
  | 0, _ => []
  | n + 1, h =>
    match pm h with
    | none => []
    | some (m, rest) => m :: drain pm n rest

/-- one iteration of `for docID, score := range scores` in the top-k branch -/
def heapStep (le : R → R → Bool) (pm : PopMin R) (k : Nat) (h : List (Hit R)) (x : Hit R) :
    List (Hit R) :=
  if h.length < k then x :: h                   -- heap.Push
  else match pm h with                          -- (*h)[0]
    | none => h                                 -- unreachable (k > 0)
    | some (m, rest) =>
      if !le x.score m.score then x :: rest     -- score > min : Pop; Push
      else h

/-- the ranking tail of `searchSingleQuery` over the score map in iteration order `hits` -/
def rankWith (le : R → R → Bool) (pm : PopMin R) (k : Int) (hits : List (Hit R)) : List (Hit R) :=
  if k ≤ 0 ∨ k ≥ (hits.length : Int) then
    (drain pm hits.length hits).reverse
  else
    let h := hits.foldl (heapStep le pm k.toNat) []
    (drain pm h.length h).reverse

def toHits (scores : List (Id × R)) : List (Hit R) := scores.map fun p => ⟨p.1, p.2⟩

/-- `searchSingleQuery` (tokens of the query given) -/
def searchSingle (sc : Scoring R S) (s : State Tok) (q : List Tok) (k : Int) (F : List Id) :
    List (Hit S) :=
  if q.isEmpty then [] else
  if s.numDocs = 0 then [] else
  (rankWith sc.le (popMin sc.le) k (toHits (scoreMap sc s F q))).map fun h => ⟨h.id, sc.toS h.score⟩

inductive Err | noQuery | badAgg
deriving Repr, DecidableEq

/-- `bm25TextSearch.Execute` without node queries, default cutoff (-1: autocut off).
    `kind = none` stands for an aggregation kind string that `NewTextAggregation` rejects. -/
def execute (sc : Scoring R S) (ag : Scalar S) (s : State Tok) (queries : List (List Tok))
    (k : Int) (F : List Id) (kind : Option AggKind) : Except Err (List (Hit S)) :=
  if queries.isEmpty then .error .noQuery else
  match kind with
  | none => .error .badAgg
  | some kind =>
    let all := (queries.map fun q => searchSingle sc s q k F).flatten
    let aggregated := if all.isEmpty then all else textAggregate ag kind all
    .ok (limitResults k aggregated)

/-! ## Specification -/

/-- The corpus a history denotes: `corpus` maps the ids that still count in the
    statistics (live or removed-but-not-yet-flushed) to their current token list —
    the last add wins; `tomb` are the removed ones among them. -/
structure Spec (Tok : Type) where
  corpus : List (Id × List Tok)
  tomb   : List Id
deriving Repr, DecidableEq

def Spec.empty : Spec Tok := ⟨[], []⟩

def specStep (c : Spec Tok) : Op Tok → Spec Tok
  | .add id toks => ⟨aerase c.corpus id ++ [(id, toks)], bmRemove c.tomb id⟩
  | .remove id =>
      if (aget c.corpus id).isSome ∧ id ∉ c.tomb then ⟨c.corpus, c.tomb ++ [id]⟩ else c
  | .flush => ⟨c.corpus.filter (fun p => decide (p.1 ∉ c.tomb)), []⟩

def spec (ops : List (Op Tok)) : Spec Tok := ops.foldl specStep Spec.empty

def sumLen : List (Id × List Tok) → Nat
  | [] => 0
  | p :: t => p.2.length + sumLen t

/-- the live documents -/
def Spec.live (c : Spec Tok) : List (Id × List Tok) := c.corpus.filter fun p => decide (p.1 ∉ c.tomb)
/-- `N` — counts removed-but-unflushed documents too -/
def Spec.N (c : Spec Tok) : Nat := c.corpus.length
/-- document frequency over the whole corpus (tombstoned included) -/
def Spec.df (c : Spec Tok) (t : Tok) : Nat := (c.corpus.filter fun p => decide (t ∈ p.2)).length
def Spec.total (c : Spec Tok) : Nat := sumLen c.corpus
def Spec.avg (c : Spec Tok) : Avg := if c.N = 0 then .zero else .quot c.total c.N

/-- BM25 score of a document with token list `toks` for query `q`: the sum, in query
    order and with multiplicity, over the query-token occurrences present in it. -/
def specScore (sc : Scoring R S) (c : Spec Tok) (q toks : List Tok) : R :=
  (q.filter fun t => decide (t ∈ toks)).foldl
    (fun acc t => sc.add acc (sc.score c.N (c.df t) (toks.count t) toks.length c.avg)) sc.zero

def shares (q toks : List Tok) : Bool := q.any fun t => decide (t ∈ toks)

/-- the hits the property allows: live, eligible, sharing a token with the query -/
def specCands (sc : Scoring R S) (c : Spec Tok) (q : List Tok) (F : List Id) : List (Hit R) :=
  (c.live.filter fun p => eligible F p.1 && shares q p.2).map fun p => ⟨p.1, specScore sc c q p.2⟩

/-- Order hypotheses: float64 `<=` without NaN is a total preorder, and `float32(·)`
    is monotone with respect to the float32 order `leS`. -/
structure Scoring.Ordered (sc : Scoring R S) (leS : S → S → Bool) : Prop where
  total : ∀ a b : R, sc.le a b || sc.le b a
  trans : ∀ a b c : R, sc.le a b → sc.le b c → sc.le a c
  mono  : ∀ a b : R, sc.le a b = true → leS (sc.toS a) (sc.toS b) = true

/-- specification candidates as returned (float32 scores) -/
def specHits (sc : Scoring R S) (c : Spec Tok) (q : List Tok) (F : List Id) : List (Hit S) :=
  (specCands sc c q F).map fun x => ⟨x.id, sc.toS x.score⟩

end Model
end Comet.BM25
