/-
  Comet.F32PQ — executable IEEE binary32 instance of the PQ / IVFPQ model parameters.

  Vectors are lists of `UInt32` bit patterns (the model is generic over `List S`);
  the metric (preprocessing and centroid distance) is the bit-exact transcription of
  distance.go in Comet.F32, reused through conversions.  `Float32` is opaque to the
  kernel: no theorem is about this file.
-/
import Comet.F32
import Comet.Vector.PQ
namespace Comet.F32

def toVec (l : List UInt32) : Vec := (l.map f).toArray
def ofVec (v : Vec) : List UInt32 := v.toList.map b

/-- distance.go on bit-pattern lists -/
def listMetric (k : MetricKind) : Metric (List UInt32) UInt32 :=
  let mk := metric k
  { dimOf := List.length
    pre := fun v => (mk.pre (toVec v)).map ofVec
    dist := fun a c => mk.dist (toVec a) (toVec c)
    sc := scalar }

/-- `diff := a - c`, `diff * diff`, `float32(math.Inf(1))`, `float32(math.Sqrt(float64(x)))` -/
def pqArith : PQ.Arith UInt32 where
  sub x y := b (f x - f y)
  mul x y := b (f x * f y)
  inf := 0x7f800000
  sqrt x := b (sqrt32 (f x))

end Comet.F32
