/-
  Comet.Storage.FS — the directory of a persistent store as the code sees it.

  Mirrors storage_provider.go (segmentPaths, initSegmentCounter, listSegments,
  deleteSegment, LOCK) and the file-level behaviour of flushMemtable /
  writeIndexToSegment (storage.go, storage_compaction.go) and segmentMetadata.getIndex
  (storage_segment.go).

  A file is modelled by the *structured payload* it holds when completely written
  and by how much of its gzip stream is present (`Cut`):
    header  – the file is empty or ends inside the gzip header: `gzip.NewReader` fails;
    data    – the deflate stream ends early: the reader yields a STRICT prefix of the
              plaintext and then an error (every component parser reads exact lengths,
              so it fails without having published anything — C16);
    trailer – the whole plaintext is readable, the error (missing CRC/size trailer, or
              missing end-of-stream bits) surfaces on the NEXT read of the MultiReader — the
              next component's first read, or getIndex's final drain for the last component;
    full    – complete.
  How a byte prefix of a real file maps to a `Cut` is decided by Go's compress/gzip
  (trusted base, DESIGN §4); the harness classifies each file with gzip itself.

  Core Lean only.
-/
import Comet.TopK
namespace Comet.Storage

/-- which of the three index templates of `StorageConfig` are non-nil -/
structure Tpl where
  vec : Bool
  txt : Bool
  md : Bool
deriving DecidableEq, Repr, Inhabited

/-- one entry of a hybrid index's `docInfo` map -/
structure Info where
  id : Id
  hv : Bool
  ht : Bool
  hm : Bool
deriving DecidableEq, Repr

inductive Kind | hybrid | vector | text | metadata
deriving DecidableEq, Repr

/-- file names of the directory: `LOCK` and `<kind>_<%06d id>.bin.gz` -/
inductive Name
  | lock
  | seg (k : Kind) (id : Nat)
deriving DecidableEq, Repr

def Name.segId? : Name → Option Nat
  | .lock => none
  | .seg _ id => some id

inductive Payload
  | lock
  | hybrid (tpl : Tpl) (info : List Info)
  | vector (stored : List Id)
  | text (docs : List Id)
  | mdata (all : List Id)
deriving DecidableEq, Repr

/-- every document id mentioned by a payload -/
def Payload.ids : Payload → List Id
  | .lock => []
  | .hybrid _ info => info.map (·.id)
  | .vector st => st
  | .text ds => ds
  | .mdata a => a

inductive Cut | header | data | trailer | full
deriving DecidableEq, Repr

structure File where
  payload : Payload
  cut : Cut
deriving DecidableEq, Repr

/-- the directory: association list, at most one entry per name (`put` erases first) -/
abbrev FS := List (Name × File)

def FS.find (fs : FS) (n : Name) : Option File :=
  match fs with
  | [] => none
  | (m, f) :: rest => if m = n then some f else FS.find rest n

def FS.erase (fs : FS) (n : Name) : FS := fs.filter (fun e => decide (e.1 ≠ n))

def FS.put (fs : FS) (n : Name) (f : File) : FS := FS.erase fs n ++ [(n, f)]

def FS.names (fs : FS) : List Name := fs.map (·.1)

def FS.has (fs : FS) (n : Name) : Bool := (FS.names fs).contains n

/-- every segment id that names some file of the directory (orphans included) -/
def FS.segIds (fs : FS) : List Nat := (FS.names fs).filterMap Name.segId?

/-- `storageProvider.initSegmentCounter`: the maximum number found after the first
    `_` of any file name (0 when there is none). `LOCK` has no `_`. -/
def initCounter (fs : FS) : Nat := (FS.segIds fs).foldl max 0

def insertSorted (x : Nat) : List Nat → List Nat
  | [] => [x]
  | y :: ys => if x ≤ y then x :: y :: ys else y :: insertSorted x ys

def sortNat (xs : List Nat) : List Nat := xs.foldr insertSorted []

/-- `storageProvider.listSegments`: ids of the `hybrid_*` files, ascending, no duplicates. -/
def listSegments (fs : FS) : List Nat :=
  sortNat ((FS.names fs).filterMap fun n => match n with
    | .seg .hybrid id => some id
    | _ => none).eraseDups

/-- one file-system operation of the code -/
inductive FsStep
  | create (n : Name) (p : Payload)   -- os.Create: empty file (truncates an existing one)
  | complete (n : Name)               -- gzip writer closed: the whole content is in the file
  | remove (n : Name)                 -- os.Remove (a missing file is ignored)
deriving DecidableEq, Repr

def applyStep (fs : FS) : FsStep → FS
  | .create n p => FS.put fs n ⟨p, .header⟩
  | .complete n => fs.map fun e => if e.1 = n then (e.1, { e.2 with cut := .full }) else e
  | .remove n => FS.erase fs n

def applySteps (fs : FS) (steps : List FsStep) : FS := steps.foldl applyStep fs

/-- the component files a store with templates `tpl` writes / opens, in the order of
    `os.Create` in flushMemtable and of `os.Open` in getIndex -/
def comps (tpl : Tpl) : List Kind :=
  [.hybrid] ++ (if tpl.vec then [.vector] else []) ++ (if tpl.txt then [.text] else []) ++
    (if tpl.md then [.metadata] else [])

/-- gzip writers are closed vector, text, metadata, hybrid (hybrid LAST) -/
def closeOrder (tpl : Tpl) : List Kind :=
  (if tpl.vec then [.vector] else []) ++ (if tpl.txt then [.text] else []) ++
    (if tpl.md then [.metadata] else []) ++ [.hybrid]

/-- `deleteSegment`: hybrid, vector, text, metadata — all four names, whatever the templates -/
def deleteSteps (id : Nat) : List FsStep :=
  [.remove (.seg .hybrid id), .remove (.seg .vector id), .remove (.seg .text id), .remove (.seg .metadata id)]

/-- names created by a list of steps -/
def createdBy : List FsStep → List Name
  | [] => []
  | .create n _ :: r => n :: createdBy r
  | _ :: r => createdBy r

/-- a `create` of a name that already exists would overwrite (truncate) that file -/
def overwrites (fs : FS) : List FsStep → Bool
  | [] => false
  | st :: r =>
    (match st with
     | .create n _ => FS.has fs n
     | _ => false) || overwrites (applyStep fs st) r

end Comet.Storage
