/-
  Comet.Storage.Crash — crash images and recovery (DESIGN §6.10).

  Every step of the store that touches the directory does so through a list of FS
  steps (`fsStepsOf`; `exec_fs_eq` in CometProofs/Storage.lean proves that the step's
  effect on `Store.fs` IS `applySteps` of that list). A crash during the step leaves

      crashImage fs₀ steps k cuts  =  the first `k` FS steps applied, and every file
                                      CREATED by the unfinished operation cut arbitrarily

  — the code never fsyncs, so a file created in the unfinished operation may hold any
  prefix of its final gzip stream even after its writer was closed. (This is a superset
  of what a POSIX file system presents short of reordering across operations; the
  theorems quantify over all of it.)  `recover` = erase the stale LOCK, reopen with
  fresh templates.

  Core Lean only.
-/
import Comet.Storage.Store
namespace Comet.Storage

/-- FS steps of `flushAll` (client Flush): one segment per frozen memtable, ids
    counter+1, counter+2, …; after the first `hybrid.Flush` the shared content has no
    tombstones left. -/
def flushStepsFrom (tpl : Tpl) (T : Shared) (ctr : Nat) : List Memtable → List FsStep
  | [] => []
  | m :: rest => writeSteps tpl (ctr + 1) m.info T.flush ++ flushStepsFrom tpl T.flush (ctr + 1) rest

/-- the file-system operations step `st` performs when executed from `s`, in program order -/
def fsStepsOf (s : Store) : Step → List FsStep
  | .flush =>
    if running s then
      let s1 := if flushRotatesMutable && (match s.mts.getLast? with | some m => decide (0 < m.count) | none => false)
                then { s with mts := rotateQ s.mts s.nextUid, nextUid := s.nextUid + 1 } else s
      flushStepsFrom s.cfg.tpl s.T s.counter (butLast s1.mts)
    else []
  | .bg .fwrite =>
    match s.fw with
    | .todo _ (m :: _) => writeSteps s.cfg.tpl (s.counter + 1) m.info s.T.flush
    | _ => []
  | .bg .cwrite =>
    match s.cw with
    | .loading _ [] => writeSteps s.cfg.tpl (s.counter + 1) [] s.T.flush
    | _ => []
  | .bg .cswap =>
    match s.cw with
    | .wrote srcs _ => srcs.flatMap deleteSteps
    | _ => []
  | .closeDone =>
    if s.opened && s.closed && s.fw = .exited && s.cw = .exited then [.remove .lock] else []
  | .reopen => if s.opened || FS.has s.fs .lock then [] else [.create .lock .lock, .complete .lock]
  | _ => []

/-- The first half of flushMemtable — nextSegmentID and the os.Create of every component file
    (all still empty), before WriteTo. This is where the flush worker can be parked while a client
    call runs to completion (the harness's `bg fcreate`); the step system of `exec` does not split
    the write (client calls are atomic with respect to worker steps there), so states produced by
    `beginWrite` are used by the correspondence run only, not by the theorems. -/
def beginWrite (s : Store) (info : List Info) : Store × Nat :=
  let id := s.counter + 1
  let steps := (writeSteps s.cfg.tpl id info s.T).take (comps s.cfg.tpl).length
  ({ s with counter := id, fs := applySteps s.fs steps,
            gh := { s.gh with everNamed := id :: s.gh.everNamed,
                              allocated := id :: s.gh.allocated,
                              overwrote := s.gh.overwrote || overwrites s.fs steps,
                              reused := s.gh.reused || s.gh.everNamed.any fun j => decide (id ≤ j) } }, id)

/-- re-cut the files named in `created` -/
def recut (created : List Name) (cuts : Name → Cut) (fs : FS) : FS :=
  fs.map fun e => if created.contains e.1 then (e.1, { e.2 with cut := cuts e.1 }) else e

/-- the directory after a crash `k` FS steps into `steps` -/
def crashImage (fs₀ : FS) (steps : List FsStep) (k : Nat) (cuts : Name → Cut) : FS :=
  recut (createdBy steps) cuts (applySteps fs₀ (steps.take k))

/-- `CrashImage s img`: `img` is a directory a crash can leave when the process dies in
    state `s` (no operation in flight) or inside the next execution of some step -/
def CrashImage (s : Store) (img : FS) : Prop :=
  ∃ (st : Step) (k : Nat) (cuts : Name → Cut), img = crashImage s.fs (fsStepsOf s st) k cuts

/-- recovery: the operator removes the stale LOCK; the directory is opened with fresh templates -/
def recover (cfg : Cfg) (img : FS) (gh : Ghost) : Store × Out :=
  openOn cfg (FS.erase img .lock) Shared.empty gh

/-- the state of the world after the process died leaving directory `img` and the
    operator removed the stale LOCK: no store object, no goroutines, only the directory
    (and the ghost history) -/
def crashTo (s : Store) (img : FS) : Store :=
  { s with fs := FS.erase img .lock, T := Shared.empty, mts := [], segs := [],
           opened := false, closed := true, flushSig := false, compSig := false,
           fw := .exited, cw := .exited,
           gh := { s.gh with sess := [], everNamed := FS.segIds img ++ s.gh.everNamed } }

/-- steps of the extended system: ordinary steps, and "the process dies `k` file
    operations into the next execution of `st`, files created by it cut by `cuts`" -/
inductive XStep
  | step (st : Step)
  | crash (st : Step) (k : Nat) (cuts : Name → Cut)

def xexec (s : Store) : XStep → Store
  | .step st => (exec s st).1
  | .crash st k cuts => if s.opened then crashTo s (crashImage s.fs (fsStepsOf s st) k cuts) else s

def xrun (s : Store) (xs : List XStep) : Store := xs.foldl xexec s

/-- every state the store, its workers, restarts and crashes can produce from an empty directory -/
def Reach (cfg : Cfg) (s : Store) : Prop := ∃ xs : List XStep, s = xrun (Store.init cfg) xs

/-- a segment all of whose component files (for templates `tpl`) are complete -/
def segComplete (tpl : Tpl) (fs : FS) (id : Nat) : Bool :=
  (comps tpl).all fun k => match FS.find fs (.seg k id) with
    | some f => decide (f.cut = .full)
    | none => false

/-- ids of a modality stored in segment `id` of `fs` (what a successful load publishes) -/
def segIdsOf (fs : FS) (id : Nat) : Q → List Id
  | .vec => match FS.find fs (.seg .vector id) with | some ⟨.vector st, _⟩ => st | _ => []
  | .txt => match FS.find fs (.seg .text id) with | some ⟨.text ds, _⟩ => ds | _ => []
  | .md => match FS.find fs (.seg .metadata id) with | some ⟨.mdata a, _⟩ => a | _ => []

/-- can the first `n` components of segment `id` be deserialised while a later one fails?
    (the partial-load situation of D13) -/
def partialLoadable (tpl : Tpl) (fs : FS) (id : Nat) : Bool :=
  let r := loadSeg tpl fs id Shared.empty
  !r.1 && decide (r.2 ≠ Shared.empty)

end Comet.Storage
