/-
  Comet.Storage.Store — FAITHFUL model of the persistent store
  (storage.go, storage_memtable.go, storage_segment.go, storage_compaction.go,
  storage_provider.go, storage_merge.go and the parts of hybrid_search_index.go they use).

  What the code does, and the model keeps (DESIGN §6.8, defects D12–D14 of §7):
  * every memtable's hybrid index, every segment load and the compaction's "merged"
    index wrap the SAME three template index instances of the StorageConfig. The model
    therefore has ONE shared content `T` (vector / text / metadata sub-index); a memtable
    owns only its `docInfo` map, its size counter and its frozen flag; a cached segment
    owns nothing but the flag "cached". Searching any memtable or cached segment searches
    `T`; loading a segment REPLACES the sub-indexes of `T` by the file contents
    (`sharedTemplates = true`, the one clearly marked model constant for D13);
  * `Flush()` / `Close()` persist `listFrozen()` only — the mutable memtable is never
    written (`flushRotatesMutable = false`, the model constant for D12);
  * a flushed segment holds the flushing memtable's docInfo and the WHOLE of `T`;
  * `compactSegments` loads its sources (each load overwrites `T`), adds nothing to
    the fresh "merged" index, writes docInfo = ∅ + whatever `T` holds, deletes the sources;
  * `Remove` consults the mutable memtable's docInfo only;
  * the background flush and compaction workers are explicit internal steps at the
    granularity of the lock-delimited regions (the yield points of the harness are
    exactly the boundaries between them).

  Documents are abstract: an id and which modalities they carry (that is all the
  probes of the harness observe: vector / text / metadata queries that match every
  document carrying that modality; k larger than the store). The sub-indexes are
  abstracted to their id sets with soft-delete tombstones (flat/hnsw/ivf: stored +
  deleted bitmap; bm25: docTokens + deletedDocs; roaring metadata: allDocs).
  Histories never re-add an id (C06 is about re-adds).

  Core Lean only; everything is structural so that `decide` evaluates witnesses.
-/
import Comet.Storage.FS
namespace Comet.Storage

/-! ## model constants for the two small repairs discussed in DESIGN §7 -/

/- D13 (shared template instances) is structural in this model: there is ONE `Store.T`,
   read by every memtable / cached-segment search and overwritten by every `loadSeg`.
   A repaired store (fresh index instances per memtable and per load) would replace
   `Store.T` by a content field per `Memtable` and per `Seg`; the three places that would
   change are marked `-- D13:` below. -/

/-- D12. `false` = the code as it is: Flush/Close do not rotate a non-empty mutable
    memtable before flushing. -/
def flushRotatesMutable : Bool := false

/-! ## documents and the shared index content -/

structure Doc where
  id : Id
  vdim : Nat   -- length of the vector given to Add (0 = nil / empty)
  tlen : Nat   -- length of the text (0 = "")
  mcnt : Nat   -- number of metadata fields (0 = nil / empty)
deriving DecidableEq, Repr

/-- `memtable.estimateDocumentSize` -/
def Doc.size (d : Doc) : Nat := 4 * d.vdim + 2 * d.tlen + 96 * d.mcnt + 64

structure VecIx where
  stored : List Id
  deleted : List Id
deriving DecidableEq, Repr

structure TxtIx where
  docs : List Id
  deleted : List Id
deriving DecidableEq, Repr

structure MetaIx where
  all : List Id
deriving DecidableEq, Repr

/-- the content of the three template instances -/
structure Shared where
  v : VecIx
  x : TxtIx
  m : MetaIx
deriving DecidableEq, Repr

def Shared.empty : Shared := ⟨⟨[], []⟩, ⟨[], []⟩, ⟨[]⟩⟩

def VecIx.live (v : VecIx) : List Id := v.stored.filter fun i => !v.deleted.contains i
def TxtIx.live (x : TxtIx) : List Id := x.docs.filter fun i => !x.deleted.contains i

/-- the three probe queries: every document carrying the modality matches -/
inductive Q | vec | txt | md
deriving DecidableEq, Repr

def Tpl.has (t : Tpl) : Q → Bool
  | .vec => t.vec
  | .txt => t.txt
  | .md => t.md

def Shared.matchIds (T : Shared) : Q → List Id
  | .vec => T.v.live
  | .txt => T.x.live
  | .md => T.m.all

/-- every live entry of `T` is still live in `T'` (per modality) -/
def Shared.coversLive (T' T : Shared) : Bool :=
  T.v.live.all (fun i => T'.v.live.contains i) && T.x.live.all (fun i => T'.x.live.contains i) &&
    T.m.all.all (fun i => T'.m.all.contains i)

/-- some live entry of `T` is in `removed` -/
def Shared.livesAny (T : Shared) (removed : List Id) : Bool :=
  T.v.live.any (fun i => removed.contains i) || T.x.live.any (fun i => removed.contains i) ||
    T.m.all.any (fun i => removed.contains i)

/-- every id mentioned anywhere in the shared content -/
def Shared.ids (T : Shared) : List Id := T.v.stored ++ T.x.docs ++ T.m.all

/-- `hybridSearchIndex.addInternal`: which sub-indexes receive the document -/
def infoOf (tpl : Tpl) (d : Doc) : Info :=
  ⟨d.id, tpl.vec && decide (0 < d.vdim), tpl.txt && decide (0 < d.tlen), tpl.md && decide (0 < d.mcnt)⟩

/-- the sub-index `Add`s as they are after the re-add repair (e29df80): a vector index whose
    tombstone bitmap holds the id purges its tombstoned entries first (`flushLocked`), then
    appends; BM25 drops the old text of the id, clears its tombstone, indexes the new text;
    the metadata index sets the bits. -/
def Shared.add (T : Shared) (i : Info) : Shared :=
  { v := if i.hv then
           (if T.v.deleted.contains i.id then ⟨T.v.live ++ [i.id], []⟩
            else { T.v with stored := T.v.stored ++ [i.id] })
         else T.v
    x := if i.ht then
           ⟨if T.x.docs.contains i.id then T.x.docs else T.x.docs ++ [i.id],
            T.x.deleted.filter fun j => j != i.id⟩
         else T.x
    m := if i.hm then (if T.m.all.contains i.id then T.m else ⟨T.m.all ++ [i.id]⟩) else T.m }

inductive RmErr | notFound | vecNotFound | vecDeleted
deriving DecidableEq, Repr

/-- `hybridSearchIndex.Remove` after the docInfo lookup: the vector index is asked first
    and is the only one that can refuse (FlatIndex/IVF/HNSW.Remove: "not found",
    "already deleted"); BM25.Remove and RoaringMetadataIndex.Remove never fail. -/
def Shared.remove (T : Shared) (i : Info) : Except RmErr Shared :=
  if i.hv && !T.v.stored.contains i.id then .error .vecNotFound
  else if i.hv && T.v.deleted.contains i.id then .error .vecDeleted
  else .ok
    { v := if i.hv then { T.v with deleted := i.id :: T.v.deleted } else T.v
      x := if i.ht && T.x.docs.contains i.id && !T.x.deleted.contains i.id
           then { T.x with deleted := i.id :: T.x.deleted } else T.x
      m := if i.hm then ⟨T.m.all.filter fun j => j != i.id⟩ else T.m }

/-- `hybridSearchIndex.Flush` (called by WriteTo): hard-delete the tombstoned entries -/
def Shared.flush (T : Shared) : Shared :=
  { v := ⟨T.v.live, []⟩, x := ⟨T.x.live, []⟩, m := T.m }

/-! ## segment files -/

/-- FS steps of flushMemtable / writeIndexToSegment for segment `id`, docInfo `info`
    and (already flushed) shared content `T`: create hybrid, vector, text, metadata;
    then the gzip writers are closed vector, text, metadata, hybrid. -/
def writeSteps (tpl : Tpl) (id : Nat) (info : List Info) (T : Shared) : List FsStep :=
  (comps tpl).map (fun k => FsStep.create (.seg k id) (match k with
      | .hybrid => .hybrid tpl info
      | .vector => .vector T.v.stored
      | .text => .text T.x.docs
      | .metadata => .mdata T.m.all)) ++
  (closeOrder tpl).map (fun k => FsStep.complete (.seg k id))

/-- `os.Open` + `gzip.NewReader`: missing, empty or header-truncated files fail here,
    before anything is deserialised -/
def openable (fs : FS) (n : Name) : Option File :=
  match FS.find fs n with
  | some f => if f.cut = .header then none else some f
  | none => none

def openAll (fs : FS) (id : Nat) : List Kind → Option (List (Kind × File))
  | [] => some []
  | k :: ks =>
    match openable fs (.seg k id), openAll fs id ks with
    | some f, some r => some ((k, f) :: r)
    | _, _ => none

/-- one component's `ReadFrom` (all of them build locally and publish at the end, and
    read exact lengths): a strict plaintext prefix is rejected with the component
    untouched; the hybrid part validates the presence flags against the templates. -/
def readComp (tpl : Tpl) (T : Shared) (k : Kind) (f : File) : Option Shared :=
  if f.cut = .data then none else
  match k, f.payload with
  | .hybrid, .hybrid tpl' _ => if tpl' = tpl then some T else none
  | .vector, .vector st => some { T with v := ⟨st, []⟩ }
  | .text, .text ds => some { T with x := ⟨ds, []⟩ }
  | .metadata, .mdata a => some { T with m := ⟨a⟩ }
  | _, _ => none

/-- `hybridSearchIndex.ReadFrom` over the MultiReader, followed by getIndex's drain of the
    MultiReader (`io.Copy(io.Discard, combinedReader)`, repair ae56580). `prevCut` = the previous
    component's gzip stream lacked its trailer: the error surfaces on this component's
    first read — or, for the LAST component, in the drain, i.e. after every component has
    been deserialised into the templates. Returns (succeeded?, shared content afterwards —
    partially or, in the drain case, completely replaced on failure, because the sub-indexes
    are the shared templates). -/
def readAll (tpl : Tpl) (T : Shared) (prevCut : Bool) : List (Kind × File) → Bool × Shared
  | [] => (!prevCut, T)
  | (k, f) :: rest =>
    if prevCut then (false, T) else
    match readComp tpl T k f with
    | none => (false, T)
    | some T' => readAll tpl T' (f.cut = .trailer) rest

/-- `segmentMetadata.getIndex` on an uncached segment -/
def loadSeg (tpl : Tpl) (fs : FS) (id : Nat) (T : Shared) : Bool × Shared :=
  match openAll fs id (comps tpl) with
  | none => (false, T)
  | some files => readAll tpl T false files

/-! ## the store -/

structure Memtable where
  uid : Nat
  info : List Info     -- docInfo of the memtable's own hybrid wrapper
  size : Nat
  count : Nat
  frozen : Bool
deriving DecidableEq, Repr

structure Seg where
  id : Nat
  cached : Bool
deriving DecidableEq, Repr

structure Cfg where
  tpl : Tpl
  limit : Nat      -- MemtableSizeLimit
  flushThr : Nat   -- FlushThreshold
  compThr : Nat    -- CompactionThreshold
deriving DecidableEq, Repr

/-- the flush worker goroutine. `final` = the round started from `closeChan`. -/
inductive FW
  | idle
  | woken (final : Bool)                                      -- channel received, before listFrozen
  | todo (final : Bool) (rest : List Memtable)                -- before flushMemtable of the head
  | written (final : Bool) (cur : Memtable) (rest : List Memtable)  -- between flushMemtable and queue.remove
  | exited
deriving DecidableEq, Repr

/-- the compaction worker goroutine -/
inductive CW
  | idle
  | woken                                           -- channel received, before segmentManager.list
  | loading (srcs : List Nat) (rest : List Nat)     -- before getIndex of the head of `rest`
  | wrote (srcs : List Nat) (newId : Nat)           -- merged segment on disk, before the swap
  | exited
deriving DecidableEq, Repr

/-- ghost state: never read by the operations, only by specifications and the driver -/
structure Ghost where
  acked : List Doc := []        -- every document whose Add/AddWithID returned nil (all sessions)
  sess : List Doc := []         -- … in the current session
  removed : List Id := []       -- every id whose Remove EVER returned nil
  gone : List Id := []          -- ids whose latest acknowledged operation is a Remove (an
                                -- acknowledged re-add takes the id out again)
  promised : List Doc := []     -- documents acknowledged (and not removed) by a store instance
                                -- before one of its Flush()/Close() calls returned nil: what the
                                -- property promises to every later reopen
  loadLost : Bool := false      -- a segment load replaced shared content holding a live
                                -- document that the loaded segment lacks (trigger of D13)
  revived : Bool := false       -- a segment load published (made live again) a document whose
                                -- latest acknowledged operation is a Remove (another face of D13)
  readded : Bool := false       -- an id was added twice (histories of the harness never do)
  compacted : Bool := false     -- a compaction wrote or swapped (trigger of D14)
  everNamed : List Nat := []    -- every segment id that ever named a file
  overwrote : Bool := false     -- some os.Create hit an existing file
  allocated : List Nat := []    -- every result of nextSegmentID
  reused : Bool := false        -- some nextSegmentID result was ≤ an id that had named a file
deriving DecidableEq, Repr

structure Store where
  cfg : Cfg
  T : Shared
  mts : List Memtable     -- the queue, oldest first; the last one is the mutable memtable
  nextUid : Nat
  segs : List Seg         -- segmentManager.segments in slice order
  fs : FS
  counter : Nat           -- provider.segmentCounter
  opened : Bool           -- this process holds the directory (LOCK present)
  closed : Bool           -- PersistentHybridIndex.closed
  flushSig : Bool         -- len(flushChan) = 1
  compSig : Bool          -- len(compactionChan) = 1
  fw : FW
  cw : CW
  gh : Ghost
deriving DecidableEq, Repr

/-- a completed Flush()/Close(): the live documents of this store instance join the promised set -/
def promise (promised sess : List Doc) : List Doc :=
  promised ++ sess.filter fun d => !(promised.any fun x => x.id == d.id)

inductive Out
  | ok
  | ids (l : List Id)
  | errClosed | errAlreadyClosed | errLocked
  | errNotFound | errVecNotFound | errVecDeleted
  | errNoIndex            -- query for a modality without template ("memtable search failed")
  | notEnabled            -- an internal step whose guard is false: nothing happens
  | seg (id : Nat)        -- an internal step that wrote segment `id`
deriving DecidableEq, Repr

/-! ### memtable queue (storage_memtable.go) -/

def newMemtable (uid : Nat) : Memtable := ⟨uid, [], 0, 0, false⟩

def modifyLast {α} (f : α → α) : List α → List α
  | [] => []
  | [a] => [f a]
  | a :: b :: r => a :: modifyLast f (b :: r)

def lastD {α} (d : α) : List α → α
  | [] => d
  | [a] => a
  | _ :: b :: r => lastD d (b :: r)

/-- all elements but the last (`listFrozen`) -/
def butLast {α} : List α → List α
  | [] => []
  | [_] => []
  | a :: b :: r => a :: butLast (b :: r)

/-- `hasRoomFor` of the mutable memtable -/
def hasRoom (limit : Nat) (mts : List Memtable) (d : Doc) : Bool :=
  match mts.getLast? with
  | some m => !m.frozen && decide (m.size + d.size ≤ limit)
  | none => false

/-- `rotateNoLock` -/
def rotateQ (mts : List Memtable) (uid : Nat) : List Memtable :=
  modifyLast (fun m => { m with frozen := true }) mts ++ [newMemtable uid]

def totalSize (mts : List Memtable) : Nat := (mts.map (·.size)).foldl (· + ·) 0

def putInfo (l : List Info) (i : Info) : List Info := l.filter (fun j => j.id != i.id) ++ [i]

/-- `memtableQueue.remove`: by identity, never the last element -/
def removeMt (uid : Nat) : List Memtable → List Memtable
  | [] => []
  | [a] => [a]
  | a :: b :: r => if a.uid = uid then b :: r else a :: removeMt uid (b :: r)

/-! ### segment manager (storage_segment.go) -/

/-- `segmentManager.remove`: overwrite with the last element, truncate -/
def replaceFirst (id : Nat) (l : Seg) : List Seg → List Seg
  | [] => []
  | s :: r => if s.id = id then l :: r else s :: replaceFirst id l r

def removeSwap (segs : List Seg) (id : Nat) : List Seg :=
  match segs.getLast? with
  | none => []
  | some l => if segs.any (fun g => decide (g.id = id)) then (replaceFirst id l segs).dropLast else segs

def setCached (segs : List Seg) (id : Nat) (c : Bool) : List Seg :=
  segs.map fun s => if s.id = id then { s with cached := c } else s

def isCached (segs : List Seg) (id : Nat) : Option Bool :=
  (segs.find? (·.id = id)).map (·.cached)

/-! ### writing a segment -/

/-- flushMemtable / compaction write: nextSegmentID, hybrid.Flush on the shared
    templates, files, ghost bookkeeping. Does NOT register the segment. -/
def writeSegment (s : Store) (info : List Info) : Store × Nat :=
  let id := s.counter + 1
  let T := s.T.flush
  let steps := writeSteps s.cfg.tpl id info T
  ({ s with counter := id, T := T, fs := applySteps s.fs steps,
            gh := { s.gh with everNamed := id :: s.gh.everNamed,
                              allocated := id :: s.gh.allocated,
                              overwrote := s.gh.overwrote || overwrites s.fs steps,
                              reused := s.gh.reused || s.gh.everNamed.any fun j => decide (id ≤ j) } }, id)

/-- flushMemtable(mt): write + segmentManager.add -/
def flushOne (s : Store) (m : Memtable) : Store × Nat :=
  let (s', id) := writeSegment s m.info
  ({ s' with segs := s'.segs ++ [⟨id, false⟩] }, id)

/-- `flushMemtables()` run to completion on the caller's goroutine (client Flush) -/
def flushAll (s : Store) : List Memtable → Store
  | [] => s
  | m :: rest =>
    let (s', _) := flushOne s m
    flushAll { s' with mts := removeMt m.uid s'.mts } rest

/-! ### search -/

/-- what one segment goroutine of `persistentHybridSearch.Execute` does, as events:
    `load id` = getIndex misses the cache and deserialises; `scan id` = the search on
    the (cached) index. The real goroutines run concurrently; a schedule is the order
    in which these events hit the shared templates. -/
inductive SegEv
  | load (id : Nat)
  | scan (id : Nat)
deriving DecidableEq, Repr

structure SearchSt where
  T : Shared
  segs : List Seg
  acc : List Id
  loads : Nat
  gh : Ghost

def segEvent (cfg : Cfg) (fs : FS) (q : Q) (st : SearchSt) : SegEv → SearchSt
  | .load id =>
    match isCached st.segs id with
    | some false =>
      let (ok, T') := loadSeg cfg.tpl fs id st.T                -- D13: ReadFrom into the templates
      { st with T := T', segs := if ok then setCached st.segs id true else st.segs,
                -- counted when the open phase passed and ReadFrom was entered
                loads := st.loads + (if (openAll fs id (comps cfg.tpl)).isSome then 1 else 0),
                gh := { st.gh with loadLost := st.gh.loadLost || !T'.coversLive st.T,
                                   revived := st.gh.revived || T'.livesAny st.gh.gone } }
    | _ => st
  | .scan id =>
    match isCached st.segs id with
    | some true => { st with acc := st.acc ++ st.T.matchIds q }   -- D13: the cached index IS the templates
    | _ => st

/-- the serialised schedule the harness enforces: one goroutine at a time, in `order` -/
def serialSched (order : List Nat) : List SegEv := order.flatMap fun id => [.load id, .scan id]

/-! ## steps -/

inductive Bg
  | fwake | ffinal | flist | fwrite | fremove
  | cwake | cexit | clist | cload | cwrite | cswap
deriving DecidableEq, Repr

inductive Step
  | add (d : Doc)              -- Add / AddWithID (the id is the one the call acknowledged)
  | remove (id : Id)
  | flush
  | rotate                     -- memtableQueue.Rotate (forced)
  | trigger                    -- TriggerCompaction
  | evict                      -- segmentManager.EvictAllCaches
  | search (q : Q) (sched : List SegEv)
  | close                      -- Close up to and including close(closeChan)
  | closeDone                  -- wg.Wait returned; provider.close
  | reopen                     -- OpenPersistentHybridIndex with FRESH templates
  | bg (b : Bg)
deriving DecidableEq, Repr

def running (s : Store) : Bool := s.opened && !s.closed

def execAdd (s : Store) (d : Doc) : Store × Out :=
  if !running s then (s, .errClosed) else
  let s1 := if hasRoom s.cfg.limit s.mts d then s
            else { s with mts := rotateQ s.mts s.nextUid, nextUid := s.nextUid + 1 }
  let i := infoOf s.cfg.tpl d
  let mts := modifyLast (fun m => { m with info := putInfo m.info i, size := m.size + d.size, count := m.count + 1 }) s1.mts
  ({ s1 with T := s1.T.add i, mts := mts,
             flushSig := s1.flushSig || decide (s1.cfg.flushThr ≤ totalSize mts),
             gh := { s1.gh with acked := d :: s1.gh.acked, sess := d :: s1.gh.sess,
                                gone := s1.gh.gone.filter fun j => j != d.id,
                                readded := s1.gh.readded || (s1.gh.acked.any fun a => a.id == d.id) } }, .ok)

def execRemove (s : Store) (id : Id) : Store × Out :=
  if !running s then (s, .errClosed) else
  match s.mts.getLast? with
  | none => (s, .ok)
  | some m =>
    match m.info.find? (·.id = id) with
    | none => (s, .errNotFound)
    | some i =>
      match s.T.remove i with
      | .error .vecDeleted => (s, .errVecDeleted)
      | .error _ => (s, .errVecNotFound)
      | .ok T' =>
        ({ s with T := T', mts := modifyLast (fun m => { m with info := m.info.filter fun j => j.id != id }) s.mts,
                  gh := { s.gh with removed := id :: s.gh.removed,
                                    gone := id :: s.gh.gone.filter fun j => j != id,
                                    sess := s.gh.sess.filter fun d => d.id != id } }, .ok)

/-- client `Flush()`. With `flushRotatesMutable` (the D12 repair) a non-empty mutable
    memtable would be rotated first. -/
def execFlush (s : Store) : Store × Out :=
  if !running s then (s, .errClosed) else
  let s1 := if flushRotatesMutable && (match s.mts.getLast? with | some m => decide (0 < m.count) | none => false)
            then { s with mts := rotateQ s.mts s.nextUid, nextUid := s.nextUid + 1 } else s
  let s2 := flushAll s1 (butLast s1.mts)
  ({ s2 with gh := { s2.gh with promised := promise s2.gh.promised s2.gh.sess } }, .ok)

def execSearch (s : Store) (q : Q) (sched : List SegEv) : Store × Out × Nat :=
  if !running s then (s, .errClosed, 0) else
  if !s.cfg.tpl.has q then (s, .errNoIndex, 0) else
  -- D13: every memtable's index wraps the shared templates: each memtable search returns matchIds T
  let acc0 := (s.mts.flatMap fun _ => s.T.matchIds q)
  let st := sched.foldl (segEvent s.cfg s.fs q) ⟨s.T, s.segs, acc0, 0, s.gh⟩
  ({ s with T := st.T, segs := st.segs, gh := st.gh }, .ids st.acc.eraseDups, st.loads)

def fwDone (final : Bool) : FW := if final then .exited else .idle

def execBg (s : Store) : Bg → Store × Out
  | .fwake =>
    match s.fw with
    | .idle => if s.opened && s.flushSig then ({ s with fw := .woken false, flushSig := false }, .ok) else (s, .notEnabled)
    | _ => (s, .notEnabled)
  | .ffinal =>
    match s.fw with
    | .idle => if s.opened && s.closed then ({ s with fw := .woken true }, .ok) else (s, .notEnabled)
    | _ => (s, .notEnabled)
  | .flist =>
    match s.fw with
    | .woken f =>
      match butLast s.mts with
      | [] => ({ s with fw := fwDone f }, .ok)
      | l => ({ s with fw := .todo f l }, .ok)
    | _ => (s, .notEnabled)
  | .fwrite =>
    match s.fw with
    | .todo f (m :: rest) =>
      let (s', id) := flushOne s m
      ({ s' with fw := .written f m rest }, .seg id)
    | _ => (s, .notEnabled)
  | .fremove =>
    match s.fw with
    | .written f m rest =>
      ({ s with mts := removeMt m.uid s.mts, fw := match rest with | [] => fwDone f | _ => .todo f rest }, .ok)
    | _ => (s, .notEnabled)
  | .cwake =>
    match s.cw with
    | .idle => if s.opened && s.compSig then ({ s with cw := .woken, compSig := false }, .ok) else (s, .notEnabled)
    | _ => (s, .notEnabled)
  | .cexit =>
    match s.cw with
    | .idle => if s.opened && s.closed then ({ s with cw := .exited }, .ok) else (s, .notEnabled)
    | _ => (s, .notEnabled)
  | .clist =>
    match s.cw with
    | .woken =>
      if s.segs.length < s.cfg.compThr then ({ s with cw := .idle }, .ok) else
      match (s.segs.take s.cfg.compThr).map (·.id) with
      | [] => ({ s with cw := .idle }, .ok)
      | srcs => ({ s with cw := .loading srcs srcs }, .ok)
    | _ => (s, .notEnabled)
  | .cload =>
    match s.cw with
    | .loading srcs (id :: rest) =>
      -- seg.getIndex on the segment object captured by maybeCompact
      match isCached s.segs id with
      | some false =>
        let (ok, T') := loadSeg s.cfg.tpl s.fs id s.T
        let gh := { s.gh with loadLost := s.gh.loadLost || !T'.coversLive s.T,
                              revived := s.gh.revived || T'.livesAny s.gh.gone }
        if ok then ({ s with T := T', segs := setCached s.segs id true, cw := .loading srcs rest, gh := gh }, .ok)
        else ({ s with T := T', cw := .idle, gh := gh }, .ok)   -- "failed to load segment": compaction gives up
      | _ => ({ s with cw := .loading srcs rest }, .ok)
    | _ => (s, .notEnabled)
  | .cwrite =>
    match s.cw with
    | .loading srcs [] =>
      -- mergedIndex = fresh wrapper (docInfo ∅) over the shared templates; nothing is merged
      let (s', id) := writeSegment s []
      ({ s' with cw := .wrote srcs id, gh := { s'.gh with compacted := true } }, .seg id)
    | _ => (s, .notEnabled)
  | .cswap =>
    match s.cw with
    | .wrote srcs id =>
      let segs := srcs.foldl removeSwap (s.segs ++ [⟨id, false⟩])
      let fs := applySteps s.fs (srcs.flatMap deleteSteps)
      ({ s with segs := segs, fs := fs, cw := .idle, gh := { s.gh with compacted := true } }, .ok)
    | _ => (s, .notEnabled)

/-- OpenPersistentHybridIndex on directory `fs` with templates whose content is `T0`
    (fresh templates: `Shared.empty`) -/
def openOn (cfg : Cfg) (fs : FS) (T0 : Shared) (gh : Ghost) : Store × Out :=
  if FS.has fs .lock then
    (⟨cfg, T0, [], 0, [], fs, 0, false, true, false, false, .exited, .exited, { gh with sess := [] }⟩, .errLocked)
  else
    let fs' := FS.put fs .lock ⟨.lock, .full⟩
    (⟨cfg, T0, [newMemtable 0], 1, (listSegments fs').map (⟨·, false⟩), fs', initCounter fs',
      true, false, false, false, .idle, .idle,
      { gh with sess := [] }⟩, .ok)

def exec (s : Store) : Step → Store × Out
  | .add d => execAdd s d
  | .remove id => execRemove s id
  | .flush => execFlush s
  | .rotate =>
    if !running s then (s, .errClosed) else
    ({ s with mts := rotateQ s.mts s.nextUid, nextUid := s.nextUid + 1 }, .ok)
  | .trigger => if !s.opened then (s, .ok) else ({ s with compSig := true }, .ok)
  | .evict =>
    if !running s then (s, .errClosed) else
    ({ s with segs := s.segs.map fun g => { g with cached := false } }, .ok)
  | .search q sched => let r := execSearch s q sched; (r.1, r.2.1)
  | .close =>
    if !running s then (s, .errAlreadyClosed) else
    let s1 := if flushRotatesMutable && (match s.mts.getLast? with | some m => decide (0 < m.count) | none => false)
              then { s with mts := rotateQ s.mts s.nextUid, nextUid := s.nextUid + 1 } else s
    ({ s1 with closed := true }, .ok)
  | .closeDone =>
    if s.opened && s.closed && s.fw = .exited && s.cw = .exited then
      ({ s with opened := false, fs := FS.erase s.fs .lock,
                gh := { s.gh with promised := promise s.gh.promised s.gh.sess } }, .ok)
    else (s, .notEnabled)
  | .reopen =>
    if s.opened then (s, .errLocked) else
    openOn s.cfg s.fs Shared.empty s.gh
  | .bg b => execBg s b

def run (s : Store) (steps : List Step) : Store := steps.foldl (fun s st => (exec s st).1) s

/-- a store freshly opened on an empty directory -/
def Store.init (cfg : Cfg) : Store := (openOn cfg [] Shared.empty {}).1

end Comet.Storage
