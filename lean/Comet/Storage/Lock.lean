/-
  Comet.Storage.Lock — small-step model of directory ownership in the persistent
  store (storage_provider.go: newStorageProvider / acquireLock / releaseLock /
  initSegmentCounter / listSegments / close;  storage.go: OpenPersistentHybridIndex,
  Close, and the `closed` test at the start of every public method).

  What is modelled, line by line:

    OpenPersistentHybridIndex(cfg)              model steps of `Call.open fail`
      newStorageProvider
        os.MkdirAll(baseDir)                    oMkdir      (failure → return error, nothing to undo)
        acquireLock
          OpenFile(LOCK, O_CREATE|O_EXCL|…)     oCreate     (exists → "locked"; other error → return; else LOCK now exists)
          lockFile.WriteString(pid)             oWritePid   (failure → lockFile.Close(); os.Remove(LOCK); return error)
          p.lockFile = lockFile
        initSegmentCounter: os.ReadDir          oReadDir1   (failure → provider.releaseLock(); return error)
      provider.listSegments: os.ReadDir         oReadDir2   (failure → provider.close() = releaseLock(); return error)
      wg.Add(2); go flushWorker; go compaction  oSpawn      (cannot fail; the handle is returned)
    the clean-up of the three error paths after a successful create is one step
    `oCleanup` = close the descriptor (local) + os.Remove(LOCK) (+ p.lockFile = nil).

    Close()
      mu.Lock; if closed {return err}; closed = true; mu.Unlock     cTest    (one atomic region)
      close(closeChan)                                              cSignal
      wg.Wait()                                                     cWait    (enabled when both workers have exited)
      provider.close() = releaseLock:
         if p.lockFile == nil {return nil}; p.lockFile.Close()                  cRelease
         os.Remove(LOCK)                                                       cRemove
         p.lockFile = nil; return nil                                          cClear
    flushWorker / compactionWorker                                  Actor.worker h …
      may write segment files while alive (`write`); exit only after closeChan is closed
      (`exit`; the flush worker's final flush is a `write` after the signal).

    Add / AddWithID / Remove / Train / Flush / (search).Execute
      mu.RLock; if closed {RUnlock; return "storage is closed"}; RUnlock      pTest   (own atomic region)
      … body …                                                               pBody   (NOT under the store lock:
                                                         it may run after a concurrent Close has finished)

  `os.Remove(LOCK)` is path based: the model's remove step clears the LOCK entry
  whoever created it — that it only ever removes the caller's own LOCK is a theorem
  (Properties.C17.remove_only_own_lock / lock_mutex), not built in.  Likewise
  `releaseLock`'s early return on `p.lockFile == nil` is modelled (cRelease) and proved
  dead on the Close path (close_release_never_skips).
  Not modelled: a nil config (returns before touching anything); the CONTENT of the
  listing read by the two ReadDirs (segment ids: C09/C10) — no file name can make them
  fail, parse errors are ignored by initSegmentCounter/listSegments; what an operation's
  body does besides possibly writing segment files (C08).

  Assumptions (stated, not proved): `OpenFile(O_CREATE|O_EXCL)` is an atomic
  test-and-set on the LOCK entry of one file system (the `oCreate` step is atomic);
  the clean-up system calls (close, unlink of the file just created) do not fail.

  A "thread" is a goroutine of this or of another process: the model lets any thread
  call on any returned handle, a superset of what processes can do.
  Threads run programs (`List Call`); a scheduler picks any enabled actor; failures
  are injected by the program (`Call.open (some pos)`): every position, every
  interleaving is covered by the theorems.  The global event log is write-only
  (returned by `step`, accumulated by `run`), so it cannot influence behaviour.
-/
namespace Comet.Lock

/-- An open attempt / store handle is named by (thread, index of the call in that
    thread's history): unique by construction. -/
abbrev Owner := Nat × Nat

/-- The storage directory as far as open/close touch it. -/
structure Dir where
  /-- the directory exists -/
  present : Bool
  /-- the LOCK entry and which open attempt created it -/
  lock : Option Owner
  /-- number of segment-file writes so far (version of the rest of the listing) -/
  writes : Nat
deriving DecidableEq, Repr, Hashable

/-- positions at which `open` can fail (spawning the workers cannot) -/
inductive OStep | mkdir | create | writePid | readDir1 | readDir2
deriving DecidableEq, Repr, Hashable

/-- the public operations that begin with the `closed` test; `flush n` writes `n`
    segment files in its body (n = number of frozen memtables, an input here) -/
inductive OpKind | add | addWithID | remove | train | search | flush (n : Nat)
deriving DecidableEq, Repr, Hashable

def OpKind.bodyWrites : OpKind → Nat
  | .flush n => n
  | _ => 0

inductive Call
  | open (fail : Option OStep)
  | close (h : Owner)
  | op (h : Owner) (k : OpKind)
deriving DecidableEq, Repr, Hashable

inductive Res
  | opened | errMkdir | errLocked | errCreate | errWritePid | errReadDir1 | errReadDir2
  | closedOk | errAlreadyClosed
  | opOk | errClosed
deriving DecidableEq, Repr, Hashable

/-- control state of a thread -/
inductive Pc
  | idle
  | oMkdir (f : Option OStep) | oCreate (f : Option OStep) | oWritePid (f : Option OStep)
  | oReadDir1 (f : Option OStep) | oReadDir2 (f : Option OStep) | oSpawn
  | oCleanup (r : Res)
  | cTest (h : Owner) | cSignal (h : Owner) | cWait (h : Owner)
  | cRelease (h : Owner) | cRemove (h : Owner) | cClear (h : Owner)
  | pTest (h : Owner) (k : OpKind) | pBody (h : Owner) (k : OpKind) (left : Nat)
deriving DecidableEq, Repr, Hashable

structure Thread where
  todo : List Call := []
  /-- number of calls this thread has completed = index of its current/next call -/
  idx : Nat := 0
  pc : Pc := .idle
  /-- results of the completed calls, newest first -/
  results : List Res := []
deriving DecidableEq, Repr, Hashable

/-- `*PersistentHybridIndex` + its `*storageProvider` -/
structure Handle where
  /-- returned to the caller by a successful open -/
  published : Bool := false
  /-- the descriptor this attempt obtained for LOCK (local `lockFile` in acquireLock,
      later `provider.lockFile`) is open -/
  fdOpen : Bool := false
  /-- `provider.lockFile != nil` -/
  lockFile : Bool := false
  closed : Bool := false
  /-- `closeChan` is closed -/
  signalled : Bool := false
  /-- background workers still alive (2 after a successful open) -/
  running : Nat := 0
deriving DecidableEq, Repr, Hashable

structure State where
  dir : Dir
  handles : Owner → Handle
  threads : Nat → Thread

/-- write-only trace -/
inductive Ev
  | inv (t i : Nat) (c : Call)
  /-- call (t,i) on attempt / handle `o` returned `r` -/
  | ret (t i : Nat) (o : Owner) (r : Res)
  /-- the O_EXCL create of attempt `o` succeeded -/
  | createOk (o : Owner)
  /-- os.Remove(LOCK) executed on behalf of attempt / handle `o` -/
  | removeLock (o : Owner)
  /-- Close's atomic test-and-set of `closed` on handle `h` by call (t,i) -/
  | testSet (t i : Nat) (h : Owner) (won : Bool)
  /-- a public operation's atomic `closed` test -/
  | test (t i : Nat) (h : Owner) (passed : Bool)
deriving DecidableEq, Repr

inductive WAct | write | exit
deriving DecidableEq, Repr

/-- who moves next -/
inductive Actor
  | thread (t : Nat)
  | worker (h : Owner) (a : WAct)
deriving DecidableEq, Repr

def upd {α β : Type} [DecidableEq α] (f : α → β) (a : α) (b : β) : α → β :=
  fun x => if x = a then b else f x

@[simp] theorem upd_same {α β : Type} [DecidableEq α] (f : α → β) (a : α) (b : β) :
    upd f a b a = b := by simp [upd]

@[simp] theorem upd_other {α β : Type} [DecidableEq α] (f : α → β) (a x : α) (b : β) (h : x ≠ a) :
    upd f a b x = f x := by simp [upd, h]

def init (present : Bool) (progs : Nat → List Call) : State :=
  { dir := { present := present, lock := none, writes := 0 }
    handles := fun _ => {}
    threads := fun t => { todo := progs t } }

/-- the current call of thread `t` returns `r` -/
def State.ret (s : State) (t : Nat) (o : Owner) (r : Res) : State × List Ev :=
  let th := s.threads t
  ({ s with threads := upd s.threads t { th with pc := .idle, idx := th.idx + 1, results := r :: th.results } },
   [Ev.ret t th.idx o r])

def State.goto (s : State) (t : Nat) (pc : Pc) : State :=
  { s with threads := upd s.threads t { s.threads t with pc := pc } }

def State.setHandle (s : State) (h : Owner) (f : Handle → Handle) : State :=
  { s with handles := upd s.handles h (f (s.handles h)) }

/-- one atomic step of thread `t`; `none` = not enabled -/
def tstep (s : State) (t : Nat) : Option (State × List Ev) :=
  let th := s.threads t
  let o : Owner := (t, th.idx)
  match th.pc with
  | .idle =>
    match th.todo with
    | [] => none
    | c :: rest =>
      let start (pc : Pc) : State := { s with threads := upd s.threads t { th with todo := rest, pc := pc } }
      match c with
      | .open f => some (start (.oMkdir f), [Ev.inv t th.idx (.open f)])
      | .close h => if (s.handles h).published then some (start (.cTest h), [Ev.inv t th.idx (.close h)]) else none
      | .op h k => if (s.handles h).published then some (start (.pTest h k), [Ev.inv t th.idx (.op h k)]) else none
  -- os.MkdirAll
  | .oMkdir f =>
    if f = some .mkdir then some (s.ret t o .errMkdir)
    else some (({ s with dir := { s.dir with present := true } } : State).goto t (.oCreate f), [])
  -- os.OpenFile(LOCK, O_CREATE|O_EXCL|O_WRONLY)
  | .oCreate f =>
    if f = some .create then some (s.ret t o .errCreate)
    else match s.dir.lock with
      | some _ => some (s.ret t o .errLocked)
      | none =>
        some ((({ s with dir := { s.dir with lock := some o } } : State).setHandle o
                fun h => { h with fdOpen := true }).goto t (.oWritePid f), [Ev.createOk o])
  -- lockFile.WriteString(pid); p.lockFile = lockFile
  | .oWritePid f =>
    if f = some .writePid then some (s.goto t (.oCleanup .errWritePid), [])
    else some ((s.setHandle o fun h => { h with lockFile := true }).goto t (.oReadDir1 f), [])
  -- initSegmentCounter
  | .oReadDir1 f =>
    if f = some .readDir1 then some (s.goto t (.oCleanup .errReadDir1), [])
    else some (s.goto t (.oReadDir2 f), [])
  -- listSegments
  | .oReadDir2 f =>
    if f = some .readDir2 then some (s.goto t (.oCleanup .errReadDir2), [])
    else some (s.goto t .oSpawn, [])
  -- wg.Add(2); go flushWorker(); go compactionWorker(); return storage
  | .oSpawn =>
    let (s2, ev) := (s.setHandle o fun h => { h with published := true, running := 2 }).ret t o .opened
    some (s2, ev)
  -- lockFile.Close(); os.Remove(lockPath)   /   releaseLock()
  | .oCleanup r =>
    let s1 : State := { s with dir := { s.dir with lock := none } }
    let (s2, ev) := (s1.setHandle o fun h => { h with fdOpen := false, lockFile := false }).ret t o r
    some (s2, Ev.removeLock o :: ev)
  -- Close: test-and-set under the store lock
  | .cTest h =>
    if (s.handles h).closed then
      let (s2, ev) := s.ret t h .errAlreadyClosed
      some (s2, Ev.testSet t th.idx h false :: ev)
    else some ((s.setHandle h fun x => { x with closed := true }).goto t (.cSignal h), [Ev.testSet t th.idx h true])
  | .cSignal h => some ((s.setHandle h fun x => { x with signalled := true }).goto t (.cWait h), [])
  | .cWait h => if (s.handles h).running = 0 then some (s.goto t (.cRelease h), []) else none
  -- releaseLock: nil check, p.lockFile.Close()
  | .cRelease h =>
    if (s.handles h).lockFile then
      some ((s.setHandle h fun x => { x with fdOpen := false }).goto t (.cRemove h), [])
    else some (s.ret t h .closedOk)
  -- os.Remove(lockPath)
  | .cRemove h =>
    some (({ s with dir := { s.dir with lock := none } } : State).goto t (.cClear h), [Ev.removeLock h])
  -- p.lockFile = nil
  | .cClear h =>
    some ((s.setHandle h fun x => { x with lockFile := false }).ret t h .closedOk)
  -- public operation: the `closed` test in its own region, then the body
  | .pTest h k =>
    if (s.handles h).closed then
      let (s2, ev) := s.ret t h .errClosed
      some (s2, Ev.test t th.idx h false :: ev)
    else some (s.goto t (.pBody h k k.bodyWrites), [Ev.test t th.idx h true])
  | .pBody h k left =>
    match left with
    | 0 => some (s.ret t h .opOk)
    | n + 1 => some (({ s with dir := { s.dir with writes := s.dir.writes + 1 } } : State).goto t (.pBody h k n), [])

/-- one step of a background worker of handle `h` -/
def wstep (s : State) (h : Owner) : WAct → Option (State × List Ev)
  | .write =>
    if (s.handles h).running = 0 then none
    else some ({ s with dir := { s.dir with writes := s.dir.writes + 1 } }, [])
  | .exit =>
    if (s.handles h).running = 0 ∨ ¬ (s.handles h).signalled then none
    else some (s.setHandle h fun x => { x with running := x.running - 1 }, [])

def step (s : State) : Actor → Option (State × List Ev)
  | .thread t => tstep s t
  | .worker h a => wstep s h a

/-- run a schedule; the log is newest-first; `none` if some chosen actor was not enabled -/
def run (s : State) (log : List Ev) : List Actor → Option (State × List Ev)
  | [] => some (s, log)
  | a :: rest =>
    match step s a with
    | none => none
    | some (s', ev) => run s' (ev.reverse ++ log) rest

/-- like `run`, but a chosen actor that is not enabled is skipped (used by examples
    and by the driver's exploration) -/
def runSkip (s : State) (log : List Ev) : List Actor → State × List Ev
  | [] => (s, log)
  | a :: rest =>
    match step s a with
    | none => runSkip s log rest
    | some (s', ev) => runSkip s' (ev.reverse ++ log) rest

/-- `s` with trace `log` is reachable from the initial state of `progs` -/
inductive Reachable (present : Bool) (progs : Nat → List Call) : State → List Ev → Prop
  | init : Reachable present progs (init present progs) []
  | step {s log a s' ev} : Reachable present progs s log → step s a = some (s', ev) →
      Reachable present progs s' (ev.reverse ++ log)

/-! ### trace predicates -/

/-- attempt `o` is between its successful O_EXCL create and the removal of its LOCK -/
def Between (log : List Ev) (o : Owner) : Prop :=
  Ev.createOk o ∈ log ∧ Ev.removeLock o ∉ log

instance (log : List Ev) (o : Owner) : Decidable (Between log o) := by
  unfold Between; exact inferInstance

/-- a usable handle: returned by open, no Close has passed the test-and-set -/
def Live (s : State) (o : Owner) : Prop :=
  (s.handles o).published = true ∧ (s.handles o).closed = false

instance (s : State) (o : Owner) : Decidable (Live s o) := by
  unfold Live; exact inferInstance

/-- has a winning Close test-and-set on `h` been logged? -/
def absClosed (h : Owner) : List Ev → Bool
  | [] => false
  | Ev.testSet _ _ h' true :: rest => h' == h || absClosed h rest
  | _ :: rest => absClosed h rest

/-- The atomic `closed` tests on `h`, in execution order, answer exactly like a
    sequential closable object: an operation's test passes iff no Close has won
    before it; a Close wins iff none has won before it.  (log is newest first) -/
def LinLegal (h : Owner) : List Ev → Prop
  | [] => True
  | Ev.test _ _ h' passed :: rest => (h' = h → passed = !absClosed h rest) ∧ LinLegal h rest
  | Ev.testSet _ _ h' won :: rest => (h' = h → won = !absClosed h rest) ∧ LinLegal h rest
  | _ :: rest => LinLegal h rest

/-- number of winning Close test-and-sets on `h` -/
def wins (h : Owner) : List Ev → Nat
  | [] => 0
  | Ev.testSet _ _ h' true :: rest => (if h' = h then 1 else 0) + wins h rest
  | _ :: rest => wins h rest

/-- what the return of a Close / public operation must find earlier in the trace -/
def retOk (rest : List Ev) (t i : Nat) (h : Owner) : Res → Prop
  | .errClosed => Ev.test t i h false ∈ rest
  | .opOk => Ev.test t i h true ∈ rest
  | .closedOk => Ev.testSet t i h true ∈ rest
  | .errAlreadyClosed => Ev.testSet t i h false ∈ rest
  | .opened | .errMkdir | .errLocked | .errCreate | .errWritePid | .errReadDir1 | .errReadDir2 => True

def evOk (rest : List Ev) : Ev → Prop
  | .ret t i h r => retOk rest t i h r
  | .test t i h _ => (∃ k, Ev.inv t i (.op h k) ∈ rest) ∧ ∀ h' r, Ev.ret t i h' r ∉ rest
  | .testSet t i h _ => Ev.inv t i (.close h) ∈ rest ∧ ∀ h' r, Ev.ret t i h' r ∉ rest
  | .inv t i _ => (∀ h b, Ev.test t i h b ∉ rest) ∧ (∀ h b, Ev.testSet t i h b ∉ rest)
  | .createOk _ | .removeLock _ => True

/-- Every atomic `closed` test lies inside its own call (after the invocation, before
    the return), and every return of a Close / public operation reports exactly what
    its test decided.  (log is newest first) -/
def TestsInsideCalls : List Ev → Prop
  | [] => True
  | e :: rest => TestsInsideCalls rest ∧ evOk rest e

/-- which kind of call a control point belongs to -/
inductive CallKind | none | open | close (h : Owner) | op (h : Owner) (k : OpKind)
deriving DecidableEq, Repr

def Pc.kind : Pc → CallKind
  | .idle => .none
  | .oMkdir _ => .open | .oCreate _ => .open | .oWritePid _ => .open | .oReadDir1 _ => .open
  | .oReadDir2 _ => .open | .oSpawn => .open | .oCleanup _ => .open
  | .cTest h => .close h | .cSignal h => .close h | .cWait h => .close h | .cRelease h => .close h
  | .cRemove h => .close h | .cClear h => .close h
  | .pTest h k => .op h k | .pBody h k _ => .op h k

def Call.kind : Call → CallKind
  | .open _ => .open
  | .close h => .close h
  | .op h k => .op h k

/-- control point `pc` belongs to an execution of call `c` -/
def Pc.runs (c : Call) (pc : Pc) : Prop := pc.kind = c.kind

/-- results a call of kind `c` (named `ti`) may report, and about which handle -/
def Call.mayReturn (c : Call) (ti : Owner) (o : Owner) (r : Res) : Prop :=
  match c with
  | .open _ => o = ti ∧ (r = .opened ∨ r = .errMkdir ∨ r = .errLocked ∨ r = .errCreate ∨
                         r = .errWritePid ∨ r = .errReadDir1 ∨ r = .errReadDir2)
  | .close h => o = h ∧ (r = .closedOk ∨ r = .errAlreadyClosed)
  | .op h _ => o = h ∧ (r = .opOk ∨ r = .errClosed)

/-- `e₁` was logged before `e₂` -/
def Before (log : List Ev) (e₁ e₂ : Ev) : Prop :=
  ∃ l₁ l₂ l₃, log = l₃ ++ e₂ :: l₂ ++ e₁ :: l₁

end Comet.Lock
