/-
  Comet.F32 — executable IEEE binary32 instance of the scalar / metric interfaces.

  Scores travel as `UInt32` bit patterns (decidable equality; exact comparison with
  the implementation's bits).  Transcribed from distance.go operation by operation,
  in the same order, so that results are bit-identical with Go on amd64 (Go does not
  fuse multiply-add there; Lean's runtime compiles each primitive to one C float op).
  `Float32` is opaque to the kernel: no theorem is about this file.
-/
import Comet.Scalar
import Comet.Vector.Flat
namespace Comet.F32

abbrev Vec := Array Float32

@[inline] def f (b : UInt32) : Float32 := Float32.ofBits b
@[inline] def b (x : Float32) : UInt32 := x.toBits

/-- `float32(math.Sqrt(float64(x)))` -/
@[inline] def sqrt32 (x : Float32) : Float32 := x.toFloat.sqrt.toFloat32

def sumSqDiff (a c : Vec) : Float32 := Id.run do
  let mut s : Float32 := 0
  for i in [0:a.size] do
    let d := a[i]! - c[i]!
    s := s + d * d
  return s

def dot (a c : Vec) : Float32 := Id.run do
  let mut s : Float32 := 0
  for i in [0:a.size] do
    s := s + a[i]! * c[i]!
  return s

def sumSq (a : Vec) : Float32 := Id.run do
  let mut s : Float32 := 0
  for x in a do
    s := s + x * x
  return s

def euclid (a c : Vec) : Float32 := sqrt32 (sumSqDiff a c)
def l2sq (a c : Vec) : Float32 := sumSqDiff a c
def cosine (a c : Vec) : Float32 :=
  let d := dot a c
  let d := if d > 1 then 1 else if d < -1 then -1 else d
  1 - d

def norm (a : Vec) : Float32 := sqrt32 (sumSq a)

/-- cosine `Preprocess` / `PreprocessInPlace` -/
def normalize? (a : Vec) : Option Vec :=
  let n := norm a
  if n == 0 then none else
  let scale : Float32 := 1.0 / n
  some (a.map (· * scale))

def scalar : Scalar UInt32 where
  zero := b 0
  add x y := b (f x + f y)
  divNat x n := b (f x / (Float32.ofNat n))
  le x y := decide (f x ≤ f y)
  lt x y := decide (f x < f y)

inductive MetricKind | l2 | l2sq | cos
deriving Repr, DecidableEq

def MetricKind.parse : String → Option MetricKind
  | "l2" => some .l2 | "l2_squared" => some .l2sq | "cosine" => some .cos | _ => none

def metric : MetricKind → Metric Vec UInt32
  | .l2   => { dimOf := Array.size, pre := some, dist := fun a c => b (euclid a c), sc := scalar }
  | .l2sq => { dimOf := Array.size, pre := some, dist := fun a c => b (l2sq a c), sc := scalar }
  | .cos  => { dimOf := Array.size, pre := normalize?, dist := fun a c => b (cosine a c), sc := scalar }

end Comet.F32
