/-
  Comet.Merge — storage_merge.go: `mergeResults` (keep the highest score per id)
  and `sortResultsByScore` (descending).

  The score map is an association list (see Comet.Fusion); Go returns its entries
  in map order, the model in first-insertion order — answers are compared as sets.
  Core Lean only.
-/
import Comet.Fusion
import Comet.Agg
namespace Comet

/-- one iteration of the accumulation loop of `mergeResults`:
    `if !exists || result.Score > existingScore { scoreMap[result.ID] = result.Score }` -/
def mergeStep (lt : S → S → Bool) (m : List (Id × S)) (r : Hit S) : List (Id × S) :=
  match m.lookup r.id with
  | some e => if lt e r.score then aset r.id r.score m else m
  | none => aset r.id r.score m

def mergeMap (lt : S → S → Bool) (xs : List (Hit S)) : List (Id × S) :=
  xs.foldl (mergeStep lt) []

/-- `mergeResults` (`nil` for an empty input is the empty list) -/
def mergeResults (lt : S → S → Bool) (xs : List (Hit S)) : List (Hit S) :=
  if xs.length == 0 then [] else (mergeMap lt xs).map fun p => ⟨p.1, p.2⟩

/-- `sortResultsByScore`: descending (`results[i].Score > results[j].Score`) -/
def sortResultsByScore (le : S → S → Bool) (xs : List (Hit S)) : List (Hit S) :=
  xs.mergeSort (hitLe fun a b => le b a)

end Comet
