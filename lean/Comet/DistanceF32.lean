/-
  Comet.DistanceF32 — the IEEE binary32 instance of `Comet.Dist.Ops` (execution only;
  `Float32` is opaque to the kernel, no theorem is about this instance except the
  scalar-generic ones such as `Dist.batch_eq_map`), and exact conversion of float32
  bit patterns to ℚ (used by the driver to evaluate the property's laws and error
  bounds exactly on the implementation's outputs).
-/
import Comet.Distance
namespace Comet.Dist

def f32Inf : Float32 := Float32.ofBits 0x7f800000

/-- Go's float32 arithmetic on amd64: one IEEE operation per Go operation, `sqrt`
    through float64 as `float32(math.Sqrt(float64(x)))`. -/
def f32 : Ops Float32 where
  zero := 0
  one := 1
  add := (· + ·)
  sub := (· - ·)
  mul := (· * ·)
  div := (· / ·)
  neg := fun x => -x
  sqrt := fun x => x.toFloat.sqrt.toFloat32
  lt := fun a b => decide (a < b)
  isZero := fun x => x == 0
  ofNat := Float32.ofNat
  ltInf := fun x => decide (x < f32Inf)

/-- finite (neither ±Inf nor NaN) -/
def finiteBits (u : UInt32) : Bool := (u.toNat / 8388608) % 256 != 255

def finite32 (x : Float32) : Bool := finiteBits x.toBits

/-- exact value of a finite binary32 bit pattern -/
def ratOfBits (u : UInt32) : Rat :=
  let n := u.toNat
  let neg := n / 2147483648 == 1
  let e := (n / 8388608) % 256
  let m := n % 8388608
  let mag : Rat :=
    if e == 0 then (m : Rat) / ((2 : Rat) ^ 149)
    else if e ≥ 150 then ((8388608 + m : Nat) : Rat) * ((2 : Rat) ^ (e - 150))
    else ((8388608 + m : Nat) : Rat) / ((2 : Rat) ^ (150 - e))
  if neg then -mag else mag

def toRat (x : Float32) : Rat := ratOfBits x.toBits

/-- exact value of a finite binary32 bit pattern as an integer multiple of 2⁻¹⁴⁹:
    `x = intOfBits x / 2^149` (every finite float32 is such a multiple) -/
def intOfBits (u : UInt32) : Int :=
  let n := u.toNat
  let neg := n / 2147483648 == 1
  let e := (n / 8388608) % 256
  let m := n % 8388608
  let mag : Nat := if e == 0 then m else (8388608 + m) * 2 ^ (e - 1)
  if neg then -(mag : Int) else (mag : Int)

/-- the unit of `intOfBits`: 2^149 -/
def unitQ : Int := 2 ^ 149

def toInt (x : Float32) : Int := intOfBits x.toBits

def rabs (x : Rat) : Rat := if x < 0 then -x else x

/-- exact-field instance over ℚ (no square root: `sqrt` is the identity and must not
    be used; only the root-free functions — `l2sq`, `dot`, `sumSq`, k-means with a
    root-free distance — are evaluated at this instance). -/
def ratOps : Ops Rat where
  zero := 0
  one := 1
  add := (· + ·)
  sub := (· - ·)
  mul := (· * ·)
  div := (· / ·)
  neg := fun x => -x
  sqrt := id
  lt := fun a b => decide (a < b)
  isZero := fun x => decide (x = 0)
  ofNat := fun n => (n : Rat)
  ltInf := fun _ => true

end Comet.Dist
