/-
  Comet.Distance — model of distance.go, written ONCE over a structure of scalar
  operations `Ops S` and instantiated
    * with IEEE binary32 (`Comet.Dist.f32`, Comet/DistanceF32.lean) — executed by the
      driver and compared bit for bit with the Go code on every run;
    * with ℚ where an exact oracle is useful;
    * with ℝ in the proof files (CometProofs/Distance.lean, Properties/C18.lean).

  Every function mirrors one Go function, loop for loop, operation for operation, in
  the same order (`sum += d*d` is `add sum (mul d d)`, `1.0 / norm` is `div one norm`,
  `float32(math.Sqrt(float64(sum)))` is `sqrt sum`).  Vectors are lists; Go's
  `for i := range a { … a[i] … b[i] … }` is `zipWith` — it reads exactly the first
  `len a` components of `b` and panics when `b` is shorter, which `calculate?` makes
  explicit; the theorems carry the property's hypothesis `a.length = b.length`.
-/
namespace Comet.Dist

/-- the scalar operations distance.go / clustering.go use -/
structure Ops (S : Type) where
  zero   : S
  one    : S
  add    : S → S → S
  sub    : S → S → S
  mul    : S → S → S
  div    : S → S → S
  neg    : S → S
  /-- `float32(math.Sqrt(float64(x)))` -/
  sqrt   : S → S
  /-- Go `a < b` -/
  lt     : S → S → Bool
  /-- Go `x == 0` -/
  isZero : S → Bool
  /-- Go `float32(n)` for a non-negative `int` -/
  ofNat  : Nat → S
  /-- Go `x < float32(math.Inf(1))` (true for every element of an exact field) -/
  ltInf  : S → Bool

inductive Kind | l2 | l2sq | cos
deriving Repr, DecidableEq, Inhabited

def Kind.parse : String → Option Kind
  | "l2" => some .l2 | "l2_squared" => some .l2sq | "cosine" => some .cos | _ => none

def Kind.name : Kind → String
  | .l2 => "l2" | .l2sq => "l2_squared" | .cos => "cosine"

section
variable {S : Type} (o : Ops S)

/-- `var sum float32; for i := range a { diff := a[i]-b[i]; sum += diff*diff }` -/
def sumSqDiff (a b : List S) : S :=
  (List.zipWith (fun x y => let d := o.sub x y; o.mul d d) a b).foldl o.add o.zero

/-- `var dot float32; for i := range a { dot += a[i]*b[i] }` -/
def dot (a b : List S) : S :=
  (List.zipWith o.mul a b).foldl o.add o.zero

/-- `var sum float32; for _, x := range v { sum += x*x }` -/
def sumSq (a : List S) : S :=
  a.foldl (fun s x => o.add s (o.mul x x)) o.zero

/-- `euclidean.Calculate` -/
def euclid (a b : List S) : S := o.sqrt (sumSqDiff o a b)

/-- `l2Squared.Calculate` -/
def l2sq (a b : List S) : S := sumSqDiff o a b

/-- `if dot > 1 { dot = 1 } else if dot < -1 { dot = -1 }` -/
def clamp (d : S) : S :=
  if o.lt o.one d then o.one else if o.lt d (o.neg o.one) then o.neg o.one else d

/-- `cosine.Calculate` (on whatever it is given; it *assumes* unit vectors) -/
def cosine (a b : List S) : S := o.sub o.one (clamp o (dot o a b))

/-- `Norm` -/
def norm (a : List S) : S := o.sqrt (sumSq o a)

/-- `Scale` -/
def scale (a : List S) (s : S) : List S := a.map fun x => o.mul x s

/-- `cosine.Preprocess` and (as the new buffer content) `cosine.PreprocessInPlace`:
    `none` = ErrZeroVector (buffer untouched). -/
def cosPre (a : List S) : Option (List S) :=
  let n := norm o a
  if o.isZero n then none else
  let sc := o.div o.one n
  some (a.map fun x => o.mul x sc)

/-- `Normalize` and (as the new buffer content) `NormalizeInPlace` -/
def normalize (a : List S) : List S :=
  let n := norm o a
  if o.isZero n then a else
  let sc := o.div o.one n
  a.map fun x => o.mul x sc

/-- `Distance.Calculate` by kind -/
def calculate : Kind → List S → List S → S
  | .l2 => euclid o | .l2sq => l2sq o | .cos => cosine o

/-- `Calculate` with Go's run-time panic made explicit: index out of range when the
    second argument is shorter than the first. -/
def calculate? (k : Kind) (a b : List S) : Option S :=
  if b.length < a.length then none else some (calculate o k a b)

/-- `Distance.Preprocess` by kind; the L2 kinds return their argument itself. -/
def preprocess : Kind → List S → Option (List S)
  | .l2 => some | .l2sq => some | .cos => cosPre o

/-- `Distance.CalculateBatch`: the Go code repeats the loops of `Calculate` instead of
    calling it; so does the model (that both agree is theorem `batch_eq_map`). -/
def calculateBatch : Kind → List (List S) → List S → List S
  | .l2, qs, t =>
      qs.map fun q =>
        o.sqrt ((List.zipWith (fun x y => let d := o.sub x y; o.mul d d) q t).foldl o.add o.zero)
  | .l2sq, qs, t =>
      qs.map fun q =>
        (List.zipWith (fun x y => let d := o.sub x y; o.mul d d) q t).foldl o.add o.zero
  | .cos, qs, t =>
      qs.map fun q =>
        let d := (List.zipWith o.mul q t).foldl o.add o.zero
        let d := if o.lt o.one d then o.one else if o.lt d (o.neg o.one) then o.neg o.one else d
        o.sub o.one d

/-- generic in the scalar, hence literally true of the `Float32` instance -/
theorem batch_eq_map (k : Kind) (qs : List (List S)) (t : List S) :
    calculateBatch o k qs t = qs.map fun q => calculate o k q t := by
  cases k <;> rfl

end
end Comet.Dist
