/-
  Comet.PostFloat — executable IEEE instances for the post-processing models:
  float32 operations of `Autocut` (`FOps UInt32`) and float64 operations of
  fusion / merge (`DOps UInt64`, `Scalar UInt64`).  Values travel as bit patterns;
  every NaN is canonicalised (payload and sign of a NaN depend on operand order of
  the machine instruction, which neither Go nor the property specifies).
  `Float`/`Float32` are opaque to the kernel: no theorem is about this file.
-/
import Comet.Limiter
import Comet.Fusion
import Comet.Scalar
namespace Comet.PostFloat

def nan32 : UInt32 := 0x7fc00000
def nan64 : UInt64 := 0x7ff8000000000000

@[inline] def f32 (b : UInt32) : Float32 := Float32.ofBits b
@[inline] def b32 (x : Float32) : UInt32 := if x.isNaN then nan32 else x.toBits
@[inline] def f64 (b : UInt64) : Float := Float.ofBits b
@[inline] def b64 (x : Float) : UInt64 := if x.isNaN then nan64 else x.toBits

def canon32 (b : UInt32) : UInt32 := b32 (f32 b)
def canon64 (b : UInt64) : UInt64 := b64 (f64 b)

def isNaN32 (b : UInt32) : Bool := (f32 b).isNaN
def isNaN64 (b : UInt64) : Bool := (f64 b).isNaN

/-- float32 operations of limiter.go -/
def fops : FOps UInt32 where
  zero := b32 0
  one := b32 1
  ofNat n := b32 (Float32.ofNat n)
  add x y := b32 (f32 x + f32 y)
  sub x y := b32 (f32 x - f32 y)
  mul x y := b32 (f32 x * f32 y)
  div x y := b32 (f32 x / f32 y)
  gt x y := decide (f32 x > f32 y)

/-- float32 score scalar with canonical NaN (aggregation) -/
def scalar32 : Scalar UInt32 where
  zero := b32 0
  add x y := b32 (f32 x + f32 y)
  divNat x n := b32 (f32 x / Float32.ofNat n)
  le x y := decide (f32 x ≤ f32 y)
  lt x y := decide (f32 x < f32 y)

/-- float64 operations of fusion.go -/
def dops : DOps UInt64 where
  one := b64 1
  ofNat n := b64 (Float.ofNat n)
  add x y := b64 (f64 x + f64 y)
  mul x y := b64 (f64 x * f64 y)
  div x y := b64 (f64 x / f64 y)
  lt x y := decide (f64 x < f64 y)

def le64 (x y : UInt64) : Bool := decide (f64 x ≤ f64 y)
def lt64 (x y : UInt64) : Bool := decide (f64 x < f64 y)

end Comet.PostFloat
