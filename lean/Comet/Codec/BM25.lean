/-
  Comet.Codec.BM25 — model of BM25SearchIndex.WriteTo / ReadFrom (bm25_index.go).

  Stream:  "BM25" | u32 1 | u32 numDocs | u32 totalTokens | f64 avgDocLen |
           u32 n + n × (u32 id | u32 len)                                   docLengths
           u32 n + n × (u32 id | u32 k | k × (u32 len + bytes))             docTokens
           u32 n + n × (u32 len + term | u32 len + roaring)                 postings
           u32 n + n × (u32 len + term | u32 k | k × (u32 id | u32 freq))   tf
           u32 len + roaring                                                deletedDocs
  The four maps are written in Go map order (here: list order, arbitrary) and
  re-inserted entry by entry (`mkMap`).  No construction parameters.  `totalTokens`
  is an `int` written as `uint32(…)` (truncating).  State is assigned at the end.
-/
import Comet.Codec.Parser
import Comet.Codec.Layout
namespace Comet.Codec.BM25
open Comet.Codec

structure State where
  numDocs : Nat
  totalTokens : Nat
  avgDocLen : Nat                           -- float64 bit pattern
  docLengths : List (Nat × Nat)
  docTokens : List (Nat × List Bytes)
  postings : List (Bytes × List Nat)
  tf : List (Bytes × List (Nat × Nat))
  deleted : List Nat
deriving Repr, DecidableEq

/-- `removeInternal(id)`; `avg tot n` is `float64(tot) / float64(n)` as a bit pattern -/
def removeInternal (avg : Nat → Nat → Nat) (s : State) (id : Nat) : State :=
  match s.docTokens.find? (·.1 == id) with
  | none => s
  | some (_, tokens) =>
    let docLen := match s.docLengths.find? (·.1 == id) with
      | some (_, l) => l
      | none => 0            -- Go: zero value of a missing map entry
    let postings := s.postings.filterMap fun (t, ids) =>
      if tokens.contains t then
        let ids' := ids.filter (· != id)
        if ids'.isEmpty then none else some (t, ids')
      else some (t, ids)
    let tf := s.tf.filterMap fun (t, m) =>
      if tokens.contains t then
        let m' := m.filter (·.1 != id)
        if m'.isEmpty then none else some (t, m')
      else some (t, m)
    let numDocs := (s.numDocs + 4294967295) % 4294967296     -- atomic Add(^uint32(0))
    let total := s.totalTokens - docLen
    { s with postings := postings, tf := tf,
             docTokens := s.docTokens.filter (·.1 != id),
             docLengths := s.docLengths.filter (·.1 != id),
             numDocs := numDocs,
             totalTokens := if numDocs > 0 then total else 0,
             avgDocLen := if numDocs > 0 then avg total numDocs else 0 }

/-- `BM25SearchIndex.Flush`: the bitmap iterator yields ids in ascending order -/
def flush (avg : Nat → Nat → Nat) (s : State) : State :=
  if s.deleted.isEmpty then s
  else { (s.deleted.foldl (removeInternal avg) s) with deleted := [] }

def magic : Bytes := asciiBytes ['B', 'M', '2', '5']
#guard magic == strBytes "BM25"

def swW : Switch
  | .u32 | .i32 => 4
  | .u64 | .i64 | .f64 => 8
  | .f32 | .u8 => 0
def swR : Switch := swW

def swWFacts : SwitchFacts :=
  [("uint32", "4"), ("int32", "4"), ("uint64", "8"), ("int64", "8"), ("float64", "8")]
def swRFacts : SwitchFacts :=
  [("*uint32", "4"), ("*int32", "4"), ("*uint64", "8"), ("*int64", "8"), ("*float64", "8")]

def docLenItems (p : Nat × Nat) : List Item := [wU32 p.1, wU32 p.2]
def docTokItems (p : Nat × List Bytes) : List Item :=
  [wU32 p.1, wU32 p.2.length] ++ p.2.flatMap wLenBytes
def postingItems (bm : BlobCodec) (p : Bytes × List Nat) : List Item :=
  wLenBytes p.1 ++ wLenBytes (bm.enc p.2)
def tfItems (p : Bytes × List (Nat × Nat)) : List Item :=
  wLenBytes p.1 ++ [wU32 p.2.length] ++ p.2.flatMap docLenItems

def items (bm : BlobCodec) (s : State) : List Item :=
  [wRaw magic, wU32 1, wU32 s.numDocs, wU32 s.totalTokens, wF64 s.avgDocLen,
   wU32 s.docLengths.length] ++ s.docLengths.flatMap docLenItems ++
  [wU32 s.docTokens.length] ++ s.docTokens.flatMap docTokItems ++
  [wU32 s.postings.length] ++ s.postings.flatMap (postingItems bm) ++
  [wU32 s.tf.length] ++ s.tf.flatMap tfItems ++ wLenBytes (bm.enc s.deleted)

def encodeRaw (bm : BlobCodec) (s : State) : Bytes := flat (items bm s)

def writeTo (avg : Nat → Nat → Nat) (bm : BlobCodec) (s : State) : State × Bytes × Nat :=
  let s' := flush avg s
  (s', encodeRaw bm s', reported swW (items bm s'))

def encode (avg : Nat → Nat → Nat) (bm : BlobCodec) (s : State) : Bytes := (writeTo avg bm s).2.1

def decPair : CP (Nat × Nat) := do
  let a ← CP.rU32 swR
  let b ← CP.rU32 swR
  pure (a, b)

def decDocTok : CP (Nat × List Bytes) := do
  let id ← CP.rU32 swR
  let k ← CP.rU32 swR
  let toks ← CP.repeat k (CP.rLenBytes swR)
  pure (id, toks)

def decPosting (bm : BlobCodec) : CP (Bytes × List Nat) := do
  let term ← CP.rLenBytes swR
  let blob ← CP.rLenBytes swR
  let ids ← CP.ofExcept (bm.dec blob)
  pure (term, ids)

def decTf : CP (Bytes × List (Nat × Nat)) := do
  let term ← CP.rLenBytes swR
  let k ← CP.rU32 swR
  let m ← CP.repeat k decPair
  pure (term, mkMap m)

def decodeC (bm : BlobCodec) : CP State := do
  let mg ← CP.rRaw 4
  CP.guard (mg == magic) .magic
  let ver ← CP.rU32 swR
  CP.guard (ver == 1) .version
  let numDocs ← CP.rU32 swR
  let total ← CP.rU32 swR
  let avg ← CP.rF64 swR
  let n1 ← CP.rU32 swR
  let dl ← CP.repeat n1 decPair
  let n2 ← CP.rU32 swR
  let dt ← CP.repeat n2 decDocTok
  let n3 ← CP.rU32 swR
  let po ← CP.repeat n3 (decPosting bm)
  let n4 ← CP.rU32 swR
  let tf ← CP.repeat n4 decTf
  let blob ← CP.rLenBytes swR
  let del ← CP.ofExcept (bm.dec blob)
  pure { numDocs := numDocs, totalTokens := total, avgDocLen := avg, docLengths := mkMap dl,
         docTokens := mkMap dt, postings := mkMap po, tf := mkMap tf, deleted := del }

def decode (bm : BlobCodec) : Parser State := (decodeC bm).run

def u32ok (n : Nat) : Bool := decide (n < 4294967296)
def keysNodup [DecidableEq κ] (l : List (κ × ν)) : Bool := decide (l.map (·.1)).Nodup

/-- sizes fit their fields, map keys are distinct (they are Go maps) -/
def wf (s : State) : Bool :=
  u32ok s.numDocs && u32ok s.totalTokens && decide (s.avgDocLen < 18446744073709551616) &&
  u32ok s.docLengths.length && keysNodup s.docLengths &&
  s.docLengths.all (fun p => u32ok p.1 && u32ok p.2) &&
  u32ok s.docTokens.length && keysNodup s.docTokens &&
  s.docTokens.all (fun p => u32ok p.1 && u32ok p.2.length && p.2.all (fun t => u32ok t.length)) &&
  u32ok s.postings.length && keysNodup s.postings &&
  s.postings.all (fun p => u32ok p.1.length) &&
  u32ok s.tf.length && keysNodup s.tf &&
  s.tf.all (fun p => u32ok p.1.length && u32ok p.2.length && keysNodup p.2 &&
    p.2.all (fun q => u32ok q.1 && u32ok q.2))

/-- every bitmap of the state -/
def bitmaps (s : State) : List (List Nat) := s.deleted :: s.postings.map (·.2)

def layout : Layout :=
  [.io .raw, .guard "string(magic) != \"BM25\"", .io .u32, .guard "version != 1",
   .io .u32, .io .u32, .io .f64, .io .u32] ++
  Layout.loop [.io .u32, .io .u32] ++ [.io .u32] ++
  Layout.loop ([.io .u32, .io .u32] ++ Layout.loop [.io .u32, .io .raw]) ++ [.io .u32] ++
  Layout.loop ([.io .u32, .io .raw] ++ Layout.bitmap) ++ [.io .u32] ++
  Layout.loop ([.io .u32, .io .raw, .io .u32] ++ Layout.loop [.io .u32, .io .u32]) ++
  Layout.bitmap

/-- every document id that occurs anywhere in a state's serialisable content -/
def streamIds (s : State) : List Nat :=
  s.docLengths.map (·.1) ++ s.docTokens.map (·.1) ++ s.postings.flatMap (·.2) ++
  s.tf.flatMap (·.2.map (·.1))

end Comet.Codec.BM25
