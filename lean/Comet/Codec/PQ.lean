/-
  Comet.Codec.PQ — model of PQIndex.WriteTo / ReadFrom (pq_index.go).

  Stream:  "PQIX" | u32 1 | u32 dim | u32 len + metric | u32 M | u32 Nbits | u32 Ksub |
           u32 dsub | u8 trained | [trained: M × (u32 size | size × f32)] | u32 count |
           count × (u32 id | M raw code bytes) | u32 len + roaring
  Only ids and codes are written: a reloaded index holds `nil` vectors (by design;
  node-id queries cannot work after a reload).  ReadFrom compares dim, metric and —
  after all four were read — M, Nbits, Ksub, dsub; codebook sizes are NOT compared
  with Ksub·dsub.  WriteTo indexes `idx.codebooks[m]` for m < M (a trained index has
  exactly M codebooks: `wf`), ReadFrom reads `idx.M` code bytes per vector.
-/
import Comet.Codec.Parser
import Comet.Codec.Layout
namespace Comet.Codec.PQ
open Comet.Codec

structure Params where
  dim : Nat
  metric : Bytes
  m : Nat
  nbits : Nat
  ksub : Nat
  dsub : Nat
deriving Repr, DecidableEq

/-- one stored vector: the in-memory index keeps the (preprocessed) vector beside
    the code, the stream does not -/
structure Entry where
  id : Nat
  vec : Option (List Nat)
  code : Bytes
deriving Repr, DecidableEq

structure State where
  dim : Nat
  metric : Bytes
  m : Nat
  nbits : Nat
  ksub : Nat
  dsub : Nat
  trained : Bool
  codebooks : List (List Nat)
  entries : List Entry          -- vectorNodes[i] / codes[i]
  deleted : List Nat
deriving Repr, DecidableEq

def State.params (s : State) : Params := ⟨s.dim, s.metric, s.m, s.nbits, s.ksub, s.dsub⟩

/-- `PQIndex.Flush` -/
def flush (s : State) : State :=
  if s.deleted.isEmpty then s
  else { s with entries := s.entries.filter (fun e => !s.deleted.contains e.id), deleted := [] }

/-- what survives serialisation: everything but the raw vectors -/
def forget (s : State) : State :=
  { s with entries := s.entries.map fun e => { e with vec := none } }

def magic : Bytes := asciiBytes ['P', 'Q', 'I', 'X']
#guard magic == strBytes "PQIX"

def swW : Switch
  | .u32 | .i32 | .f32 => 4
  | .u8 => 1
  | .u64 | .i64 | .f64 => 0
def swR : Switch := swW

def swWFacts : SwitchFacts :=
  [("uint32", "4"), ("int32", "4"), ("float32", "4"), ("uint8", "1"), ("int8", "1"), ("bool", "1"),
   ("[]byte", "int64(len(v))"), ("[]float32", "int64(len(v) * 4)")]
def swRFacts : SwitchFacts :=
  [("*uint32", "4"), ("*int32", "4"), ("*float32", "4"), ("*uint8", "1"), ("*int8", "1"), ("*bool", "1")]

def codebookItems (c : List Nat) : List Item := wU32 c.length :: c.map wF32
def entryItems (e : Entry) : List Item := [wU32 e.id, wRaw e.code]

def items (bm : BlobCodec) (s : State) : List Item :=
  [wRaw magic, wU32 1, wU32 s.dim] ++ wLenBytes s.metric ++
  [wU32 s.m, wU32 s.nbits, wU32 s.ksub, wU32 s.dsub, wU8 (if s.trained then 1 else 0)] ++
  (if s.trained then s.codebooks.flatMap codebookItems else []) ++
  [wU32 s.entries.length] ++ s.entries.flatMap entryItems ++ wLenBytes (bm.enc s.deleted)

def encodeRaw (bm : BlobCodec) (s : State) : Bytes := flat (items bm s)

def writeTo (bm : BlobCodec) (s : State) : State × Bytes × Nat :=
  let s' := flush s
  (s', encodeRaw bm s', reported swW (items bm s'))

def encode (bm : BlobCodec) (s : State) : Bytes := (writeTo bm s).2.1

def decCodebook : CP (List Nat) := do
  let sz ← CP.rU32 swR
  CP.repeat sz (CP.rF32 swR)

def decEntry (m : Nat) : CP Entry := do
  let id ← CP.rU32 swR
  let code ← CP.rRaw m
  pure { id := id, vec := none, code := code }

def decodeC (bm : BlobCodec) (p : Params) : CP State := do
  let mg ← CP.rRaw 4
  CP.guard (mg == magic) .magic
  let ver ← CP.rU32 swR
  CP.guard (ver == 1) .version
  let dim ← CP.rU32 swR
  CP.guard (dim == p.dim) (.param "dim")
  let mk ← CP.rLenBytes swR
  CP.guard (mk == p.metric) (.param "metric")
  let mM ← CP.rU32 swR
  let nbits ← CP.rU32 swR
  let ksub ← CP.rU32 swR
  let dsub ← CP.rU32 swR
  CP.guard (mM == p.m) (.param "M")
  CP.guard (nbits == p.nbits) (.param "Nbits")
  CP.guard (ksub == p.ksub) (.param "Ksub")
  CP.guard (dsub == p.dsub) (.param "dsub")
  let tb ← CP.rU8 swR
  let trained := tb == 1
  let codebooks ← CP.cond trained (CP.repeat p.m decCodebook) []
  let n ← CP.rU32 swR
  let entries ← CP.repeat n (decEntry p.m)
  let blob ← CP.rLenBytes swR
  let del ← CP.ofExcept (bm.dec blob)
  pure { dim := p.dim, metric := p.metric, m := p.m, nbits := p.nbits, ksub := p.ksub,
         dsub := p.dsub, trained := trained, codebooks := codebooks, entries := entries,
         deleted := del }

def decode (bm : BlobCodec) (p : Params) : Parser State := (decodeC bm p).run

def f32s (v : List Nat) : Bool := v.all fun x => decide (x < 4294967296)

/-- no `codebook.length = ksub * dsub` clause: not compared by the decoder -/
def wf (s : State) : Bool :=
  decide (s.dim < 4294967296) && decide (s.metric.length < 4294967296) &&
  decide (s.m < 4294967296) && decide (s.nbits < 4294967296) && decide (s.ksub < 4294967296) &&
  decide (s.dsub < 4294967296) &&
  (if s.trained then decide (s.codebooks.length = s.m) else s.codebooks.isEmpty) &&
  s.codebooks.all (fun c => decide (c.length < 4294967296) && f32s c) &&
  decide (s.entries.length < 4294967296) &&
  s.entries.all (fun e => decide (e.id < 4294967296) && decide (e.code.length = s.m))

def layout : Layout :=
  [.io .raw, .guard "string(magic) != \"PQIX\"", .io .u32, .guard "version != 1",
   .io .u32, .guard "int(dim) != idx.dim", .io .u32, .io .raw,
   .guard "distanceKind != idx.distanceKind", .io .u32, .io .u32, .io .u32, .io .u32,
   .guard "int(M) != idx.M", .guard "int(Nbits) != idx.Nbits", .guard "int(Ksub) != idx.Ksub",
   .guard "int(dsub) != idx.dsub", .io .u8] ++
  Layout.cond (Layout.loop ([.io .u32] ++ Layout.loop [.io .f32])) ++
  [.io .u32] ++ Layout.loop [.io .u32, .io .raw] ++ Layout.bitmap

def streamIds (s : State) : List Nat := s.entries.map (·.id)

end Comet.Codec.PQ
