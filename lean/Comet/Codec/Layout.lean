/-
  Comet.Codec.Layout — the shape of a `WriteTo` / `ReadFrom` pair: the sequence of
  primitive I/O calls in source order with their static types and the enclosing
  loop / if structure.  Each codec model carries its own `layout` constant next to
  its encoder; the fact extractor (harness/cmd/facts/facts_layout.go) re-derives the
  same thing from the Go source on every run as a list of strings, and
  lean/CometGen/Obligations_C07.lean demands

      Facts.<kind>_ReadFrom = renderRead  layout_<kind>
      Facts.<kind>_WriteTo  = renderWrite layout_<kind>

  Token strings (one per list element):
      "u8" "u32" "i32" "f32" "f64" "u64" "i64"   read(&x) / write(x) with x of that static type,
                                  error checked (`if err := …; err != nil { return … }`)
                                  and counted by the closure's type switch with the right size
      "raw"                       io.ReadFull(r, buf) / w.Write(buf), error checked and followed
                                  by the matching manual `bytesRead += …` / `bytesWritten += …`
      "sub:<field>"               hybrid only: <field>.ReadFrom(r) / <field>.WriteTo(w)
      "loop{" "if{" "else{" "}"   enclosing `for` / `if` (only those that contain I/O)
      "guard:<cond>"              ReadFrom only: `if <cond> { return …, error }` (not an `err != nil` test)
      "blob"                      ReadFrom only: checked `x.UnmarshalBinary(buf)`
  Deviations are visible as suffixes the model never has: "!unchecked" (error result
  dropped or not leading to a return), "!uncounted" (no switch case of the right size /
  no matching manual increment), "?<go type>" (static type not resolved).
-/
namespace Comet.Codec

inductive IOKind | u8 | u32 | i32 | f32 | f64 | u64 | i64 | raw
deriving Repr, DecidableEq, Inhabited

def IOKind.render : IOKind → String
  | .u8 => "u8" | .u32 => "u32" | .i32 => "i32" | .f32 => "f32" | .f64 => "f64"
  | .u64 => "u64" | .i64 => "i64" | .raw => "raw"

inductive Tok
  | io (k : IOKind)
  | loopB | ifB | elseB | close
  | guard (cond : String)
  | blob
  | sub (field : String)
deriving Repr, DecidableEq, Inhabited

def Tok.render : Tok → String
  | .io k => k.render
  | .loopB => "loop{" | .ifB => "if{" | .elseB => "else{" | .close => "}"
  | .guard c => "guard:" ++ c
  | .blob => "blob"
  | .sub f => "sub:" ++ f

def Tok.readOnly : Tok → Bool
  | .guard _ | .blob => true
  | _ => false

abbrev Layout := List Tok

def renderRead (l : Layout) : List String := l.map Tok.render
def renderWrite (l : Layout) : List String := (l.filter (!·.readOnly)).map Tok.render

/-- shorthands used by the per-kind layout constants -/
def Layout.loop (body : Layout) : Layout := [Tok.loopB] ++ body ++ [Tok.close]
def Layout.cond (body : Layout) : Layout := [Tok.ifB] ++ body ++ [Tok.close]
def Layout.lenBytes : Layout := [.io .u32, .io .raw]
/-- `u32 len + raw bytes + UnmarshalBinary` -/
def Layout.bitmap : Layout := [.io .u32, .io .raw, .blob]

/-- the cases of a counting type switch as the extractor prints them:
    (Go type, increment expression) in source order -/
abbrev SwitchFacts := List (String × String)

end Comet.Codec
