/-
  Comet.Codec.Roaring — executable model of the roaring library's portable
  serialisation (`Bitmap.ToBytes` / `UnmarshalBinary`, RoaringFormatSpec) for the
  containers comet produces: cookie SERIAL_COOKIE_NO_RUNCONTAINER (12346), array
  containers (≤ 4096 entries) and bitmap containers.  Run containers (cookie 12347, only
  after `RunOptimize`, which comet never calls) are `Err.unsupported`.

  This is the `BlobCodec` the DRIVER uses; it is validated against the real library on
  every run (every blob of every stream is decoded and re-encoded byte for byte).  The
  theorems take the blob codec as a parameter instead (see `BlobCodec.Lawful`).
-/
import Comet.Codec.Parser
namespace Comet.Codec.Roaring
open Comet.Codec

def cookieNoRun : Nat := 12346
def cookieRun : Nat := 12347
def arrayMax : Nat := 4096

def encU16 (n : Nat) : Bytes := encLE 2 n
def u16le : Parser Nat := Parser.map leNat (bytes 2)

/-- group an ascending id list by the high 16 bits: (key, low 16 bits) -/
def groups : List Nat → List (Nat × List Nat)
  | [] => []
  | id :: rest =>
    match groups rest with
    | (k, lows) :: gs => if k == id / 65536 then (k, id % 65536 :: lows) :: gs
                         else (id / 65536, [id % 65536]) :: (k, lows) :: gs
    | [] => [(id / 65536, [id % 65536])]

/-- the 8192 bytes of a bitmap container -/
def bitmapBytes (lows : List Nat) : Bytes :=
  let arr := lows.foldl (fun (a : Array UInt8) (x : Nat) =>
    a.modify (x / 8) (fun b => b ||| (1 <<< (UInt8.ofNat (x % 8))))) (Array.replicate 8192 0)
  arr.toList

def containerBytes (lows : List Nat) : Bytes :=
  if lows.length > arrayMax then bitmapBytes lows else lows.flatMap encU16

def containerSize (lows : List Nat) : Nat :=
  if lows.length > arrayMax then 8192 else 2 * lows.length

/-- running offsets of the containers -/
def offsets (start : Nat) : List (Nat × List Nat) → List Nat
  | [] => []
  | (_, lows) :: gs => start :: offsets (start + containerSize lows) gs

/-- `Bitmap.ToBytes` for an ascending, duplicate-free id list -/
def enc (ids : List Nat) : Bytes :=
  let gs := groups ids
  encU32 cookieNoRun ++ encU32 gs.length ++
  gs.flatMap (fun g => encU16 g.1 ++ encU16 (g.2.length - 1)) ++
  (offsets (8 + 8 * gs.length) gs).flatMap encU32 ++
  gs.flatMap (fun g => containerBytes g.2)

/-- bits set in a bitmap container, ascending -/
def bitsOf (bs : Bytes) : List Nat :=
  (bs.zipIdx).flatMap fun (b, i) =>
    (List.range 8).filterMap fun j => if (b >>> (UInt8.ofNat j)) &&& 1 == 1 then some (8 * i + j) else none

def decContainer (kc : Nat × Nat) : Parser (List Nat) :=
  let card := kc.2 + 1
  if card > arrayMax then Parser.map (fun bs => (bitsOf bs).map (kc.1 * 65536 + ·)) (bytes 8192)
  else Parser.map (fun lows => lows.map (kc.1 * 65536 + ·)) («repeat» card u16le)

def decP : Parser (List Nat) :=
  u32le.bind fun cookie =>
  if cookie % 65536 == cookieRun then Parser.fail (.unsupported "roaring run containers")
  else if cookie != cookieNoRun then Parser.fail .blob
  else u32le.bind fun size =>
  if size > 65536 then Parser.fail .blob else
  («repeat» size (u16le.bind fun k => u16le.bind fun c => Parser.pure (k, c))).bind fun keycard =>
  (bytes (4 * size)).bind fun _ =>
  (keycard.foldr (fun kc (acc : Parser (List Nat)) =>
      (decContainer kc).bind fun ids => acc.bind fun rest => Parser.pure (ids ++ rest))
    (Parser.pure []))

/-- `UnmarshalBinary`: trailing bytes of the blob are ignored, as the library does -/
def dec (b : Bytes) : Except Err (List Nat) :=
  match decP b with
  | .ok (ids, _) => .ok ids
  | .error .eof => .error .blob
  | .error e => .error e

def codec : BlobCodec := { enc := enc, dec := dec }

end Comet.Codec.Roaring
