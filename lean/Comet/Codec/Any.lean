/-
  Comet.Codec.Any — the eight index kinds under one roof: a receiver of any kind
  (`Recv`: kind + construction parameters), the content of an index of any kind
  (`AnyState`), and the uniform `encode` / `decode` the theorems about kind × kind
  pairings and the driver use.
-/
import Comet.Codec.Hybrid
namespace Comet.Codec

inductive Kind | flat | hnsw | ivf | pq | ivfpq | bm25 | md | hybrid
deriving Repr, DecidableEq, Inhabited

def Kind.magic : Kind → Bytes
  | .flat => Flat.magic | .hnsw => HNSW.magic | .ivf => IVF.magic | .pq => PQ.magic
  | .ivfpq => IVFPQ.magic | .bm25 => BM25.magic | .md => Meta.magic | .hybrid => Hybrid.magic

def Kind.all : List Kind := [.flat, .hnsw, .ivf, .pq, .ivfpq, .bm25, .md, .hybrid]

def Kind.name : Kind → String
  | .flat => "flat" | .hnsw => "hnsw" | .ivf => "ivf" | .pq => "pq" | .ivfpq => "ivfpq"
  | .bm25 => "bm25" | .md => "meta" | .hybrid => "hybrid"

def Kind.parse (s : String) : Option Kind := Kind.all.find? (·.name == s)

/-- a freshly constructed index of some kind -/
inductive Recv
  | flat (p : Flat.Params) | hnsw (p : HNSW.Params) | ivf (p : IVF.Params) | pq (p : PQ.Params)
  | ivfpq (p : IVFPQ.Params) | bm25 | md | hybrid (p : Hybrid.Params)
deriving Repr, DecidableEq

def Recv.kind : Recv → Kind
  | .flat _ => .flat | .hnsw _ => .hnsw | .ivf _ => .ivf | .pq _ => .pq | .ivfpq _ => .ivfpq
  | .bm25 => .bm25 | .md => .md | .hybrid _ => .hybrid

inductive AnyState
  | flat (s : Flat.State) | hnsw (s : HNSW.State) | ivf (s : IVF.State) | pq (s : PQ.State)
  | ivfpq (s : IVFPQ.State) | bm25 (s : BM25.State) | md (s : Meta.State)
  | hybrid (s : Hybrid.State)
deriving Repr, DecidableEq

def AnyState.kind : AnyState → Kind
  | .flat _ => .flat | .hnsw _ => .hnsw | .ivf _ => .ivf | .pq _ => .pq | .ivfpq _ => .ivfpq
  | .bm25 _ => .bm25 | .md _ => .md | .hybrid _ => .hybrid

/-- the receiver that was constructed like the index holding `s` -/
def AnyState.recv : AnyState → Recv
  | .flat s => .flat s.params | .hnsw s => .hnsw s.params | .ivf s => .ivf s.params
  | .pq s => .pq s.params | .ivfpq s => .ivfpq s.params | .bm25 _ => .bm25 | .md _ => .md
  | .hybrid s => .hybrid s.params

/-- the stream of a state as it is (no flush); hybrid: the four streams concatenated -/
def AnyState.encodeRaw (bm : BlobCodec) : AnyState → Bytes
  | .flat s => Flat.encodeRaw bm s | .hnsw s => HNSW.encodeRaw bm s | .ivf s => IVF.encodeRaw bm s
  | .pq s => PQ.encodeRaw bm s | .ivfpq s => IVFPQ.encodeRaw bm s | .bm25 s => BM25.encodeRaw bm s
  | .md s => Meta.encodeRaw bm s | .hybrid s => Hybrid.encodeRaw bm s

def AnyState.wf : AnyState → Bool
  | .flat s => Flat.wf s | .hnsw s => HNSW.wf s | .ivf s => IVF.wf s | .pq s => PQ.wf s
  | .ivfpq s => IVFPQ.wf s | .bm25 s => BM25.wf s | .md s => Meta.wf s | .hybrid s => Hybrid.wf s

def AnyState.forget : AnyState → AnyState
  | .pq s => .pq (PQ.forget s) | .ivfpq s => .ivfpq (IVFPQ.forget s)
  | .hybrid s => .hybrid (Hybrid.forget s) | s => s

/-- `ReadFrom` of a receiver of any kind: content and reported count -/
def Recv.decodeC (bm : BlobCodec) : Recv → CP AnyState
  | .flat p => CP.map AnyState.flat (Flat.decodeC bm p)
  | .hnsw p => CP.map AnyState.hnsw (HNSW.decodeC bm p)
  | .ivf p => CP.map AnyState.ivf (IVF.decodeC bm p)
  | .pq p => CP.map AnyState.pq (PQ.decodeC bm p)
  | .ivfpq p => CP.map AnyState.ivfpq (IVFPQ.decodeC bm p)
  | .bm25 => CP.map AnyState.bm25 (BM25.decodeC bm)
  | .md => CP.map AnyState.md (Meta.decodeC bm)
  | .hybrid p => CP.map AnyState.hybrid (Hybrid.decodeC bm p)

def Recv.decode (bm : BlobCodec) (r : Recv) : Parser AnyState := (r.decodeC bm).run

/-- does the receiver accept the stream (ReadFrom returns nil error)? -/
def Recv.accepts (bm : BlobCodec) (r : Recv) (inp : Bytes) : Bool :=
  match r.decode bm inp with
  | .ok _ => true
  | .error _ => false

end Comet.Codec
