/-
  Comet.Codec.Meta — model of RoaringMetadataIndex.WriteTo / ReadFrom (metadata_index.go).

  Stream:  "MTIX" | u32 1 | u32 len + roaring (allDocs) |
           u32 n + n × (u32 len + key | u32 len + roaring)                   categorical
           u32 n + n × (u32 len + field | u32 k | k × (u32 len + bytes))     numeric (BSI)
  A BSI is marshalled as a list of roaring blobs: the existence bitmap first, then one
  bitmap per bit position.  `BSI.UnmarshalBinary` indexes `bitData[0]`: a slice count
  of 0 makes the Go code PANIC (explicit `Err.panic` here; no stream written by comet
  and none of its prefixes has that shape, a hand-made one can); a zero-length blob at
  position ≥ 1 is skipped (the slice stays empty); a fresh BSI has 64 slices.
  Flush is a no-op; Remove clears the id from every bitmap (keys stay).
-/
import Comet.Codec.Parser
import Comet.Codec.Layout
namespace Comet.Codec.Meta
open Comet.Codec

/-- a bit-sliced index: existence bitmap :: one bitmap per bit position -/
abbrev BSI := List (List Nat)

structure State where
  allDocs : List Nat
  categorical : List (Bytes × List Nat)
  numeric : List (Bytes × BSI)
deriving Repr, DecidableEq

def flush (s : State) : State := s

def magic : Bytes := asciiBytes ['M', 'T', 'I', 'X']
#guard magic == strBytes "MTIX"

def swW : Switch
  | .u32 | .i32 | .f32 => 4
  | .u8 => 1
  | .u64 | .i64 | .f64 => 0
def swR : Switch := swW

def swWFacts : SwitchFacts :=
  [("uint32", "4"), ("int32", "4"), ("float32", "4"), ("uint8", "1"), ("int8", "1"), ("bool", "1")]
def swRFacts : SwitchFacts :=
  [("*uint32", "4"), ("*int32", "4"), ("*float32", "4"), ("*uint8", "1"), ("*int8", "1"), ("*bool", "1")]

/-- `BSI.MarshalBinary` -/
def bsiEnc (bm : BlobCodec) (b : BSI) : List Bytes := b.map bm.enc

/-- slices of a BSI made by `NewBSI(Min64BitSigned, Max64BitSigned)` -/
def bsiSlices : Nat := 64

/-- `BSI.UnmarshalBinary` into a fresh 64-slice BSI -/
def bsiDec (bm : BlobCodec) : List Bytes → Except Err BSI
  | [] => .error (.panic "BSI.UnmarshalBinary: bitData[0] with len(bitData) == 0")
  | e :: sl => do
    let sl' ← sl.mapM (fun b => if b.isEmpty then .ok [] else bm.dec b)
    let e' ← bm.dec e
    .ok (e' :: (sl' ++ List.replicate (bsiSlices - sl'.length) []))

def catItems (bm : BlobCodec) (p : Bytes × List Nat) : List Item :=
  wLenBytes p.1 ++ wLenBytes (bm.enc p.2)
def numItems (bm : BlobCodec) (p : Bytes × BSI) : List Item :=
  wLenBytes p.1 ++ [wU32 (bsiEnc bm p.2).length] ++ (bsiEnc bm p.2).flatMap wLenBytes

def items (bm : BlobCodec) (s : State) : List Item :=
  [wRaw magic, wU32 1] ++ wLenBytes (bm.enc s.allDocs) ++
  [wU32 s.categorical.length] ++ s.categorical.flatMap (catItems bm) ++
  [wU32 s.numeric.length] ++ s.numeric.flatMap (numItems bm)

def encodeRaw (bm : BlobCodec) (s : State) : Bytes := flat (items bm s)

def writeTo (bm : BlobCodec) (s : State) : State × Bytes × Nat :=
  let s' := flush s
  (s', encodeRaw bm s', reported swW (items bm s'))

def encode (bm : BlobCodec) (s : State) : Bytes := (writeTo bm s).2.1

def decCat (bm : BlobCodec) : CP (Bytes × List Nat) := do
  let key ← CP.rLenBytes swR
  let blob ← CP.rLenBytes swR
  let ids ← CP.ofExcept (bm.dec blob)
  pure (key, ids)

def decNum (bm : BlobCodec) : CP (Bytes × BSI) := do
  let field ← CP.rLenBytes swR
  let k ← CP.rU32 swR
  let blobs ← CP.repeat k (CP.rLenBytes swR)
  let b ← CP.ofExcept (bsiDec bm blobs)
  pure (field, b)

def decodeC (bm : BlobCodec) : CP State := do
  let mg ← CP.rRaw 4
  CP.guard (mg == magic) .magic
  let ver ← CP.rU32 swR
  CP.guard (ver == 1) .version
  let blob ← CP.rLenBytes swR
  let allDocs ← CP.ofExcept (bm.dec blob)
  let n1 ← CP.rU32 swR
  let cat ← CP.repeat n1 (decCat bm)
  let n2 ← CP.rU32 swR
  let num ← CP.repeat n2 (decNum bm)
  pure { allDocs := allDocs, categorical := mkMap cat, numeric := mkMap num }

def decode (bm : BlobCodec) : Parser State := (decodeC bm).run

def u32ok (n : Nat) : Bool := decide (n < 4294967296)
def keysNodup [DecidableEq κ] (l : List (κ × ν)) : Bool := decide (l.map (·.1)).Nodup

/-- a BSI made by comet has the existence bitmap and (at least) 64 slices -/
def wf (s : State) : Bool :=
  u32ok s.categorical.length && keysNodup s.categorical &&
  s.categorical.all (fun p => u32ok p.1.length) &&
  u32ok s.numeric.length && keysNodup s.numeric &&
  s.numeric.all (fun p => u32ok p.1.length && u32ok p.2.length && decide (bsiSlices + 1 ≤ p.2.length))

def bitmaps (s : State) : List (List Nat) :=
  s.allDocs :: (s.categorical.map (·.2) ++ s.numeric.flatMap (·.2))

def layout : Layout :=
  [.io .raw, .guard "string(magic) != \"MTIX\"", .io .u32, .guard "version != 1"] ++
  Layout.bitmap ++ [.io .u32] ++
  Layout.loop ([.io .u32, .io .raw] ++ Layout.bitmap) ++ [.io .u32] ++
  Layout.loop ([.io .u32, .io .raw, .io .u32] ++ Layout.loop [.io .u32, .io .raw] ++ [.blob])

def streamIds (s : State) : List Nat := (bitmaps s).flatten

end Comet.Codec.Meta
