/-
  Comet.Codec.Hybrid — model of hybridSearchIndex.WriteTo / ReadFrom (hybrid_search_index.go).

  WriteTo(hybridWriter, vectorWriter, textWriter, metadataWriter) flushes the three
  sub-indexes, writes to the hybrid writer
      "HYBR" | u32 1 | u8 hasVector | u8 hasText | u8 hasMetadata |
      u32 n + n × (u32 id | u8 hasVector | u8 hasText | u8 hasMetadata)      docInfo (a map)
  and lets each present sub-index write itself to its own writer.  It returns no count.
  ReadFrom(r) reads all four parts from ONE reader, one after the other: the hybrid
  part, then vector, text, metadata (each sub-index's own ReadFrom, whose reported
  count is added).  The presence flags are compared with the receiver's sub-indexes
  (`(flag == 1) != (idx.x != nil)`).  The sub-indexes are loaded IN PLACE one after the
  other — an error in a later part leaves the earlier ones loaded — and `docInfo` is
  assigned last.
-/
import Comet.Codec.Flat
import Comet.Codec.HNSW
import Comet.Codec.IVF
import Comet.Codec.PQ
import Comet.Codec.IVFPQ
import Comet.Codec.BM25
import Comet.Codec.Meta
namespace Comet.Codec.Hybrid
open Comet.Codec

/-- the vector sub-index is an interface value: one of the five kinds -/
inductive VecState
  | flat (s : Flat.State) | hnsw (s : HNSW.State) | ivf (s : IVF.State)
  | pq (s : PQ.State) | ivfpq (s : IVFPQ.State)
deriving Repr, DecidableEq

inductive VecParams
  | flat (p : Flat.Params) | hnsw (p : HNSW.Params) | ivf (p : IVF.Params)
  | pq (p : PQ.Params) | ivfpq (p : IVFPQ.Params)
deriving Repr, DecidableEq

def VecState.params : VecState → VecParams
  | .flat s => .flat s.params | .hnsw s => .hnsw s.params | .ivf s => .ivf s.params
  | .pq s => .pq s.params | .ivfpq s => .ivfpq s.params

def VecState.flush : VecState → VecState
  | .flat s => .flat (Flat.flush s) | .hnsw s => .hnsw (HNSW.flush s) | .ivf s => .ivf (IVF.flush s)
  | .pq s => .pq (PQ.flush s) | .ivfpq s => .ivfpq (IVFPQ.flush s)

/-- what survives serialisation (PQ / IVFPQ drop the raw vectors) -/
def VecState.forget : VecState → VecState
  | .pq s => .pq (PQ.forget s) | .ivfpq s => .ivfpq (IVFPQ.forget s)
  | s => s

def VecState.items (bm : BlobCodec) : VecState → List Item
  | .flat s => Flat.items bm s | .hnsw s => HNSW.items bm s | .ivf s => IVF.items bm s
  | .pq s => PQ.items bm s | .ivfpq s => IVFPQ.items bm s

def VecState.wf : VecState → Bool
  | .flat s => Flat.wf s | .hnsw s => HNSW.wf s | .ivf s => IVF.wf s
  | .pq s => PQ.wf s | .ivfpq s => IVFPQ.wf s

def VecState.deleted : VecState → List Nat
  | .flat s => s.deleted | .hnsw s => s.deleted | .ivf s => s.deleted
  | .pq s => s.deleted | .ivfpq s => s.deleted

def VecState.streamIds : VecState → List Nat
  | .flat s => Flat.streamIds s | .hnsw s => HNSW.streamIds s | .ivf s => IVF.streamIds s
  | .pq s => PQ.streamIds s | .ivfpq s => IVFPQ.streamIds s

def vecDecodeC (bm : BlobCodec) : VecParams → CP VecState
  | .flat p => CP.map VecState.flat (Flat.decodeC bm p)
  | .hnsw p => CP.map VecState.hnsw (HNSW.decodeC bm p)
  | .ivf p => CP.map VecState.ivf (IVF.decodeC bm p)
  | .pq p => CP.map VecState.pq (PQ.decodeC bm p)
  | .ivfpq p => CP.map VecState.ivfpq (IVFPQ.decodeC bm p)

structure DocInfo where
  hasVector : Bool
  hasText : Bool
  hasMetadata : Bool
deriving Repr, DecidableEq

/-- the receiver: which sub-indexes it was constructed with (and their parameters) -/
structure Params where
  vec : Option VecParams
  txt : Bool
  md : Bool
deriving Repr, DecidableEq

structure State where
  docInfo : List (Nat × DocInfo)      -- a Go map
  vec : Option VecState
  txt : Option BM25.State
  md : Option Meta.State
deriving Repr, DecidableEq

def State.params (s : State) : Params :=
  ⟨s.vec.map VecState.params, s.txt.isSome, s.md.isSome⟩

/-- `hybridSearchIndex.Flush` -/
def flush (avg : Nat → Nat → Nat) (s : State) : State :=
  { s with vec := s.vec.map VecState.flush, txt := s.txt.map (BM25.flush avg),
           md := s.md.map Meta.flush }

def forget (s : State) : State := { s with vec := s.vec.map VecState.forget }

def magic : Bytes := asciiBytes ['H', 'Y', 'B', 'R']
#guard magic == strBytes "HYBR"

/-- ReadFrom's switch (WriteTo's closure has none: it reports no count) -/
def swR : Switch
  | .u32 | .i32 => 4
  | .u8 => 1
  | .f32 | .u64 | .i64 | .f64 => 0

def swWFacts : SwitchFacts := []
def swRFacts : SwitchFacts :=
  [("*uint32", "4"), ("*int32", "4"), ("*uint8", "1"), ("*int8", "1"), ("*bool", "1")]

def b2n (b : Bool) : Nat := if b then 1 else 0

def docInfoItems (p : Nat × DocInfo) : List Item :=
  [wU32 p.1, wU8 (b2n p.2.hasVector), wU8 (b2n p.2.hasText), wU8 (b2n p.2.hasMetadata)]

/-- what goes to the hybrid writer -/
def headItems (s : State) : List Item :=
  [wRaw magic, wU32 1, wU8 (b2n s.vec.isSome), wU8 (b2n s.txt.isSome), wU8 (b2n s.md.isSome),
   wU32 s.docInfo.length] ++ s.docInfo.flatMap docInfoItems

def optItems (o : Option α) (f : α → List Item) : List Item :=
  match o with
  | some a => f a
  | none => []

/-- the four streams of `WriteTo` (sub-indexes already flushed) -/
def encode4Raw (bm : BlobCodec) (s : State) : Bytes × Bytes × Bytes × Bytes :=
  (flat (headItems s), flat (optItems s.vec (VecState.items bm)),
   flat (optItems s.txt (BM25.items bm)), flat (optItems s.md (Meta.items bm)))

/-- … and their concatenation, which is what `ReadFrom` consumes -/
def encodeRaw (bm : BlobCodec) (s : State) : Bytes :=
  let (h, v, t, m) := encode4Raw bm s
  h ++ (v ++ (t ++ m))

def writeTo (avg : Nat → Nat → Nat) (bm : BlobCodec) (s : State) :
    State × (Bytes × Bytes × Bytes × Bytes) :=
  let s' := flush avg s
  (s', encode4Raw bm s')

def encode (avg : Nat → Nat → Nat) (bm : BlobCodec) (s : State) : Bytes :=
  encodeRaw bm (flush avg s)

def decDocInfo : CP (Nat × DocInfo) := do
  let id ← CP.rU32 swR
  let a ← CP.rU8 swR
  let b ← CP.rU8 swR
  let c ← CP.rU8 swR
  pure (id, { hasVector := a == 1, hasText := b == 1, hasMetadata := c == 1 })

/-- the part of `ReadFrom` that reads what `WriteTo` sent to the hybrid writer:
    magic, version, presence flags (compared with the receiver), docInfo -/
def headC (p : Params) : CP (List (Nat × DocInfo)) := do
  let mg ← CP.rRaw 4
  CP.guard (mg == magic) .magic
  let ver ← CP.rU32 swR
  CP.guard (ver == 1) .version
  let hv ← CP.rU8 swR
  let ht ← CP.rU8 swR
  let hm ← CP.rU8 swR
  CP.guard ((hv == 1) == p.vec.isSome) (.param "hasVector")
  CP.guard ((ht == 1) == p.txt) (.param "hasText")
  CP.guard ((hm == 1) == p.md) (.param "hasMetadata")
  let n ← CP.rU32 swR
  CP.repeat n decDocInfo

def txtOpt (p : Params) : Option Unit := if p.txt then some () else none
def mdOpt (p : Params) : Option Unit := if p.md then some () else none

/-- `ReadFrom`, with the three sub-index decoders as arguments -/
def decodeCWith (vecDec : VecParams → CP VecState) (txtDec : CP BM25.State)
    (mdDec : CP Meta.State) (p : Params) : CP State := do
  let di ← headC p
  let vec ← CP.opt p.vec fun vp => CP.sub (vecDec vp)
  let txt ← CP.opt (txtOpt p) fun _ => CP.sub txtDec
  let md ← CP.opt (mdOpt p) fun _ => CP.sub mdDec
  pure { docInfo := mkMap di, vec := vec, txt := txt, md := md }

def decodeC (bm : BlobCodec) (p : Params) : CP State :=
  decodeCWith (vecDecodeC bm) (BM25.decodeC bm) (Meta.decodeC bm) p

def decode (bm : BlobCodec) (p : Params) : Parser State := (decodeC bm p).run

/-- How many of the three sub-index loads (vector, text, metadata; an absent one counts
    as done when it is reached) a `ReadFrom` of `inp` has COMPLETED IN PLACE before it
    returned: 3 = everything (success), less = the error came later.  With index
    instances shared between a store's memtables and segment loads this is what leaks. -/
def loadProgress (bm : BlobCodec) (p : Params) (inp : Bytes) : Nat :=
  match headC p inp with
  | .error _ => 0
  | .ok (_, r0) =>
    match (CP.opt p.vec fun vp => vecDecodeC bm vp) r0 with
    | .error _ => 0
    | .ok (_, r1) =>
      match (CP.opt (txtOpt p) fun _ => BM25.decodeC bm) r1 with
      | .error _ => 1
      | .ok (_, r2) =>
        match (CP.opt (mdOpt p) fun _ => Meta.decodeC bm) r2 with
        | .error _ => 2
        | .ok _ => 3

def u32ok (n : Nat) : Bool := decide (n < 4294967296)

def wf (s : State) : Bool :=
  u32ok s.docInfo.length && decide (s.docInfo.map (·.1)).Nodup &&
  s.docInfo.all (fun p => u32ok p.1) &&
  (match s.vec with | some v => v.wf | none => true) &&
  (match s.txt with | some t => BM25.wf t | none => true) &&
  (match s.md with | some m => Meta.wf m | none => true)

/-- every bitmap of the state (for the roaring hypothesis) -/
def bitmaps (s : State) : List (List Nat) :=
  (match s.vec with | some v => [v.deleted] | none => []) ++
  (match s.txt with | some t => BM25.bitmaps t | none => []) ++
  (match s.md with | some m => Meta.bitmaps m | none => [])

def layout : Layout :=
  [.io .raw, .guard "string(magic) != \"HYBR\"", .io .u32, .guard "version != 1",
   .io .u8, .io .u8, .io .u8,
   .guard "(hasVector == 1) != (idx.vectorIndex != nil)",
   .guard "(hasText == 1) != (idx.textIndex != nil)",
   .guard "(hasMetadata == 1) != (idx.metadataIndex != nil)", .io .u32] ++
  Layout.loop [.io .u32, .io .u8, .io .u8, .io .u8] ++
  Layout.cond (Layout.cond [.sub "vectorIndex"]) ++
  Layout.cond (Layout.cond [.sub "textIndex"]) ++
  Layout.cond (Layout.cond [.sub "metadataIndex"])

end Comet.Codec.Hybrid
