/-
  Comet.Codec.IVF — model of IVFIndex.WriteTo / ReadFrom (ivf_index.go).

  Stream:  "IVFX" | u32 1 | u32 dim | u32 len + metric | u32 nlist | u8 trained |
           [trained: per centroid (u32 size | size × f32)] | u32 listCount |
           listCount × (u32 listSize | listSize × (u32 id | dim × f32)) | u32 len + roaring
  Quirks kept: WriteTo writes `len(idx.centroids)` centroids, ReadFrom reads exactly
  `idx.nlist`; stored vectors carry no length field (ReadFrom reads `idx.dim` floats);
  the centroid size and `listCount` are NOT compared with dim / nlist; any trained
  byte other than 1 means "untrained".
-/
import Comet.Codec.Parser
import Comet.Codec.Layout
namespace Comet.Codec.IVF
open Comet.Codec

structure Params where
  dim : Nat
  metric : Bytes
  nlist : Nat
deriving Repr, DecidableEq

structure State where
  dim : Nat
  metric : Bytes
  nlist : Nat
  trained : Bool
  centroids : List (List Nat)
  lists : List (List (Nat × List Nat))
  deleted : List Nat
deriving Repr, DecidableEq

def State.params (s : State) : Params := ⟨s.dim, s.metric, s.nlist⟩

/-- `IVFIndex.Flush` -/
def flush (s : State) : State :=
  if s.deleted.isEmpty then s
  else { s with lists := s.lists.map (·.filter fun p => !s.deleted.contains p.1), deleted := [] }

def magic : Bytes := asciiBytes ['I', 'V', 'F', 'X']
#guard magic == strBytes "IVFX"

def swW : Switch
  | .u32 | .i32 | .f32 => 4
  | .u8 => 1
  | .u64 | .i64 | .f64 => 0
def swR : Switch := swW

def swWFacts : SwitchFacts :=
  [("uint32", "4"), ("int32", "4"), ("float32", "4"), ("uint8", "1"), ("int8", "1"), ("bool", "1")]
def swRFacts : SwitchFacts :=
  [("*uint32", "4"), ("*int32", "4"), ("*float32", "4"), ("*uint8", "1"), ("*int8", "1"), ("*bool", "1")]

def centroidItems (c : List Nat) : List Item := wU32 c.length :: c.map wF32
def entryItems (p : Nat × List Nat) : List Item := wU32 p.1 :: p.2.map wF32
def listItems (l : List (Nat × List Nat)) : List Item := wU32 l.length :: l.flatMap entryItems

def items (bm : BlobCodec) (s : State) : List Item :=
  [wRaw magic, wU32 1, wU32 s.dim] ++ wLenBytes s.metric ++
  [wU32 s.nlist, wU8 (if s.trained then 1 else 0)] ++
  (if s.trained then s.centroids.flatMap centroidItems else []) ++
  [wU32 s.lists.length] ++ s.lists.flatMap listItems ++ wLenBytes (bm.enc s.deleted)

def encodeRaw (bm : BlobCodec) (s : State) : Bytes := flat (items bm s)

def writeTo (bm : BlobCodec) (s : State) : State × Bytes × Nat :=
  let s' := flush s
  (s', encodeRaw bm s', reported swW (items bm s'))

def encode (bm : BlobCodec) (s : State) : Bytes := (writeTo bm s).2.1

def decCentroid : CP (List Nat) := do
  let sz ← CP.rU32 swR
  CP.repeat sz (CP.rF32 swR)

def decEntry (dim : Nat) : CP (Nat × List Nat) := do
  let id ← CP.rU32 swR
  let v ← CP.repeat dim (CP.rF32 swR)
  pure (id, v)

def decList (dim : Nat) : CP (List (Nat × List Nat)) := do
  let sz ← CP.rU32 swR
  CP.repeat sz (decEntry dim)

def decodeC (bm : BlobCodec) (p : Params) : CP State := do
  let m ← CP.rRaw 4
  CP.guard (m == magic) .magic
  let ver ← CP.rU32 swR
  CP.guard (ver == 1) .version
  let dim ← CP.rU32 swR
  CP.guard (dim == p.dim) (.param "dim")
  let mk ← CP.rLenBytes swR
  CP.guard (mk == p.metric) (.param "metric")
  let nlist ← CP.rU32 swR
  CP.guard (nlist == p.nlist) (.param "nlist")
  let tb ← CP.rU8 swR
  let trained := tb == 1
  let centroids ← CP.cond trained (CP.repeat p.nlist decCentroid) []
  let lc ← CP.rU32 swR
  let lists ← CP.repeat lc (decList p.dim)
  let blob ← CP.rLenBytes swR
  let del ← CP.ofExcept (bm.dec blob)
  pure { dim := p.dim, metric := p.metric, nlist := p.nlist, trained := trained,
         centroids := centroids, lists := lists, deleted := del }

def decode (bm : BlobCodec) (p : Params) : Parser State := (decodeC bm p).run

def f32s (v : List Nat) : Bool := v.all fun x => decide (x < 4294967296)

/-- no `lists.length = nlist` and no `centroid.length = dim` clause: not compared by the decoder -/
def wf (s : State) : Bool :=
  decide (s.dim < 4294967296) && decide (s.metric.length < 4294967296) &&
  decide (s.nlist < 4294967296) &&
  (if s.trained then decide (s.centroids.length = s.nlist) else s.centroids.isEmpty) &&
  s.centroids.all (fun c => decide (c.length < 4294967296) && f32s c) &&
  decide (s.lists.length < 4294967296) &&
  s.lists.all (fun l => decide (l.length < 4294967296) &&
    l.all fun p => decide (p.1 < 4294967296) && decide (p.2.length = s.dim) && f32s p.2)

def layout : Layout :=
  [.io .raw, .guard "string(magic) != \"IVFX\"", .io .u32, .guard "version != 1",
   .io .u32, .guard "int(dim) != idx.dim", .io .u32, .io .raw,
   .guard "distanceKind != idx.distanceKind", .io .u32, .guard "int(nlist) != idx.nlist",
   .io .u8] ++
  Layout.cond (Layout.loop ([.io .u32] ++ Layout.loop [.io .f32])) ++
  [.io .u32] ++
  Layout.loop ([.io .u32] ++ Layout.loop ([.io .u32] ++ Layout.loop [.io .f32])) ++
  Layout.bitmap

def streamIds (s : State) : List Nat := s.lists.flatMap (·.map (·.1))

end Comet.Codec.IVF
