/-
  Comet.Codec.IVFPQ — model of IVFPQIndex.WriteTo / ReadFrom (ivfpq_index.go).

  Stream:  "IVPQ" | u32 1 | u32 dim | u32 len + metric | u32 nlist | u32 M | u32 Nbits |
           u32 Ksub | u32 dsub | u8 trained |
           [trained: per centroid (u32 size | size × f32), then M × (u32 size | size × f32)] |
           u32 listCount | listCount × (u32 listSize | listSize × (u32 id | M code bytes)) |
           u32 len + roaring
  Quirks kept: ReadFrom assigns `idx.codebooks` MID-WAY (right after the codebooks were
  read, before the lists): a later error leaves the receiver with new codebooks and old
  everything else; an untrained stream leaves the receiver's codebooks untouched
  (`recvCb`; `[]` for a fresh index).  Centroid / codebook sizes and listCount are not
  compared.  Only ids and codes are written (vectors are nil after a reload).
-/
import Comet.Codec.Parser
import Comet.Codec.Layout
import Comet.Codec.PQ
namespace Comet.Codec.IVFPQ
open Comet.Codec
open Comet.Codec.PQ (Entry)

structure Params where
  dim : Nat
  metric : Bytes
  nlist : Nat
  m : Nat
  nbits : Nat
  ksub : Nat
  dsub : Nat
deriving Repr, DecidableEq

structure State where
  dim : Nat
  metric : Bytes
  nlist : Nat
  m : Nat
  nbits : Nat
  ksub : Nat
  dsub : Nat
  trained : Bool
  centroids : List (List Nat)
  codebooks : List (List Nat)
  lists : List (List Entry)
  deleted : List Nat
deriving Repr, DecidableEq

def State.params (s : State) : Params := ⟨s.dim, s.metric, s.nlist, s.m, s.nbits, s.ksub, s.dsub⟩

/-- `IVFPQIndex.Flush` -/
def flush (s : State) : State :=
  if s.deleted.isEmpty then s
  else { s with lists := s.lists.map (·.filter fun e => !s.deleted.contains e.id), deleted := [] }

def forget (s : State) : State :=
  { s with lists := s.lists.map (·.map fun e => { e with vec := none }) }

def magic : Bytes := asciiBytes ['I', 'V', 'P', 'Q']
#guard magic == strBytes "IVPQ"

def swW : Switch
  | .u32 | .i32 | .f32 => 4
  | .u8 => 1
  | .u64 | .i64 | .f64 => 0
def swR : Switch := swW

def swWFacts : SwitchFacts :=
  [("uint32", "4"), ("int32", "4"), ("float32", "4"), ("uint8", "1"), ("int8", "1"), ("bool", "1")]
def swRFacts : SwitchFacts :=
  [("*uint32", "4"), ("*int32", "4"), ("*float32", "4"), ("*uint8", "1"), ("*int8", "1"), ("*bool", "1")]

def f32ListItems (c : List Nat) : List Item := wU32 c.length :: c.map wF32
def entryItems (e : Entry) : List Item := [wU32 e.id, wRaw e.code]
def listItems (l : List Entry) : List Item := wU32 l.length :: l.flatMap entryItems

def items (bm : BlobCodec) (s : State) : List Item :=
  [wRaw magic, wU32 1, wU32 s.dim] ++ wLenBytes s.metric ++
  [wU32 s.nlist, wU32 s.m, wU32 s.nbits, wU32 s.ksub, wU32 s.dsub,
   wU8 (if s.trained then 1 else 0)] ++
  (if s.trained then s.centroids.flatMap f32ListItems ++ s.codebooks.flatMap f32ListItems else []) ++
  [wU32 s.lists.length] ++ s.lists.flatMap listItems ++ wLenBytes (bm.enc s.deleted)

def encodeRaw (bm : BlobCodec) (s : State) : Bytes := flat (items bm s)

def writeTo (bm : BlobCodec) (s : State) : State × Bytes × Nat :=
  let s' := flush s
  (s', encodeRaw bm s', reported swW (items bm s'))

def encode (bm : BlobCodec) (s : State) : Bytes := (writeTo bm s).2.1

def decF32List : CP (List Nat) := do
  let sz ← CP.rU32 swR
  CP.repeat sz (CP.rF32 swR)

def decEntry (m : Nat) : CP Entry := do
  let id ← CP.rU32 swR
  let code ← CP.rRaw m
  pure { id := id, vec := none, code := code }

def decList (m : Nat) : CP (List Entry) := do
  let sz ← CP.rU32 swR
  CP.repeat sz (decEntry m)

def decTrained (p : Params) : CP (List (List Nat) × List (List Nat)) := do
  let cs ← CP.repeat p.nlist decF32List
  let cb ← CP.repeat p.m decF32List
  pure (cs, cb)

/-- `recvCb`: the receiver's current codebooks (kept when the stream is untrained) -/
def decodeC (bm : BlobCodec) (p : Params) (recvCb : List (List Nat) := []) : CP State := do
  let mg ← CP.rRaw 4
  CP.guard (mg == magic) .magic
  let ver ← CP.rU32 swR
  CP.guard (ver == 1) .version
  let dim ← CP.rU32 swR
  CP.guard (dim == p.dim) (.param "dim")
  let mk ← CP.rLenBytes swR
  CP.guard (mk == p.metric) (.param "metric")
  let nlist ← CP.rU32 swR
  let mM ← CP.rU32 swR
  let nbits ← CP.rU32 swR
  let ksub ← CP.rU32 swR
  let dsub ← CP.rU32 swR
  CP.guard (nlist == p.nlist) (.param "nlist")
  CP.guard (mM == p.m) (.param "M")
  CP.guard (nbits == p.nbits) (.param "Nbits")
  CP.guard (ksub == p.ksub) (.param "Ksub")
  CP.guard (dsub == p.dsub) (.param "dsub")
  let tb ← CP.rU8 swR
  let trained := tb == 1
  -- Go: `idx.codebooks = codebooks` is assigned at the end of this block, mid-way
  let cc ← CP.cond trained (decTrained p) ([], recvCb)
  let lc ← CP.rU32 swR
  let lists ← CP.repeat lc (decList p.m)
  let blob ← CP.rLenBytes swR
  let del ← CP.ofExcept (bm.dec blob)
  pure { dim := p.dim, metric := p.metric, nlist := p.nlist, m := p.m, nbits := p.nbits,
         ksub := p.ksub, dsub := p.dsub, trained := trained, centroids := cc.1,
         codebooks := cc.2, lists := lists, deleted := del }

def decode (bm : BlobCodec) (p : Params) : Parser State := (decodeC bm p).run

def f32s (v : List Nat) : Bool := v.all fun x => decide (x < 4294967296)

def wf (s : State) : Bool :=
  decide (s.dim < 4294967296) && decide (s.metric.length < 4294967296) &&
  decide (s.nlist < 4294967296) &&
  decide (s.m < 4294967296) && decide (s.nbits < 4294967296) && decide (s.ksub < 4294967296) &&
  decide (s.dsub < 4294967296) &&
  (if s.trained then decide (s.centroids.length = s.nlist) && decide (s.codebooks.length = s.m)
   else s.centroids.isEmpty && s.codebooks.isEmpty) &&
  s.centroids.all (fun c => decide (c.length < 4294967296) && f32s c) &&
  s.codebooks.all (fun c => decide (c.length < 4294967296) && f32s c) &&
  decide (s.lists.length < 4294967296) &&
  s.lists.all (fun l => decide (l.length < 4294967296) &&
    l.all fun e => decide (e.id < 4294967296) && decide (e.code.length = s.m))

def layout : Layout :=
  [.io .raw, .guard "string(magic) != \"IVPQ\"", .io .u32, .guard "version != 1",
   .io .u32, .guard "int(dim) != idx.dim", .io .u32, .io .raw,
   .guard "distanceKind != idx.distanceKind", .io .u32, .io .u32, .io .u32, .io .u32, .io .u32,
   .guard "int(nlist) != idx.nlist", .guard "int(M) != idx.M", .guard "int(Nbits) != idx.Nbits",
   .guard "int(Ksub) != idx.Ksub", .guard "int(dsub) != idx.dsub", .io .u8] ++
  Layout.cond (Layout.loop ([.io .u32] ++ Layout.loop [.io .f32]) ++
               Layout.loop ([.io .u32] ++ Layout.loop [.io .f32])) ++
  [.io .u32] ++ Layout.loop ([.io .u32] ++ Layout.loop [.io .u32, .io .raw]) ++ Layout.bitmap

def streamIds (s : State) : List Nat := s.lists.flatMap (·.map (·.id))

end Comet.Codec.IVFPQ
