/-
  Comet.Codec.Parser — a tiny parser / printer combinator library over `List UInt8`.

  It models how comet's eight `ReadFrom` methods consume an `io.Reader`
  (`binary.Read(r, LittleEndian, &x)`, `io.ReadFull(r, buf)`): every primitive reads
  an exact number of bytes or fails with `Err.eof` (Go: `io.EOF` /
  `io.ErrUnexpectedEOF`), and how the `WriteTo` methods print (`binary.Write`,
  `w.Write`).  All functions are total and structurally recursive on counts that
  were read from the stream: that is the model-level "never hangs, never panics"
  (a Go panic is an explicit `Err.panic`).

  Two layers:
    * `Parser α  := Bytes → Except Err (α × Bytes)`         value and unread rest
    * `CP α      := Parser (α × Nat)`                        … plus the byte count the
      local `read` closure of the Go function *reports* (`bytesRead`), which is
      computed by a type switch on the static type of the argument (`Switch`) or by a
      manual `bytesRead += …` after a raw `io.ReadFull`.
  On the write side an encoder is a list of `Item`s (static type tag + bytes) so
  that the reported `bytesWritten` can be modelled the same way.
-/
namespace Comet.Codec

abbrev Bytes := List UInt8

inductive Err
  | eof                       -- short read
  | magic                     -- wrong magic number
  | version                   -- unsupported version
  | param (name : String)     -- a construction parameter differs from the receiver's
  | vecDim                    -- a per-vector dimension field differs (flat)
  | blob                      -- roaring / BSI UnmarshalBinary failed
  | panic (what : String)     -- the Go code would panic here (explicit outcome)
  | unsupported (what : String) -- outside the executable roaring fragment (driver only)
deriving Repr, DecidableEq, Inhabited

abbrev Parser (α : Type) := Bytes → Except Err (α × Bytes)

namespace Parser

@[inline] def pure (a : α) : Parser α := fun inp => .ok (a, inp)
@[inline] def fail (e : Err) : Parser α := fun _ => .error e
@[inline] def bind (p : Parser α) (f : α → Parser β) : Parser β := fun inp =>
  match p inp with
  | .error e => .error e
  | .ok (a, rest) => f a rest
@[inline] def map (f : α → β) (p : Parser α) : Parser β := p.bind fun a => pure (f a)

end Parser

/-! ## primitives (readers) -/

/-- little-endian value of a byte string -/
def leNat : Bytes → Nat
  | [] => 0
  | b :: bs => b.toNat + 256 * leNat bs

/-- `io.ReadFull(r, make([]byte, n))` -/
def bytes (n : Nat) : Parser Bytes := fun inp =>
  if inp.length < n then .error .eof else .ok (inp.take n, inp.drop n)

/-- one pass instead of `length` + `take` + `drop` (which make a decoder quadratic in
    the stream length); the compiler uses it through `bytes_eq_fast` -/
def takeN : Nat → Bytes → Option (Bytes × Bytes)
  | 0, l => some ([], l)
  | _ + 1, [] => none
  | n + 1, b :: l =>
    match takeN n l with
    | some (a, r) => some (b :: a, r)
    | none => none

def bytesFast (n : Nat) : Parser Bytes := fun inp =>
  match takeN n inp with
  | some (a, r) => .ok (a, r)
  | none => .error .eof

theorem takeN_eq (n : Nat) (inp : Bytes) :
    takeN n inp = if inp.length < n then none else some (inp.take n, inp.drop n) := by
  induction n generalizing inp with
  | zero => simp [takeN]
  | succ n ih =>
    cases inp with
    | nil => simp [takeN]
    | cons b l =>
      simp only [takeN, ih, List.length_cons, List.take_succ_cons, List.drop_succ_cons]
      by_cases h : l.length < n
      · simp [h]
      · simp [h]

@[csimp] theorem bytes_eq_fast : @bytes = @bytesFast := by
  funext n inp
  simp only [bytes, bytesFast, takeN_eq]
  split <;> rfl

def u8 : Parser Nat := (bytes 1).map leNat
def u32le : Parser Nat := (bytes 4).map leNat
def u64le : Parser Nat := (bytes 8).map leNat

/-- two's complement reading of a 32-bit pattern (`int32`) -/
def toI32 (n : Nat) : Int := if n < 2147483648 then (n : Int) else (n : Int) - 4294967296
def i32le : Parser Int := u32le.map toI32
/-- float32 / float64 travel as bit patterns -/
def f32bits : Parser Nat := u32le
def f64bits : Parser Nat := u64le

/-- `read(&n); buf := make([]byte, n); io.ReadFull(r, buf)` -/
def lenPrefixedBytes : Parser Bytes := u32le.bind bytes

/-- a `for i := 0; i < n; i++ { … }` loop that reads one `α` per iteration -/
def «repeat» : Nat → Parser α → Parser (List α)
  | 0, _ => Parser.pure []
  | n + 1, p => p.bind fun a => («repeat» n p).bind fun as => Parser.pure (a :: as)

/-- `if !c { return …, err }` -/
def guard (c : Bool) (e : Err) : Parser Unit := if c then Parser.pure () else Parser.fail e

/-- a value check right after reading (`if x != want { return err }`) -/
def eqCheck [BEq α] (x want : α) (e : Err) : Parser Unit := guard (x == want) e

/-- an `Option` produced by a blob decoder (`UnmarshalBinary`) -/
def ofOption (o : Option α) (e : Err) : Parser α :=
  match o with
  | some a => Parser.pure a
  | none => Parser.fail e

def ofExcept (o : Except Err α) : Parser α :=
  match o with
  | .ok a => Parser.pure a
  | .error e => Parser.fail e

/-! ## primitives (printers) -/

/-- `w` little-endian bytes of `n` (truncating, as a Go conversion `uint32(x)` does) -/
def encLE : Nat → Nat → Bytes
  | 0, _ => []
  | w + 1, n => UInt8.ofNat (n % 256) :: encLE w (n / 256)

def encU8 (n : Nat) : Bytes := encLE 1 n
def encU32 (n : Nat) : Bytes := encLE 4 n
def encU64 (n : Nat) : Bytes := encLE 8 n
def encI32 (z : Int) : Bytes := encLE 4 (z % 4294967296).toNat
def encLenBytes (b : Bytes) : Bytes := encU32 b.length ++ b

def strBytes (s : String) : Bytes := s.toUTF8.toList
/-- ASCII bytes of a character list (reduces in the kernel, unlike `String.toUTF8`) -/
def asciiBytes (cs : List Char) : Bytes := cs.map fun c => UInt8.ofNat c.toNat

/-! ## byte-count bookkeeping -/

/-- static Go types of the arguments of the local `write(x)` / `read(&x)` closures -/
inductive Ty | u8 | u32 | i32 | f32 | u64 | i64 | f64
deriving Repr, DecidableEq, Inhabited

def Ty.width : Ty → Nat
  | .u8 => 1 | .u32 | .i32 | .f32 => 4 | .u64 | .i64 | .f64 => 8

/-- the counting type switch of one closure: what is added to `bytesWritten` /
    `bytesRead` for an argument of static type `t` (0 when no case matches) -/
abbrev Switch := Ty → Nat

/-- one primitive write: `some t` = through `write(x)` with `x : t` (counted by the
    switch), `none` = raw `w.Write(b)` followed by a manual `bytesWritten += len(b)` -/
structure Item where
  ty : Option Ty
  data : Bytes
deriving Repr

def Item.counted (sw : Switch) (it : Item) : Nat :=
  match it.ty with
  | some t => sw t
  | none => it.data.length

def flat (its : List Item) : Bytes := its.flatMap (·.data)
def reported (sw : Switch) (its : List Item) : Nat := (its.map (Item.counted sw)).sum

def wU8 (n : Nat) : Item := ⟨some .u8, encU8 n⟩
def wU32 (n : Nat) : Item := ⟨some .u32, encU32 n⟩
def wI32 (z : Int) : Item := ⟨some .i32, encI32 z⟩
def wF32 (bits : Nat) : Item := ⟨some .f32, encU32 bits⟩
def wF64 (bits : Nat) : Item := ⟨some .f64, encU64 bits⟩
def wRaw (b : Bytes) : Item := ⟨none, b⟩
/-- `write(uint32(len(b))); w.Write(b); bytesWritten += int64(len(b))` -/
def wLenBytes (b : Bytes) : List Item := [wU32 b.length, wRaw b]

/-- counting parsers: the value together with the byte count the closure reports -/
abbrev CP (α : Type) := Parser (α × Nat)

namespace CP

@[inline] def pure (a : α) : CP α := Parser.pure (a, 0)
@[inline] def fail (e : Err) : CP α := Parser.fail e
@[inline] def bind (p : CP α) (f : α → CP β) : CP β :=
  Parser.bind p fun an => Parser.bind (f an.1) fun bm => Parser.pure (bm.1, an.2 + bm.2)
@[inline] def map (f : α → β) (p : CP α) : CP β := p.bind fun a => pure (f a)
/-- forget the count -/
@[inline] def run (p : CP α) : Parser α := Parser.map (·.1) p

instance : Monad CP where
  pure := CP.pure
  bind := CP.bind

/-- `read(&x)` with `x` of static type `t`: counted by the switch -/
def rd (sw : Switch) (t : Ty) (p : Parser α) : CP α := Parser.map (fun v => (v, sw t)) p
def rU8 (sw : Switch) : CP Nat := rd sw .u8 u8
def rU32 (sw : Switch) : CP Nat := rd sw .u32 u32le
def rI32 (sw : Switch) : CP Int := rd sw .i32 i32le
def rF32 (sw : Switch) : CP Nat := rd sw .f32 f32bits
def rF64 (sw : Switch) : CP Nat := rd sw .f64 f64bits
/-- `io.ReadFull(r, make([]byte, n)); bytesRead += int64(n)` -/
def rRaw (n : Nat) : CP Bytes := Parser.map (fun b => (b, n)) (bytes n)
/-- `read(&n)` then raw read of `n` bytes -/
def rLenBytes (sw : Switch) : CP Bytes := (rU32 sw).bind rRaw

def guard (c : Bool) (e : Err) : CP Unit := if c then pure () else fail e
def ofOption (o : Option α) (e : Err) : CP α :=
  match o with
  | some a => pure a
  | none => fail e
def ofExcept (o : Except Err α) : CP α :=
  match o with
  | .ok a => pure a
  | .error e => fail e

def «repeat» : Nat → CP α → CP (List α)
  | 0, _ => pure []
  | n + 1, p => p.bind fun a => («repeat» n p).bind fun as => pure (a :: as)

/-- `var x T; if c { x = … read … }` : the reads happen only under `c`, else `x` keeps `d` -/
def cond (c : Bool) (p : CP α) (d : α) : CP α := if c then p else pure d

/-- optional sub-decoder (a nil sub-index is skipped) -/
def opt (o : Option β) (p : β → CP α) : CP (Option α) :=
  match o with
  | some b => CP.map some (p b)
  | none => pure none

/-- embed a sub-decoder whose own reported count is added (hybrid: `bytesRead += n`) -/
@[irreducible] def sub (p : CP α) : CP α := p

end CP

/-! ## blob codecs: roaring bitmaps are a parameter of the codec models -/

/-- A length-delimited blob codec (`ToBytes` / `UnmarshalBinary` of the roaring
    library).  A bitmap's content is its ascending id list. -/
structure BlobCodec where
  enc : List Nat → Bytes
  dec : Bytes → Except Err (List Nat)   -- `.blob` = UnmarshalBinary error

/-! ## association lists standing for Go maps -/

/-- what a Go map holds after inserting the entries one after the other (last
    write wins); on duplicate-free key lists this is the identity -/
def mkMap [BEq κ] (l : List (κ × ν)) : List (κ × ν) :=
  l.foldl (fun m kv => m.filter (fun e => !(e.1 == kv.1)) ++ [kv]) []

end Comet.Codec
