/-
  Comet.Codec.HNSW — model of HNSWIndex.WriteTo / ReadFrom (hnsw_index.go).

  Stream:  "HNSW" | u32 1 | u32 dim | u32 len + metric | u32 M | u32 efConstruction |
           u32 efSearch | f64 levelMult | i32 maxLevel | u32 entryPoint | u32 nodeCount |
           nodeCount × (u32 id | i32 level | u32 vecDim | vecDim × f32 |
                        u32 layerCount | layerCount × (u32 edgeCount | edgeCount × u32)) |
           u32 len + roaring bytes
  The nodes are a Go map: they are written in map order (here: list order, arbitrary)
  and re-inserted one by one.  ReadFrom compares dim, metric, M, efConstruction and
  efSearch (the three after all three were read); it does NOT compare a node's vector
  length with dim and takes levelMult from the stream.  State is assigned at the end.
-/
import Comet.Codec.Parser
import Comet.Codec.Layout
namespace Comet.Codec.HNSW
open Comet.Codec

structure Params where
  dim : Nat
  metric : Bytes
  m : Nat
  efC : Nat
  efS : Nat
deriving Repr, DecidableEq

structure Node where
  level : Int
  vec : List Nat
  edges : List (List Nat)
deriving Repr, DecidableEq

structure State where
  dim : Nat
  metric : Bytes
  m : Nat
  efC : Nat
  efS : Nat
  levelMult : Nat            -- float64 bit pattern
  maxLevel : Int
  entry : Nat
  nodes : List (Nat × Node)  -- the map, in (arbitrary) iteration order
  deleted : List Nat
deriving Repr, DecidableEq

def State.params (s : State) : Params := ⟨s.dim, s.metric, s.m, s.efC, s.efS⟩

def dead (s : State) (id : Nat) : Bool := s.deleted.contains id

/-- Flush phase 1: surviving nodes drop their edges to deleted nodes -/
def pruned (s : State) : List (Nat × Node) :=
  s.nodes.map fun p =>
    if dead s p.1 then p
    else (p.1, { p.2 with edges := p.2.edges.map (·.filter (fun id => !dead s id)) })

/-- Flush phase 2: a new (entry point, maxLevel) when the old entry point is deleted:
    first a surviving node at the current maxLevel; else the first surviving node of
    the highest level; else (0, -1) -/
def elect (s : State) (nodes1 : List (Nat × Node)) : Nat × Int :=
  if dead s s.entry then
    match nodes1.find? (fun p => !dead s p.1 && p.2.level == s.maxLevel) with
    | some p => (p.1, s.maxLevel)
    | none =>
      let be := nodes1.foldl (fun (acc : Int × Nat) (p : Nat × Node) =>
        if !dead s p.1 && p.2.level > acc.1 then (p.2.level, p.1) else acc) ((-1 : Int), s.entry)
      if be.1 ≥ 0 then (be.2, be.1) else (0, -1)
  else (s.entry, s.maxLevel)

/-- `HNSWIndex.Flush`.  List order stands for Go's map iteration order (which may
    differ from loop to loop in Go; the codec theorems hold for every flushed state,
    so they do not depend on which entry point is elected). -/
def flush (s : State) : State :=
  if s.deleted.isEmpty then s else
  let nodes1 := pruned s
  let em := elect s nodes1
  -- phase 3/4: hard delete, clear the bitmap
  { s with nodes := nodes1.filter (fun p => !dead s p.1), entry := em.1,
           maxLevel := em.2, deleted := [] }

def magic : Bytes := asciiBytes ['H', 'N', 'S', 'W']
#guard magic == strBytes "HNSW"

def swW : Switch
  | .u32 | .i32 => 4
  | .u64 | .i64 | .f64 => 8
  | .f32 => 4
  | .u8 => 0
def swR : Switch := swW

def swWFacts : SwitchFacts :=
  [("uint32", "4"), ("int32", "4"), ("uint64", "8"), ("int64", "8"), ("float64", "8"), ("float32", "4")]
def swRFacts : SwitchFacts :=
  [("*uint32", "4"), ("*int32", "4"), ("*uint64", "8"), ("*int64", "8"), ("*float64", "8"), ("*float32", "4")]

def edgeItems (es : List Nat) : List Item := wU32 es.length :: es.map wU32

def nodeItems (p : Nat × Node) : List Item :=
  [wU32 p.1, wI32 p.2.level, wU32 p.2.vec.length] ++ p.2.vec.map wF32 ++
  [wU32 p.2.edges.length] ++ p.2.edges.flatMap edgeItems

def items (bm : BlobCodec) (s : State) : List Item :=
  [wRaw magic, wU32 1, wU32 s.dim] ++ wLenBytes s.metric ++
  [wU32 s.m, wU32 s.efC, wU32 s.efS, wF64 s.levelMult, wI32 s.maxLevel, wU32 s.entry,
   wU32 s.nodes.length] ++ s.nodes.flatMap nodeItems ++ wLenBytes (bm.enc s.deleted)

def encodeRaw (bm : BlobCodec) (s : State) : Bytes := flat (items bm s)

def writeTo (bm : BlobCodec) (s : State) : State × Bytes × Nat :=
  let s' := flush s
  (s', encodeRaw bm s', reported swW (items bm s'))

def encode (bm : BlobCodec) (s : State) : Bytes := (writeTo bm s).2.1

def decEdges : CP (List Nat) := do
  let ec ← CP.rU32 swR
  CP.repeat ec (CP.rU32 swR)

def decNode : CP (Nat × Node) := do
  let id ← CP.rU32 swR
  let level ← CP.rI32 swR
  let vd ← CP.rU32 swR
  let v ← CP.repeat vd (CP.rF32 swR)
  let lc ← CP.rU32 swR
  let edges ← CP.repeat lc decEdges
  pure (id, { level := level, vec := v, edges := edges })

def decodeC (bm : BlobCodec) (p : Params) : CP State := do
  let m ← CP.rRaw 4
  CP.guard (m == magic) .magic
  let ver ← CP.rU32 swR
  CP.guard (ver == 1) .version
  let dim ← CP.rU32 swR
  CP.guard (dim == p.dim) (.param "dim")
  let mk ← CP.rLenBytes swR
  CP.guard (mk == p.metric) (.param "metric")
  let mM ← CP.rU32 swR
  let efC ← CP.rU32 swR
  let efS ← CP.rU32 swR
  CP.guard (mM == p.m) (.param "M")
  CP.guard (efC == p.efC) (.param "efConstruction")
  CP.guard (efS == p.efS) (.param "efSearch")
  let lm ← CP.rF64 swR
  let maxLevel ← CP.rI32 swR
  let entry ← CP.rU32 swR
  let n ← CP.rU32 swR
  let nodes ← CP.repeat n decNode
  let blob ← CP.rLenBytes swR
  let del ← CP.ofExcept (bm.dec blob)
  pure { dim := p.dim, metric := p.metric, m := p.m, efC := p.efC, efS := p.efS,
         levelMult := lm, maxLevel := maxLevel, entry := entry,
         nodes := mkMap nodes, deleted := del }

def decode (bm : BlobCodec) (p : Params) : Parser State := (decodeC bm p).run

def i32ok (z : Int) : Bool := decide (-2147483648 ≤ z) && decide (z < 2147483648)

def wfNode (p : Nat × Node) : Bool :=
  decide (p.1 < 4294967296) && i32ok p.2.level && decide (p.2.vec.length < 4294967296) &&
  p.2.vec.all (fun x => decide (x < 4294967296)) && decide (p.2.edges.length < 4294967296) &&
  p.2.edges.all (fun es => decide (es.length < 4294967296) && es.all (fun e => decide (e < 4294967296)))

/-- note: no `vec.length = dim` clause — the decoder does not compare it -/
def wf (s : State) : Bool :=
  decide (s.dim < 4294967296) && decide (s.metric.length < 4294967296) &&
  decide (s.m < 4294967296) && decide (s.efC < 4294967296) && decide (s.efS < 4294967296) &&
  decide (s.levelMult < 18446744073709551616) && i32ok s.maxLevel &&
  decide (s.entry < 4294967296) && decide (s.nodes.length < 4294967296) &&
  decide (s.nodes.map (·.1)).Nodup && s.nodes.all wfNode

def layout : Layout :=
  [.io .raw, .guard "string(magic) != \"HNSW\"", .io .u32, .guard "version != 1",
   .io .u32, .guard "int(dim) != idx.dim", .io .u32, .io .raw,
   .guard "distanceKind != idx.distanceKind", .io .u32, .io .u32, .io .u32,
   .guard "int(M) != idx.M", .guard "int(efConstruction) != idx.efConstruction",
   .guard "int(efSearch) != idx.efSearch", .io .f64, .io .i32, .io .u32, .io .u32] ++
  Layout.loop ([.io .u32, .io .i32, .io .u32] ++ Layout.loop [.io .f32] ++ [.io .u32] ++
    Layout.loop ([.io .u32] ++ Layout.loop [.io .u32])) ++
  Layout.bitmap

def streamIds (s : State) : List Nat := s.nodes.map (·.1)

end Comet.Codec.HNSW
