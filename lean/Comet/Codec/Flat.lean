/-
  Comet.Codec.Flat — model of FlatIndex.WriteTo / ReadFrom (flat_index.go).

  Stream:  "FLAT" | u32 version=1 | u32 dim | u32 len + metric bytes | u32 count |
           count × (u32 id | u32 vecDim | vecDim × f32) | u32 len + roaring bytes
  WriteTo calls Flush() first (soft-deleted vectors leave, the bitmap is cleared).
  ReadFrom compares magic, version, dim and metric with the receiver right after
  reading them and every per-vector dimension field with the stream's dim; it assigns
  `vectors` and `deletedNodes` only after everything (incl. the bitmap) decoded.
-/
import Comet.Codec.Parser
import Comet.Codec.Layout
import Comet.Vector.Flat
namespace Comet.Codec.Flat
open Comet.Codec

/-- the receiver's construction parameters -/
structure Params where
  dim : Nat
  metric : Bytes          -- the DistanceKind string
deriving Repr, DecidableEq

/-- serialisable content of a FlatIndex (float32 values as bit patterns) -/
structure State where
  dim : Nat
  metric : Bytes
  vecs : List (Nat × List Nat)   -- (id, components) in slice order
  deleted : List Nat             -- soft-deleted ids (content of the roaring bitmap)
deriving Repr, DecidableEq

def State.params (s : State) : Params := ⟨s.dim, s.metric⟩

/-- `FlatIndex.Flush` -/
def flush (s : State) : State :=
  if s.deleted.isEmpty then s
  else { s with vecs := s.vecs.filter (fun p => !s.deleted.contains p.1), deleted := [] }

def magic : Bytes := asciiBytes ['F', 'L', 'A', 'T']
#guard magic == strBytes "FLAT"

/-- the counting type switch of WriteTo's `write` closure -/
def swW : Switch
  | .u32 | .i32 | .f32 => 4
  | .u64 | .i64 | .f64 => 8
  | .u8 => 0
/-- … and of ReadFrom's `read` closure -/
def swR : Switch := swW

def swWFacts : SwitchFacts :=
  [("uint32", "4"), ("int32", "4"), ("float32", "4"), ("uint64", "8"), ("int64", "8"), ("float64", "8"),
   ("[]byte", "int64(len(v))"), ("[]float32", "int64(len(v) * 4)")]
def swRFacts : SwitchFacts :=
  [("*uint32", "4"), ("*int32", "4"), ("*float32", "4"), ("*uint64", "8"), ("*int64", "8"), ("*float64", "8")]

def vecItems (p : Nat × List Nat) : List Item :=
  [wU32 p.1, wU32 p.2.length] ++ p.2.map wF32

/-- the writes of WriteTo after the flush, in source order -/
def items (bm : BlobCodec) (s : State) : List Item :=
  [wRaw magic, wU32 1, wU32 s.dim] ++ wLenBytes s.metric ++ [wU32 s.vecs.length] ++
  s.vecs.flatMap vecItems ++ wLenBytes (bm.enc s.deleted)

def encodeRaw (bm : BlobCodec) (s : State) : Bytes := flat (items bm s)

/-- `WriteTo`: the new state of the source index, the bytes, the reported count -/
def writeTo (bm : BlobCodec) (s : State) : State × Bytes × Nat :=
  let s' := flush s
  (s', encodeRaw bm s', reported swW (items bm s'))

def encode (bm : BlobCodec) (s : State) : Bytes := (writeTo bm s).2.1

def decVec (dim : Nat) : CP (Nat × List Nat) := do
  let id ← CP.rU32 swR
  let vd ← CP.rU32 swR
  CP.guard (vd == dim) .vecDim
  let v ← CP.repeat vd (CP.rF32 swR)
  pure (id, v)

/-- `ReadFrom` into a receiver with parameters `p`: the new state and the reported count -/
def decodeC (bm : BlobCodec) (p : Params) : CP State := do
  let m ← CP.rRaw 4
  CP.guard (m == magic) .magic
  let ver ← CP.rU32 swR
  CP.guard (ver == 1) .version
  let dim ← CP.rU32 swR
  CP.guard (dim == p.dim) (.param "dim")
  let mk ← CP.rLenBytes swR
  CP.guard (mk == p.metric) (.param "metric")
  let n ← CP.rU32 swR
  let vecs ← CP.repeat n (decVec dim)
  let blob ← CP.rLenBytes swR
  let del ← CP.ofExcept (bm.dec blob)
  pure { dim := p.dim, metric := p.metric, vecs := vecs, deleted := del }

def decode (bm : BlobCodec) (p : Params) : Parser State := (decodeC bm p).run

/-- explicit, decidable well-formedness: satisfied by every reachable state -/
def wf (s : State) : Bool :=
  decide (s.dim < 4294967296) && decide (s.metric.length < 4294967296) &&
  decide (s.vecs.length < 4294967296) &&
  s.vecs.all (fun p => decide (p.1 < 4294967296) && decide (p.2.length = s.dim) &&
    p.2.all (fun x => decide (x < 4294967296)))

def layout : Layout :=
  [.io .raw, .guard "string(magic) != \"FLAT\"", .io .u32, .guard "version != 1",
   .io .u32, .guard "int(dim) != idx.dim", .io .u32, .io .raw,
   .guard "distanceKind != idx.distanceKind", .io .u32] ++
  Layout.loop ([.io .u32, .io .u32, .guard "vecDim != dim"] ++ Layout.loop [.io .f32]) ++
  Layout.bitmap

/-- relation to the search model's state (`Comet.Flat.State`, C01) -/
def ofModel (metric : Bytes) (s : Comet.Flat.State (List Nat)) : State :=
  { dim := s.dim, metric := metric, vecs := s.vecs, deleted := s.deleted }

/-- ids that occur in a stream's vector section -/
def streamIds (s : State) : List Nat := s.vecs.map (·.1)

end Comet.Codec.Flat
