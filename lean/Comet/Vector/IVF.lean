/-
  Comet.Vector.IVF — model of ivf_index.go / ivf_index_search.go (and of
  clustering.go: FindNearestCentroidIndex), written line by line after the Go.

  Parameters: a `Metric` (as for the flat index) and `inf : S`, the value of
  `float32(math.Inf(1))` with which the arg-min loop starts.

  Quirks kept on purpose (they are what the code does):
    * k-means itself is not replicated here (that is C20): the centroids that
      `KMeans` returned are an *input* of the `train` op; `Train` only checks
      `len(vectors) >= nlist`, neither the dimension of the training vectors nor
      whether vectors are already stored; training vectors are not preprocessed,
      so under cosine the centroids are not unit vectors;
    * `Add` preprocesses first and assigns the *preprocessed* vector; the
      assignment is `FindNearestCentroidIndex`: `minIdx = 0, minDist = +Inf`,
      update on strict `<` only — the least index among the minimisers;
    * `Add` does not look at existing ids; when the id is soft-deleted it first
      purges ALL soft-deleted entries (`flushLocked`, the re-add fix e29df80) and then
      appends as for a fresh id; `Remove` and `Flush` do not look at `trained`;
    * search: untrained check, then dimension, then the probe clamp
      `nprobes <= 0 || nprobes > nlist → nlist`, then the query is preprocessed and
      the centroids are ranked by `distance.Calculate(preprocessedQuery, centroid)`
      (the same metric as for the vectors, on raw centroids);
    * the scan loop body (deleted → id filter → distance → `thr > 0 && d > thr`)
      is textually the flat index's; `sanitizeK` is applied once, to the number
      of surviving candidates;
    * default `nprobes = int(sqrt(nlist))`, default `k = 10`.

  `sort.Slice` is modelled by a stable sort (insertion sort for the centroid
  ranking, so that concrete examples reduce by `decide`; `selectK`'s merge sort
  for the candidates).  Implementation answers are never compared with the
  model's particular tie-break, only through `IsTopK` (see Driver/IVF.lean).

  Core Lean only.
-/
import Comet.TopK
import Comet.Scalar
import Comet.Agg
import Comet.Vector.Flat
namespace Comet
namespace IVF

/-- what an operation can do besides succeeding: return an error, or die with an
    index-out-of-range panic (made explicit; the theorems exclude it) -/
inductive Fail | err (e : Err) | panic
deriving Repr, DecidableEq

structure State (V : Type) where
  dim : Nat
  nlist : Nat
  centroids : List V
  lists : List (List (Id × V))
  deleted : List Id
  trained : Bool
deriving Repr

/-- the struct literal of `NewIVFIndex` (`lists: make([][]VectorNode, nlist)`) -/
def init (dim nlist : Nat) : State V :=
  ⟨dim, nlist, [], List.replicate nlist [], [], false⟩

/-- `NewIVFIndex`: `dim <= 0` and `nlist <= 0` are rejected. -/
def new? (dim nlist : Int) : Option (State V) :=
  if dim ≤ 0 then none else if nlist ≤ 0 then none else some (init dim.toNat nlist.toNat)

inductive Op (V : Type)
  /-- `Train(vectors)` with `n = len(vectors)`; `cs` is what `KMeans` returned -/
  | train (n : Nat) (cs : List V)
  | add (id : Id) (v : V)
  | remove (id : Id)
  | flush
deriving Repr

/-- the Add / Remove / Flush ops are those of the flat index -/
def ofFlat : Flat.Op V → Op V
  | .add id v => .add id v
  | .remove id => .remove id
  | .flush => .flush

/-! ### clustering.go: FindNearestCentroidIndex -/

/-- the loop `for i, centroid := range centroids { if dist < minDist { minDist = dist; minIdx = i } }`
    over the already computed distances; `i` is the running index. -/
def argminLoop (sc : Scalar S) : List S → Nat → Nat → S → Nat
  | [], _, mi, _ => mi
  | d :: ds, i, mi, md =>
      if sc.lt d md then argminLoop sc ds (i + 1) i d else argminLoop sc ds (i + 1) mi md

/-- `minDist := +Inf; minIdx := 0; loop` -/
def argmin (sc : Scalar S) (inf : S) (ds : List S) : Nat := argminLoop sc ds 0 0 inf

/-- `FindNearestCentroidIndex(v, centroids, distance)` -/
def nearest (m : Metric V S) (inf : S) (v : V) (cs : List V) : Nat :=
  argmin m.sc inf (cs.map (m.dist v))

/-- `lists[i] = append(lists[i], e)`; out-of-range is reported by the caller -/
def appendAt (e : α) : List (List α) → Nat → List (List α)
  | [], _ => []
  | l :: ls, 0 => (l ++ [e]) :: ls
  | l :: ls, i + 1 => l :: appendAt e ls i

/-- `IVFIndex.flushLocked`: drop every soft-deleted entry from every list, clear the set -/
def flushLocked (s : State V) : State V :=
  if s.deleted.isEmpty then s else
  { s with lists := s.lists.map (fun l => l.filter (fun p => p.1 ∉ s.deleted)), deleted := [] }

/-- `IVFIndex.Train` / `Add` / `Remove` / `Flush` -/
def step (m : Metric V S) (inf : S) (s : State V) : Op V → State V × Option Fail
  | .train n cs =>
      if n < s.nlist then (s, some (.err .other)) else
      ({ s with centroids := cs, trained := true }, none)
  | .add id v =>
      if !s.trained then (s, some (.err .untrained)) else
      if m.dimOf v ≠ s.dim then (s, some (.err .dim)) else
      match m.pre v with
      | none => (s, some (.err .zero))
      | some v' =>
        -- `if idx.deletedNodes.Contains(vector.ID()) { flushLocked() }`
        let s1 := if id ∈ s.deleted then flushLocked s else s
        let i := nearest m inf v' s1.centroids
        if i < s1.lists.length then ({ s1 with lists := appendAt (id, v') s1.lists i }, none)
        else (s1, some .panic)
  | .remove id =>
      if ¬ s.lists.any (fun l => l.any (·.1 == id)) then (s, some (.err .notFound)) else
      if id ∈ s.deleted then (s, some (.err .deleted)) else
      ({ s with deleted := id :: s.deleted }, none)
  | .flush => (flushLocked s, none)

def run (m : Metric V S) (inf : S) (s : State V) (ops : List (Op V)) : State V :=
  ops.foldl (fun s op => (step m inf s op).1) s

/-! ### ivf_index_search.go -/

/-- `if nprobes <= 0 || nprobes > nlist { nprobes = nlist }` -/
def clampProbes (p : Int) (nlist : Nat) : Nat :=
  if p ≤ 0 ∨ (nlist : Int) < p then nlist else p.toNat

/-- `NewSearch`: `nprobes: int(math.Sqrt(float64(idx.nlist)))` -/
def defaultProbes (nlist : Nat) : Int := (Nat.sqrt nlist : Nat)

/-- `centroidDistances[i] = {index: i, distance: Calculate(q', centroid)}` -/
def idxDists (m : Metric V S) (q' : V) : List V → Nat → List (Nat × S)
  | [], _ => []
  | c :: cs, i => (i, m.dist q' c) :: idxDists m q' cs (i + 1)

def insertBy (le : α → α → Bool) (a : α) : List α → List α
  | [] => [a]
  | b :: bs => if le a b then a :: b :: bs else b :: insertBy le a bs

/-- stable insertion sort (structural recursion) -/
def insSort (le : α → α → Bool) : List α → List α
  | [] => []
  | a :: as => insertBy le a (insSort le as)

/-- `sort.Slice(centroidDistances, …distance <…)` -/
def rank (m : Metric V S) (q' : V) (cs : List V) : List (Nat × S) :=
  insSort (fun a b => m.sc.le a.2 b.2) (idxDists m q' cs 0)

/-- the list indexes scanned: the first `np` entries of the ranking -/
def probe (m : Metric V S) (q' : V) (cs : List V) (np : Nat) : List Nat :=
  ((rank m q' cs).take np).map (·.1)

/-- `s.index.lists[listIdx]` for every probed index, `none` = index out of range -/
def gather (ls : List (List α)) : List Nat → Option (List (List α))
  | [] => some []
  | i :: is =>
      match ls[i]?, gather ls is with
      | some l, some r => some (l :: r)
      | _, _ => none

/-- `ivfIndexSearch.searchSingleQuery`; `p` is the builder's `nprobes`. -/
def searchSingle (m : Metric V S) (s : State V) (q : V) (k : Int) (thr : S)
    (filter : List Id) (p : Int) : Except Fail (List (Hit S)) :=
  if !s.trained then .error (.err .untrained) else
  if m.dimOf q ≠ s.dim then .error (.err .dim) else
  let np := clampProbes p s.nlist
  match m.pre q with
  | none => .error (.err .zero)
  | some q' =>
    let ranked := rank m q' s.centroids
    -- `centroidDistances[i]` for `i < nprobes`
    if ranked.length < np then .error .panic else
    match gather s.lists ((ranked.take np).map (·.1)) with
    | none => .error .panic
    | some ls =>
      -- the loop body is the flat index's scan body, applied to the probed lists in order
      let cands := Flat.scan m ⟨s.dim, ls.flatten, s.deleted⟩ q' thr filter
      .ok (selectK m.sc.le k cands)

/-- `lookupNodeVectors`: first entry with that id, lists in order -/
def lookupNode (s : State V) (id : Id) : Except Fail V :=
  match s.lists.flatten.find? (·.1 == id) with
  | none => .error (.err .notFound)
  | some p => if id ∈ s.deleted then .error (.err .deleted) else .ok p.2

/-- `ivfIndexSearch.Execute` with the default cutoff (-1: autocut disabled), no reranker. -/
def execute (m : Metric V S) (s : State V) (queries : List V) (nodes : List Id)
    (k : Int) (thr : S) (filter : List Id) (agg : AggKind) (p : Int) :
    Except Fail (List (Hit S)) := do
  if queries.isEmpty && nodes.isEmpty then throw (.err .noQuery)
  let nodeQs ← nodes.mapM (lookupNode s)
  let per ← (queries ++ nodeQs).mapM fun q => searchSingle m s q k thr filter p
  let all := per.flatten
  let aggregated := if all.isEmpty then all else vecAggregate m.sc agg all
  return limitResults k aggregated

/-! ## Specification (what C13 means), used by the theorems and by the driver -/

variable {V S : Type}

/-- "the vectors stored in the clusters `P`": the live entries whose nearest
    centroid (least index among the minimisers) is one of `P`. -/
def inClusters (m : Metric V S) (inf : S) (cs : List V) (P : List Nat)
    (l : List (Id × V)) : List (Id × V) :=
  l.filter fun e => P.contains (nearest m inf e.2 cs)

/-- candidate hits of the specification for the probe set `P`: live, stored in one
    of the clusters `P`, eligible, within the threshold; scored by the metric. -/
def probeCands (m : Metric V S) (inf : S) (cs : List V) (P : List Nat)
    (l : List (Id × V)) (q' : V) (thr : S) (filter : List Id) : List (Hit S) :=
  Flat.cands m (inClusters m inf cs P l) q' thr filter

/-- `P` is a legitimate choice of "the `np` clusters whose centroids are nearest to
    the query": `np` distinct cluster indexes, none of them strictly farther from
    the query than a cluster outside. -/
structure IsProbeSet (m : Metric V S) (q' : V) (cs : List V) (np : Nat) (P : List Nat) : Prop where
  nodup : P.Nodup
  len : P.length = np
  inRange : ∀ i ∈ P, i < cs.length
  nearestFirst : ∀ i ∈ P, ∀ j, j ∉ P → ∀ ci cj, cs[i]? = some ci → cs[j]? = some cj →
    m.sc.le (m.dist q' ci) (m.dist q' cj) = true

end IVF
end Comet
