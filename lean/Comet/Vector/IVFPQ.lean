/-
  Comet.Vector.IVFPQ — model of ivfpq_index.go / ivfpq_index_search.go, written after
  the Go line by line.  Arithmetic, codes, tables and the scan loop are those of
  Comet.Vector.PQ (the Go files carry copies of the same loops).

  Inputs standing for k-means: the coarse centroids and the residual codebooks that
  `Train` produced (read from the implementation through `verif` accessors).

  Quirks kept on purpose:
    * `Train` requires `n ≥ 10·nlist` and `n ≥ Ksub` (two separate checks, both before
      the dimension check); the second is what keeps the codebook copy loop
      `centroids[k]`, `k < Ksub`, in range (`KMeansSubspace` returns `min(Ksub, n)`);
    * `uint8(minIdx)` as in PQ;
    * the assigned list is the first strict minimiser of the METRIC distance to the
      centroids (`FindNearestCentroidIndex`), the residual is taken to that centroid;
    * `nprobes <= 0 || nprobes > nlist` means all lists (the same clamp as `sanitizeK`);
      default `int(sqrt(nlist))`;
    * no early return on an empty index (PQ has one);
    * centroids are ordered by `sort.Slice` (any tie order): implementation answers are
      judged against SOME valid choice of the `nprobes` nearest lists.
-/
import Comet.Vector.PQ
namespace Comet
namespace IVFPQ
open PQ

structure State (S : Type) where
  dim : Nat
  M : Nat
  nbits : Nat
  nlist : Nat
  trained : Bool
  cents : List (List S)
  cbs : List (List (List S))
  /-- `lists [][]CompressedVector`, `make(…, nlist)` -/
  lists : List (List (Id × Stored S))
  deleted : List Id

def State.ksub (s : State S) : Nat := 2 ^ s.nbits
def State.dsub (s : State S) : Nat := s.dim / s.M

/-- `NewIVFPQIndex` parameter validation (Go `int`s), in the order of the Go checks. -/
def newOk (dim nlist M nbits : Int) : Bool :=
  decide (0 < dim) && decide (0 < nlist) && decide (0 < M) && decide (dim % M = 0) &&
  decide (0 < nbits) && decide (nbits ≤ 8)

def init (dim M nbits nlist : Nat) : State S :=
  ⟨dim, M, nbits, nlist, false, [], [], List.replicate nlist [], []⟩

/-- `IVFPQIndex.Train` on `n` vectors.  `KMeans(raw, nlist, …)` returns `nlist`
    centroids (`n ≥ 10·nlist ≥ nlist`); per subspace `KMeansSubspace(residuals, Ksub, 20)`
    returns `min(Ksub, n) = Ksub` centroids, so the copy loop `centroids[k]`, `k < Ksub`,
    is in range. -/
def train (s : State S) (n : Nat) (dimsOK : Bool) (cents : List (List S))
    (cbs : List (List (List S))) : State S × Out :=
  if n < s.nlist * 10 then (s, .err .other) else
  if n < s.ksub then (s, .err .other) else
  if !dimsOK then (s, .err .dim) else
  ({ s with cents := cents, cbs := cbs, trained := true }, .ok)

/-- `FindNearestCentroidIndex(v, centroids, distance)` -/
def assign (m : Metric (List S) S) (A : Arith S) (cents : List (List S)) (v : List S) : Nat :=
  argmin m.sc.lt A.inf (cents.map (m.dist v))

/-- `IVFPQIndex.flushLocked` (empty lists are skipped in Go; filtering them is the same) -/
def flushLocked (s : State S) : State S :=
  if s.deleted.isEmpty then s else
  { s with lists := s.lists.map (·.filter (fun p => p.1 ∉ s.deleted)), deleted := [] }

/-- The tail of `IVFPQIndex.Add`, after preprocessing and the tombstone purge: nearest
    centroid, residual, code, append to that list. -/
def addEncoded (m : Metric (List S) S) (A : Arith S) (s : State S) (id : Id) (v' : List S) :
    State S × Out :=
  let li := assign m A s.cents v'
  match s.cents[li]? with
  | none => (s, .panic)                        -- `idx.centroids[listIdx]`
  | some c =>
    let residual := vsub (A.ops m.sc) v' c
    let code := encode (A.ops m.sc) m.sc.lt A.inf s.dsub s.cbs residual
    if li < s.lists.length then
      ({ s with lists := s.lists.modify li (· ++ [(id, ⟨v', li, code⟩)]) }, .ok)
    else (s, .panic)                           -- `idx.lists[listIdx]`

/-- `IVFPQIndex.Add` / `Remove` / `Flush`.  `Add` of an id that is still soft-deleted
    first purges all tombstoned entries (`flushLocked`). -/
def step (m : Metric (List S) S) (A : Arith S) (s : State S) : Flat.Op (List S) → State S × Out
  | .add id v =>
      if !s.trained then (s, .err .untrained) else
      if v.length ≠ s.dim then (s, .err .dim) else
      match m.pre v with
      | none => (s, .err .zero)
      | some v' => addEncoded m A (if id ∈ s.deleted then flushLocked s else s) id v'
  | .remove id =>
      if ¬ s.lists.any (fun l => l.any (·.1 == id)) then (s, .err .notFound) else
      if id ∈ s.deleted then (s, .err .deleted) else
      ({ s with deleted := id :: s.deleted }, .ok)
  | .flush => (flushLocked s, .ok)

def run (m : Metric (List S) S) (A : Arith S) (s : State S) (ops : List (Flat.Op (List S))) :
    State S :=
  ops.foldl (fun s op => (step m A s op).1) s

/-- `centroidDistances[i] = {index: i, distance: Calculate(q', centroid_i)}`, `i ≥ from` -/
def centroidHitsFrom (m : Metric (List S) S) (q' : List S) : Nat → List (List S) → List (Hit S)
  | _, [] => []
  | i, c :: cs => ⟨i, m.dist q' c⟩ :: centroidHitsFrom m q' (i + 1) cs

def centroidHits (m : Metric (List S) S) (q' : List S) (cents : List (List S)) : List (Hit S) :=
  centroidHitsFrom m q' 0 cents

/-- the probe loop: per probed list, residual query, tables, scan -/
def scanProbed (m : Metric (List S) S) (A : Arith S) (s : State S) (q' : List S) (thr : S)
    (filter : List Id) : List (Hit S) → Option (List (Hit S))
  | [] => some []
  | h :: hs =>
      match s.cents[h.id]?, s.lists[h.id]? with
      | some c, some l =>
        let tabs := tables (A.ops m.sc) s.dsub s.cbs (vsub (A.ops m.sc) q' c)
        match PQ.scan m.sc A tabs s.deleted thr filter l, scanProbed m A s q' thr filter hs with
        | some r, some rest => some (r ++ rest)
        | _, _ => none
      | _, _ => none

/-- `nprobes` after the clamp `if nprobes <= 0 || nprobes > nlist { nprobes = nlist }` -/
def clampProbes (nprobes : Int) (nlist : Nat) : Nat := sanitizeK nprobes nlist

/-- `NewSearch`: `nprobes: int(math.Sqrt(float64(nlist)))` -/
def defaultProbes (nlist : Nat) : Int := (Nat.sqrt nlist : Nat)

/-- `ivfpqIndexSearch.searchSingleQuery` -/
def searchSingle (m : Metric (List S) S) (A : Arith S) (s : State S) (q : List S) (k : Int)
    (nprobes : Int) (thr : S) (filter : List Id) : Except Fail (List (Hit S)) :=
  if !s.trained then .error (.err .untrained) else
  if q.length ≠ s.dim then .error (.err .dim) else
  let np := clampProbes nprobes s.nlist
  match m.pre q with
  | none => .error (.err .zero)
  | some q' =>
    let order := (centroidHits m q' s.cents).mergeSort (hitLe m.sc.le)
    if order.length < np then .error .panic else     -- `centroidDistances[i]`, i < nprobes
    match scanProbed m A s q' thr filter (order.take np) with
    | none => .error .panic
    | some results =>
      let sorted := results.mergeSort (hitLe m.sc.le)
      .ok (sorted.take (sanitizeK k sorted.length))

/-- `lookupNodeVectors` (one id): lists in order, first match -/
def lookupNode (s : State S) (id : Id) : Except Fail (List S) :=
  PQ.lookupNode s.lists.flatten s.deleted id

def execute (m : Metric (List S) S) (A : Arith S) (s : State S) (queries : List (List S))
    (nodes : List Id) (k : Int) (nprobes : Int) (thr : S) (filter : List Id) (agg : AggKind) :
    Except Fail (List (Hit S)) :=
  executeWith m.sc (lookupNode s)
    (fun q => searchSingle m A s q k nprobes thr filter) queries nodes k agg

/-! ## Specification (what C14 means for IVFPQ)

  The stored form of a vector records the list it was assigned to; `lift` packages
  "preprocess, assign, take the residual, encode" as `pre` and the residual ADC score
  as `dist`.  The live entries are `Flat.live (lift …)`; the candidates of a search
  that probes the lists `probed` are the live entries of those lists. -/

def lift (m : Metric (List S) S) (A : Arith S) (tr : Nat → Nat) (dsub : Nat)
    (cents : List (List S)) (cbs : List (List (List S))) : Metric (Stored S) S where
  dimOf e := e.vec.length
  pre e := match m.pre e.vec with
    | none => none
    | some v' =>
      let li := assign m A cents v'
      match cents[li]? with
      | none => none      -- never with at least one centroid (`assign_lt`)
      | some c =>
        some ⟨v', li, (encodeRaw (A.ops m.sc) m.sc.lt A.inf dsub cbs (vsub (A.ops m.sc) v' c)).map tr⟩
  dist q e :=
    adcScore m.sc A
      (tables (A.ops m.sc) dsub cbs (vsub (A.ops m.sc) q.vec ((cents[e.list]?).getD []))) e.code
  sc := m.sc

/-- candidates of a search probing `probed` (in probe order) -/
def cands (mm : Metric (Stored S) S) (live : List (Id × Stored S)) (probed : List (Hit S))
    (q' : Stored S) (thr : S) (filter : List Id) : List (Hit S) :=
  probed.flatMap fun h => Flat.cands mm (live.filter (fun p => p.2.list == h.id)) q' thr filter

/-- shape of the trained coarse centroids -/
def centsWF (nlist dim : Nat) (cents : List (List S)) : Bool :=
  cents.length == nlist && cents.all fun c => c.length == dim

end IVFPQ
end Comet
