/-
  Comet.Vector.Flat — model of flat_index.go / flat_index_search.go.

  Parameters (a `Metric`): how a vector's dimension is read, the metric's
  preprocessing (`none` = ErrZeroVector), the distance, and the score scalar.
-/
import Comet.TopK
import Comet.Scalar
import Comet.Agg
namespace Comet

structure Metric (V S : Type) where
  dimOf : V → Nat
  pre   : V → Option V
  dist  : V → V → S
  sc    : Scalar S

inductive Err | dim | zero | notFound | deleted | untrained | noQuery | other
deriving Repr, DecidableEq

namespace Flat

structure State (V : Type) where
  dim : Nat
  vecs : List (Id × V)
  deleted : List Id
deriving Repr

def init (dim : Nat) : State V := ⟨dim, [], []⟩

inductive Op (V : Type)
  | add (id : Id) (v : V)
  | remove (id : Id)
  | flush
deriving Repr

/-- `flushLocked`: physically drop the soft-deleted entries. -/
def flushed (s : State V) : State V :=
  { s with vecs := s.vecs.filter (fun p => p.1 ∉ s.deleted), deleted := [] }

/-- `FlatIndex.Add` / `Remove` / `Flush`.
    `Add` of an id that is still soft-deleted purges the tombstoned entries first
    (`flushLocked`), then appends (comet commit "fix: re-adding a soft-deleted id…"). -/
def step (m : Metric V S) (s : State V) : Op V → State V × Option Err
  | .add id v =>
      if m.dimOf v ≠ s.dim then (s, some .dim) else
      match m.pre v with
      | none => (s, some .zero)
      | some v' =>
        let s1 := if id ∈ s.deleted then flushed s else s
        ({ s1 with vecs := s1.vecs ++ [(id, v')] }, none)
  | .remove id =>
      if ¬ s.vecs.any (·.1 == id) then (s, some .notFound) else
      if id ∈ s.deleted then (s, some .deleted) else
      ({ s with deleted := id :: s.deleted }, none)
  | .flush =>
      if s.deleted.isEmpty then (s, none) else (flushed s, none)

def run (m : Metric V S) (s : State V) (ops : List (Op V)) : State V :=
  ops.foldl (fun s op => (step m s op).1) s

/-- `DocumentFilter.IsEligible`; an empty id list means "no restriction". -/
def eligible (filter : List Id) (id : Id) : Bool := filter.isEmpty || filter.contains id

/-- threshold test of `searchSingleQuery`: skip iff `thr > 0 && dist > thr`. -/
def thrSkip (sc : Scalar S) (thr d : S) : Bool := sc.lt sc.zero thr && sc.lt thr d

/-- the scan loop of `searchSingleQuery` -/
def scan (m : Metric V S) (s : State V) (q' : V) (thr : S) (filter : List Id) : List (Hit S) :=
  s.vecs.filterMap fun p =>
    if p.1 ∈ s.deleted then none
    else if !eligible filter p.1 then none
    else
      let d := m.dist q' p.2
      if thrSkip m.sc thr d then none else some ⟨p.1, d⟩

/-- `flatIndexSearch.searchSingleQuery` -/
def searchSingle (m : Metric V S) (s : State V) (q : V) (k : Int) (thr : S)
    (filter : List Id) : Except Err (List (Hit S)) :=
  if m.dimOf q ≠ s.dim then .error .dim else
  let k1 : Nat := sanitizeK k s.vecs.length
  match m.pre q with
  | none => .error .zero
  | some q' =>
    let results := (scan m s q' thr filter).mergeSort (hitLe m.sc.le)
    .ok (results.take (sanitizeK (k1 : Nat) results.length))

/-- `lookupNodeVectors` -/
def lookupNode (s : State V) (id : Id) : Except Err V :=
  match s.vecs.find? (·.1 == id) with
  | none => .error .notFound
  | some p => if id ∈ s.deleted then .error .deleted else .ok p.2

/-- `flatIndexSearch.Execute` with the default cutoff (-1: autocut disabled) and no reranker. -/
def execute (m : Metric V S) (s : State V) (queries : List V) (nodes : List Id)
    (k : Int) (thr : S) (filter : List Id) (agg : AggKind) : Except Err (List (Hit S)) := do
  if queries.isEmpty && nodes.isEmpty then throw .noQuery
  let nodeQs ← nodes.mapM (lookupNode s)
  let per ← (queries ++ nodeQs).mapM fun q => searchSingle m s q k thr filter
  let all := per.flatten
  let aggregated := if all.isEmpty then all else vecAggregate m.sc agg all
  return limitResults k aggregated

/-! ## Specification (what C01 means), used by the theorems and by the driver -/

variable {V S : Type}

/-- Abstract specification state: the live `(id, preprocessed vector)` pairs in
    insertion order. -/
def specStep (m : Metric V S) (dim : Nat) (l : List (Id × V)) : Op V → List (Id × V)
  | .add id v =>
      if m.dimOf v ≠ dim then l else
      match m.pre v with
      | none => l
      | some v' => l ++ [(id, v')]
  | .remove id => l.filter (fun p => p.1 != id)
  | .flush => l

def live (m : Metric V S) (dim : Nat) (ops : List (Op V)) : List (Id × V) :=
  ops.foldl (specStep m dim) []

/-- what the model state "means": stored and not soft-deleted -/
def eff (s : State V) : List (Id × V) := s.vecs.filter (fun p => p.1 ∉ s.deleted)

def ids (s : State V) : List Id := s.vecs.map (·.1)

def addedIds : List (Op V) → List Id
  | [] => []
  | .add id _ :: t => id :: addedIds t
  | _ :: t => addedIds t

/-- the quantifier of C01: every id is the target of at most one `add`. -/
def FreshAdds (ops : List (Op V)) : Prop := (addedIds ops).Nodup

/-- candidate hits of the specification -/
def cands (m : Metric V S) (l : List (Id × V)) (q' : V) (thr : S) (filter : List Id) :
    List (Hit S) :=
  l.filterMap fun p =>
    if !eligible filter p.1 then none
    else
      let d := m.dist q' p.2
      if thrSkip m.sc thr d then none else some ⟨p.1, d⟩

end Flat
end Comet
