/-
  Comet.Vector.Pipeline — what EVERY vector index kind promises about a single-query
  answer (C02), the tail that the five `searchSingleQuery` bodies share, and the
  executable checker the driver runs on implementation answers.

  `live` is the specification's live set (id, stored vector); `scoreOK v s` says that `s`
  is the score the kind defines for the stored vector `v` (for flat / IVF / HNSW:
  `s = dist q' v`, the true metric distance; for PQ / IVFPQ the asymmetric distance,
  which C14 decides — C02 instantiates it with `True` there).
-/
import Comet.TopK
import Comet.Scalar
import Comet.Vector.Flat
namespace Comet.Pipeline

variable {V S : Type}

/-- C02's single-query contract -/
structure Sound (sc : Scalar S) (scoreOK : V → S → Bool) (live : List (Id × V))
    (filter : List Id) (thr : S) (k : Int) (res : List (Hit S)) : Prop where
  /-- refers to a live vector and carries the kind's score for it -/
  live_scored : ∀ h ∈ res, ∃ v, (h.id, v) ∈ live ∧ scoreOK v h.score = true
  /-- satisfies the document-ID restriction -/
  eligible : ∀ h ∈ res, Flat.eligible filter h.id = true
  /-- satisfies the threshold when one is given -/
  within : ∀ h ∈ res, Flat.thrSkip sc thr h.score = false
  /-- appears at most once -/
  distinct : (res.map (·.id)).Nodup
  /-- ascending score order -/
  sorted : res.Pairwise fun a b => sc.le a.score b.score = true
  /-- at most k -/
  atMostK : 0 < k → (res.length : Int) ≤ k

def nodupB [DecidableEq α] : List α → Bool
  | [] => true
  | a :: t => !t.contains a && nodupB t

theorem nodupB_iff [DecidableEq α] (l : List α) : nodupB l = true ↔ l.Nodup := by
  induction l with
  | nil => simp [nodupB]
  | cons a t ih => simp [nodupB, ih, List.nodup_cons]

/-- the executable form of `Sound` -/
def checkSound (sc : Scalar S) (scoreOK : V → S → Bool) (live : List (Id × V))
    (filter : List Id) (thr : S) (k : Int) (res : List (Hit S)) : Bool :=
  res.all (fun h => live.any fun p => p.1 == h.id && scoreOK p.2 h.score) &&
  res.all (fun h => Flat.eligible filter h.id) &&
  res.all (fun h => !Flat.thrSkip sc thr h.score) &&
  nodupB (res.map (·.id)) &&
  sortedB sc.le res &&
  (decide (k ≤ 0) || decide ((res.length : Int) ≤ k))

theorem checkSound_iff (sc : Scalar S) (scoreOK : V → S → Bool) (live : List (Id × V))
    (filter : List Id) (thr : S) (k : Int) (res : List (Hit S)) :
    checkSound sc scoreOK live filter thr k res = true ↔
      Sound sc scoreOK live filter thr k res := by
  constructor
  · intro h
    simp only [checkSound, Bool.and_eq_true, List.all_eq_true, List.any_eq_true, beq_iff_eq,
      Bool.not_eq_true', Bool.or_eq_true, decide_eq_true_eq] at h
    obtain ⟨⟨⟨⟨⟨h1, h2⟩, h3⟩, h4⟩, h5⟩, h6⟩ := h
    refine ⟨?_, h2, h3, (nodupB_iff _).1 h4, (sortedB_iff sc.le res).1 h5, ?_⟩
    · intro x hx
      obtain ⟨p, hp, he, hs⟩ := h1 x hx
      exact ⟨p.2, by rw [← he]; exact hp, hs⟩
    · intro hk
      rcases h6 with h6 | h6
      · omega
      · exact h6
  · intro h
    simp only [checkSound, Bool.and_eq_true, List.all_eq_true, List.any_eq_true, beq_iff_eq,
      Bool.not_eq_true', Bool.or_eq_true, decide_eq_true_eq]
    refine ⟨⟨⟨⟨⟨?_, h.eligible⟩, h.within⟩, (nodupB_iff _).2 h.distinct⟩,
      (sortedB_iff sc.le res).2 h.sorted⟩, ?_⟩
    · intro x hx
      obtain ⟨v, hv, hs⟩ := h.live_scored x hx
      exact ⟨(x.id, v), hv, rfl, hs⟩
    · by_cases hk : k ≤ 0
      · exact Or.inl hk
      · exact Or.inr (h.atMostK (by omega))

/-- one candidate through the three skips of the scan loops -/
def keep (sc : Scalar S) (deleted filter : List Id) (thr : S) (c : Id × V × S) : Option (Hit S) :=
  if deleted.contains c.1 then none
  else if !Flat.eligible filter c.1 then none
  else if Flat.thrSkip sc thr c.2.2 then none
  else some ⟨c.1, c.2.2⟩

/-- The tail shared by the five `searchSingleQuery` bodies: candidates (id, stored vector,
    score) → drop soft-deleted → drop ineligible → drop beyond threshold → sort ascending
    → first `kk`.  The candidate source and `kk` differ per kind. -/
def tail (sc : Scalar S) (deleted filter : List Id) (thr : S) (kk : Nat)
    (cands : List (Id × V × S)) : List (Hit S) :=
  ((cands.filterMap (keep sc deleted filter thr)).mergeSort (hitLe sc.le)).take kk

end Comet.Pipeline
