/-
  Comet.Vector.PQ — model of pq_index.go / pq_index_search.go (and the arithmetic
  shared with ivfpq_index*.go), written after the Go line by line.

  Scalars.  Everything is generic in the score type `S`:
    * `Ops S`   — the ring-like signature `0 + − ×` the distance arithmetic uses
                  (instantiated at commutative rings / ℝ in the proof files and at
                  IEEE binary32 in the driver);
    * `Arith S` — what PQ needs beyond the score scalar of a `Metric`:
                  `−`, `×`, `+Inf` (start value of the arg-min loops) and
                  `float32(math.Sqrt(float64(·)))`.
  Vectors are `List S`; a codebook `cbs : List (List (List S))` is indexed
  `[subspace m][codeword k][component i]` (Go keeps `codebooks[m]` flat:
  `codebooks[m][k*dsub:(k+1)*dsub]` is codeword `k`).

  The trained codebooks are an INPUT of `train` (an oracle standing for the
  k-means run; replicating k-means is C20's business): the driver reads them from the
  implementation through `verif` accessors.

  Quirks kept on purpose:
    * `code[m] = uint8(minIdx)`: `trunc8` (the constructor accepts `Nbits ≤ 8` only, for
      which the conversion is the identity — `code_fits` in Properties/C14.lean; the
      state type does not forbid larger `nbits`, see the remark `trunc8_loses_index`);
    * strict `<` against a running minimum that starts at `+Inf`, index starts at 0;
    * `searchSingleQuery` returns `[]` for an index without codes BEFORE the query
      is preprocessed (a zero query under cosine is then not an error);
    * only one `sanitizeK` (flat has two);
    * `Add` of a still soft-deleted id flushes first (the repair of the re-add defect);
    * index-out-of-range is an explicit `panic` outcome, never totalised away.

  Core Lean only (linked into the driver).
-/
import Comet.TopK
import Comet.Scalar
import Comet.Agg
import Comet.Vector.Flat
namespace Comet
namespace PQ

/-! ## arithmetic signature and the generic ADC definitions -/

structure Ops (S : Type) where
  zero : S
  add : S → S → S
  sub : S → S → S
  mul : S → S → S

structure Arith (S : Type) where
  sub : S → S → S
  mul : S → S → S
  /-- `float32(math.Inf(1))` -/
  inf : S
  /-- `float32(math.Sqrt(float64(x)))` -/
  sqrt : S → S

def Arith.ops (A : Arith S) (sc : Scalar S) : Ops S := ⟨sc.zero, sc.add, A.sub, A.mul⟩

/-- `var dist float32; for i := range a { diff := a[i] - c[i]; dist += diff * diff }` -/
def sqDist (o : Ops S) (a c : List S) : S :=
  (List.zipWith (fun x y => o.mul (o.sub x y) (o.sub x y)) a c).foldl o.add o.zero

/-- `v[m*dsub : m*dsub+dsub]` -/
def subvec (dsub m : Nat) (v : List S) : List S := (v.drop (m * dsub)).take dsub

/-- `residual[d] = v[d] - centroid[d]` -/
def vsub (o : Ops S) (a c : List S) : List S := List.zipWith o.sub a c

/-- The arg-min loop of `encode`, `encodeResidual`, `FindNearestCentroidIndex`:
    `if d < minDist { minDist = d; minIdx = k }` for `k = 0, 1, …`. -/
def argminLoop (lt : S → S → Bool) : List S → Nat → S → Nat → Nat
  | [], _, _, bi => bi
  | d :: ds, k, best, bi =>
      if lt d best then argminLoop lt ds (k + 1) d k else argminLoop lt ds (k + 1) best bi

/-- `minDist := +Inf; minIdx := 0; loop` -/
def argmin (lt : S → S → Bool) (inf : S) (ds : List S) : Nat := argminLoop lt ds 0 inf 0

/-- Distance tables, subspaces `m, m+1, …`: `table[m][k] = ‖q_m − codeword_{m,k}‖²`.
    (`encode` computes the same distances inside its arg-min loop.) -/
def tablesFrom (o : Ops S) (dsub : Nat) (q : List S) : Nat → List (List (List S)) → List (List S)
  | _, [] => []
  | m, cb :: rest => cb.map (sqDist o (subvec dsub m q)) :: tablesFrom o dsub q (m + 1) rest

def tables (o : Ops S) (dsub : Nat) (cbs : List (List (List S))) (q : List S) : List (List S) :=
  tablesFrom o dsub q 0 cbs

/-- the arg-min index of every subspace, BEFORE the `uint8` conversion -/
def encodeRaw (o : Ops S) (lt : S → S → Bool) (inf : S) (dsub : Nat)
    (cbs : List (List (List S))) (v : List S) : List Nat :=
  (tables o dsub cbs v).map (argmin lt inf)

/-- `uint8(minIdx)` -/
def trunc8 (i : Nat) : Nat := i % 256

/-- `PQIndex.encode` / `IVFPQIndex.encodeResidual` -/
def encode (o : Ops S) (lt : S → S → Bool) (inf : S) (dsub : Nat)
    (cbs : List (List (List S))) (v : List S) : List Nat :=
  (encodeRaw o lt inf dsub cbs v).map trunc8

/-- `dist := acc; for m := 0; m < M; m++ { dist += distTables[m][code[m]] }`;
    `none` = index out of range (Go panics). -/
def adcSumFrom (o : Ops S) : S → List (List S) → List Nat → Option S
  | acc, [], _ => some acc
  | _, _ :: _, [] => none
  | acc, t :: ts, c :: cs =>
      match t[c]? with
      | none => none
      | some d => adcSumFrom o (o.add acc d) ts cs

def adcSum (o : Ops S) (ts : List (List S)) (code : List Nat) : Option S :=
  adcSumFrom o o.zero ts code

/-- The reconstruction of a code: the chosen codewords, concatenated. -/
def recon : List (List (List S)) → List Nat → Option (List S)
  | [], _ => some []
  | _ :: _, [] => none
  | cb :: rest, c :: cs =>
      match cb[c]?, recon rest cs with
      | some w, some r => some (w ++ r)
      | _, _ => none

/-- Shape of trained codebooks: `M` subspaces × `Ksub` codewords × `dsub` components
    (what `Train` allocates: `make([]float32, Ksub*dsub)` per subspace). -/
def cbWF (M ksub dsub : Nat) (cbs : List (List (List S))) : Bool :=
  cbs.length == M && cbs.all fun cb => cb.length == ksub && cb.all fun w => w.length == dsub

/-! ## the index -/

/-- What the index keeps per vector: the preprocessed vector (inside the
    `VectorNode`), for IVFPQ the inverted list it was put in, and the code. -/
structure Stored (S : Type) where
  vec : List S
  list : Nat
  code : List Nat
deriving Repr, DecidableEq

inductive Out | ok | err (e : Err) | panic
deriving Repr, DecidableEq

inductive Fail | err (e : Err) | panic
deriving Repr, DecidableEq

structure State (S : Type) where
  dim : Nat
  M : Nat
  nbits : Nat
  trained : Bool
  cbs : List (List (List S))
  /-- the parallel slices `vectorNodes` / `codes` -/
  entries : List (Id × Stored S)
  deleted : List Id

def State.ksub (s : State S) : Nat := 2 ^ s.nbits
def State.dsub (s : State S) : Nat := s.dim / s.M

/-- `NewPQIndex` parameter validation (Go `int`s): `Nbits <= 0 || Nbits > 8` is rejected. -/
def newOk (dim M nbits : Int) : Bool :=
  decide (0 < dim) && decide (0 < M) && decide (dim % M = 0) && decide (0 < nbits) && decide (nbits ≤ 8)

def init (dim M nbits : Nat) : State S := ⟨dim, M, nbits, false, [], [], []⟩

/-- `PQIndex.Train` on `n` vectors (`dimsOK`: all of dimension `dim`); `cbs` is what
    k-means produced.  `n ≥ Ksub` makes `KMeansSubspace` return exactly `Ksub`
    centroids, so the copy loop `centroids[k]`, `k < Ksub`, is in range. -/
def train (s : State S) (n : Nat) (dimsOK : Bool) (cbs : List (List (List S))) : State S × Out :=
  if n < s.ksub then (s, .err .other) else
  if !dimsOK then (s, .err .dim) else
  ({ s with cbs := cbs, trained := true }, .ok)

/-- `PQIndex.flushLocked`: drop the soft-deleted entries from both parallel slices -/
def flushLocked (s : State S) : State S :=
  if s.deleted.isEmpty then s else
  { s with entries := s.entries.filter (fun p => p.1 ∉ s.deleted), deleted := [] }

/-- `PQIndex.Add` / `Remove` / `Flush`.  `Add` of an id that is still soft-deleted
    first purges all tombstoned entries (`flushLocked`). -/
def step (m : Metric (List S) S) (A : Arith S) (s : State S) : Flat.Op (List S) → State S × Out
  | .add id v =>
      if !s.trained then (s, .err .untrained) else
      if v.length ≠ s.dim then (s, .err .dim) else
      match m.pre v with
      | none => (s, .err .zero)
      | some v' =>
        let s1 := if id ∈ s.deleted then flushLocked s else s
        let code := encode (A.ops m.sc) m.sc.lt A.inf s1.dsub s1.cbs v'
        ({ s1 with entries := s1.entries ++ [(id, ⟨v', 0, code⟩)] }, .ok)
  | .remove id =>
      if ¬ s.entries.any (·.1 == id) then (s, .err .notFound) else
      if id ∈ s.deleted then (s, .err .deleted) else
      ({ s with deleted := id :: s.deleted }, .ok)
  | .flush => (flushLocked s, .ok)

def run (m : Metric (List S) S) (A : Arith S) (s : State S) (ops : List (Flat.Op (List S))) :
    State S :=
  ops.foldl (fun s op => (step m A s op).1) s

/-- The scan loop shared by PQ and IVFPQ (`tabs` are the distance tables of the
    (residual) query): skip deleted, skip filtered-out, ADC sum, `sqrt`, threshold.
    `none` = a table lookup was out of range (Go panics). -/
def scan (sc : Scalar S) (A : Arith S) (tabs : List (List S)) (deleted : List Id)
    (thr : S) (filter : List Id) : List (Id × Stored S) → Option (List (Hit S))
  | [] => some []
  | p :: ps =>
      if p.1 ∈ deleted then scan sc A tabs deleted thr filter ps
      else if !Flat.eligible filter p.1 then scan sc A tabs deleted thr filter ps
      else
        match adcSum (A.ops sc) tabs p.2.code with
        | none => none
        | some d =>
          let fd := A.sqrt d
          if Flat.thrSkip sc thr fd then scan sc A tabs deleted thr filter ps
          else (scan sc A tabs deleted thr filter ps).map (⟨p.1, fd⟩ :: ·)

/-- `pqIndexSearch.searchSingleQuery` -/
def searchSingle (m : Metric (List S) S) (A : Arith S) (s : State S) (q : List S) (k : Int)
    (thr : S) (filter : List Id) : Except Fail (List (Hit S)) :=
  if !s.trained then .error (.err .untrained) else
  if q.length ≠ s.dim then .error (.err .dim) else
  if s.entries.isEmpty then .ok [] else
  match m.pre q with
  | none => .error (.err .zero)
  | some q' =>
    let tabs := tables (A.ops m.sc) s.dsub s.cbs q'
    match scan m.sc A tabs s.deleted thr filter s.entries with
    | none => .error .panic
    | some results =>
      let sorted := results.mergeSort (hitLe m.sc.le)
      .ok (sorted.take (sanitizeK k sorted.length))

/-- `lookupNodeVectors` (one id) -/
def lookupNode (entries : List (Id × Stored S)) (deleted : List Id) (id : Id) :
    Except Fail (List S) :=
  match entries.find? (·.1 == id) with
  | none => .error (.err .notFound)
  | some p => if id ∈ deleted then .error (.err .deleted) else .ok p.2.vec

/-- The body shared by `pqIndexSearch.Execute` and `ivfpqIndexSearch.Execute`
    (default cutoff −1: autocut disabled; no reranker). -/
def executeWith (sc : Scalar S) (lookup : Id → Except Fail (List S))
    (search1 : List S → Except Fail (List (Hit S)))
    (queries : List (List S)) (nodes : List Id) (k : Int) (agg : AggKind) :
    Except Fail (List (Hit S)) := do
  if queries.isEmpty && nodes.isEmpty then throw (.err .noQuery)
  let nodeQs ← nodes.mapM lookup
  let per ← (queries ++ nodeQs).mapM search1
  let all := per.flatten
  let aggregated := if all.isEmpty then all else vecAggregate sc agg all
  return limitResults k aggregated

def execute (m : Metric (List S) S) (A : Arith S) (s : State S) (queries : List (List S))
    (nodes : List Id) (k : Int) (thr : S) (filter : List Id) (agg : AggKind) :
    Except Fail (List (Hit S)) :=
  executeWith m.sc (lookupNode s.entries s.deleted)
    (fun q => searchSingle m A s q k thr filter) queries nodes k agg

/-! ## Specification (what C14 means for PQ), used by the theorems and by the driver

  PQ is a flat index over the *stored form* of a vector: `lift` packages
  "preprocess, then encode" as the `pre` of a `Metric (Stored S) S` and the ADC
  score as its `dist`, so that `Flat.live` / `Flat.cands` of C01 are the
  specification here too.  `tr` is the conversion applied to every arg-min index:
  `trunc8` for what the code does, `id` for what the property text asks. -/

/-- query / input vectors enter the lifted metric through this embedding -/
def inject (v : List S) : Stored S := ⟨v, 0, []⟩

def liftOp : Flat.Op (List S) → Flat.Op (Stored S)
  | .add id v => .add id (inject v)
  | .remove id => .remove id
  | .flush => .flush

/-- `√(Σ_m table[m][code[m]])`; the `getD` is never exercised on entries produced by
    `encode` against well-formed codebooks (`adcSum_encode_isSome`). -/
def adcScore (sc : Scalar S) (A : Arith S) (tabs : List (List S)) (code : List Nat) : S :=
  A.sqrt ((adcSum (A.ops sc) tabs code).getD sc.zero)

def lift (m : Metric (List S) S) (A : Arith S) (tr : Nat → Nat) (dsub : Nat)
    (cbs : List (List (List S))) : Metric (Stored S) S where
  dimOf e := e.vec.length
  pre e := match m.pre e.vec with
    | none => none
    | some v' => some ⟨v', 0, (encodeRaw (A.ops m.sc) m.sc.lt A.inf dsub cbs v').map tr⟩
  dist q e := adcScore m.sc A (tables (A.ops m.sc) dsub cbs q.vec) e.code
  sc := m.sc

end PQ
end Comet
