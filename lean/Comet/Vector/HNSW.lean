/-
  Comet.Vector.HNSW — model of hnsw_index.go / hnsw_index_search.go, written after
  the Go line by line (quirks kept; see the comments marked QUIRK).

  * Go `map[uint32]*hnswNode` and the roaring bitmap `deletedNodes` are finite maps
    keyed by id (`IdMap`: an array indexed by id, absent = `none`).
  * `rand` (the level drawn by `randomLevel`) is an INPUT of `add`.
  * Go map iteration order makes the entry re-election of `Flush` free among the
    allowed vertices: `flushChoices` is the set of allowed picks, `flushTo` applies
    one of them.
  * nil-map lookups / index-out-of-range are explicit faults (`Fault.panic`); loops
    whose termination is not structural carry fuel (`Fault.fuel` when it runs out;
    the fuel lemmas are in CometProofs).
  * `container/heap` and `sort.Slice` are deterministic but their behaviour on equal
    distances is not modelled (the heaps are sorted lists, the sorts are stable
    insertion sorts); the correspondence run compares graphs only where no two
    compared distances are equal.
  * `searchLayer` is the code since fix f6a780e (soft-deleted vertices are walked
    through, never reported; ef clamped to ≥ 1); `searchLayerOld` is the code before it.
  * `registerFirst` is the statement order inside `HNSWIndex.Add`:
      true  = `idx.nodes[id] = node` BEFORE `idx.insertNode(node)`  (the code since fix fb5d06f)
      false = the order before that fix (kept for the theorem about the old defect).
    The driver and the theorems about the current code use the constant
    `HNSW.registerFirst` below — switching the modelled order is that one line.

  Core Lean only (linked into the driver).  Structural recursion / fuel only, so that
  `decide` can evaluate closed instances.
-/
import Comet.TopK
import Comet.Scalar
import Comet.Agg
import Comet.Vector.Flat
namespace Comet.HNSW

/-- THE statement order of `HNSWIndex.Add` that is modelled (see file header). -/
def registerFirst : Bool := true

/-! ## finite maps keyed by id -/

structure IdMap (α : Type) where
  arr : Array (Option α)

namespace IdMap
variable {α : Type}

def empty : IdMap α := ⟨#[]⟩
def get? (m : IdMap α) (i : Id) : Option α := m.arr.getD i none
def contains (m : IdMap α) (i : Id) : Bool := (m.get? i).isSome
def set (m : IdMap α) (i : Id) (a : α) : IdMap α :=
  if i < m.arr.size then ⟨m.arr.setIfInBounds i (some a)⟩
  else ⟨(m.arr ++ Array.replicate (i - m.arr.size) none).push (some a)⟩
def erase (m : IdMap α) (i : Id) : IdMap α := ⟨m.arr.setIfInBounds i none⟩
/-- ascending ids -/
def keys (m : IdMap α) : List Id := (List.range m.arr.size).filter m.contains
def count (m : IdMap α) : Nat := m.keys.length
/-- an upper bound of the number of keys that is cheap to compute (fuel) -/
def bound (m : IdMap α) : Nat := m.arr.size
end IdMap

/-! ## state -/

/-- `hnswNode`: `edges[lc]` for `lc = 0 .. level`. -/
structure Node (V : Type) where
  vec : V
  level : Nat
  edges : List (List Id)

/-- `newHnswNode` -/
def Node.new {V : Type} (v : V) (level : Nat) : Node V := ⟨v, level, List.replicate (level + 1) []⟩

def Node.setEdges {V : Type} (n : Node V) (lc : Nat) (l : List Id) : Node V :=
  { n with edges := n.edges.set lc l }

structure State (V : Type) where
  dim : Nat
  M : Nat
  efC : Nat
  efS : Nat
  maxLevel : Int          -- −1 for the empty graph
  entry : Id
  nodes : IdMap (Node V)
  deleted : IdMap Unit
  nextID : Nat := 0       -- the id handed to the next vector whose own id is 0

/-- `NewHNSWIndex` (defaults already applied by the caller) -/
def init {V : Type} (dim M efC efS : Nat) : State V :=
  { dim, M, efC, efS, maxLevel := -1, entry := 0, nodes := .empty, deleted := .empty, nextID := 0 }

inductive Fault
  | panic   -- nil map entry dereferenced / index out of range
  | fuel    -- a fuelled loop ran out of fuel (excluded by the fuel lemmas)
  | autoId  -- a vector whose own id is 0 would be stored under another key (see `addWith`): not modelled
deriving Repr, DecidableEq

section
variable {V S : Type} (m : Metric V S)

def isDeleted (s : State V) (i : Id) : Bool := s.deleted.contains i

/-- `idx.nodes[i]` followed by a dereference -/
def node! (s : State V) (i : Id) : Except Fault (Node V) :=
  match s.nodes.get? i with
  | some n => .ok n
  | none => .error .panic

/-! ## the two heaps, as sorted lists -/

/-- min-heap `candidates`: ascending; a new element goes behind equal ones -/
def insAsc (lt : S → S → Bool) (c : Hit S) : List (Hit S) → List (Hit S)
  | [] => [c]
  | a :: as => if lt c.score a.score then c :: a :: as else a :: insAsc lt c as

/-- max-heap `result`: descending (head = `(*result)[0]`, the worst) -/
def insDesc (lt : S → S → Bool) (c : Hit S) : List (Hit S) → List (Hit S)
  | [] => [c]
  | a :: as => if lt a.score c.score then c :: a :: as else a :: insDesc lt c as

/-- stable insertion sort, ascending (`sort.Slice(… distance < …)` up to ties) -/
def insStable (lt : S → S → Bool) (c : Hit S) : List (Hit S) → List (Hit S)
  | [] => [c]
  | a :: as => if lt a.score c.score then a :: insStable lt c as else c :: a :: as

def sortAsc (lt : S → S → Bool) (l : List (Hit S)) : List (Hit S) :=
  l.foldr (insStable lt) []

/-! ## searchLayer -/

/-- `result.Len() < ef || d < (*result)[0].distance` (short-circuit; `[0]` of an
    empty heap is an index panic) -/
def admits (lt : S → S → Bool) (ef : Nat) (rs : List (Hit S)) (d : S) : Except Fault Bool :=
  if rs.length < ef then .ok true else
  match rs with
  | [] => .error .panic
  | w :: _ => .ok (lt d w.score)

/-- the `for _, neighborID := range node.Edges[layer]` loop of `searchLayer`
    (since fix f6a780e: a soft-deleted neighbour is walked through — pushed to
    `candidates` — but never reported — not pushed to `result`) -/
def scanNbrs (s : State V) (q : V) (ef : Nat) :
    List Id → List (Hit S) × List (Hit S) × IdMap Unit →
    Except Fault (List (Hit S) × List (Hit S) × IdMap Unit)
  | [], st => .ok st
  | nb :: rest, (cs, rs, vis) =>
    if vis.contains nb then scanNbrs s q ef rest (cs, rs, vis)
    else
      let vis := vis.set nb ()
      match node! s nb with
      | .error e => .error e
      | .ok n =>
        let d := m.dist q n.vec
        match admits m.sc.lt ef rs d with
        | .error e => .error e
        | .ok false => scanNbrs s q ef rest (cs, rs, vis)
        | .ok true =>
          let cs := insAsc m.sc.lt ⟨nb, d⟩ cs
          if isDeleted s nb then scanNbrs s q ef rest (cs, rs, vis)
          else
            let rs := insDesc m.sc.lt ⟨nb, d⟩ rs
            let rs := if rs.length > ef then rs.tail else rs     -- heap.Pop(result)
            scanNbrs s q ef rest (cs, rs, vis)

/-- `result.Len() >= ef && current.distance > (*result)[0].distance` -/
def stops (lt : S → S → Bool) (ef : Nat) (rs : List (Hit S)) (d : S) : Except Fault Bool :=
  if rs.length ≥ ef then
    match rs with
    | [] => .error .panic
    | w :: _ => .ok (lt w.score d)
  else .ok false

/-- the main loop `for candidates.Len() > 0` -/
def searchLoop (s : State V) (q : V) (ef layer : Nat) :
    Nat → List (Hit S) → List (Hit S) → IdMap Unit → Except Fault (List (Hit S))
  | _, [], rs, _ => .ok rs
  | 0, _ :: _, _, _ => .error .fuel
  | fuel + 1, c :: cs, rs, vis =>
    match stops m.sc.lt ef rs c.score with
    | .error e => .error e
    | .ok true => .ok rs
    | .ok false =>
      match node! s c.id with
      | .error e => .error e
      | .ok n =>
        match n.edges[layer]? with
        | none => searchLoop s q ef layer fuel cs rs vis      -- `layer < len(node.Edges)` false
        | some nbs =>
          match scanNbrs m s q ef nbs (cs, rs, vis) with
          | .error e => .error e
          | .ok (cs', rs', vis') => searchLoop s q ef layer fuel cs' rs' vis'

/-- `HNSWIndex.searchLayer`: ascending by distance.  `ef` is clamped to at least 1; the
    start vertex is always put on the candidate heap, on the result heap only when it is
    not soft-deleted (fix f6a780e). -/
def searchLayer (s : State V) (q : V) (ep : Id) (ef layer : Nat) : Except Fault (List (Hit S)) :=
  let ef := Nat.max ef 1
  match node! s ep with
  | .error e => .error e
  | .ok n =>
    let d := m.dist q n.vec
    let rs : List (Hit S) := if isDeleted s ep then [] else [⟨ep, d⟩]
    let vis : IdMap Unit := (IdMap.empty).set ep ()
    match searchLoop m s q ef layer (s.nodes.bound + 1) [⟨ep, d⟩] rs vis with
    | .error e => .error e
    | .ok rs => .ok rs.reverse

/-! ### model variant: searchLayer BEFORE fix f6a780e (defect D2), kept only for the
    theorem that says why it was a defect: soft-deleted vertices were neither seeded nor
    traversed -/

def scanNbrsOld (s : State V) (q : V) (ef : Nat) :
    List Id → List (Hit S) × List (Hit S) × IdMap Unit →
    Except Fault (List (Hit S) × List (Hit S) × IdMap Unit)
  | [], st => .ok st
  | nb :: rest, (cs, rs, vis) =>
    if isDeleted s nb then scanNbrsOld s q ef rest (cs, rs, vis)
    else if vis.contains nb then scanNbrsOld s q ef rest (cs, rs, vis)
    else
      let vis := vis.set nb ()
      match node! s nb with
      | .error e => .error e
      | .ok n =>
        let d := m.dist q n.vec
        match admits m.sc.lt ef rs d with
        | .error e => .error e
        | .ok false => scanNbrsOld s q ef rest (cs, rs, vis)
        | .ok true =>
          let cs := insAsc m.sc.lt ⟨nb, d⟩ cs
          let rs := insDesc m.sc.lt ⟨nb, d⟩ rs
          let rs := if rs.length > ef then rs.tail else rs
          scanNbrsOld s q ef rest (cs, rs, vis)

def searchLoopOld (s : State V) (q : V) (ef layer : Nat) :
    Nat → List (Hit S) → List (Hit S) → IdMap Unit → Except Fault (List (Hit S))
  | _, [], rs, _ => .ok rs
  | 0, _ :: _, _, _ => .error .fuel
  | fuel + 1, c :: cs, rs, vis =>
    match stops m.sc.lt ef rs c.score with
    | .error e => .error e
    | .ok true => .ok rs
    | .ok false =>
      match node! s c.id with
      | .error e => .error e
      | .ok n =>
        match n.edges[layer]? with
        | none => searchLoopOld s q ef layer fuel cs rs vis
        | some nbs =>
          match scanNbrsOld m s q ef nbs (cs, rs, vis) with
          | .error e => .error e
          | .ok (cs', rs', vis') => searchLoopOld s q ef layer fuel cs' rs' vis'

def searchLayerOld (s : State V) (q : V) (ep : Id) (ef layer : Nat) : Except Fault (List (Hit S)) :=
  let vis : IdMap Unit := (IdMap.empty).set ep ()
  if isDeleted s ep then .ok [] else
  match node! s ep with
  | .error e => .error e
  | .ok n =>
    let d := m.dist q n.vec
    match searchLoopOld m s q ef layer (s.nodes.bound + 1) [⟨ep, d⟩] [⟨ep, d⟩] vis with
    | .error e => .error e
    | .ok rs => .ok rs.reverse

/-! ## greedy descent through the upper layers (same code in insertNode and search) -/

/-- one `for _, neighborID := range currNode.Edges[lc]` pass; `currNode` is fixed for
    the pass while `curr` moves -/
def greedyPass (s : State V) (q : V) :
    List Id → Id × S × Bool → Except Fault (Id × S × Bool)
  | [], acc => .ok acc
  | nb :: rest, (curr, cd, ch) =>
    if isDeleted s nb then greedyPass s q rest (curr, cd, ch) else
    match node! s nb with
    | .error e => .error e
    | .ok n =>
      let d := m.dist q n.vec
      if m.sc.lt d cd then greedyPass s q rest (nb, d, true)
      else greedyPass s q rest (curr, cd, ch)

/-- `for changed { … }` on one layer -/
def greedyLayer (s : State V) (q : V) (lc : Nat) : Nat → Id × S → Except Fault (Id × S)
  | 0, _ => .error .fuel
  | fuel + 1, (curr, cd) =>
    match node! s curr with
    | .error e => .error e
    | .ok n =>
      match n.edges[lc]? with
      | none => .ok (curr, cd)
      | some nbs =>
        match greedyPass m s q nbs (curr, cd, false) with
        | .error e => .error e
        | .ok (c', d', true) => greedyLayer s q lc fuel (c', d')
        | .ok (c', d', false) => .ok (c', d')

/-- the layers `hi, hi-1, …, lo+1` (`for lc := hi; lc > lo; lc--`) -/
def layersDown (hi lo : Nat) : List Nat := (List.range (hi - lo)).map fun i => hi - i

def greedyDescend (s : State V) (q : V) : List Nat → Id × S → Except Fault (Id × S)
  | [], acc => .ok acc
  | lc :: rest, acc =>
    match greedyLayer m s q lc (s.nodes.bound + 1) acc with
    | .error e => .error e
    | .ok acc' => greedyDescend s q rest acc'

/-! ## selectNeighbors / pruneConnections / insertNode -/

/-- `selectNeighbors`: the `M` nearest (all of them, in the given order, when there
    are at most `M`). -/
def selectNeighbors (lt : S → S → Bool) (cands : List (Hit S)) (M : Nat) : List Id :=
  if cands.length ≤ M then cands.map (·.id)
  else ((sortAsc lt cands).take M).map (·.id)

/-- `pruneConnections(nodeID, layer, M)`.
    QUIRK: ids that are not (yet) in `idx.nodes` are silently dropped. -/
def prune (s : State V) (i : Id) (lc M : Nat) : Except Fault (State V) :=
  match node! s i with
  | .error e => .error e
  | .ok n =>
    match n.edges[lc]? with
    | none => .error .panic
    | some el =>
      let candList : List (Hit S) := el.filterMap fun nid =>
        match s.nodes.get? nid with
        | none => none
        | some o => some ⟨nid, m.dist n.vec o.vec⟩
      let keep := ((sortAsc m.sc.lt candList).take M).map (·.id)
      .ok { s with nodes := s.nodes.set i (n.setEdges lc keep) }

/-- the body of `for _, neighborID := range neighbors` in `insertNode`.
    `x` is the id of the node being inserted, `nx` its current value (Go mutates it
    through the pointer `node`; with `rf` the same object is also `idx.nodes[x]`, so
    the model writes it through). -/
def linkOne (rf : Bool) (s : State V) (x : Id) (nx : Node V) (lc M' : Nat) (nb : Id) :
    Except Fault (State V × Node V) :=
  match nx.edges[lc]? with
  | none => .error .panic
  | some ex =>
    let nx := nx.setEdges lc (ex ++ [nb])
    let s := if rf then { s with nodes := s.nodes.set x nx } else s
    match node! s nb with
    | .error e => .error e
    | .ok nbNode =>
      if lc ≤ nbNode.level then
        match nbNode.edges[lc]? with
        | none => .error .panic
        | some enb =>
          let enb' := enb ++ [x]
          let s := { s with nodes := s.nodes.set nb (nbNode.setEdges lc enb') }
          if enb'.length > M' then
            match prune m s nb lc M' with
            | .error e => .error e
            | .ok s' =>
              -- with `rf`, pruning `nb = x` (self link after a re-add) changes x's own node
              let nx := if rf then (match s'.nodes.get? x with | some n => n | none => nx) else nx
              .ok (s', nx)
          else
            let nx := if rf then (match s.nodes.get? x with | some n => n | none => nx) else nx
            .ok (s, nx)
      else .ok (s, nx)

def linkAll (rf : Bool) (x : Id) (lc M' : Nat) :
    List Id → State V × Node V → Except Fault (State V × Node V)
  | [], acc => .ok acc
  | nb :: rest, (s, nx) =>
    match linkOne m rf s x nx lc M' nb with
    | .error e => .error e
    | .ok acc' => linkAll rf x lc M' rest acc'

/-- `for lc := node.Level; lc >= 0; lc--` of `insertNode`; `layers = [level, …, 0]` -/
def insertLayers (rf : Bool) (x : Id) (q : V) :
    List Nat → State V × Node V × Id → Except Fault (State V × Node V)
  | [], (s, nx, _) => .ok (s, nx)
  | lc :: rest, (s, nx, curr) =>
    match searchLayer m s q curr s.efC lc with
    | .error e => .error e
    | .ok cands =>
      let M' := if lc == 0 then s.M * 2 else s.M
      let nbrs := selectNeighbors m.sc.lt cands M'
      match linkAll m rf x lc M' nbrs (s, nx) with
      | .error e => .error e
      | .ok (s', nx') =>
        let curr' := match cands with | c :: _ => c.id | [] => curr
        insertLayers rf x q rest (s', nx', curr')

/-- `HNSWIndex.insertNode` -/
def insertNode (rf : Bool) (s : State V) (x : Id) (nx : Node V) :
    Except Fault (State V × Node V) :=
  match node! s s.entry with
  | .error e => .error e
  | .ok en =>
    let cd := m.dist nx.vec en.vec
    match greedyDescend m s nx.vec (layersDown s.maxLevel.toNat nx.level) (s.entry, cd) with
    | .error e => .error e
    | .ok (curr, _) =>
      insertLayers m rf x nx.vec ((List.range (nx.level + 1)).reverse) (s, nx, curr)

/-! ## Add / Remove / Flush -/

def liveIds (s : State V) : List Id := s.nodes.keys.filter fun i => !isDeleted s i

def levelOf (s : State V) (i : Id) : Nat := match s.nodes.get? i with | some n => n.level | none => 0

/-- maximum of a list of naturals (0 for the empty list) -/
def maxNat : List Nat → Nat
  | [] => 0
  | a :: as => Nat.max a (maxNat as)

/-- The vertices `Flush` may elect as entry point (Go map iteration order is free):
    the current one when it is not soft-deleted; otherwise any live vertex on
    `maxLevel`; when there is none, any live vertex of the highest live level
    (strict `>` keeps the first one met on that level); `0` when nothing is live. -/
def flushChoices (s : State V) : List Id :=
  if !isDeleted s s.entry then [s.entry] else
  let live := liveIds s
  let top := live.filter fun i => (levelOf s i : Int) == s.maxLevel
  if !top.isEmpty then top else
  if live.isEmpty then [0] else
  let mx := maxNat (live.map (levelOf s))
  live.filter fun i => levelOf s i == mx

/-- `flushLocked` once the entry pick `e ∈ flushChoices s` is fixed. -/
def flushTo (s : State V) (e : Id) : State V :=
  if s.deleted.count == 0 then s else
  -- phase 1 + 3: drop edges to deleted targets in live nodes, drop deleted nodes
  let nodes := s.nodes.keys.foldl (fun (acc : IdMap (Node V)) i =>
      if isDeleted s i then acc.erase i else
      match acc.get? i with
      | none => acc
      | some n => acc.set i { n with edges := n.edges.map fun l => l.filter fun t => !isDeleted s t })
    s.nodes
  -- phase 2
  let maxLevel : Int :=
    if !isDeleted s s.entry then s.maxLevel else
    let live := liveIds s
    if live.any (fun i => (levelOf s i : Int) == s.maxLevel) then s.maxLevel
    else if live.isEmpty then -1 else (maxNat (live.map (levelOf s)) : Nat)
  { s with nodes := nodes, deleted := .empty, entry := e, maxLevel := maxLevel }

/-- does this `Add` run `flushLocked` first?  (`id` still soft-deleted: fix e29df80; the
    entry point soft-deleted: fix f98dc7f).  At most one of the two flushes does anything:
    after the first one no tombstone is left. -/
def addFlushes (s : State V) (id : Id) : Bool :=
  (id != 0 && s.deleted.contains id) || s.deleted.contains s.entry

/-- the part of `HNSWIndex.Add` after the tombstone purges: maxLevel update, the first
    vertex of an empty index, registration and `insertNode` (`v'` = preprocessed vector) -/
def addLinked (rf : Bool) (s : State V) (id : Id) (v' : V) (level : Nat) : Except Fault (State V) :=
  let s := if (level : Int) > s.maxLevel then { s with maxLevel := level } else s
  let nx := Node.new v' level
  if s.entry == 0 && s.nodes.count == 0 then
    .ok { s with entry := id, nodes := s.nodes.set id nx }
  else
    let s1 := if rf then { s with nodes := s.nodes.set id nx } else s
    match insertNode m rf s1 id nx with
    | .error e => .error e
    | .ok (s2, nx') =>
      .ok (if rf then s2 else { s2 with nodes := s2.nodes.set id nx' })

/-- `HNSWIndex.Add` for a vector with the given own id (0 included, see the QUIRK below) and
    the level that `randomLevel` drew.  `pick` is only used when `addFlushes s id`: it is the entry
    point that this internal flush elects (`pick ∈ flushChoices s`). -/
def addWith (rf : Bool) (s : State V) (id : Id) (v : V) (level : Nat) (pick : Id) :
    Except Fault (State V × Option Err) :=
  if m.dimOf v ≠ s.dim then .ok (s, some .dim) else
  match m.pre v with
  | none => .ok (s, some .zero)
  | some v' =>
    -- fix e29df80: re-adding an id that is still soft-deleted purges the tombstones first
    let s := if id != 0 && s.deleted.contains id then flushTo s pick else s
    -- fix f98dc7f: a soft-deleted entry point cannot anchor new links: flush first
    let s := if s.deleted.contains s.entry then flushTo s pick else s
    -- `if id == 0 { id = idx.nextID; idx.nextID++ }`.  QUIRK: id 0 is both a legal vertex id and
    -- "assign me an id"; the stored node keeps its OWN id 0 (`node.ID()`, which is what the
    -- neighbours' lists, Flush and the entry election use) whatever key it is stored under.
    -- Key and own id agree exactly for the FIRST vector with id 0 (nextID = 0): that is modelled
    -- (from then on 0 is an ordinary id).  A later vector with own id 0 would be stored under the
    -- key nextID > 0 while its edges say 0 — outside the modelled fragment (`Fault.autoId`).
    -- (`nextID` is written back after the linking: nothing in between reads or writes it.)
    let key : Id := if id == 0 then s.nextID else id
    if key != id then .error .autoId else
    match addLinked m rf s id v' level with
    | .error e => .error e
    | .ok s' => .ok ({ s' with nextID := if id == 0 then s.nextID + 1 else s.nextID }, none)

/-- the modelled code -/
def add (s : State V) (id : Id) (v : V) (level : Nat) (pick : Id := s.entry) :
    Except Fault (State V × Option Err) :=
  addWith m registerFirst s id v level pick

/-- `HNSWIndex.Remove` -/
def remove (s : State V) (id : Id) : State V × Option Err :=
  if !s.nodes.contains id then (s, some .notFound)
  else if s.deleted.contains id then (s, some .deleted)
  else ({ s with deleted := s.deleted.set id () }, none)

/-! ## search -/

/-- `searchSingleQuery` up to (excluding) the final sort: the candidates that survive
    the id restriction and the threshold, in `searchLayer` order.
    `efOverride ≤ 0` means "use the index default". -/
def searchCands (s : State V) (q : V) (thr : S) (filter : List Id) (efOverride : Int) :
    Except Fault (Except Err (List (Hit S))) :=
  if m.dimOf q ≠ s.dim then .ok (.error .dim) else
  if s.nodes.count == 0 || s.maxLevel == -1 then .ok (.ok []) else
  match m.pre q with
  | none => .ok (.error .zero)
  | some q' =>
    match node! s s.entry with
    | .error e => .error e
    | .ok en =>
      let cd := m.dist q' en.vec
      match greedyDescend m s q' (layersDown s.maxLevel.toNat 0) (s.entry, cd) with
      | .error e => .error e
      | .ok (curr, _) =>
        let ef : Nat := if efOverride ≤ 0 then s.efS else efOverride.toNat
        match searchLayer m s q' curr ef 0 with
        | .error e => .error e
        | .ok cands =>
          .ok (.ok (cands.filter fun c =>
            Flat.eligible filter c.id && !Flat.thrSkip m.sc thr c.score))

/-- `searchSingleQuery` -/
def searchSingle (s : State V) (q : V) (k : Int) (thr : S) (filter : List Id) (efOverride : Int) :
    Except Fault (Except Err (List (Hit S))) :=
  match searchCands m s q thr filter efOverride with
  | .error e => .error e
  | .ok (.error e) => .ok (.error e)
  | .ok (.ok results) =>
    let sorted := sortAsc m.sc.lt results
    .ok (.ok (sorted.take (sanitizeK k sorted.length)))

/-- `Execute` for one direct query, default cutoff, no reranker. -/
def execute (s : State V) (q : V) (k : Int) (thr : S) (filter : List Id) (efOverride : Int)
    (agg : AggKind) : Except Fault (Except Err (List (Hit S))) :=
  match searchSingle m s q k thr filter efOverride with
  | .error e => .error e
  | .ok (.error e) => .ok (.error e)
  | .ok (.ok all) =>
    let aggregated := if all.isEmpty then all else vecAggregate m.sc agg all
    .ok (.ok (limitResults k aggregated))

end

/-! ## verified reachability checker (used by the driver on the EXPORTED graph) -/

/-- depth-first closure over `succ`; `none` when the fuel did not suffice. -/
def dfs (succ : Id → List Id) : Nat → List Id → List Id → Option (List Id)
  | _, [], vis => some vis
  | 0, _ :: _, _ => none
  | fuel + 1, u :: st, vis =>
    if u ∈ vis then dfs succ fuel st vis else dfs succ fuel (succ u ++ st) (u :: vis)

/-- the vertices reachable from `e` by `succ`-steps -/
def reachSet (succ : Id → List Id) (fuel : Nat) (e : Id) : Option (List Id) := dfs succ fuel [e] []

/-- reachability by `succ`-steps (what `reachSet` computes: `reachSet_correct`) -/
inductive Reach (succ : Id → List Id) (e : Id) : Id → Prop
  | refl : Reach succ e e
  | step {u v : Id} : Reach succ e u → v ∈ succ u → Reach succ e v

/-! ## Specification of C12 (statements; the theorems are in CometProofs/Properties/C12.lean) -/

section Spec
variable {V S : Type} (m : Metric V S)

/-- neighbour list of `i` on `layer` (`[]` when the vertex is absent or has no such layer) -/
def nbrsAt (s : State V) (layer : Nat) (i : Id) : List Id :=
  match s.nodes.get? i with
  | some n => (n.edges[layer]?).getD []
  | none => []

/-- resident and not soft-deleted -/
def liveB (s : State V) (i : Id) : Bool := s.nodes.contains i && !isDeleted s i

/-- layer 0 is the complete digraph on the live vertices, the entry point (live or
    soft-deleted) has an edge to every other live vertex, and layer-0 edges resolve -/
def complete0B (s : State V) : Bool :=
  ((liveIds s).all fun u => (liveIds s).all fun v => u == v || (nbrsAt s 0 u).contains v) &&
  (s.nodes.keys.all fun u => (nbrsAt s 0 u).all fun w => s.nodes.contains w) &&
  ((liveIds s).all fun v => v == s.entry || (nbrsAt s 0 s.entry).contains v)

/-- clause 3 on one state: every live vertex is reachable from the entry point through
    the bottom-layer graph (edges of stored vertices, soft-deleted ones included: since fix
    f6a780e the search walks through them) -/
def Reachable (s : State V) : Prop :=
  ∀ i ∈ liveIds s, Reach (nbrsAt s 0) s.entry i

/-- histories; `flush e` carries the entry point that Go's map iteration elected -/
inductive Op (V : Type)
  | add (id : Id) (v : V) (level : Nat) (pick : Id := 0)
  | remove (id : Id)
  | flush (pick : Id)

def Op.toFlat : Op V → Flat.Op V
  | .add id v _ _ => .add id v
  | .remove id => .remove id
  | .flush _ => .flush

def step (s : State V) : Op V → Except Fault (State V)
  | .add id v l p => match add m s id v l p with | .ok (s', _) => .ok s' | .error e => .error e
  | .remove id => .ok (remove s id).1
  | .flush e => .ok (flushTo s e)

def run (s : State V) : List (Op V) → Except Fault (State V)
  | [] => .ok s
  | op :: rest => match step m s op with | .ok s' => run s' rest | .error e => .error e

/-- the flat specification's live list = "exact k-NN" candidates -/
def liveSpec (dim : Nat) (ops : List (Op V)) : List (Id × V) := Flat.live m dim (ops.map Op.toFlat)

def nodupB : List Id → Bool
  | [] => true
  | a :: t => !t.contains a && nodupB t

/-- every id (0 included: the index stores the first vector whose own id is 0 under key 0) is
    added at most once -/
def freshAdds (ops : List (Op V)) : Bool :=
  nodupB (Flat.addedIds (ops.map Op.toFlat))

/-- a predicate on (pre-state, op) holds along the whole run, and `fin` on the last state -/
def along (p : State V → Op V → Bool) (fin : State V → Bool) (s : State V) : List (Op V) → Bool
  | [] => fin s
  | op :: rest => p s op && match step m s op with | .ok s' => along p fin s' rest | .error _ => true

/-- every `flush` — explicit, or run inside an `add` — elects an allowed entry point -/
def validPicks : State V → List (Op V) → Bool :=
  along m (fun s op => match op with
      | .flush e => (flushChoices s).contains e
      | .add id _ _ p => !addFlushes s id || (flushChoices s).contains p
      | _ => true)
    (fun _ => true)

/-- the index never holds more than `bound` vertices (soft-deleted ones included) -/
def residentsLe (bound : Nat) : State V → List (Op V) → Bool :=
  along m (fun s _ => decide (s.nodes.count ≤ bound)) (fun s => decide (s.nodes.count ≤ bound))

/-- no removal succeeds -/
def noRemovals : List (Op V) → Bool
  | [] => true
  | .remove _ :: _ => false
  | _ :: rest => noRemovals rest

end Spec

end Comet.HNSW
