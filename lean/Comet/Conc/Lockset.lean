/-
  C11 (A) — lock discipline ⇒ no data race.  Core Lean only.

  The fact extractor (harness/cmd/facts/facts_locks.go) turns every function of package
  comet into a few *event paths*

      acq b m | rel b m | acc b f m site | call [g₁ … gₙ]

  (`b` an instance slot named after its static type, `f` a field, `m` ∈ {R, W}, `site`
  the function the access is written in, `call` a — possibly dynamically dispatched —
  call into one of the listed functions).  This file defines

    * the static check `chk` (a syntactic lock-state tracker with call summaries:
      `Fn.req` = locks the caller must hold) and `Discipline`;
    * the abstract machine: threads with a call stack executing such paths over
      reader-writer locks, one shared instance per slot (the worst case for races and
      the situation the property quantifies over);
    * `Race`: two threads whose next steps are conflicting accesses to one location.

  `CometProofs/Conc/Lockset.lean` proves `Discipline T → no reachable state has a Race`.
-/
namespace Comet.Conc

inductive Mode | R | W
  deriving DecidableEq, Repr, Inhabited

abbrev Base := Nat
abbrev Field := Nat
abbrev FnId := Nat

/-- `guarded`: written somewhere after construction (must be accessed under the owner's
    lock); `immutable`: no write access anywhere in the table; `atomic`: sync/atomic type;
    `sync`: channel / WaitGroup (synchronisation objects, not data). -/
inductive FieldClass | guarded | immutable | atomic | sync
  deriving DecidableEq, Repr, Inhabited

inductive Ev
  | acq (b : Base) (m : Mode)
  | rel (b : Base) (m : Mode)
  | acc (b : Base) (f : Field) (m : Mode) (site : FnId)
  | call (gs : List FnId)
  deriving DecidableEq, Repr

abbrev Held := List (Base × Mode)

structure Fn where
  id : FnId
  /-- may be the first function of a thread (exported API, goroutine body) -/
  entry : Bool
  /-- locks the caller must hold (helpers that take no lock themselves) -/
  req : Held
  paths : List (List Ev)
  deriving Repr

structure Table where
  fns : List Fn
  classes : List FieldClass
  /-- accesses exempt from the discipline: (site function, field) -/
  whitelist : List (FnId × Field)

def Table.classOf (T : Table) (f : Field) : FieldClass :=
  match T.classes[f]? with
  | some c => c
  | none => .guarded        -- unknown field: strictest class

def Table.lookup (T : Table) (g : FnId) : Option Fn := T.fns.find? (·.id == g)

/-- the lock of `b` is held in a mode that permits an access of mode `m` -/
def holds (h : Held) (b : Base) (m : Mode) : Bool :=
  h.contains (b, .W) || (m == .R && h.contains (b, .R))

def Table.exempt (T : Table) (site : FnId) (f : Field) : Bool := T.whitelist.contains (site, f)

/-- may this access be performed with locks `h`? -/
def accOK (T : Table) (h : Held) (b : Base) (f : Field) (m : Mode) (site : FnId) : Bool :=
  T.exempt site f ||
  match T.classOf f with
  | .atomic | .sync => true
  | .immutable => m == .R
  | .guarded => holds h b m

def callOK (T : Table) (h : Held) (gs : List FnId) : Bool :=
  gs.all fun g => match T.lookup g with
    | some fn => fn.req.all fun r => holds h r.1 r.2
    | none => false

/-- The static lock-state tracker: `ctx` = locks inherited from the caller (never released
    here), `h` = locks acquired by this activation.  Returns the local lock state at the end. -/
def chk (T : Table) (ctx : Held) : Held → List Ev → Option Held
  | h, [] => some h
  | h, .acq b m :: p => chk T ctx ((b, m) :: h) p
  | h, .rel b m :: p => if h.contains (b, m) then chk T ctx (h.erase (b, m)) p else none
  | h, .acc b f m s :: p => if accOK T (h ++ ctx) b f m s then chk T ctx h p else none
  | h, .call gs :: p => if callOK T (h ++ ctx) gs then chk T ctx h p else none

/-- Every path of every function passes the tracker under its declared requirement and is
    lock-balanced; entry functions require nothing. -/
def checkTable (T : Table) : Bool :=
  T.fns.all fun fn =>
    (!fn.entry || fn.req.isEmpty) && fn.paths.all fun p => chk T fn.req [] p == some []

/-- **Discipline**: every write access to a guarded field holds its owner's lock in W, every
    read holds R or W (directly or through the caller, `req`), every other field is never
    written after construction or is of an atomic / synchronisation type — except the
    explicitly whitelisted accesses. -/
def Discipline (T : Table) : Prop := checkTable T = true

instance (T : Table) : Decidable (Discipline T) := inferInstanceAs (Decidable (_ = true))

/-! ### The abstract machine -/

structure Frame where
  h : Held
  prog : List Ev
  deriving Repr

/-- a thread is its call stack (top first); `[]`-programmed bottom frame = finished -/
abbrev Thread := List Frame

def heldAll (t : Thread) : Held := t.flatMap (·.h)

abbrev State := List Thread

/-- can a thread acquire `b` in mode `m`, given what every thread (itself included) holds? -/
def free (st : State) (b : Base) : Mode → Prop
  | .W => ∀ u ∈ st, ∀ m, (b, m) ∉ heldAll u
  | .R => ∀ u ∈ st, (b, Mode.W) ∉ heldAll u

/-- one step of one thread, in the context of the whole state (for lock availability) -/
inductive TStep (T : Table) (st : State) : Thread → Thread → Prop
  | acq (h p fs b m) : free st b m →
      TStep T st (⟨h, .acq b m :: p⟩ :: fs) (⟨(b, m) :: h, p⟩ :: fs)
  | rel (h p fs b m) : (b, m) ∈ h →
      TStep T st (⟨h, .rel b m :: p⟩ :: fs) (⟨h.erase (b, m), p⟩ :: fs)
  | acc (h p fs b f m s) :
      TStep T st (⟨h, .acc b f m s :: p⟩ :: fs) (⟨h, p⟩ :: fs)
  | call (h p fs gs g fn q) : g ∈ gs → T.lookup g = some fn → q ∈ fn.paths →
      TStep T st (⟨h, .call gs :: p⟩ :: fs) (⟨[], q⟩ :: ⟨h, p⟩ :: fs)
  | ret (h g fs) :
      TStep T st (⟨h, []⟩ :: g :: fs) (⟨h ++ g.h, g.prog⟩ :: fs)

inductive Step (T : Table) : State → State → Prop
  | mk (pre post t t') : TStep T (pre ++ t :: post) t t' →
      Step T (pre ++ t :: post) (pre ++ t' :: post)

/-- every thread is about to call an entry function, holding nothing -/
def Init (T : Table) (st : State) : Prop :=
  ∀ t ∈ st, ∃ g fn, T.lookup g = some fn ∧ fn.entry = true ∧ t = [⟨[], [.call [g]]⟩]

inductive Reachable (T : Table) : State → Prop
  | init (st) : Init T st → Reachable T st
  | step (st st') : Reachable T st → Step T st st' → Reachable T st'

/-- the access a thread performs next, if its next event is one -/
def nextAcc : Thread → Option (Base × Field × Mode × FnId)
  | ⟨_, .acc b f m s :: _⟩ :: _ => some (b, f, m, s)
  | _ => none

/-- Two distinct threads are both about to access the same location `(b, f)`, at least one
    of them writes, the field is plain data (not atomic / a channel), and neither access
    is whitelisted. -/
def Race (T : Table) (st : State) : Prop :=
  ∃ pre mid post t u b f m₁ s₁ m₂ s₂,
    st = pre ++ t :: mid ++ u :: post ∧
    nextAcc t = some (b, f, m₁, s₁) ∧ nextAcc u = some (b, f, m₂, s₂) ∧
    (m₁ = .W ∨ m₂ = .W) ∧
    T.classOf f ≠ .atomic ∧ T.classOf f ≠ .sync ∧
    T.exempt s₁ f = false ∧ T.exempt s₂ f = false

/-! ### Decoding of the raw facts (CometGen/Facts_Locks.lean) -/

def decodeMode : Nat → Option Mode
  | 0 => some .R | 1 => some .W | _ => none

def decodeEv : List Nat → Option Ev
  | [0, b, m] => (decodeMode m).map (.acq b)
  | [1, b, m] => (decodeMode m).map (.rel b)
  | [2, b, f, m, s] => (decodeMode m).map fun m => .acc b f m s
  | 3 :: gs => some (.call gs)
  | _ => none

def decodeClass : Nat → Option FieldClass
  | 0 => some .guarded | 1 => some .immutable | 2 => some .atomic | 3 => some .sync | _ => none

abbrev RawFn := Nat × Bool × List (Nat × Nat) × List (List (List Nat))

def decodeFn (r : RawFn) : Option Fn := do
  let req ← r.2.2.1.mapM fun (b, m) => (decodeMode m).map fun m => (b, m)
  let paths ← r.2.2.2.mapM fun p => p.mapM decodeEv
  pure { id := r.1, entry := r.2.1, req := req, paths := paths }

def decodeTable (raw : List RawFn) (classes : List Nat) (wl : List (Nat × Nat)) : Option Table := do
  let fns ← raw.mapM decodeFn
  let cls ← classes.mapM decodeClass
  pure { fns := fns, classes := cls, whitelist := wl }

/-- the per-run obligation, as a Boolean computation over the regenerated facts -/
def checkRaw (raw : List RawFn) (classes : List Nat) (wl : List (Nat × Nat)) : Bool :=
  match decodeTable raw classes wl with
  | some T => checkTable T
  | none => false

/-! ### (B) lock order -/

/-- what a thread holds and, if it is blocked, the lock it waits for -/
structure Waiter where
  held : List String
  waiting : Option String

/-- every nested acquisition goes strictly upwards in `rank` -/
def lockOrderOK (rank : String → Option Nat) (impossible : List (String × String))
    (edges : List (String × String)) : Bool :=
  edges.all fun e => impossible.contains e ||
    match rank e.1, rank e.2 with
    | some a, some b => decide (a < b)
    | _, _ => false

end Comet.Conc
