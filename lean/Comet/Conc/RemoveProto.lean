/-
  C11 (C) — the index protocols as atomic regions, and the history predicate the driver
  checks on logged histories of the real code.  Core Lean only.

  Every vector index (flat, IVF, PQ, IVFPQ, HNSW) and the BM25 index run the same protocol
  over `stored` (ids physically present) and `deleted` (soft-delete bitmap):

      Add(id)    = [W: (if purge ∧ id ∈ deleted then flush) ; stored += id]
      Remove(id) = [W: exists? alreadyDeleted? → error | deleted += id]      (atomicRemove, today)
                 | [R: exists? alreadyDeleted?] ; (error | [W: deleted += id])  (before fb7bd70)
      search     = [R: result = stored \ deleted]          (one region PER QUERY)
      Flush      = [W: if deleted ≠ ∅ then stored := stored \ deleted ; deleted := ∅]

  (`purge`: since e29df80 `Add` of a tombstoned id flushes first.  `capPanic`: flat and PQ
  allocate `make(…, 0, len(stored) - |deleted|)` in the flush — a negative capacity panics.)
  The metadata index and the hybrid index do everything under one W lock (Remove is a single
  region): they are the special case in which the check and the write are never separated.

  An *interleaving* is an arbitrary list of region executions `Act`; a Remove's write region
  names the pending check it continues.  This covers every interleaving of every number of
  threads running arbitrary programs.
-/
namespace Comet.Conc.Proto

abbrev Id := Nat

structure Cfg where
  /-- `Add` of a tombstoned id flushes first (all five vector kinds since e29df80) -/
  purge : Bool
  /-- the flush allocates `len(stored) - |deleted|` (flat, PQ): negative capacity panics -/
  capPanic : Bool
  /-- `Remove` is ONE write-locked region (the code since fb7bd70).  `false` = the former shape
      `[R: check] ; [W: tombstone]` with a window between the regions (kept as a model variant:
      `remove_flush_window_panics` shows why it was a defect). -/
  atomicRemove : Bool

inductive Kind | add | remove | search | flush
  deriving DecidableEq, Repr

/-- one completed operation of a history, with invocation / response times from one clock -/
structure HOp where
  kind : Kind
  id : Id := 0
  inv : Nat
  resp : Nat
  /-- completed without error (Remove: returned nil; Flush: did not panic) -/
  ok : Bool := true
  /-- search: ids returned -/
  res : List Id := []
  deriving Repr

/-! ### The history predicate (what "visibility-linearizable" means for a logged history) -/

/-- V1: an id whose (successful) add completed before the search began, and no successful
    removal of which began before the search ended, is returned.  (Removals that *failed* —
    "not found", "already deleted" — change nothing and do not excuse a missing id.) -/
def V1 (h : List HOp) (S : HOp) : Prop :=
  ∀ A ∈ h, A.kind = .add → A.ok = true → A.resp < S.inv →
    (∀ M ∈ h, M.kind = .remove → M.ok = true → M.id = A.id → S.resp < M.inv) → A.id ∈ S.res

/-- V2: a returned id is not one whose successful removal completed before the search began
    (unless an add of it responded after that removal began). -/
def V2 (h : List HOp) (S : HOp) : Prop :=
  ∀ x ∈ S.res, ∀ M ∈ h, M.kind = .remove → M.ok = true → M.id = x → M.resp < S.inv →
    ∃ A ∈ h, A.kind = .add ∧ A.id = x ∧ M.inv < A.resp

/-- V3: a returned id was added (its add began before the search ended). -/
def V3 (h : List HOp) (S : HOp) : Prop :=
  ∀ x ∈ S.res, ∃ A ∈ h, A.kind = .add ∧ A.id = x ∧ A.inv < S.resp

def VisibilityOK (h : List HOp) : Prop :=
  ∀ S ∈ h, S.kind = .search → V1 h S ∧ V2 h S ∧ V3 h S

/-- the decision procedure the driver runs on logged histories -/
def checkV1 (h : List HOp) (S : HOp) : Bool :=
  h.all fun A => !(A.kind == .add && A.ok && decide (A.resp < S.inv)) ||
    !(h.all fun M => !(M.kind == .remove && M.ok && M.id == A.id) || decide (S.resp < M.inv)) ||
    S.res.contains A.id

def checkV2 (h : List HOp) (S : HOp) : Bool :=
  S.res.all fun x => h.all fun M =>
    !(M.kind == .remove && M.ok && M.id == x && decide (M.resp < S.inv)) ||
    h.any fun A => A.kind == .add && A.id == x && decide (M.inv < A.resp)

def checkV3 (h : List HOp) (S : HOp) : Bool :=
  S.res.all fun x => h.any fun A => A.kind == .add && A.id == x && decide (A.inv < S.resp)

def checkVisibility (h : List HOp) : Bool :=
  h.all fun S => !(S.kind == .search) || (checkV1 h S && checkV2 h S && checkV3 h S)

/-! ### The protocol model -/

structure PSt where
  stored : List Id := []
  deleted : List Id := []
  /-- Removes between their check and their write region: (id, invocation time) -/
  pend : List (Id × Nat) := []
  panicked : Bool := false
  /-- completed operations, most recent first -/
  hist : List HOp := []
  now : Nat := 0
  deriving Repr

def visible (stored deleted : List Id) : List Id := stored.filter fun x => !deleted.contains x

inductive Act
  | add (id : Id)
  | rmCheck (id : Id)
  /-- the write region of the `k`-th pending Remove -/
  | rmWrite (k : Nat)
  | search
  | flush
  deriving Repr, DecidableEq

/-- the body of Flush (also run by a purging Add): `none` = panic (negative capacity) -/
def flushCore (cfg : Cfg) (stored deleted : List Id) : Option (List Id × List Id) :=
  if deleted.isEmpty then some (stored, deleted)
  else if cfg.capPanic && decide (stored.length < deleted.length) then none
  else some (visible stored deleted, [])

def step (cfg : Cfg) (s : PSt) : Act → PSt
  | .add id =>
    let t := s.now
    if cfg.purge && s.deleted.contains id then
      match flushCore cfg s.stored s.deleted with
      | none => { s with panicked := true, now := t + 1,
                         hist := { kind := .add, id := id, inv := t, resp := t, ok := false } :: s.hist }
      | some (st, dl) => { s with stored := st ++ [id], deleted := dl, now := t + 1,
                                  hist := { kind := .add, id := id, inv := t, resp := t } :: s.hist }
    else { s with stored := s.stored ++ [id], now := t + 1,
                  hist := { kind := .add, id := id, inv := t, resp := t } :: s.hist }
  | .rmCheck id =>
    let t := s.now
    if !s.stored.contains id || s.deleted.contains id then
      -- "not found" / "already deleted": the operation completes in its first region
      { s with now := t + 1, hist := { kind := .remove, id := id, inv := t, resp := t, ok := false } :: s.hist }
    else if cfg.atomicRemove then
      -- check and tombstone in one write-locked region
      { s with now := t + 1,
               deleted := if s.deleted.contains id then s.deleted else id :: s.deleted,
               hist := { kind := .remove, id := id, inv := t, resp := t } :: s.hist }
    else { s with now := t + 1, pend := s.pend ++ [(id, t)] }
  | .rmWrite k =>
    let t := s.now
    match s.pend[k]? with
    | none => { s with now := t + 1 }      -- no such pending Remove: not a step of any thread
    | some (id, t0) =>
      { s with now := t + 1, pend := s.pend.eraseIdx k,
               deleted := if s.deleted.contains id then s.deleted else id :: s.deleted,
               hist := { kind := .remove, id := id, inv := t0, resp := t } :: s.hist }
  | .search =>
    let t := s.now
    { s with now := t + 1,
             hist := { kind := .search, inv := t, resp := t, res := visible s.stored s.deleted } :: s.hist }
  | .flush =>
    let t := s.now
    match flushCore cfg s.stored s.deleted with
    | none => { s with panicked := true, now := t + 1,
                       hist := { kind := .flush, inv := t, resp := t, ok := false } :: s.hist }
    | some (st, dl) => { s with stored := st, deleted := dl, now := t + 1,
                                hist := { kind := .flush, inv := t, resp := t } :: s.hist }

def run (cfg : Cfg) (acts : List Act) : PSt := acts.foldl (step cfg) {}

/-! ### The sequential specification (Remove is ONE atomic operation) -/

inductive Resp | ok | notFound | alreadyDeleted | panic
  deriving DecidableEq, Repr

def seqRemove (stored deleted : List Id) (id : Id) : List Id × Resp :=
  if !stored.contains id then (deleted, .notFound)
  else if deleted.contains id then (deleted, .alreadyDeleted)
  else (id :: deleted, .ok)

/-- the response the first region of Remove decides -/
def rmCheckResp (stored deleted : List Id) (id : Id) : Option Resp :=
  if !stored.contains id then some .notFound
  else if deleted.contains id then some .alreadyDeleted
  else none          -- proceeds to the write region

/-- no flush (explicit, or by a purging Add) is executed while a Remove is between its two
    regions — the hypothesis of `flush_no_panic_partial` -/
def noFlushInRemoveWindow (cfg : Cfg) : PSt → List Act → Bool
  | _, [] => true
  | s, a :: as =>
    (match a with
     | .flush => s.pend.isEmpty
     | .add id => !(cfg.purge && s.deleted.contains id) || s.pend.isEmpty
     | _ => true) && noFlushInRemoveWindow cfg (step cfg s a) as

/-! ### (E) automatically generated ids: `atomic.AddUint32(&nodeIDCounter, 1)` -/

def W32 : Nat := 4294967296

/-- every `NewVectorNode` / `NewMetadataNode` — from whatever goroutine, for whatever index
    instance (the label `who`) — is ONE atomic region on the one global counter -/
def issue (c : Nat) : List (Nat × Nat) → List ((Nat × Nat) × Id)
  | [] => []
  | who :: rest => (who, (c + 1) % W32) :: issue ((c + 1) % W32) rest

/-- a non-atomic counter: `read` copies the counter into the thread's register, `write`
    stores register+1 and returns it (what `id = counter; counter = id + 1` would do) -/
inductive RmwAct | read (t : Nat) | write (t : Nat)
  deriving DecidableEq, Repr

def rmwRun (c : Nat) (regs : List (Nat × Nat)) : List RmwAct → List Id
  | [] => []
  | .read t :: rest => rmwRun c ((t, c) :: regs.filter (·.1 != t)) rest
  | .write t :: rest =>
    match regs.find? (·.1 == t) with
    | some (_, r) => (r + 1) :: rmwRun (r + 1) regs rest
    | none => rmwRun c regs rest

end Comet.Conc.Proto
