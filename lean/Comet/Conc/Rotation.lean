/-
  C11 (D) — the store's memtable rotation / flush protocol as atomic regions.  Core Lean only.

  Today's code (22d1a03, `locked = true`):

      memtableQueue.add(doc) = [Q-lock: if ¬hasRoom then rotate ; m := mutable ;
                                        m.frozen? ; m-lock: m.index.Add(doc)]       ONE region
      Rotate()               = [Q-lock: freeze mutable ; mutable := new memtable]
      flushMemtables()       = [Q-lock(R): snapshot the frozen memtables]               (flushSnap)
                               then for every memtable m of the snapshot:
                               [write a segment with m's documents]                     (flushWrite)
                               ; [Q-lock: remove m from the queue, if still there]      (flushDrop)

  The former shape (`locked = false`, kept as a model variant — `add_on_frozen_fails` and
  `add_after_flush_lost` show why it was a defect, D15) released the queue lock after the pick:

      add(doc) = [Q-lock: rotate? ; m := mutable] ; [no lock: m.frozen? → error] ; [m-lock: write]
                          (pick)                            (check)                   (write)

  Memtables are numbered in creation order; the mutable one is the newest, every other one is
  frozen (`freeze` is only called by rotation, on the then-mutable memtable).  `hasRoom` is an
  input of the pick region (`rot`), so every size configuration is covered.  Several flushers
  (Flush() callers, the background worker) may run at once, each with its own snapshot — the
  same memtable can then be written to two segments (duplicated, never lost).  An interleaving
  is an arbitrary list of region executions.

  NOT modelled here (C08's subject, known findings D13 / D14): that all memtables of the real
  store share the template index instances, and compaction.
-/
namespace Comet.Conc.Rot

abbrev Doc := Nat
abbrev Mt := Nat

structure RSt where
  /-- the mutable memtable (newest) -/
  mutable : Mt := 0
  /-- frozen memtables still in the queue, oldest first -/
  frozenQ : List Mt := []
  /-- documents written, with the memtable they went to -/
  contents : List (Mt × Doc) := []
  /-- documents in written segments (a memtable flushed twice appears twice) -/
  segments : List Doc := []
  /-- flushers: the memtables of their snapshot still to be flushed -/
  snaps : List (Nat × List Mt) := []
  /-- flushers between the segment write and the queue removal of a memtable -/
  cur : List (Nat × Mt) := []
  /-- (former shape) adds after their pick region: (thread, memtable, doc) -/
  picked : List (Nat × Mt × Doc) := []
  /-- (former shape) adds after their frozen-check -/
  checked : List (Nat × Mt × Doc) := []
  /-- documents whose add returned nil -/
  acked : List Doc := []
  /-- documents whose add returned "memtable is frozen" -/
  failed : List Doc := []
  deriving Repr, DecidableEq

inductive RAct
  /-- `locked`: the whole add; former shape: its pick region -/
  | pick (t : Nat) (d : Doc) (rot : Bool)
  | check (t : Nat)
  | write (t : Nat)
  | rotate
  | flushSnap (f : Nat)
  | flushWrite (f : Nat)
  | flushDrop (f : Nat)
  deriving Repr, DecidableEq

def rotateSt (s : RSt) : RSt :=
  { s with frozenQ := s.frozenQ ++ [s.mutable], mutable := s.mutable + 1 }

def docsOf (s : RSt) (m : Mt) : List Doc := (s.contents.filter (·.1 == m)).map (·.2)

def rstep (locked : Bool) (s : RSt) : RAct → RSt
  | .pick t d rot =>
    let s1 := if rot then rotateSt s else s
    if locked then
      -- nothing can run between the pick and the write: the picked memtable IS the mutable one
      { s1 with contents := s1.contents ++ [(s1.mutable, d)], acked := d :: s1.acked }
    else { s1 with picked := s1.picked ++ [(t, s1.mutable, d)] }
  | .check t =>
    match s.picked.find? (·.1 == t) with
    | none => s
    | some (t', m, d) =>
      let rest := s.picked.erase (t', m, d)
      if m != s.mutable then { s with picked := rest, failed := d :: s.failed }   -- frozen
      else { s with picked := rest, checked := s.checked ++ [(t', m, d)] }
  | .write t =>
    match s.checked.find? (·.1 == t) with
    | none => s
    | some (t', m, d) =>
      { s with checked := s.checked.erase (t', m, d), contents := s.contents ++ [(m, d)],
               acked := d :: s.acked }
  | .rotate => rotateSt s
  | .flushSnap f =>
    if s.snaps.any (·.1 == f) || s.cur.any (·.1 == f) then s
    else { s with snaps := (f, s.frozenQ) :: s.snaps }
  | .flushWrite f =>
    if s.cur.any (·.1 == f) then s else
    match s.snaps.find? (·.1 == f) with
    | none => s
    | some (f', []) => { s with snaps := s.snaps.erase (f', []) }      -- this flusher is done
    | some (f', m :: rest) =>
      { s with segments := s.segments ++ docsOf s m,
               snaps := (f', rest) :: s.snaps.erase (f', m :: rest), cur := (f', m) :: s.cur }
  | .flushDrop f =>
    match s.cur.find? (·.1 == f) with
    | none => s
    | some (f', m) => { s with frozenQ := s.frozenQ.erase m, cur := s.cur.erase (f', m) }

def rrun (locked : Bool) (acts : List RAct) : RSt := acts.foldl (rstep locked) {}

/-- a document is visible if a memtable of the queue or a segment holds it -/
def visibleDoc (s : RSt) (d : Doc) : Bool :=
  s.segments.contains d ||
  s.contents.any fun p => p.2 == d && (p.1 == s.mutable || s.frozenQ.contains p.1)

/-- hypothesis of `rotation_partial` (former shape): whenever a rotation happens (explicit, or
    inside a pick region) no add is between its pick and its write region -/
def noRotationDuringAdd (locked : Bool) : RSt → List RAct → Bool
  | _, [] => true
  | s, a :: as =>
    (match a with
     | .rotate => s.picked.isEmpty && s.checked.isEmpty
     | .pick _ _ true => s.picked.isEmpty && s.checked.isEmpty
     | _ => true) && noRotationDuringAdd locked (rstep locked s a) as

end Comet.Conc.Rot
