/-
  C11 (D) — the store's memtable rotation / flush protocol as atomic regions.  Core Lean only.

      memtableQueue.add(doc) = [Q-lock: if ¬hasRoom then rotate ; m := mutable]     (pick)
                               ; yield ;
                               [no lock: if m.frozen then return "memtable is frozen"] (check)
                               ; yield ;
                               [m-lock: m.index.Add(doc)]                              (write)
      Rotate()               = [Q-lock: freeze mutable ; mutable := new memtable]
      flushMemtables()       = for every frozen memtable m of the queue:
                               [write a segment with m's documents]                    (flushWrite)
                               ; [Q-lock: remove m from the queue]                     (flushDrop)

  Memtables are numbered in creation order; the mutable one is the newest, every other one is
  frozen (`freeze` is only called by rotation, on the then-mutable memtable).  `hasRoom` is an
  input of the pick region (`rot`), so every size configuration is covered.  An interleaving
  is an arbitrary list of region executions.

  What is NOT modelled here (C08's subject, known findings D13 / D14): that all memtables of
  the real store share the template index instances, and compaction.  Because of D13 a
  document "lost" in the sense of this model is still found by in-process searches of the real
  store (every memtable searches the same shared indexes); it is lost from the store's own
  bookkeeping (no queue memtable lists it, the segment written from its memtable counts it
  not) — that is what the directed schedule observes on the real code.
-/
namespace Comet.Conc.Rot

abbrev Doc := Nat
abbrev Mt := Nat

structure RSt where
  /-- the mutable memtable (newest) -/
  mutable : Mt := 0
  /-- frozen memtables still in the queue, oldest first -/
  frozenQ : List Mt := []
  /-- documents written, with the memtable they went to -/
  contents : List (Mt × Doc) := []
  /-- documents in written segments -/
  segments : List Doc := []
  /-- frozen memtables whose segment is written but which are still in the queue -/
  flushed : List Mt := []
  /-- adds after their pick region: (thread, memtable, doc) -/
  picked : List (Nat × Mt × Doc) := []
  /-- adds after their frozen-check -/
  checked : List (Nat × Mt × Doc) := []
  /-- documents whose add returned nil -/
  acked : List Doc := []
  /-- documents whose add returned "memtable is frozen" -/
  failed : List Doc := []
  deriving Repr, DecidableEq

inductive RAct
  | pick (t : Nat) (d : Doc) (rot : Bool)
  | check (t : Nat)
  | write (t : Nat)
  | rotate
  | flushWrite (m : Mt)
  | flushDrop (m : Mt)
  deriving Repr, DecidableEq

def rotateSt (s : RSt) : RSt :=
  { s with frozenQ := s.frozenQ ++ [s.mutable], mutable := s.mutable + 1 }

def docsOf (s : RSt) (m : Mt) : List Doc := (s.contents.filter (·.1 == m)).map (·.2)

def rstep (s : RSt) : RAct → RSt
  | .pick t d rot =>
    let s1 := if rot then rotateSt s else s
    { s1 with picked := s1.picked ++ [(t, s1.mutable, d)] }
  | .check t =>
    match s.picked.find? (·.1 == t) with
    | none => s
    | some (t', m, d) =>
      let rest := s.picked.erase (t', m, d)
      if m != s.mutable then { s with picked := rest, failed := d :: s.failed }   -- frozen
      else { s with picked := rest, checked := s.checked ++ [(t', m, d)] }
  | .write t =>
    match s.checked.find? (·.1 == t) with
    | none => s
    | some (t', m, d) =>
      { s with checked := s.checked.erase (t', m, d), contents := s.contents ++ [(m, d)],
               acked := d :: s.acked }
  | .rotate => rotateSt s
  | .flushWrite m =>
    if s.frozenQ.contains m && !s.flushed.contains m then
      { s with segments := s.segments ++ docsOf s m, flushed := m :: s.flushed }
    else s
  | .flushDrop m =>
    if s.flushed.contains m then
      { s with frozenQ := s.frozenQ.erase m, flushed := s.flushed.erase m }
    else s

def rrun (acts : List RAct) : RSt := acts.foldl rstep {}

/-- a document is visible if a memtable of the queue or a segment holds it -/
def visibleDoc (s : RSt) (d : Doc) : Bool :=
  s.segments.contains d ||
  s.contents.any fun p => p.2 == d && (p.1 == s.mutable || s.frozenQ.contains p.1)

/-- hypothesis of `rotation_partial`: whenever a rotation happens (explicit, or inside a pick
    region) no add is between its pick and its write region -/
def noRotationDuringAdd : RSt → List RAct → Bool
  | _, [] => true
  | s, a :: as =>
    (match a with
     | .rotate => s.picked.isEmpty && s.checked.isEmpty
     | .pick _ _ true => s.picked.isEmpty && s.checked.isEmpty
     | _ => true) && noRotationDuringAdd (rstep s a) as

end Comet.Conc.Rot
