/-
  Comet.BM25F — executable IEEE instance of `BM25.Scoring`: accumulator float64
  (bit patterns as `UInt64`), results float32 (bit patterns as `UInt32`, the same
  carrier as `Comet.F32.scalar`, which is the aggregation's scalar).

  Transcribed from bm25_index_search.go operation by operation in Go's evaluation
  order (constants folded as the Go compiler folds untyped constants: `K1 + 1` is
  the double nearest 2.2, `1 - B` is 0.25).  `+ - * /` and the int→float64 /
  float64→float32 conversions are bit-identical with Go on amd64; `Float.log`
  (libm) and Go's pure-Go `math.Log` may differ in the last ulp, therefore scores
  are compared with relative tolerance 1e-6 — and only scores.
  `Float` is opaque to the kernel: no theorem is about this file.
-/
import Comet.BM25
import Comet.F32
namespace Comet.BM25F
open Comet.BM25

@[inline] def f (b : UInt64) : Float := Float.ofBits b
@[inline] def b (x : Float) : UInt64 := x.toBits

def K1 : Float := 1.2
def B : Float := 0.75

/-- `ix.avgDocLen` -/
def avgF : Avg → Float
  | .zero => 0
  | .quot t n => Float.ofInt t / Float.ofInt n

/-- `math.Log((N-df+0.5)/(df+0.5) + 1.0)` -/
def idfF (N df : Float) : Float := Float.log ((N - df + 0.5) / (df + 0.5) + 1.0)

/-- `idf * (tfVal * (K1 + 1)) / (tfVal + K1*(1-B+B*(docLen/avgDocLen)))` -/
def scoreF (N : Int) (df tf docLen : Nat) (avg : Avg) : Float :=
  let N := Float.ofInt N
  let df := Float.ofNat df
  let idf := idfF N df
  let tfVal := Float.ofNat tf
  let docLen := Float.ofNat docLen
  idf * (tfVal * 2.2) / (tfVal + K1 * (0.25 + B * (docLen / avgF avg)))

def scoring : Scoring UInt64 UInt32 where
  zero := b 0
  add x y := b (f x + f y)
  score N df tf docLen avg := b (scoreF N df tf docLen avg)
  le x y := decide (f x ≤ f y)
  toS x := (f x).toFloat32.toBits

/-- relative tolerance used when an implementation score is compared with the
    model's (both float32 bit patterns) -/
def closeRel (x y : UInt32) : Bool :=
  let a := (Float32.ofBits x).toFloat
  let c := (Float32.ofBits y).toFloat
  x == y || (a - c).abs ≤ 1e-6 * (if a.abs ≤ c.abs then c.abs else a.abs)

/-- "at least as good, up to the score tolerance" (descending relevance) -/
def geTol (x y : UInt32) : Bool :=
  let a := (Float32.ofBits x).toFloat
  let c := (Float32.ofBits y).toFloat
  x == y || a ≥ c - 1e-6 * c.abs

/-- exact descending order on float32 bit patterns -/
def geExact (x y : UInt32) : Bool := decide (Float32.ofBits x ≥ Float32.ofBits y)

end Comet.BM25F
