/-
  Comet.Limiter — limiter.go: `Autocut` and `AutocutResults`
  (`sanitizeK` is in Comet.TopK, `LimitResults` in Comet.Agg).

  Every slice read of the Go code is a *checked* read here (`idx`, `sliceTo`): an
  index out of range is the explicit outcome `Except.error (Panic.…)`, so "never
  panics" is a theorem about indices and control flow, not an artefact of a
  totalised `getD`.  In particular the last-element branch of `Autocut` reads
  `diff[i-2]`, which is `diff[-1]` when `len == 2`; the read sits behind the
  short-circuit `diff[i] > diff[i-1] &&`, which is modelled as such.

  The float operations are a parameter (`FOps`): the index-safety theorem for
  lengths ≠ 2 holds for *arbitrary* operations; length 2 needs one arithmetic fact
  (`Len2Safe`), proved in CometProofs/XR.lean for an IEEE-like scalar with ±0, ±∞,
  NaN and arbitrary rounding.

  Core Lean only (linked into the driver).
-/
namespace Comet

/-- the float32 operations `Autocut` uses (Go: untyped constants `0.` `1.` become
    float32; `float32(len(yValues))`, `float32(i)` are int→float32 conversions) -/
structure FOps (F : Type) where
  zero : F
  one : F
  ofNat : Nat → F
  add : F → F → F
  sub : F → F → F
  mul : F → F → F
  div : F → F → F
  /-- Go `a > b` -/
  gt : F → F → Bool

/-- a Go run-time panic of the modelled code -/
inductive Panic
  | index (i : Int) (len : Nat)      -- index out of range [i] with length len
  | slice (hi : Nat) (len : Nat)     -- slice bounds out of range [:hi] with capacity len
deriving Repr, DecidableEq

/-- checked slice read `xs[i]` (Go ints are signed: `i` may be negative) -/
def idx (xs : List α) (i : Int) : Except Panic α :=
  if i < 0 then .error (.index i xs.length) else
  match xs[i.toNat]? with
  | some x => .ok x
  | none => .error (.index i xs.length)

/-- checked `xs[:hi]` (`len == cap` for all callers) -/
def sliceTo (xs : List α) (hi : Nat) : Except Panic (List α) :=
  if hi ≤ xs.length then .ok (xs.take hi) else .error (.slice hi xs.length)

/-- `step := 1. / (float32(len(yValues)) - 1.)` -/
def autocutStep (o : FOps F) (n : Nat) : F := o.div o.one (o.sub (o.ofNat n) o.one)

/-- `diff[i]` as an expression of the values read:
    `(yValues[i] - yValues[0]) / (yValues[len-1] - yValues[0]) - (0. + float32(i)*step)` -/
def diffAt (o : FOps F) (n : Nat) (y0 yl yi : F) (i : Nat) : F :=
  o.sub (o.div (o.sub yi y0) (o.sub yl y0)) (o.add o.zero (o.mul (o.ofNat i) (autocutStep o n)))

/-- the first loop of `Autocut` -/
def autocutDiff (o : FOps F) (ys : List F) : Except Panic (List F) :=
  (List.range ys.length).mapM fun (i : Nat) => do
    let yi ← idx ys (i : Int)
    let y0 ← idx ys 0
    let yl ← idx ys ((ys.length : Int) - 1)
    let y0' ← idx ys 0
    pure (o.sub (o.div (o.sub yi y0) (o.sub yl y0'))
            (o.add o.zero (o.mul (o.ofNat i) (autocutStep o ys.length))))

/-- the second loop of `Autocut` over the remaining indices `is`, `cnt = extremaCount`;
    `n = len(yValues)` is what the fall-through returns -/
def autocutScan (o : FOps F) (diff : List F) (cutOff : Int) (n : Nat) :
    List Nat → Int → Except Panic Nat
  | [], _ => .ok n
  | i :: is, cnt =>
    if i == 0 then autocutScan o diff cutOff n is cnt else do
      -- `i == len(diff)-1 && len(diff) > 1` selects which neighbour is read second
      let last : Bool := (i : Int) == (diff.length : Int) - 1 && decide (diff.length > 1)
      let a ← idx diff (i : Int)
      let b ← idx diff ((i : Int) - 1)
      let hit ←
        if o.gt a b then do          -- `&&` is short-circuit: the second pair of reads
          let a' ← idx diff (i : Int)  -- happens only when the first comparison is true
          let c ← idx diff (if last then (i : Int) - 2 else (i : Int) + 1)
          pure (o.gt a' c)
        else pure false
      if hit then
        let cnt' := cnt + 1
        if cnt' ≥ cutOff then .ok i else autocutScan o diff cutOff n is cnt'
      else autocutScan o diff cutOff n is cnt

/-- `Autocut(yValues, cutOff)` -/
def autocut (o : FOps F) (ys : List F) (cutOff : Int) : Except Panic Nat :=
  if ys.length ≤ 1 then .ok ys.length else do
    let diff ← autocutDiff o ys
    autocutScan o diff cutOff ys.length (List.range diff.length) 0

/-- `AutocutResults(results, cutoff)`; `score` is `Result.GetScore` -/
def autocutResults (o : FOps F) (score : α → F) (xs : List α) (cutoff : Int) :
    Except Panic (List α) :=
  if cutoff == -1 || xs.length == 0 then .ok xs else do
    let cut ← autocut o (xs.map score) cutoff
    sliceTo xs cut

/-- the one arithmetic fact index safety needs: for two scores the guard
    `diff[1] > diff[0]` in front of the `diff[-1]` read is false -/
def Len2Safe (o : FOps F) : Prop :=
  ∀ y0 y1 : F, o.gt (diffAt o 2 y0 y1 y1 1) (diffAt o 2 y0 y1 y0 0) = false

end Comet
