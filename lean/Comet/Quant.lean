/-
  Comet.Quant — model of quantizer.go.

  * FullPrecisionQuantizer: copy both ways.
  * HalfPrecisionQuantizer: `float16.Fromfloat32(v).Bits()` / `float16.Frombits(b).Float32()`.
    The library is a parameter of the design (assumed IEEE binary16, round to nearest
    even); the model is the IEEE rule itself on the EXACT value: round-to-nearest-even
    to an 11-bit significand, exponent clamped below at −14 (subnormals), overflow to
    infinity when the rounded magnitude reaches 2¹⁶.  Values are carried scaled by 2²⁴
    (every binary16 value is an integer multiple of 2⁻²⁴), so the result is an `Int`.
  * Int8Quantizer: `absMax = max |v|` over the training data; untrained (`absMax > 0`
    false) → error both ways; `q = int8(math.Round(float64((v/absMax)*127)))`
    (math.Round = half away from zero; the float32→int8 conversion wraps modulo 256 on
    amd64 for out-of-range values), `v' = (float32(q)/127)*absMax`.  Written over
    `Dist.Ops S` with the rounding `S → Int` as a parameter, so the same definitions
    run at `Float32` (driver) and at ℚ (theorems).
-/
import Comet.Distance
namespace Comet.Quant
open Comet.Dist

/-! ### full precision -/

def quantFull {S : Type} (v : List S) : List S := v
def deqFull {S : Type} (v : List S) : List S := v

/-! ### roundings on ℚ -/

/-- round to nearest integer, ties to even -/
def rne (t : Rat) : Int :=
  let f := t.floor
  let r := t - (f : Rat)
  if r < 1 / 2 then f else if 1 / 2 < r then f + 1 else if f % 2 = 0 then f else f + 1

/-- `math.Round`: nearest integer, halves away from zero -/
def roundHalfAway (t : Rat) : Int :=
  if 0 ≤ t then (t + 1 / 2).floor else -((-t + 1 / 2).floor)

def rabs (x : Rat) : Rat := if x < 0 then -x else x

/-! ### half precision -/

/-- the exponent `E` (of the value scaled by 2²⁴) the significand is aligned to: the
    largest `E ∈ [10, 10+n]` with `2^E ≤ |X|`, and 10 (the smallest normal exponent −14,
    which the subnormals share) when there is none -/
def halfExpFrom (aX : Rat) : Nat → Nat
  | 0 => 10
  | n + 1 => if (2 : Rat) ^ (10 + (n + 1)) ≤ aX then 10 + (n + 1) else halfExpFrom aX n

/-- exponents 10 … 39, i.e. −14 … 15 unscaled -/
def halfExp (aX : Rat) : Nat := halfExpFrom aX 29

/-- binary16 rounding of the exact value `x`, result scaled by 2²⁴:
    `halfRound x / 2²⁴` is the nearest binary16 value (ties to even) when
    `|halfRound x| < 2⁴⁰`; otherwise the conversion overflows to ±infinity. -/
def halfRound (x : Rat) : Int :=
  let X := x * (2 : Rat) ^ 24
  let E := halfExp (rabs X)
  let Q : Int := (2 : Int) ^ (E - 10)
  rne (X / (Q : Rat)) * Q

def halfOverflows (x : Rat) : Bool := decide ((2 : Int) ^ 40 ≤ (halfRound x).natAbs)

/-- value of the dequantised component (the conversion binary16 → binary32 is exact) -/
def halfValue (x : Rat) : Rat := (halfRound x : Rat) / (2 : Rat) ^ 24

/-- `HalfPrecisionQuantizer.Quantize` on exact values (stored form: value·2²⁴) -/
def quantHalf (v : List Rat) : List Int := v.map halfRound
/-- `HalfPrecisionQuantizer.Dequantize` (exact) -/
def deqHalf (qs : List Int) : List Rat := qs.map fun (q : Int) => ((q : Int) : Rat) / (2 : Rat) ^ 24

/-- the float16 normal range of the property: 2⁻¹⁴ ≤ |x| ≤ 65504 -/
def inHalfNormalRange (x : Rat) : Bool :=
  decide ((1 : Rat) / 16384 ≤ rabs x) && decide (rabs x ≤ 65504)

/-! ### int8 -/

section
variable {S : Type} (o : Ops S)

/-- `math.Abs` -/
def absS (x : S) : S := if o.lt x o.zero then o.neg x else x

/-- one step of `Int8Quantizer.Train`: `if absVal > max { max = absVal }` -/
def absMaxStep (m val : S) : S :=
  let a := absS o val
  if o.lt m a then a else m

/-- `Int8Quantizer.Train`: `max` starts at 0 and is replaced by every strictly larger |val| -/
def trainAbsMax (vs : List (List S)) : S :=
  vs.foldl (fun m vec => vec.foldl (absMaxStep o) m) o.zero

/-- `IsTrained`: `absMax > 0` -/
def isTrained (absMax : S) : Bool := o.lt o.zero absMax

/-- Go's `int8(f)` for a float64 holding the integer `z`: low 8 bits, two's complement
    (amd64; identity on [-128, 127]) -/
def wrap8 (z : Int) : Int := Int.bmod z 256

/-- `float32(int8)` -/
def ofInt8 (q : Int) : S := if q < 0 then o.neg (o.ofNat q.natAbs) else o.ofNat q.natAbs

/-- `Int8Quantizer.Quantize`; `none` = "quantizer must be trained before use" -/
def quantInt8 (round : S → Int) (absMax : S) (v : List S) : Option (List Int) :=
  if !isTrained o absMax then none else
  some (v.map fun val => wrap8 (round (o.mul (o.div val absMax) (o.ofNat 127))))

/-- `Int8Quantizer.Dequantize`; `none` = "quantizer must be trained before dequantization" -/
def deqInt8 (absMax : S) (qs : List Int) : Option (List S) :=
  if !isTrained o absMax then none else
  some (qs.map fun q => o.mul (o.div (ofInt8 o q) (o.ofNat 127)) absMax)

end
end Comet.Quant
