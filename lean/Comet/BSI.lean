/-
  Comet.BSI — concrete model of the bit-sliced index comet's metadata index uses:
  github.com/RoaringBitmap/roaring@v1.9.4/BitSliceIndexing/bsi.go
  (imported by metadata_index.go as `bsi`), and of the roaring bitmap operations the
  metadata index calls.

  * `RB` — a roaring bitmap is modelled as a finite set of ids, represented by a
    list; the library is *trusted to implement finite sets*, every theorem speaks
    about membership only.
  * `BSI` — transcribed: `bA` (one bitmap per bit position, 64 of them for the
    constructor call comet makes), `eBM` (existence bitmap), `SetValue`,
    `ClearValues`, and `compareValue` line by line: sign handling through the top
    slice, `^v + 1`, the `eq1/lt1/gt1/eq2/lt2` flags and every `break`.
    `parallelExecutor` (splitting the existence bitmap into batches, one goroutine
    per batch, OR of the partial results) is modelled as a filter over the
    existence set.

  Everything here is pure bit logic over `BitVec 64` (Go's int64 / uint64).
-/
namespace Comet

abbrev I64 := BitVec 64

/-- roaring bitmap = finite set of ids (list representation) -/
abbrev RB := List Nat

namespace RB
def add (s : RB) (d : Nat) : RB := if s.contains d then s else d :: s
def remove (s : RB) (d : Nat) : RB := s.filter (· != d)
/-- `a.Or(b)` -/
def or (a b : RB) : RB := a ++ b.filter (fun d => !a.contains d)
/-- `a.And(b)` -/
def and (a b : RB) : RB := a.filter (fun d => b.contains d)
/-- `a.AndNot(b)` -/
def andNot (a b : RB) : RB := a.filter (fun d => !b.contains d)
/-- set equality of two representations -/
def same (a b : RB) : Bool := a.all b.contains && b.all a.contains
end RB

namespace BSI

/-- `bsi.Operation` (MIN / MAX are never passed by comet; `compareValue` panics on them) -/
inductive Op | lt | le | eq | ge | gt | range
deriving DecidableEq, Repr

structure T where
  /-- `bA[i]` = ids whose bit `i` is set -/
  bA : List RB
  /-- existence bitmap -/
  eBM : RB
deriving Repr

/-- `bits.Len64(uint64(v))` -/
def len64 (v : I64) : Nat := if v.toNat = 0 then 0 else Nat.log2 v.toNat + 1

def min64 : I64 := BitVec.ofNat 64 (2 ^ 63)
def max64 : I64 := BitVec.ofNat 64 (2 ^ 63 - 1)

/-- `NewBSI(maxValue, minValue)`: `bitsz = max(Len64(minValue), Len64(maxValue))` empty slices.
    (comet passes `(Min64BitSigned, Max64BitSigned)` — in the "wrong" order, harmless for
    the size.)  `MaxValue`/`MinValue` are only read by the auto-sizing branch of `SetValue`
    (`MaxValue == 0 && MinValue == 0`), which comet's constructor call never enables. -/
def newBSI (maxValue minValue : I64) : T :=
  let bitsz := if len64 maxValue > len64 minValue then len64 maxValue else len64 minValue
  ⟨List.replicate bitsz [], []⟩

/-- the instance comet creates in `addNumeric` -/
def new : T := newBSI min64 max64

def T.bitCount (b : T) : Nat := b.bA.length

/-- `b.bA[j].Contains(cID)`; `j < BitCount()` at every call site (the `none` branch is
    the index-out-of-range panic, unreachable and excluded by `Rep` in the proofs) -/
def T.bit (b : T) (j : Nat) (c : Nat) : Bool :=
  match b.bA[j]? with
  | some s => s.contains c
  | none => false

/-- `SetValue(columnID, value)` -/
def setValue (b : T) (c : Nat) (v : I64) : T :=
  let ex := b.eBM.contains c
  { bA := b.bA.mapIdx fun i s =>
      if v.getLsbD i then RB.add s c else if ex then RB.remove s c else s
    eBM := RB.add b.eBM c }

/-- `ClearBits(foundSet, target)` -/
def clearBits (found target : RB) : RB := found.foldl RB.remove target

/-- `ClearValues(foundSet)` -/
def clearValues (b : T) (found : RB) : T :=
  { bA := b.bA.map (clearBits found), eBM := clearBits found b.eBM }

/-- `GetValue(columnID)` (used by the state comparison of the driver only) -/
def getValue (b : T) (c : Nat) : Option I64 :=
  if b.eBM.contains c then
    some ((List.range b.bitCount).foldl
      (fun acc i => if b.bit i c then acc ||| (1#64 <<< i) else acc) 0#64)
  else none

/-! ### `compareValue`, per column id -/

structure Flags where
  eq1 : Bool := true
  eq2 : Bool := true
  lt1 : Bool := false
  lt2 : Bool := false
  gt1 : Bool := false
deriving DecidableEq, Repr

def Op.isGtLike : Op → Bool | .gt | .ge | .range => true | _ => false
def Op.isLtLike : Op → Bool | .lt | .le => true | _ => false

/-- one iteration of the `for ; j >= 0; j--` body: the new flags and whether a `break`
    was executed.  `sBit`/`eBit` = bit `j` of `compStartValue`/`compEndValue`,
    `slice` = `bA[j].Contains(cID)`. -/
def body (op : Op) (startNeg endNeg isNeg sBit eBit slice : Bool) (f : Flags) : Flags × Bool :=
  -- first half: compare with valueOrStart
  let r1 : Flags × Bool :=
    if sBit then
      -- BIT in value is SET
      if !slice && f.eq1 then
        let f := if op.isGtLike && startNeg && !isNeg then { f with gt1 := true } else f
        let f := if op.isLtLike && (!startNeg || startNeg == isNeg) then { f with lt1 := true } else f
        ({ f with eq1 := false }, true)
      else (f, false)
    else
      -- BIT in value is CLEAR
      if slice && f.eq1 then
        let f := if op.isLtLike && isNeg && !startNeg then { f with lt1 := true } else f
        let f := if op.isGtLike && (startNeg || startNeg == isNeg) then { f with gt1 := true } else f
        ({ f with eq1 := false }, op != .range)
      else (f, false)
  if r1.2 then r1 else
  let f := r1.1
  -- second half: compare with end (RANGE only)
  if op == .range && eBit then
    if !slice && f.eq2 then
      let f := if !endNeg || endNeg == isNeg then { f with lt2 := true } else f
      ({ f with eq2 := false }, startNeg && !endNeg)
    else (f, false)
  else if op == .range then
    if slice && f.eq2 then
      let f := if isNeg && !endNeg then { f with lt2 := true } else f
      ({ f with eq2 := false }, true)
    else (f, false)
  else (f, false)

/-- the loop over `j = n-1, …, 0` -/
def loop (op : Op) (startNeg endNeg isNeg : Bool) (cs ce : I64) (bits : Nat → Bool) :
    Nat → Flags → Flags
  | 0, f => f
  | j + 1, f =>
    let r := body op startNeg endNeg isNeg (cs.getLsbD j) (ce.getLsbD j) (bits j) f
    if r.2 then r.1 else loop op startNeg endNeg isNeg cs ce bits j r.1

/-- the final `switch e.op` -/
def verdict (op : Op) (startNeg isNeg : Bool) (f : Flags) : Bool :=
  match op with
  | .lt => f.lt1
  | .le => f.lt1 || (f.eq1 && (!startNeg || (startNeg && isNeg)))
  | .eq => f.eq1
  | .ge => f.gt1 || (f.eq1 && (startNeg || (!startNeg && !isNeg)))
  | .gt => f.gt1
  | .range => (f.eq1 || f.gt1) && (f.eq2 || f.lt2)

/-- the body of the `for i := 0; i < len(batch); i++` loop of `compareValue` for one
    column id whose slice membership is `bits`; `x = BitCount()`. -/
def compareOne (x : Nat) (bits : Nat → Bool) (op : Op) (start end_ : I64) : Bool :=
  let startNeg := x == 64 && start.getLsbD (x - 1)
  let endNeg := x == 64 && end_.getLsbD (x - 1)
  -- j := BitCount()-1; if x == 64 { isNegative = bA[j].Contains(cID); j-- }
  let isNeg := x == 64 && bits (x - 1)
  let n := if x == 64 then x - 1 else x
  let cs := if isNeg != startNeg then ~~~start + 1 else start
  let ce := if isNeg != endNeg then ~~~end_ + 1 else end_
  verdict op startNeg isNeg (loop op startNeg endNeg isNeg cs ce bits n {})

/-- `CompareValue(0, op, valueOrStart, end, nil)`: every column of the existence bitmap
    is judged by `compareOne`. -/
def compareValue (b : T) (op : Op) (start end_ : I64) : RB :=
  b.eBM.filter fun c => compareOne b.bitCount (fun j => b.bit j c) op start end_

/-- ordinary signed comparison on int64 — what `CompareValue` is documented to compute -/
def signedCmp (op : Op) (x start end_ : I64) : Bool :=
  match op with
  | .lt => decide (x.toInt < start.toInt)
  | .le => decide (x.toInt ≤ start.toInt)
  | .eq => decide (x = start)
  | .ge => decide (x.toInt ≥ start.toInt)
  | .gt => decide (x.toInt > start.toInt)
  | .range => decide (start.toInt ≤ x.toInt) && decide (x.toInt ≤ end_.toInt)

end BSI
end Comet
