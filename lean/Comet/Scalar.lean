/-
  Comet.Scalar — the operations on scores that the modelled code uses.

  Three kinds of instance:
    * the executable one over IEEE binary32 (`Comet.F32`, bit patterns carried as
      `UInt32` so that scores have decidable equality) used by the driver;
    * exact fields (ℚ / ℝ) in proof files;
    * the order-generic theorems only use `le`/`lt` through explicit hypotheses.
-/
namespace Comet

structure Scalar (S : Type) where
  zero   : S
  add    : S → S → S
  divNat : S → Nat → S      -- `x / float32(n)`
  le     : S → S → Bool     -- Go `a <= b`
  lt     : S → S → Bool     -- Go `a <  b`

/-- The order hypotheses under which ranking theorems are stated.  They hold for
    every exact ordered field and for IEEE floats without NaN. -/
structure Scalar.Ordered (sc : Scalar S) : Prop where
  total : ∀ a b : S, sc.le a b || sc.le b a
  trans : ∀ a b c : S, sc.le a b → sc.le b c → sc.le a c
  lt_iff : ∀ a b : S, sc.lt a b = !sc.le b a

end Comet
