/-
  Per-run obligations for C19 over facts regenerated from /repo's source
  (lean/CometGen/Facts_Post.lean, written by harness/cmd/facts on every run).

  Each obligation says "the anchored site still reads the way the model
  (Comet/Limiter.lean, Merge.lean, Agg.lean) transcribes it".  The facts are
  independent of the names of local variables and parameters (`$1, $2, …` in order of
  first occurrence within each expression; field names, constants, operators and the
  order of the operands are kept), so renaming is not a broken tie.  A failing
  obligation is a broken tie: the check then runs the correspondence stream with a
  boosted budget to look for a concrete failing input.

  `scoreMapToRanks` has no source-text obligation: how it sorts is an implementation
  choice (exchange sort, sort.Slice, …); that its answer is a 0-based best-first
  ranking is judged on the answers themselves (`checkRanksW`, `verifyRRFW`).
-/
import CometGen.Facts_Post
namespace CometGen.Obligations.C19
open CometGen.Facts.Post

/-- `Comet.autocut` / `autocutScan`: the guards, with the short-circuit `&&` in front
    of the second neighbour read and `i-2` for the last element. -/
theorem autocut_guards : autocutConds =
    ["len($1) <= 1", "$1 == 0", "$1 == len($2)-1 && len($2) > 1",
     "$1[$2] > $1[$2-1] && $1[$2] > $1[$2-2]", "$1 >= $2",
     "$1[$2] > $1[$2-1] && $1[$2] > $1[$2+1]", "$1 >= $2"] := by decide

/-- the slice reads of `Autocut` are exactly the checked reads of the model
    (`autocutDiff`: [i], [0], [len-1], [0]; `autocutScan`: [i], [i-1], [i], [i-2] / [i+1]) -/
theorem autocut_indexes : autocutIndexes =
    ["$1[$2]", "$1[0]", "$1[len($1)-1]", "$1[0]", "$1[$2]",
     "$1[$2]", "$1[$2-1]", "$1[$2]", "$1[$2-2]",
     "$1[$2]", "$1[$2-1]", "$1[$2]", "$1[$2+1]"] := by decide

/-- `Comet.autocutResults`: disabled by exactly −1, or an empty input -/
theorem autocut_results_guard : autocutResultsConds = ["$1 == -1 || len($2) == 0"] := by
  decide

/-- `limitResults` / `sliceTo`: prefixes -/
theorem limiter_slices : limiterSlices = ["$1[:$2]", "$1[:$2]"] := by decide

/-- `Comet.mergeStep`: strictly greater replaces -/
theorem merge_guard : mergeConds = ["len($1) == 0", "!$1 || $2.Score > $3"] := by decide

/-- `Comet.sortResultsByScore`: descending -/
theorem merge_sort : mergeSortCalls =
    ["sort.Slice($1, func($2, $3 int) bool { return $1[$2].Score > $1[$3].Score })"] := by
  decide

/-- vector aggregations sort ascending, text aggregations descending -/
theorem agg_sorts : aggSortCalls =
    ["sort.Slice($1, func($2, $3 int) bool { return $1[$2].Score < $1[$3].Score })",
     "sort.Slice($1, func($2, $3 int) bool { return $1[$2].Score < $1[$3].Score })",
     "sort.Slice($1, func($2, $3 int) bool { return $1[$2].Score < $1[$3].Score })",
     "sort.Slice($1, func($2, $3 int) bool { return $1[$2].Score > $1[$3].Score })",
     "sort.Slice($1, func($2, $3 int) bool { return $1[$2].Score > $1[$3].Score })",
     "sort.Slice($1, func($2, $3 int) bool { return $1[$2].Score > $1[$3].Score })"] := by
  decide

end CometGen.Obligations.C19
