/-
  Per-run obligations for C19 over facts regenerated from /repo's source
  (lean/CometGen/Facts_Post.lean, written by harness/cmd/facts on every run).

  Each obligation says "the anchored site still reads the way the model
  (Comet/Limiter.lean, Fusion.lean, Merge.lean, Agg.lean) transcribes it".  A failing
  obligation is a broken tie: the check then runs the correspondence stream with a
  boosted budget to look for a concrete failing input.
-/
import CometGen.Facts_Post
namespace CometGen.Obligations.C19
open CometGen.Facts.Post

/-- `Comet.autocut` / `autocutScan`: the guards, with the short-circuit `&&` in front
    of the second neighbour read and `i-2` for the last element. -/
theorem autocut_guards : autocutConds =
    ["len(yValues) <= 1", "i == 0", "i == len(diff)-1 && len(diff) > 1",
     "diff[i] > diff[i-1] && diff[i] > diff[i-2]", "extremaCount >= cutOff",
     "diff[i] > diff[i-1] && diff[i] > diff[i+1]", "extremaCount >= cutOff"] := by decide

/-- the slice reads of `Autocut` are exactly the checked reads of the model
    (`autocutDiff`: yValues[i], [0], [len-1], [0]; `autocutScan`: diff[i], [i-1], [i], [i-2] / [i+1]) -/
theorem autocut_indexes : autocutIndexes =
    ["yValues[i]", "yValues[0]", "yValues[len(yValues)-1]", "yValues[0]", "diff[i]",
     "diff[i]", "diff[i-1]", "diff[i]", "diff[i-2]",
     "diff[i]", "diff[i-1]", "diff[i]", "diff[i+1]"] := by decide

/-- `Comet.autocutResults`: disabled by exactly −1, or an empty input -/
theorem autocut_results_guard : autocutResultsConds = ["cutoff == -1 || len(results) == 0"] := by
  decide

/-- `limitResults` / `sliceTo`: prefixes -/
theorem limiter_slices : limiterSlices = ["results[:k]", "results[:cutIndex]"] := by decide

/-- `Comet.mergeStep`: strictly greater replaces -/
theorem merge_guard : mergeConds =
    ["len(results) == 0", "!exists || result.Score > existingScore"] := by decide

/-- `Comet.sortResultsByScore`: descending -/
theorem merge_sort : mergeSortCalls =
    ["sort.Slice(results, func(i, j int) bool { return results[i].Score > results[j].Score })"] := by
  decide

/-- `Comet.scoreMapToRanks`: 0-based position in the sorted slice -/
theorem ranks_zero_based : rankAssigns = ["ranks[ds.docID] = i"] := by decide

/-- `Comet.shouldSwap`: ascending swaps on `>`, descending on `<` -/
theorem ranks_swap : rankSwapAssigns =
    ["shouldSwap := false", "shouldSwap = sorted[i].score > sorted[j].score",
     "shouldSwap = sorted[i].score < sorted[j].score"] := by decide

/-- vector aggregations sort ascending, text aggregations descending -/
theorem agg_sorts : aggSortCalls =
    ["sort.Slice(aggregated, func(i, j int) bool { return aggregated[i].Score < aggregated[j].Score })",
     "sort.Slice(aggregated, func(i, j int) bool { return aggregated[i].Score < aggregated[j].Score })",
     "sort.Slice(aggregated, func(i, j int) bool { return aggregated[i].Score < aggregated[j].Score })",
     "sort.Slice(aggregated, func(i, j int) bool { return aggregated[i].Score > aggregated[j].Score })",
     "sort.Slice(aggregated, func(i, j int) bool { return aggregated[i].Score > aggregated[j].Score })",
     "sort.Slice(aggregated, func(i, j int) bool { return aggregated[i].Score > aggregated[j].Score })"] := by
  decide

end CometGen.Obligations.C19
