/-
  Per-run obligations for C12 over facts regenerated from /repo's source
  (lean/CometGen/Facts_HNSW.lean, written by harness/cmd/facts on every run).

  Each obligation says "the anchored site still reads the way the model
  (Comet/Vector/HNSW.lean) transcribes it".  A failing obligation is a broken tie:
  the check then runs the correspondence stream with a boosted budget.
-/
import CometGen.Facts_HNSW
import Comet.Vector.HNSW
namespace CometGen.Obligations.C12
open CometGen.Facts.HNSW

/-- `HNSW.addWith` with `registerFirst = true`: the first vertex is stored directly;
    every later one is registered in `idx.nodes` BEFORE `insertNode` links it
    (fix fb5d06f; the opposite order is defect D1: pruning drops every in-link of the
    new vertex). -/
theorem add_statement_order :
    addOrder = ["idx.nodes[id] = node", "idx.nodes[id] = node", "idx.insertNode(node)"] ∧
    Comet.HNSW.registerFirst = true := by decide

/-- `HNSW.insertLayers`: the cap is `M`, doubled on layer 0 (`M * 2`), and a neighbour is
    pruned exactly when its list exceeds the cap. -/
theorem layer0_cap :
    capStmts = ["M := idx.M", "if lc == 0", "M *= 2", "if len(neighbor.Edges[lc]) > M"] := by decide

/-- `HNSW.searchLayer` / `scanNbrs` / `stops` / `admits` (since fixes f6a780e): `ef` is
    clamped to ≥ 1; the start vertex always goes on the candidate heap, on the result heap
    only when not soft-deleted; early exit on `>`; visited neighbours are skipped (soft-deleted
    ones are NOT); admission on `<`; a soft-deleted neighbour is not pushed to the result heap;
    eviction when the result heap exceeds `ef`. -/
theorem searchLayer_sites :
    searchLayerConds =
      ["ef < 1",
       "!idx.deletedNodes.Contains(entryPoint)",
       "result.Len() >= ef && current.distance > (*result)[0].distance",
       "layer < len(node.Edges)",
       "!visited.Contains(neighborID)",
       "result.Len() < ef || d < (*result)[0].distance",
       "!idx.deletedNodes.Contains(neighborID)",
       "result.Len() > ef"] := by decide

/-- `HNSW.addWith` / `addFlushes`: `flushLocked` runs first when the id is still tombstoned
    (fix e29df80) and when the entry point is soft-deleted (fix f98dc7f). -/
theorem add_flush_sites :
    addFlushConds = ["id != 0 && idx.deletedNodes.Contains(id)",
                     "idx.deletedNodes.Contains(idx.entryPoint)"] := by decide

/-- `HNSW.prune`: ids missing from `idx.nodes` are skipped; at most `M` are kept. -/
theorem prune_sites : pruneConds = ["idx.nodes[nid] == nil", "len(candList) < M"] := by decide

/-- the candidate heap is a min-heap, the result heap a max-heap (strict comparisons) -/
theorem heap_orders :
    minHeapLess = ["return h[i].distance < h[j].distance"] ∧
    maxHeapLess = ["return h[i].distance > h[j].distance"] := by decide

end CometGen.Obligations.C12
