/-
  Per-run obligations for C01 over facts regenerated from /repo's source
  (lean/CometGen/Facts_Flat.lean, written by harness/cmd/facts on every run).

  Each obligation says "the anchored site still reads the way the model
  (Comet/Vector/Flat.lean) transcribes it".  A failing obligation is a broken tie
  (DESIGN.md §3 case 2): the check then runs the correspondence stream with a
  boosted budget to look for a concrete failing input.
-/
import CometGen.Facts_Flat
namespace CometGen.Obligations.C01
open CometGen.Facts.Flat

/-- `Flat.thrSkip`: skip iff `thr > 0 && dist > thr` (strict on both sides). -/
theorem threshold_site : thresholdConds = ["s.threshold > 0 && dist > s.threshold"] := by decide

/-- `Flat.searchSingle`: k sanitised against the stored count, then against the result count. -/
theorem sanitize_sites :
    sanitizeCalls = ["sanitizeK(s.k, len(s.index.vectors))", "sanitizeK(k, len(results))"] := by decide

/-- `Flat.scan`: soft-deleted and filtered-out ids are skipped. -/
theorem skip_sites :
    skipConds = ["s.index.deletedNodes.Contains(v.ID())", "docFilter.ShouldSkip(v.ID())"] := by decide

/-- `Comet.sanitizeK`. -/
theorem sanitizeK_site : sanitizeKConds = ["k <= 0 || k > maxResults"] := by decide

/-- ascending by distance with strict `<` -/
theorem sort_site : sortCalls =
    ["sort.Slice(results, func(i, j int) bool { return results[i].distance < results[j].distance })"] := by decide

end CometGen.Obligations.C01
