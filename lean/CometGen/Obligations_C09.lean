/-
  Per-run obligations for C09 over facts regenerated from /repo's source (Facts_Store.lean).
-/
import CometGen.Facts_Store
namespace CometGen.Obligations.C09
open CometGen.Facts.Store

/-- `execFlush` (D12, model constant flushRotatesMutable = false): Flush only calls flushMemtables —
    no rotation of the mutable memtable -/
theorem flush_site : flushCalls = ["s.flushMemtables()"] := by decide

/-- `Bg.fwake` / `Bg.ffinal`: one flushMemtables per signal and one final round on closeChan -/
theorem flush_worker : flushWorkerCalls = ["s.flushMemtables()", "s.flushMemtables()"] := by decide

/-- `Step.close` / `Step.closeDone`: close(closeChan), wait for the workers, then release LOCK;
    no rotation, no flush on the caller's goroutine -/
theorem close_site : closeCalls = ["close(s.closeChan)", "s.wg.Wait()", "s.provider.close()"] := by decide

/-- `butLast`: what Flush / Close persist is the queue without its last element -/
theorem list_frozen : listFrozenSlice = ["mq.queue[:len(mq.queue)-1]"] := by decide

/-- `initCounter`: every file name whose part after the first `_` (suffixes .bin.gz / .bin trimmed)
    is a decimal number counts — whatever its kind —, and the maximum is stored. Stated over the
    function together with the helpers it calls, by call shape, so that moving the parsing into a
    shared helper does not matter. -/
theorem counter_init :
    counterParse = ["strings.Split(_, \"_\")", "strings.TrimSuffix(_, \".bin.gz\")",
      "strings.TrimSuffix(_, \".bin\")", "strconv.ParseUint(_, 10, 64)", "_[1]"] ∧
    counterKindFilter = [] ∧ counterMax = ["id > maxSegmentID"] ∧
    counterStore = ["p.segmentCounter.Store(maxSegmentID)"] := by decide

/-- `writeSegment`: id := counter + 1 (atomic add) -/
theorem next_id : nextID = ["p.segmentCounter.Add(1)"] := by decide

/-- `listSegments`: a segment is what has a hybrid_ file -/
theorem list_segments : listPrefix = ["strings.HasPrefix(name, \"hybrid_\")"] := by decide

end CometGen.Obligations.C09
