/-
  Per-run obligations for C11 over the lock facts regenerated from /repo's source
  (lean/CometGen/Facts_Locks.lean, written by harness/cmd/facts/facts_locks.go on every run).

  * `discipline_facts`      — (A) the lock discipline holds of the regenerated event table.
                              With `Comet.Conc.checkRaw_sound` and `lockset_sound`
                              (CometProofs/Properties/C11.lean) this gives: no reachable state
                              of the abstract machine over *today's* table has a data race.
                              A field read outside its lock, a write under RLock, a Flush
                              without the lock, a helper called before locking … make this
                              obligation fail (broken tie, DESIGN §3 case 2).
  * `whitelist_*`           — the explicit list of exempted accesses and the facts that
                              justify each entry (see below).
  * `lockorder_facts`       — (B) every nested acquisition goes strictly upwards in `rank`.

  Whitelist (benign by construction, or outside the property's operation set):
    - `compactSegments` reads `segmentMetadata.numDocs` without the segment's lock.  The field
      is written only by `updateStats` (`whitelist_writers_pinned`) and `updateStats` is only
      ever called on a segment constructed in the calling function, before it is published
      with `segmentManager.add` (`updateStats_only_before_publication`): written before
      publication, never after — the publication (a W-locked append read under the R lock)
      orders the write before every read.
    - `IVFIndex/PQIndex/IVFPQIndex.Trained()` read `trained` without the lock.  The only
      writers are `Train` and `ReadFrom` (`whitelist_writers_pinned`), which are not among the
      operations C11 runs concurrently (Add / Remove / search / Flush / WriteTo / store ops).
      Calling `Trained()` concurrently with `Train` or `ReadFrom` IS a data race of comet
      (reported, outside this property's quantifier).
  Immutable-after-construction fields read without any lock (class 1 in the facts; the check
  verifies that NO function of the table writes them): dim, distance, distanceKind, M, Ksub,
  dsub, nlist, efConstruction, … of the vector indexes; `hybridSearchIndex.vectorIndex /
  textIndex / metadataIndex` (hybrid search takes no lock of its own — it only reads these
  three pointers and then calls the sub-indexes, which lock themselves); `memtable.index`,
  `memtable.sizeLimit`, `memtable.createdAt`; the template / limit fields of `memtableQueue`;
  `PersistentHybridIndex.config / provider / memtableQueue / segmentManager`;
  `segmentMetadata.id` and paths.
-/
import Comet.Conc.Lockset
import CometGen.Facts_Locks
namespace CometGen.Obligations.C11
open Comet.Conc CometGen.Facts.Locks

/-- the exempted accesses are exactly these four -/
theorem whitelist_pinned : whitelistNames =
    [("IVFIndex.Trained", "IVFIndex.trained"), ("IVFPQIndex.Trained", "IVFPQIndex.trained"),
     ("PQIndex.Trained", "PQIndex.trained"),
     ("PersistentHybridIndex.compactSegments", "segmentMetadata.numDocs")] := by decide

/-- who writes the whitelisted fields -/
theorem whitelist_writers_pinned : whitelistedFieldWriters =
    [("IVFIndex.trained", ["IVFIndex.ReadFrom", "IVFIndex.Train"]),
     ("IVFPQIndex.trained", ["IVFPQIndex.ReadFrom", "IVFPQIndex.Train"]),
     ("PQIndex.trained", ["PQIndex.ReadFrom", "PQIndex.Train"]),
     ("segmentMetadata.numDocs", ["segmentMetadata.updateStats"])] := by decide

/-- `updateStats` is never called on a segment that other goroutines can already reach -/
theorem updateStats_only_before_publication : updateStatsCallsOnPublished = [] := by decide

/-- **(A) per-run obligation**: `Discipline` of the regenerated table (decoded from the raw
    facts), evaluated by the kernel. -/
theorem discipline_facts : checkRaw table fieldClasses whitelist = true := by decide +kernel

/-- The six soft-delete `Remove` methods are ONE write-locked region (`atomicRemove` of the
    protocol model, Comet/Conc/RemoveProto.lean; the hypothesis of `never_panics`).  The former
    shape `[R: check] ; [W: tombstone]` — modes `[[0, 1]]` — had a window in which a concurrent
    Remove + Flush left a stale tombstone and the next Flush panicked (defect D16, found by
    this check, repaired in /repo by fb7bd70; `remove_flush_window_panics`).  Re-introducing the
    window makes this obligation fail. -/
theorem remove_is_one_write_region :
    (["BM25SearchIndex.Remove", "FlatIndex.Remove", "HNSWIndex.Remove", "IVFIndex.Remove",
      "IVFPQIndex.Remove", "PQIndex.Remove"].all fun f =>
        removeShapes.any fun p => p.1 == f && p.2 == [[1]]) = true := by decide

/-! ### (B) lock order -/

/-- the strict order on lock classes every nested acquisition must respect -/
def rank : String → Option Nat
  | "PersistentHybridIndex" => some 0
  | "memtableQueue" => some 1
  | "segmentManager" => some 1
  | "memtable" => some 2
  | "segmentMetadata" => some 2
  | "hybridSearchIndex" => some 3
  | "FlatIndex" | "HNSWIndex" | "IVFIndex" | "PQIndex" | "IVFPQIndex" => some 4
  | "BM25SearchIndex" | "RoaringMetadataIndex" => some 4
  | _ => none

/-- Values of interface type `HybridSearchIndex` inside the store (memtable.index,
    segmentMetadata.cachedIndex, compaction's merged index) all come from
    `NewHybridSearchIndex` (directly or handed on by `memtable.flush` / `getIndex`), i.e. they
    are `*hybridSearchIndex`, never a `*PersistentHybridIndex`.  The extractor resolves a call
    through the interface to both implementations; the edges below exist only through the
    impossible one. -/
theorem hybrid_iface_values :
    hybridIfaceProducers = ["NewHybridSearchIndex", "memtable.flush", "segmentMetadata.getIndex"] := by
  decide

/-- The only nesting edges that the extractor sees through dynamic dispatch of a
    `HybridSearchIndex` call to a `*PersistentHybridIndex` method (impossible, see
    `hybrid_iface_values`) are these five; they are not judged.  Every other edge — in
    particular a *direct* memtable → memtableQueue nesting — is in `nesting` and is judged.
    (Since 22d1a03 `memtableQueue.add` writes under the queue lock: the direct chain
    memtableQueue → memtable → hybridSearchIndex → vector / text / metadata index is in `nesting`
    and goes strictly upwards in `rank`.) -/
theorem via_store_iface_pinned : nestingViaStoreIface =
    [("memtable", "PersistentHybridIndex"), ("memtable", "memtable"), ("memtable", "memtableQueue"),
     ("memtableQueue", "PersistentHybridIndex"), ("memtableQueue", "memtableQueue")] := by
  decide

/-- (D) tie: the locked shape of the rotation model (`rstep true`, hypothesis of
    `add_never_fails_or_lost`) is what the code does — `memtableQueue.add` / `addWithID` call
    `memtable.add` / `addWithID` while holding the queue's write lock.  Releasing the queue
    lock before the write (the former shape, D15) makes this obligation fail. -/
theorem queue_add_writes_under_lock : queueAddWritesUnderLock =
    [("memtableQueue.add", true), ("memtableQueue.addWithID", true)] := by decide

/-- **(B) per-run obligation**: `lockorder_acyclic` over the regenerated nesting edges. -/
theorem lockorder_facts : lockOrderOK rank [] nesting = true := by decide

/-! ### (E) the id counter -/

/-- The model of (E) — every draw is ONE atomic region on one global counter — is what the
    code does: the only statements touching `nodeIDCounter` are the two `atomic.AddUint32`. -/
theorem id_counter_atomic : idCounterSites =
    ["NewMetadataNode: atomic.AddUint32(&nodeIDCounter, 1)",
     "NewVectorNode: atomic.AddUint32(&nodeIDCounter, 1)"] := by decide

end CometGen.Obligations.C11
