/-
  Per-run obligations for C08 over facts regenerated from /repo's source
  (lean/CometGen/Facts_Store.lean): the anchored sites of the store still read the way
  Comet/Storage/Store.lean transcribes them. A failing obligation is a broken tie
  (DESIGN §3 case 2): the check then runs the `store` stream with a boosted budget.
-/
import CometGen.Facts_Store
namespace CometGen.Obligations.C08
open CometGen.Facts.Store

/-- `flushAll` / `Bg.fwrite`, `Bg.fremove`: listFrozen once, then per memtable flushMemtable BEFORE queue.remove -/
theorem flush_loop : flushLoopCalls =
    ["s.memtableQueue.listFrozen()", "s.flushMemtable(mt)", "s.memtableQueue.remove(mt)"] := by decide

/-- `butLast`: listFrozen returns all but the last queue element -/
theorem list_frozen : listFrozenSlice = ["mq.queue[:len(mq.queue)-1]"] := by decide

/-- `removeMt`: the last element is never removed -/
theorem queue_remove_guard : queueRemoveConds = ["i == len(mq.queue)-1"] := by decide

/-- `rotateQ`: freeze the mutable memtable, create a new one over the SAME templates (D13), append -/
theorem rotate : rotateCalls =
    ["mq.mutable.freeze()",
     "newMemtable( mq.vecIdxTemplate, mq.txtIdxTemplate, mq.metaIdxTemplate, mq.memtableSizeLimit, )",
     "append(mq.queue, mq.mutable)"] := by decide

/-- `hasRoom`: not frozen and size + estimate ≤ limit -/
theorem has_room : hasRoomReturns = ["false", "currentSize+estimatedSize <= m.sizeLimit"] := by decide

/-- `execRemove`: only the mutable (last) memtable is consulted -/
theorem remove_site : removeIndex = ["memtables[len(memtables)-1]"] := by decide

/-- `Bg.clist`: fewer than threshold → nothing; else the FIRST threshold segments of the list -/
theorem compact_choice : compactConds = ["len(segments) < s.config.CompactionThreshold"] ∧
    compactSlice = ["segments[:s.config.CompactionThreshold]"] := by decide

/-- `Bg.cload` … `Bg.cswap` (D14): load each source, new id, write, register, then per source
    unregister + delete; nothing is ever added to the merged index -/
theorem compact_steps : compactCalls =
    ["seg.getIndex( s.config.VectorIndexTemplate, s.config.TextIndexTemplate, s.config.MetadataIndexTemplate, )",
     "s.provider.nextSegmentID()",
     "s.writeIndexToSegment(mergedIndex, hybridPath, vectorPath, textPath, metadataPath)",
     "s.segmentManager.add(newSegment)", "s.segmentManager.remove(seg.id)",
     "s.provider.deleteSegment(seg.id)"] := by decide

/-- `removeSwap`: overwrite with the last element, truncate -/
theorem segment_remove : segRemoveAssigns =
    ["sm.segments[i] = sm.segments[len(sm.segments)-1]", "sm.segments = sm.segments[:len(sm.segments)-1]"] := by decide

/-- `segEvent .load`: a fresh hybrid wrapper over the templates handed in (D13), deserialise, cache -/
theorem get_index : getIndexOps =
    ["NewHybridSearchIndex(vecIdx, txtIdx, metaIdx)", "os.Open(s.hybridPath)", "os.Open(s.vectorPath)",
     "os.Open(s.textPath)", "os.Open(s.metadataPath)", "readerFrom.ReadFrom(combinedReader)",
     "io.Copy(io.Discard, combinedReader)", "s.cachedIndex = idx"] := by decide

end CometGen.Obligations.C08
