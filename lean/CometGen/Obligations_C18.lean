/-
  Per-run obligations for C18 over facts regenerated from /repo's distance.go
  (lean/CometGen/Facts_Dist.lean, written by harness/cmd/facts on every run).

  Each obligation says "the anchored site still reads the way the model
  (Comet/Distance.lean) transcribes it".  They cover what random inputs detect
  poorly: the clamp bounds (a float32 dot product of unit vectors leaves [-1,1] only
  by a few ulp), the exact zero test, and the absence of writes to arguments.
-/
import CometGen.Facts_Dist
namespace CometGen.Obligations.C18
open CometGen.Facts.Dist

/-- `Dist.clamp`: clamp to [-1, 1], in `Calculate` and in `CalculateBatch`. -/
theorem clamp_conds : cosineCalcConds = ["dot > 1", "dot < -1"] ∧ cosineBatchConds = ["dot > 1", "dot < -1"] := by decide
theorem clamp_writes : cosineDotWrites = ["dot += a[i] * b[i]", "dot = 1", "dot = -1"] := by decide
theorem cosine_result : cosineCalcReturns = ["return 1 - dot"] := by decide

/-- `Dist.euclid` / `Dist.l2sq`: no branches; root through float64 / no root. -/
theorem euclid_result : euclideanCalcReturns = ["return float32(math.Sqrt(float64(sum)))"] ∧
    euclideanCalcConds = [] ∧ euclideanBatchConds = [] := by decide
theorem l2sq_result : l2SquaredCalcReturns = ["return sum"] ∧
    l2SquaredCalcConds = [] ∧ l2SquaredBatchConds = [] := by decide

/-- no `Calculate` / `CalculateBatch` writes to an argument -/
theorem calculate_pure : euclideanCalcArgWrites = [] ∧ l2SquaredCalcArgWrites = [] ∧ cosineCalcArgWrites = [] := by decide

/-- `Dist.cosPre`: rejects exactly `norm == 0`; `Preprocess` never writes to its argument,
    `PreprocessInPlace` writes only the scaled components. -/
theorem cos_pre_zero_test : cosinePreConds = ["norm == 0"] ∧ cosineInPlaceConds = ["norm == 0"] := by decide
theorem cos_pre_pure : cosinePreWrites = [] ∧ cosinePreReturns = ["return nil, ErrZeroVector", "return result, nil"] := by decide
theorem cos_inplace_writes : cosineInPlaceWrites = ["target[i] *= scale"] := by decide

/-- `Dist.preprocess` for the L2 kinds: the argument itself, untouched. -/
theorem l2_pre_identity : euclideanPreReturns = ["return target, nil"] ∧ l2SquaredPreReturns = ["return target, nil"] ∧
    euclideanPreWrites = [] ∧ l2SquaredPreWrites = [] ∧ euclideanInPlaceWrites = [] ∧ l2SquaredInPlaceWrites = [] ∧
    euclideanPreConds = [] ∧ l2SquaredPreConds = [] ∧ euclideanInPlaceConds = [] ∧ l2SquaredInPlaceConds = [] := by decide

/-- helpers: `Norm`, `Scale`, `Normalize` never write to their argument; zero test of `Normalize*`. -/
theorem helpers_pure : normWrites = [] ∧ scaleWrites = [] ∧ normalizeWrites = [] := by decide
theorem helpers_shape : normReturns = ["return float32(math.Sqrt(float64(sum)))"] ∧ normConds = [] ∧ scaleConds = [] ∧
    normalizeConds = ["norm == 0"] ∧ normalizeInPlaceConds = ["norm == 0"] ∧
    normalizeInPlaceWrites = ["v[i] *= scale"] := by decide

end CometGen.Obligations.C18
