/-
  Per-run obligations for C03 over facts regenerated from /repo's source
  (lean/CometGen/Facts_BM25.lean, written by harness/cmd/facts on every run).

  Each obligation says "the anchored site still reads the way the model
  (Comet/BM25.lean, Comet/BM25F.lean) transcribes it".  A failing obligation is a
  broken tie (DESIGN.md §3 case 2): the check then runs the correspondence stream
  with a boosted budget to look for a concrete failing input.
-/
import CometGen.Facts_BM25
namespace CometGen.Obligations.C03
open CometGen.Facts.BM25

/-- `BM25F.K1 = 1.2`, `BM25F.B = 0.75` -/
theorem k1_is_1_2 : k1 = "1.2" := by decide
theorem b_is_0_75 : b = "0.75" := by decide

/-- `N` is `numDocs` (soft-deleted documents included), `df` the posting cardinality -/
theorem n_site : nExpr = ["float64(s.index.numDocs.Load())"] := by decide
theorem df_site : dfExpr = ["float64(bitmap.GetCardinality())"] := by decide

/-- `BM25F.idfF`: `ln((N-df+0.5)/(df+0.5)+1)` -/
theorem idf_site : idfExpr = ["math.Log((N-df+0.5)/(df+0.5) + 1.0)"] := by decide

/-- `BM25F.scoreF`, operation order included -/
theorem score_site :
    scoreExpr = ["idf * (tfVal * (K1 + 1)) / (tfVal + K1*(1-B+B*(docLen/s.index.avgDocLen)))"] := by decide

/-- `BM25.scoreTok`: soft-deleted and filtered-out postings are skipped -/
theorem skip_sites :
    skipConds = ["s.index.deletedDocs.Contains(docID)", "docFilter.ShouldSkip(docID)"] := by decide

/-- `BM25.rankWith`: full sort iff `k ≤ 0 ∨ k ≥ len(scores)` -/
theorem branch_site : branchConds = ["k <= 0 || k >= len(scores)"] := by decide

/-- `BM25.heapStep`: push while the heap is short, then replace the minimum on strict `>` -/
theorem replace_site : replaceConds = ["score > (*h)[0].Score"] := by decide

/-- min-heap on the score -/
theorem less_site : heapLess = ["h[i].Score < h[j].Score"] := by decide

/-- `BM25.add`: the tombstone of the added id is cleared -/
theorem add_clears_tombstone : addTombCalls = ["ix.deletedDocs.Remove(id)"] := by decide

end CometGen.Obligations.C03
