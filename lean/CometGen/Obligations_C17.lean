/-
  Per-run obligations for C17 over facts regenerated from /repo's source
  (lean/CometGen/Facts_Lock.lean, written by harness/cmd/facts on every run).

  Each obligation says "the anchored site still reads the way the model
  (Comet/Storage/Lock.lean) transcribes it".  A failing obligation is a broken tie
  (DESIGN.md §3 case 2): the check then runs the `lock` stream with a boosted budget
  to look for a concrete failing history.
-/
import CometGen.Facts_Lock
namespace CometGen.Obligations.C17
open CometGen.Facts.Lock

/-- `oCreate` is an exclusive create: the flag set of the OpenFile call in acquireLock
    contains O_CREATE and O_EXCL (the assumption "atomic test-and-set" is about exactly
    this call). -/
theorem create_is_exclusive :
    "os.O_CREATE" ∈ acquireLockFlags ∧ "os.O_EXCL" ∈ acquireLockFlags := by decide

/-- … on the entry LOCK of the base directory; EEXIST is the "locked" answer. -/
theorem lock_path_site : lockPathExpr = "filepath.Join(p.baseDir, \"LOCK\")" ∧
    acquireLockIfs = ["if err != nil", "if os.IsExist(err)", "if err != nil"] := by decide

/-- (The extractor prints every string literal of an error return as "…": what a message says is
    not a fact the model depends on — rewording it preserves behaviour —, the order, shape and
    clean-up of the returns is.)
    `oWritePid` failure → `oCleanup`: after the create succeeded, acquireLock's only
    error return is preceded by lockFile.Close() and os.Remove(lockPath); the two returns
    of the create's own failure have nothing to clean up. -/
theorem acquireLock_error_paths : acquireLockErrorReturns =
    [("return fmt.Errorf(\"…\")", false),
     ("return fmt.Errorf(\"…\", err)", false),
     ("return fmt.Errorf(\"…\", err)", true)] := by decide

/-- `oReadDir1` failure → `oCleanup`: every error return of newStorageProvider after a
    successful acquireLock is preceded by provider.releaseLock(), and there is exactly
    the one the model has. -/
theorem newStorageProvider_error_paths : newProviderErrorReturns =
    [("return nil, fmt.Errorf(\"…\", err)", true)] := by decide

/-- `oReadDir2` failure → `oCleanup`: every error return of OpenPersistentHybridIndex after
    a successful newStorageProvider is preceded by provider.close(); the first entry is
    newStorageProvider's own failure (no provider exists). -/
theorem open_error_paths : openErrorReturns =
    [("return nil, fmt.Errorf(\"…\", err)", false),
     ("return nil, fmt.Errorf(\"…\", err)", true)] := by decide

/-- every error return after the lock was taken is cleaned (the statement the brief asks for) -/
theorem every_error_return_after_lock_releases :
    (acquireLockErrorReturns.drop 2).all (·.2) = true ∧ newProviderErrorReturns.all (·.2) = true ∧
    (openErrorReturns.drop 1).all (·.2) = true := by decide

/-- the step list of `open`: mkdir; create+pid; [yield]; readDir₁ (release on failure);
    [yield]; readDir₂ (close on failure); spawn two workers. -/
theorem open_step_order :
    newProviderSteps = ["err := os.MkdirAll(baseDir, 0755)", "err := provider.acquireLock()",
      "verifPoint(\"newStorageProvider:locked\")", "err := provider.initSegmentCounter()",
      "provider.releaseLock()", "verifPoint(\"newStorageProvider:ready\")", "return provider, nil"] ∧
    openSteps = ["provider, err := newStorageProvider(config.BaseDir)",
      "segmentIDs, err := provider.listSegments()", "provider.close()", "storage.wg.Add(2)",
      "go storage.flushWorker()", "go storage.compactionWorker()", "return storage, nil"] := by decide

/-- `cRelease; cRemove; cClear`: nil check, close the descriptor, remove LOCK, forget it. -/
theorem releaseLock_step_order :
    releaseLockSteps = ["if p.lockFile == nil", "return nil",
      "lockPath := filepath.Join(p.baseDir, \"LOCK\")", "err := p.lockFile.Close()", "if err != nil",
      "err := os.Remove(lockPath)", "if err != nil && !os.IsNotExist(err)", "p.lockFile = nil", "return nil"] ∧
    providerCloseSteps = ["return p.releaseLock()"] := by decide

/-- `cTest; cSignal; cWait; cRelease…`: Close sets `closed` under the store lock first,
    stops and awaits the workers next, and releases the LOCK last (the yield point the
    harness parks at sits right after the test-and-set). -/
theorem close_step_order :
    closeSteps = ["s.mu.Lock()", "if s.closed", "s.mu.Unlock()", "s.closed = true", "s.mu.Unlock()",
      "verifPoint(\"close:closed\")", "close(s.closeChan)", "s.wg.Wait()",
      "err := s.provider.close()", "if err != nil"] := by decide

/-- the flush worker does its final flush and only then lets wg.Wait() return -/
theorem flushWorker_shutdown :
    flushWorkerShutdown = ["verifPoint(\"flushWorker:final\")", "s.flushMemtables()",
      "verifPoint(\"flushWorker:exit\")", "return"] ∧
    flushWorkerDefers = ["defer s.wg.Done()"] := by decide

/-- The exported methods of *PersistentHybridIndex, and whether each begins with the
    `closed` test under the read lock:
      guarded (model `OpKind`): Add, AddWithID, Remove, Train, Flush, and Execute of the
        search builder;  Close: test-and-set under the write lock;
      not guarded: NewSearch (only builds the value whose Execute is guarded),
        VectorIndex / TextIndex / MetadataIndex (return a field of the configuration),
        WriteTo / ReadFrom (always "not supported"), TriggerCompaction (non-blocking send
        on a buffered channel nobody reads after Close) — none of them touches the
        provider, the memtables or the segments. -/
theorem closed_guard_of_every_exported_method : exportedMethods =
    [("Add", "rlock-closed-test", "closed,maybeScheduleFlush,memtableQueue,mu"),
     ("AddWithID", "rlock-closed-test", "closed,maybeScheduleFlush,memtableQueue,mu"),
     ("Close", "lock-test-and-set", "closeChan,closed,mu,provider,wg"),
     ("Flush", "rlock-closed-test", "closed,flushMemtables,mu"),
     ("MetadataIndex", "none", "config"),
     ("NewSearch", "none", ""),
     ("ReadFrom", "none", ""),
     ("Remove", "rlock-closed-test", "closed,memtableQueue,mu"),
     ("TextIndex", "none", "config"),
     ("Train", "rlock-closed-test", "closed,config,mu"),
     ("TriggerCompaction", "none", "compactionChan"),
     ("VectorIndex", "none", "config"),
     ("WriteTo", "none", "")] ∧ executeGuard = "rlock-closed-test" := by decide

/-- in particular: every exported method that touches the provider, the memtable queue,
    the segment manager or the flush path begins with the `closed` test -/
theorem unguarded_methods_touch_no_store_state :
    (exportedMethods.filter (fun m => m.2.1 == "none")).all (fun m =>
      m.2.2 == "" || m.2.2 == "config" || m.2.2 == "compactionChan") = true := by decide

end CometGen.Obligations.C17
