/-
  Per-run obligations for C07 / C16 over the serialisation layouts re-extracted from
  /repo's source on every run (lean/CometGen/Facts_Layout.lean, written by
  harness/cmd/facts/facts_layout.go): for each of the 16 functions the sequence of
  primitive I/O calls in source order with the static type of every written / read
  value and the enclosing loop / if structure, the receiver comparisons of ReadFrom
  (`guard:<cond>`), and the cases of the counting type switches.

  Each obligation says "this WriteTo / ReadFrom still reads the way the model transcribes
  it": the extracted layout equals the layout constant that sits next to the model's
  encoder / decoder (Comet.Codec.<Kind>.layout), rendered for the read side (with guards
  and blob decodes) resp. the write side (without).  In particular
    * WriteTo and ReadFrom of a kind have the same layout (both equal the same constant);
    * every call is error-checked and counted: a deviation shows in the extracted token
      as a suffix (`!unchecked`, `!uncounted`, `?type`) that no model token carries —
      this is the facts side of `count_write_<kind>` / `count_read_<kind>`: the static type
      of every `write(x)` / `read(&x)` argument is one the counting switch handles with the
      right size, and every raw `w.Write` / `io.ReadFull` is followed by its manual `+=`;
    * the switch tables are the ones the model's `Switch` functions implement.
  A failing obligation is a broken tie (DESIGN.md §3 case 2): the check then runs the
  correspondence streams with a boosted budget to look for a concrete failing input.
-/
import CometGen.Facts_Layout
import Comet.Codec.Any
namespace CometGen.Obligations.C07
open CometGen.Facts.Layout Comet.Codec

theorem flat_read : flat_ReadFrom = renderRead Flat.layout := by decide
theorem flat_write : flat_WriteTo = renderWrite Flat.layout := by decide
theorem hnsw_read : hnsw_ReadFrom = renderRead HNSW.layout := by decide
theorem hnsw_write : hnsw_WriteTo = renderWrite HNSW.layout := by decide
theorem ivf_read : ivf_ReadFrom = renderRead IVF.layout := by decide
theorem ivf_write : ivf_WriteTo = renderWrite IVF.layout := by decide
theorem pq_read : pq_ReadFrom = renderRead PQ.layout := by decide
theorem pq_write : pq_WriteTo = renderWrite PQ.layout := by decide
theorem ivfpq_read : ivfpq_ReadFrom = renderRead IVFPQ.layout := by decide
theorem ivfpq_write : ivfpq_WriteTo = renderWrite IVFPQ.layout := by decide
theorem bm25_read : bm25_ReadFrom = renderRead BM25.layout := by decide
theorem bm25_write : bm25_WriteTo = renderWrite BM25.layout := by decide
theorem meta_read : meta_ReadFrom = renderRead Meta.layout := by decide
theorem meta_write : meta_WriteTo = renderWrite Meta.layout := by decide
theorem hybrid_read : hybrid_ReadFrom = renderRead Hybrid.layout := by decide
theorem hybrid_write : hybrid_WriteTo = renderWrite Hybrid.layout := by decide

/-- the counting type switches are the ones the models' `Switch` functions transcribe -/
theorem switches :
    flat_WriteTo_switch = Flat.swWFacts ∧ flat_ReadFrom_switch = Flat.swRFacts ∧
    hnsw_WriteTo_switch = HNSW.swWFacts ∧ hnsw_ReadFrom_switch = HNSW.swRFacts ∧
    ivf_WriteTo_switch = IVF.swWFacts ∧ ivf_ReadFrom_switch = IVF.swRFacts ∧
    pq_WriteTo_switch = PQ.swWFacts ∧ pq_ReadFrom_switch = PQ.swRFacts ∧
    ivfpq_WriteTo_switch = IVFPQ.swWFacts ∧ ivfpq_ReadFrom_switch = IVFPQ.swRFacts ∧
    bm25_WriteTo_switch = BM25.swWFacts ∧ bm25_ReadFrom_switch = BM25.swRFacts ∧
    meta_WriteTo_switch = Meta.swWFacts ∧ meta_ReadFrom_switch = Meta.swRFacts ∧
    hybrid_WriteTo_switch = Hybrid.swWFacts ∧ hybrid_ReadFrom_switch = Hybrid.swRFacts := by
  decide

/-- the `Switch` functions agree with the fact tables they are written after: a scalar
    type listed with increment n is counted n, a type not listed is counted 0 -/
def goTy : Ty → String
  | .u8 => "uint8" | .u32 => "uint32" | .i32 => "int32" | .f32 => "float32"
  | .u64 => "uint64" | .i64 => "int64" | .f64 => "float64"

def tableSwitch (ptr : Bool) (facts : SwitchFacts) (t : Ty) : Nat :=
  match facts.find? (·.1 == (if ptr then "*" else "") ++ goTy t) with
  | some (_, "1") => 1 | some (_, "4") => 4 | some (_, "8") => 8
  | _ => 0

def allTy : List Ty := [.u8, .u32, .i32, .f32, .u64, .i64, .f64]

theorem switch_functions_match_tables :
    allTy.all (fun t =>
      Flat.swW t == tableSwitch false Flat.swWFacts t && Flat.swR t == tableSwitch true Flat.swRFacts t &&
      HNSW.swW t == tableSwitch false HNSW.swWFacts t && HNSW.swR t == tableSwitch true HNSW.swRFacts t &&
      IVF.swW t == tableSwitch false IVF.swWFacts t && IVF.swR t == tableSwitch true IVF.swRFacts t &&
      PQ.swW t == tableSwitch false PQ.swWFacts t && PQ.swR t == tableSwitch true PQ.swRFacts t &&
      IVFPQ.swW t == tableSwitch false IVFPQ.swWFacts t && IVFPQ.swR t == tableSwitch true IVFPQ.swRFacts t &&
      BM25.swW t == tableSwitch false BM25.swWFacts t && BM25.swR t == tableSwitch true BM25.swRFacts t &&
      Meta.swW t == tableSwitch false Meta.swWFacts t && Meta.swR t == tableSwitch true Meta.swRFacts t &&
      Hybrid.swR t == tableSwitch true Hybrid.swRFacts t) = true := by decide

end CometGen.Obligations.C07
