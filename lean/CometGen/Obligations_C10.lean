/-
  Per-run obligations for C10 over facts regenerated from /repo's source (Facts_Store.lean):
  the ORDER of file operations that Comet/Storage/FS.lean (`comps`, `closeOrder`, `deleteSteps`)
  and Comet/Storage/Store.lean (`writeSteps`, `loadSeg`) transcribe.
-/
import CometGen.Facts_Store
namespace CometGen.Obligations.C10
open CometGen.Facts.Store

/-- `writeSteps` for flushMemtable: id first; create hybrid, vector, text, metadata (the first four
    Close calls are the deferred ones); WriteTo; close vector, text, metadata, hybrid; register last -/
theorem flush_file_ops : flushFileOps =
    ["s.provider.nextSegmentID()", "os.Create(hybridPath)", "hybridGz.Close()", "os.Create(vectorPath)",
     "vectorGz.Close()", "os.Create(textPath)", "textGz.Close()", "os.Create(metadataPath)",
     "metadataGz.Close()", "idx.WriteTo(hybridGz, vectorGz, textGz, metadataGz)", "vectorGz.Close()",
     "textGz.Close()", "metadataGz.Close()", "hybridGz.Close()", "s.segmentManager.add(segment)"] := by decide

/-- the same shape for the compaction's writeIndexToSegment -/
theorem segwrite_file_ops : segwriteFileOps =
    ["os.Create(hybridPath)", "hybridGz.Close()", "os.Create(vectorPath)", "vectorGz.Close()",
     "os.Create(textPath)", "textGz.Close()", "os.Create(metadataPath)", "metadataGz.Close()",
     "idx.WriteTo(hybridGz, vectorGz, textGz, metadataGz)", "vectorGz.Close()", "textGz.Close()",
     "metadataGz.Close()", "hybridGz.Close()"] := by decide

/-- `deleteSteps`: hybrid, vector, text, metadata -/
theorem delete_order : deleteOrder = ["[]string{hybrid, vector, text, metadata}"] := by decide

/-- `listSegments`: keyed on the hybrid_ file (the first created, the first deleted) -/
theorem list_segments : listPrefix = ["strings.HasPrefix(name, \"hybrid_\")"] := by decide

/-- `initCounter`: every file name whose part after the first `_` is a number counts, orphans of any
    kind included (call shapes over the function and its helpers) -/
theorem counter_init :
    counterParse = ["strings.Split(_, \"_\")", "strings.TrimSuffix(_, \".bin.gz\")",
      "strings.TrimSuffix(_, \".bin\")", "strconv.ParseUint(_, 10, 64)", "_[1]"] ∧
    counterKindFilter = [] ∧ counterMax = ["id > maxSegmentID"] := by decide

/-- `openAll` then `readAll`: all four files are opened (in this order) before the one ReadFrom;
    the MultiReader is drained afterwards (`readAll … [] = (!prevCut, T)`), before the index is cached -/
theorem get_index : getIndexOps =
    ["NewHybridSearchIndex(vecIdx, txtIdx, metaIdx)", "os.Open(s.hybridPath)", "os.Open(s.vectorPath)",
     "os.Open(s.textPath)", "os.Open(s.metadataPath)", "readerFrom.ReadFrom(combinedReader)",
     "io.Copy(io.Discard, combinedReader)", "s.cachedIndex = idx"] := by decide

/-- the compaction registers the merged segment only after it is completely written, and deletes
    sources only after that -/
theorem compact_steps : compactCalls =
    ["seg.getIndex( s.config.VectorIndexTemplate, s.config.TextIndexTemplate, s.config.MetadataIndexTemplate, )",
     "s.provider.nextSegmentID()",
     "s.writeIndexToSegment(mergedIndex, hybridPath, vectorPath, textPath, metadataPath)",
     "s.segmentManager.add(newSegment)", "s.segmentManager.remove(seg.id)",
     "s.provider.deleteSegment(seg.id)"] := by decide

end CometGen.Obligations.C10
