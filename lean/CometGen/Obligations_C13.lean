/-
  Per-run obligations for C13 over facts regenerated from /repo's source
  (lean/CometGen/Facts_IVF.lean, written by harness/cmd/facts on every run).

  Each obligation says "the anchored site still reads the way the model
  (Comet/Vector/IVF.lean) transcribes it".  A failing obligation is a broken tie
  (DESIGN.md §3 case 2): the check then runs the correspondence stream with a
  boosted budget to look for a concrete failing input.
-/
import CometGen.Facts_IVF
namespace CometGen.Obligations.C13
open CometGen.Facts.IVF

/-- `IVF.argminLoop`: update on strict `<` only (first minimiser wins). -/
theorem argmin_strict : argminConds = ["dist < minDist"] := by decide

/-- `IVF.argmin`: starts at `(0, +Inf)`, the update stores the current distance and index. -/
theorem argmin_assigns : argminAssigns =
    ["minDist := float32(math.Inf(1))", "minIdx := 0", "minDist = dist", "minIdx = i"] := by decide

/-- `IVF.clampProbes`: `nprobes <= 0 || nprobes > nlist → nlist`. -/
theorem clamp_site : clampConds = ["nprobes <= 0 || nprobes > s.index.nlist"] ∧
    clampAssigns = ["nprobes := s.nprobes", "nprobes = s.index.nlist"] := by decide

/-- `IVF.searchSingle`: the first `nprobes` ranked lists are scanned; `k` results are copied. -/
theorem loop_bounds : loopConds = ["i < nprobes", "i < k"] := by decide

/-- `IVF.rank` / `Flat.scan`: centroids and vectors are both scored against the
    *preprocessed* query with the index's metric. -/
theorem dist_sites : distCalls =
    ["s.index.distance.Calculate(preprocessedQuery, centroid)",
     "s.index.distance.Calculate(preprocessedQuery, v.Vector())"] ∧
    preprocessCalls = ["s.index.distance.Preprocess(query)"] := by decide

/-- the scan body is the flat index's: deleted → id filter → `thr > 0 && d > thr`. -/
theorem scan_sites :
    skipConds = ["s.index.deletedNodes.Contains(v.ID())", "docFilter.ShouldSkip(v.ID())"] ∧
    thresholdConds = ["s.threshold > 0 && dist > s.threshold"] := by decide

/-- `sanitizeK` once, against the number of surviving candidates. -/
theorem sanitize_site : sanitizeCalls = ["sanitizeK(s.k, len(candidates))"] := by decide

/-- both sorts ascending by distance with strict `<`. -/
theorem sort_sites : sortCalls =
    ["sort.Slice(centroidDistances, func(i, j int) bool { return centroidDistances[i].distance < centroidDistances[j].distance })",
     "sort.Slice(candidates, func(i, j int) bool { return candidates[i].distance < candidates[j].distance })"] := by decide

/-- gates of `IVF.step` / `IVF.searchSingle`: untrained, re-add purge, too few training vectors;
    `Add` assigns the (preprocessed) vector with FindNearestCentroidIndex over the index's centroids. -/
theorem gate_sites :
    searchGateConds = ["!s.index.trained"] ∧
    addGateConds = ["!idx.trained", "idx.deletedNodes.Contains(vector.ID())"] ∧
    addAssignCalls = ["FindNearestCentroidIndex(vector.Vector(), idx.centroids, idx.distance)"] ∧
    trainGateConds = ["len(vectors) < idx.nlist"] := by decide

/-- `IVF.defaultProbes`, default `k`. -/
theorem defaults : defaultNprobes = ["int(math.Sqrt(float64(idx.nlist)))"] ∧ defaultK = ["10"] := by decide

end CometGen.Obligations.C13
