/-
  Per-run obligations for C06 over facts regenerated from hybrid_search_index.go: the
  order in which addInternal validates, adds to the sub-indexes and records docInfo, and
  the order in which Remove removes — what Comet/Hybrid.lean's `addInternal` / `remove`
  transcribe (metadata validated before any sub-add; docInfo written last / deleted last).
-/
import CometGen.Facts_Hybrid
namespace CometGen.Obligations.C06
open CometGen.Facts.Hybrid

theorem add_order : addOrder =
    ["validateMetadata", "idx.vectorIndex.Add", "idx.textIndex.Add", "idx.metadataIndex.Add",
     "docInfo[id]="] := by decide

theorem remove_order : removeOrder =
    ["idx.vectorIndex.Remove", "idx.textIndex.Remove", "idx.metadataIndex.Remove", "delete"] := by decide

end CometGen.Obligations.C06
