/-
  Per-run obligations for C14 over facts regenerated from /repo's source
  (lean/CometGen/Facts_PQ.lean, written by harness/cmd/facts on every run).

  Each obligation says "the anchored site still reads the way the models
  (Comet/Vector/PQ.lean, Comet/Vector/IVFPQ.lean) transcribe it".  A failing obligation
  is a broken tie (DESIGN.md §3 case 2): the check then runs the correspondence stream
  with a boosted budget to look for a concrete failing input.
-/
import CometGen.Facts_PQ
namespace CometGen.Obligations.C14
open CometGen.Facts.PQ

/-- `PQ.newOk` / `IVFPQ.newOk`: code sizes above 8 bits are rejected (one-byte codes). -/
theorem nbits_sites : nbitsConds = ["Nbits <= 0 || Nbits > 8", "nbits <= 0 || nbits > 8"] := by decide

/-- `PQ.train`: `n < Ksub`; `IVFPQ.train`: `n < 10·nlist`, then `n < Ksub`. -/
theorem train_gate_sites : trainGates =
    ["len(vectors) < idx.Ksub", "len(vectors) < idx.nlist*10", "len(vectors) < idx.Ksub"] := by decide

/-- `PQ.argminLoop`: strict `<` against the running minimum in all three loops. -/
theorem argmin_sites : argminConds = ["dist < minDist", "dist < minDist", "dist < minDist"] := by decide

/-- `PQ.trunc8`: the code entry is `uint8(minIdx)`. -/
theorem code_cast_sites : codeCasts = ["uint8(minIdx)", "uint8(minIdx)"] := by decide

/-- `Flat.thrSkip` in `PQ.scan`: skip iff `thr > 0 && dist > thr`. -/
theorem threshold_sites : thresholdConds =
    ["s.threshold > 0 && finalDist > s.threshold", "s.threshold > 0 && dist > s.threshold"] := by decide

/-- one `sanitizeK` against the number of surviving candidates in each search -/
theorem sanitize_sites :
    sanitizeCalls = ["sanitizeK(s.k, len(results))", "sanitizeK(s.k, len(results))"] := by decide

/-- `IVFPQ.clampProbes` -/
theorem probe_site : probeConds = ["nprobes <= 0 || nprobes > s.index.nlist"] := by decide

/-- `Arith.sqrt` applied to the float32 table sum, through float64 -/
theorem sqrt_sites : sqrtCalls = ["math.Sqrt(float64(dist))", "math.Sqrt(float64(dist))"] := by decide

/-- `PQ.step` / `IVFPQ.step`, `.add`: purge tombstones when the id is still soft-deleted -/
theorem readd_sites : readdConds =
    ["idx.deletedNodes.Contains(vector.ID())", "idx.deletedNodes.Contains(vector.ID())"] := by decide

end CometGen.Obligations.C14
