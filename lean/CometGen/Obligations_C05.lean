/-
  Per-run obligations for C05 over facts regenerated from hybrid_search_index.go.
  They pin the sites the model Comet/HybridSearch.lean transcribes: the repaired
  metadata-only fallback guard, the fusion-selection chain, the truncation, and the set
  of options Execute passes on to the sub-searches (which the harness replicates).
-/
import CometGen.Facts_Hybrid
namespace CometGen.Obligations.C05
open CometGen.Facts.Hybrid

/-- `combineStage`: fallback only for a metadata-only query -/
theorem fallback_guard :
    fallbackConds2 = ["len(s.vectorQuery) == 0 && len(s.textQueries) == 0 && len(candidateIDs) > 0"] ∧
    fallbackConds = [] := by decide

/-- `combineStage`: both non-empty → fusion; else the non-empty side -/
theorem combine_chain :
    combineConds = ["len(vectorResults) > 0 && len(textResults) > 0", "len(vectorResults) > 0"] := by decide

/-- `rank`: truncate when more than k -/
theorem truncate_site : truncateConds = ["len(results) > s.k"] := by decide

/-- the options the harness replicates when it issues the sub-searches itself -/
theorem options_passed : subSearchOptions =
    ["WithCutoff(s.cutoff)", "WithCutoff(s.cutoff)", "WithDocumentIDs(candidateIDs)",
     "WithDocumentIDs(candidateIDs)", "WithEfSearch(s.efSearch)", "WithFilterGroups(s.metadataGroups)",
     "WithFilters(s.metadataFilters)", "WithK(s.k)", "WithK(s.k)", "WithNProbes(s.nProbes)",
     "WithQuery(s.textQueries)", "WithQuery(s.vectorQuery)", "WithScoreAggregation(s.scoreAggregation)",
     "WithScoreAggregation(s.scoreAggregation)", "WithThreshold(s.threshold)"] := by decide

end CometGen.Obligations.C05
