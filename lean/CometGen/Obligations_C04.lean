/-
  Per-run obligations for C04 over facts regenerated from /repo's source
  (lean/CometGen/Facts_Meta.lean, written by harness/cmd/facts on every run).

  Each obligation says "the anchored site still reads the way the model
  (Comet/Meta.lean, Comet/BSI.lean) transcribes it".  A failing obligation is a broken
  tie: the check then runs the `meta` stream with a boosted budget to look for a
  concrete failing input.
-/
import CometGen.Facts_Meta
import Comet.Meta
namespace CometGen.Obligations.C04
open CometGen.Facts.Meta Comet.Meta

/-- `Comet.Meta.notF`: the ten cases of `Not`; no case for `range` (D9), no default. -/
theorem not_table : notTable =
    ["eq->ne", "ne->eq", "gt->lte", "gte->lt", "lt->gte", "lte->gt",
     "in->not_in", "not_in->in", "exists->not_exists", "not_exists->exists"] := by decide

/-- the regenerated table agrees with the model's `notF` on every operator it lists, and
    `range` is not listed -/
theorem not_table_matches_model :
    (notTable.all fun e =>
      let o : Comet.Meta.Operand := .str ""
      [Filter.cmp .eq "f" o, .cmp .ne "f" o, .cmp .gt "f" o, .cmp .gte "f" o, .cmp .lt "f" o,
       .cmp .lte "f" o, .isIn false "f" none, .isIn true "f" none, .ex false "f", .ex true "f"].any
        fun flt => e == flt.opName ++ "->" ++ (notF flt).opName) = true ∧
    (notTable.any fun e => "range".toList.isPrefixOf e.toList) = false := by decide

/-- `Comet.Meta.hasPrefix`: `>=` (the repair of D7; `>` dropped the empty-string value) -/
theorem existence_prefix_site :
    prefixConds = ["len(key) >= len(prefix) && key[:len(prefix)] == prefix"] := by decide

/-- stored floats go through `int64(v*100)`; `int` through `int64(v)` — the harness
    replicates exactly these conversions (fix100) -/
theorem add_conversions : addConversions = ["int64(v)", "int64(v * 100)"] := by decide

/-- operands go through the same conversions (`toInt64`) -/
theorem operand_conversions : operandConversions = ["int64(v)", "int64(v * 100)"] := by decide

/-- `Comet.BSI.new`: the constructor call (64 slices follow from these arguments:
    `Comet.BSI.new_bA`) -/
theorem new_bsi_site : newBSICalls = ["bsi.NewBSI(bsi.Min64BitSigned, bsi.Max64BitSigned)"] := by decide

/-- `Comet.Meta.addKVs` / `validateMetadata`: the supported value types, validated before
    any mutation (the repair of D5) -/
theorem add_types : addTypes = ["int", "int64", "float64", "string", "bool", "default"] ∧
    validateTypes = ["int", "int64", "float64", "string", "bool", "default"] ∧
    validateCalls = ["validateMetadata(metadata)"] := by decide

end CometGen.Obligations.C04
