/-
  Per-run obligations for C20 over facts regenerated from /repo's clustering.go,
  quantizer.go and the Train methods of ivf_index.go / pq_index.go / ivfpq_index.go
  (lean/CometGen/Facts_Train.lean, written by harness/cmd/facts on every run).

  Determinism and input immutability are definitional in the pure model
  (Comet/KMeans.lean); these obligations are what ties that to the code: k-means, its
  callers and the three Train methods call nothing random / time- / scheduler-dependent,
  start no goroutine, use no map (so no unordered iteration), and never assign to their
  argument.  The remaining obligations pin the sites the model transcribes.
-/
import CometGen.Facts_Train
namespace CometGen.Obligations.C20
open CometGen.Facts.Train

/-- nothing nondeterministic is called, no goroutine, no map — in k-means and its callers -/
theorem kmeans_deterministic_source :
    kmeansInternalNondet = [] ∧ kMeansNondet = [] ∧ kMeansSubspaceNondet = [] ∧ findNearestNondet = [] ∧
    kmeansInternalGoStmts = 0 ∧ kMeansGoStmts = 0 ∧ kMeansSubspaceGoStmts = 0 ∧ findNearestGoStmts = 0 ∧
    kmeansInternalMapTypes = [] ∧ kMeansMapTypes = [] ∧ kMeansSubspaceMapTypes = [] ∧ findNearestMapTypes = [] := by decide

/-- the complete callee sets: the distance, allocation, and `math.Inf` only -/
theorem kmeans_callees :
    kmeansInternalCallees = ["copy", "distance.Calculate", "float32", "len", "make", "math.Inf"] ∧
    kMeansCallees = ["kmeansInternal"] ∧ kMeansSubspaceCallees = ["NewDistance", "kmeansInternal"] ∧
    findNearestCallees = ["distance.Calculate", "float32", "math.Inf"] := by decide

/-- k-means and its callers never assign to (an element of) their input -/
theorem kmeans_input_never_written :
    kmeansInternalArgWrites = [] ∧ kMeansArgWrites = [] ∧ kMeansSubspaceArgWrites = [] ∧ findNearestArgWrites = [] := by decide

/-- the same for the Train methods of the three trained indexes -/
theorem train_deterministic_source :
    ivfTrainNondet = [] ∧ pqTrainNondet = [] ∧ ivfpqTrainNondet = [] ∧
    ivfTrainGoStmts = 0 ∧ pqTrainGoStmts = 0 ∧ ivfpqTrainGoStmts = 0 ∧
    ivfTrainMapTypes = [] ∧ pqTrainMapTypes = [] ∧ ivfpqTrainMapTypes = [] ∧
    ivfTrainArgWrites = [] ∧ pqTrainArgWrites = [] ∧ ivfpqTrainArgWrites = [] := by decide

/-- what they keep of k-means: `KMeans(raw, nlist, distance, 20)` / `KMeansSubspace(sub, Ksub, 20)` -/
theorem train_kmeans_calls : trainKMeansCalls =
    ["KMeans(rawVectors, idx.nlist, idx.distance, 20)", "KMeansSubspace(subVectors, idx.Ksub, 20)",
     "KMeans(rawVectors, idx.nlist, idx.distance, 20)", "KMeansSubspace(subVectors, idx.Ksub, 20)"] := by decide

/-- `KMeans.kmeans`: the guards, the strict `<` of the arg-min, the change test, the
    non-empty-cluster guard — in source order -/
theorem kmeans_conditions : kmeansConds =
    ["len(vectors) == 0", "k <= 0", "k > len(vectors)", "maxIter <= 0", "samplingStep == 0",
     "vectorIdx >= len(vectors)", "dist < nearestDistance",
     "vectorToClusterMapping[vectorIdx] != nearestCluster", "!assignmentsChanged",
     "assignedCluster != UnassignedCluster", "clusterSizes[clusterIdx] > 0"] := by decide

theorem find_nearest_condition : findNearestConds = ["dist < minDist"] := by decide

/-- `KMeans.initCentroids` (stride n/k, clamped) and `effIter` (default 20) -/
theorem kmeans_init_sites : kmeansStepWrites =
    ["samplingStep := len(vectors) / k", "samplingStep = 1", "vectorIdx := clusterIdx * samplingStep",
     "vectorIdx = len(vectors) - 1", "vectorToClusterMapping[vectorIdx] = nearestCluster"] ∧
    defaultMaxIter = "20" := by decide

/-- `KMeans.clusterSum` / `updateCentroid`: float32 sums in vector order, divided by float32(size) -/
theorem kmeans_update_sites :
    kmeansSumWrites = ["clusterSums[i] = make([]float32, dimensions)",
      "clusterSums[assignedCluster][dimIdx] += vectors[vectorIdx][dimIdx]"] ∧
    kmeansCentroidWrites = ["centroids = make([][]float32, k)", "centroids[clusterIdx] = make([]float32, dimensions)",
      "centroids[clusterIdx][dimIdx] = clusterSums[clusterIdx][dimIdx] / float32(clusterSizes[clusterIdx])"] := by decide

/-- only slices are ranged over (no map can occur: `kmeansInternalMapTypes = []`) -/
theorem kmeans_ranges : kmeansRanges =
    ["vectorToClusterMapping", "vectors", "centroids", "clusterSums", "vectorToClusterMapping",
     "vectors[vectorIdx]", "centroids", "centroids[clusterIdx]"] := by decide

/-- `Quant.quantInt8` / `deqInt8` / `isTrained` / `trainAbsMax` -/
theorem int8_sites :
    int8ScaledAssign = ["scaled := (val / q.absMax) * 127.0"] ∧
    int8QuantAssigns = ["quantized[i] = int8(math.Round(float64(scaled)))"] ∧
    int8DeqAssigns = ["dequantized[i] = (float32(val) / 127.0) * q.absMax"] ∧
    int8QuantConds = ["!q.IsTrained()"] ∧ int8DeqConds = ["!ok", "!q.IsTrained()"] ∧
    int8IsTrainedReturns = ["return q.absMax > 0"] ∧ int8TrainConds = ["absVal > max"] ∧
    int8TrainAssigns = ["absVal := float32(math.Abs(float64(val)))", "max = absVal"] := by decide

/-- the half-precision quantiser goes through x448/float16 both ways -/
theorem half_sites :
    halfQuantAssigns = ["f16Vec[i] = float16.Fromfloat32(v).Bits()"] ∧
    halfDeqAssigns = ["f32Vec[i] = float16.Frombits(bits).Float32()"] ∧ halfQuantConds = [] := by decide

/-- no quantiser writes to its argument -/
theorem quantisers_input_never_written :
    fullQuantArgWrites = [] ∧ halfQuantArgWrites = [] ∧ int8QuantArgWrites = [] ∧ int8TrainArgWrites = [] := by decide

end CometGen.Obligations.C20
