-- Root of the core-only model library.
import Comet.TopK
import Comet.Scalar
import Comet.Agg
import Comet.Vector.Flat
import Comet.Vector.HNSW
import Comet.F32
import Comet.Distance
import Comet.DistanceF32
import Comet.Hybrid
import Comet.BM25
import Comet.BM25F
import Comet.HybridSearch
import Comet.Vector.Pipeline
import Comet.Driver.Loop
