/-
  The weak invariant that holds along EVERY history (any size, any ef): the entry point is
  resident, maxLevel ≥ 0 while the index is non-empty, tombstones are resident.
  With "the entry point is not soft-deleted" it gives non-emptiness (helper lemmas for C12).
-/
import CometProofs.HNSWRun
namespace Comet.HNSW

variable {V S : Type}

structure WInv (s : State V) : Prop where
  del_res : ∀ i, isDeleted s i = true → s.nodes.contains i = true
  entry_res : s.nodes.count ≠ 0 → s.nodes.contains s.entry = true
  ml : s.nodes.count ≠ 0 → 0 ≤ s.maxLevel
  empty_entry : s.nodes.count = 0 → s.entry = 0

theorem Inv.weak {s : State V} (h : Inv s) : WInv s :=
  ⟨h.del_res, h.entry_res, h.ml, h.empty_entry⟩

theorem init_winv (dim M efC efS : Nat) : WInv (HNSW.init dim M efC efS : State V) :=
  (init_inv dim M efC efS).weak

section
variable (m : Metric V S)

theorem addLinked_winv (s s' : State V) (x : Id) (v' : V) (level : Nat)
    (hinv : WInv s) (h : addLinked m true s x v' level = .ok s') :
    WInv s' ∧ s'.dim = s.dim ∧
    (∀ j, s'.nodes.contains j = true → s.nodes.contains j = true ∨ j = x) ∧
    (∀ j, isDeleted s' j = isDeleted s j) := by
  simp only [addLinked, if_true] at h
  generalize hs0 : (if (level : Int) > s.maxLevel then { s with maxLevel := (level : Int) } else s) = s0 at h
  have hs0n : s0.nodes = s.nodes := by rw [← hs0]; split <;> rfl
  have hs0d : s0.deleted = s.deleted := by rw [← hs0]; split <;> rfl
  have hs0e : s0.entry = s.entry := by rw [← hs0]; split <;> rfl
  have hs0dim : s0.dim = s.dim := by rw [← hs0]; split <;> rfl
  have hs0ml : (level : Int) ≤ s0.maxLevel ∧ s.maxLevel ≤ s0.maxLevel := by
    rw [← hs0]; split <;> simp <;> omega
  have hlvl : (0 : Int) ≤ s0.maxLevel := by have := hs0ml.1; omega
  have hresS : ∀ j, s0.nodes.contains j = s.nodes.contains j := by intro j; rw [hs0n]
  have hdelS : ∀ j, isDeleted s0 j = isDeleted s j := by intro j; simp [isDeleted, hs0d]
  split at h
  · next hcond =>
    simp only [Bool.and_eq_true, beq_iff_eq] at hcond
    have hc0 : s.nodes.count = 0 := by rw [← hs0n]; exact hcond.2
    simp only [Except.ok.injEq] at h
    subst h
    have hxin : ({ s0 with entry := x, nodes := s0.nodes.set x (Node.new v' level) } : State V).nodes.contains x = true := by
      simp [contains_set]
    refine ⟨⟨?_, fun _ => hxin, fun _ => hlvl, ?_⟩, hs0dim, ?_, hdelS⟩
    · intro i hi
      simp only [contains_set, Bool.or_eq_true, decide_eq_true_eq]
      exact Or.inr (by rw [hresS]; exact hinv.del_res i (by rw [← hdelS]; exact hi))
    · intro h0
      have := (count_eq_zero_iff _).1 h0 x
      rw [hxin] at this; cases this
    · intro j hj
      simp only [contains_set, Bool.or_eq_true, decide_eq_true_eq, hresS] at hj
      rcases hj with hj | hj
      · exact Or.inr hj.symm
      · exact Or.inl hj
  · next hcond =>
    have hcnt : s.nodes.count ≠ 0 := by
      intro h0
      apply hcond
      simp only [Bool.and_eq_true, beq_iff_eq]
      exact ⟨by rw [hs0e]; exact hinv.empty_entry h0, by rw [hs0n]; exact h0⟩
    generalize ht0 : ({ s0 with nodes := s0.nodes.set x (Node.new v' level) } : State V) = t0 at h
    have hcont : ∀ j, t0.nodes.contains j = (decide (x = j) || s.nodes.contains j) := by
      intro j; rw [← ht0]; simp only [contains_set, hresS]
    have hsyncT : t0.nodes.get? x = some (Node.new v' level) := by
      rw [← ht0]; simp [IdMap.get?_set]
    split at h
    · cases h
    · next s2 nx2 hins =>
      simp only [Except.ok.injEq] at h
      subst h
      simp only [insertNode] at hins
      split at hins
      · cases hins
      · split at hins
        · cases hins
        · next curr cd hg =>
          have hsh := (insertLayers_shape m x _ _ t0 s2 _ nx2 curr hsyncT hins).1
          have hx2 : s2.nodes.contains x = true := by rw [hsh.contains, hcont]; simp
          refine ⟨⟨?_, ?_, ?_, ?_⟩, ?_, ?_, ?_⟩
          · intro i hi
            rw [hsh.isDeleted] at hi
            have hi' : isDeleted s i = true := by rw [← hdelS, ← hi, ← ht0]; rfl
            rw [hsh.contains, hcont]; simp [hinv.del_res i hi']
          · intro _
            rw [hsh.contains, hsh.entry, hcont]
            have : t0.entry = s.entry := by rw [← ht0]; exact hs0e
            rw [this]; simp [hinv.entry_res hcnt]
          · intro _
            rw [hsh.maxLevel, ← ht0]; exact hlvl
          · intro h0
            have := (count_eq_zero_iff _).1 h0 x
            rw [hx2] at this; cases this
          · rw [hsh.dim, ← ht0]; exact hs0dim
          · intro j hj
            rw [hsh.contains, hcont] at hj
            simp only [Bool.or_eq_true, decide_eq_true_eq] at hj
            rcases hj with hj | hj
            · exact Or.inr hj.symm
            · exact Or.inl hj
          · intro j
            rw [hsh.isDeleted, ← hdelS, ← ht0]; rfl


theorem remove_winv (s : State V) (id : Id) (hinv : WInv s) :
    WInv (remove s id).1 ∧ (remove s id).1.nodes = s.nodes ∧ (remove s id).1.dim = s.dim ∧
    (remove s id).1.entry = s.entry := by
  simp only [remove]
  split
  · exact ⟨hinv, rfl, rfl, rfl⟩
  · next hres =>
    have hres' : s.nodes.contains id = true := by simpa using hres
    split
    · exact ⟨hinv, rfl, rfl, rfl⟩
    · refine ⟨⟨?_, hinv.entry_res, hinv.ml, hinv.empty_entry⟩, rfl, rfl, rfl⟩
      intro i hi
      simp only [isDeleted, contains_set, Bool.or_eq_true, decide_eq_true_eq] at hi
      rcases hi with rfl | hi
      · exact hres'
      · exact hinv.del_res i hi

theorem flush_winv (s : State V) (e : Id) (hinv : WInv s) (he : e ∈ flushChoices s) :
    WInv (flushTo s e) ∧ (flushTo s e).dim = s.dim ∧
    (∀ j, (flushTo s e).nodes.contains j = true → s.nodes.contains j = true) ∧
    (∀ j, Live (flushTo s e) j ↔ Live s j) ∧
    (isDeleted s s.entry = false → (flushTo s e).entry = s.entry) ∧
    (∀ j, isDeleted (flushTo s e) j = true → isDeleted s j = true) := by
  rw [flushTo_eq]
  split
  · exact ⟨hinv, rfl, fun _ h => h, fun _ => Iff.rfl, fun _ => rfl, fun _ h => h⟩
  · generalize hs' : flushed s e = s'
    have hget : ∀ j, s'.nodes.get? j =
        if isDeleted s j then none else (s.nodes.get? j).map (flushNode s) := by
      intro j
      rw [← hs']
      simp only [flushed]
      rw [flushFold_get? s _ _ j (IdMap.keys_nodup _)]
      by_cases hj : j ∈ s.nodes.keys
      · simp [hj]
      · have : s.nodes.get? j = none := by
          cases hg : s.nodes.get? j with
          | none => rfl
          | some n => exact absurd (IdMap.mem_keys.2 (IdMap.contains_iff.2 ⟨n, hg⟩)) hj
        simp [hj, this]
    have hdel' : ∀ j, isDeleted s' j = false := by
      intro j; rw [← hs']; simp [flushed, isDeleted, IdMap.contains]
    have hcont : ∀ j, s'.nodes.contains j = (s.nodes.contains j && !isDeleted s j) := by
      intro j
      simp only [IdMap.contains, hget]
      cases isDeleted s j <;> simp
    have hlive : ∀ j, Live s' j ↔ Live s j := by
      intro j
      simp only [Live, hcont, hdel', Bool.and_eq_true, Bool.not_eq_true', and_true]
    have hcnt : s'.nodes.count ≠ 0 → liveIds s ≠ [] := by
      intro hc hnil
      apply hc
      rw [count_eq_zero_iff]
      intro j
      cases hcj : s'.nodes.contains j with
      | false => rfl
      | true =>
        have : j ∈ liveIds s := mem_liveIds.2 ((hlive j).1 ⟨hcj, hdel' j⟩)
        rw [hnil] at this; cases this
    have hentry' : s'.entry = e := by rw [← hs']; rfl
    have hml' : s'.maxLevel = flushMaxLevel s := by rw [← hs']; rfl
    have hspec := flushChoices_spec s e he
    have hcs : s'.nodes.count ≠ 0 → s.nodes.count ≠ 0 := by
      intro hc h0
      obtain ⟨j, hj⟩ := List.exists_mem_of_ne_nil _ (hcnt hc)
      have := (count_eq_zero_iff _).1 h0 j
      rw [(mem_liveIds.1 hj).1] at this; cases this
    refine ⟨⟨?_, ?_, ?_, ?_⟩, by rw [← hs']; rfl, ?_, hlive, ?_, ?_⟩
    · intro i hi; rw [hdel'] at hi; cases hi
    · intro hc
      rw [hentry']
      cases hde : isDeleted s s.entry with
      | false =>
        rw [hspec.1 hde, hcont]
        simp [hinv.entry_res (hcs hc), hde]
      | true => exact ((hlive e).2 ((hspec.2 hde).1 (hcnt hc))).1
    · intro hc
      rw [hml']
      have h0 := hinv.ml (hcs hc)
      simp only [flushMaxLevel]
      split
      · exact h0
      · split
        · exact h0
        · split
          · next hemp => exact absurd (by simpa using hemp) (hcnt hc)
          · exact Int.natCast_nonneg _
    · intro h0
      rw [hentry']
      have hnil : liveIds s = [] := by
        apply List.eq_nil_iff_forall_not_mem.2
        intro j hj
        have := (count_eq_zero_iff _).1 h0 j
        rw [((hlive j).2 (mem_liveIds.1 hj)).1] at this; cases this
      cases hde : isDeleted s s.entry with
      | false =>
        rw [hspec.1 hde]
        by_cases hc : s.nodes.count = 0
        · exact hinv.empty_entry hc
        · exfalso
          have : s.entry ∈ liveIds s := mem_liveIds.2 ⟨hinv.entry_res hc, hde⟩
          rw [hnil] at this; cases this
      | true => exact (hspec.2 hde).2 hnil
    · intro j hj
      rw [hcont] at hj
      simp only [Bool.and_eq_true] at hj
      exact hj.1
    · intro hde
      rw [hentry', hspec.1 hde]
    · intro j hj; rw [hdel'] at hj; cases hj

theorem add_winv (s s' : State V) (x : Id) (v : V) (level : Nat) (pick : Id) (e : Option Err)
    (hinv : WInv s) (hfresh : s.nodes.contains x = false)
    (hpick : s.deleted.contains s.entry = true → pick ∈ flushChoices s)
    (h : add m s x v level pick = .ok (s', e)) :
    WInv s' ∧ s'.dim = s.dim ∧
    (∀ j, s'.nodes.contains j = true → s.nodes.contains j = true ∨ j = x) := by
  have hxdel : s.deleted.contains x = false := by
    cases hc : s.deleted.contains x with
    | false => rfl
    | true => have := hinv.del_res x hc; rw [hfresh] at this; cases this
  simp only [add, addWith, registerFirst, hxdel, Bool.and_false, Bool.false_eq_true, if_false] at h
  split at h
  · simp only [Except.ok.injEq, Prod.mk.injEq] at h
    obtain ⟨rfl, rfl⟩ := h
    exact ⟨hinv, rfl, fun j hj => Or.inl hj⟩
  · split at h
    · simp only [Except.ok.injEq, Prod.mk.injEq] at h
      obtain ⟨rfl, rfl⟩ := h
      exact ⟨hinv, rfl, fun j hj => Or.inl hj⟩
    · next v' hpre =>
      generalize hsf : (if s.deleted.contains s.entry = true then flushTo s pick else s) = sf at h
      have hF : WInv sf ∧ sf.dim = s.dim ∧ (∀ j, sf.nodes.contains j = true → s.nodes.contains j = true) := by
        rw [← hsf]
        split
        · next hd =>
          obtain ⟨a, b, c, _⟩ := flush_winv s pick hinv (hpick hd)
          exact ⟨a, b, c⟩
        · exact ⟨hinv, rfl, fun _ hh => hh⟩
      obtain ⟨hwF, hdF, hsubF⟩ := hF
      generalize (if (x == 0) = true then sf.nextID else x) = key at h
      split at h
      · cases h   -- a later vector with own id 0: outside the modelled fragment
      · split at h
        · cases h
        · next s2 hlink =>
          simp only [Except.ok.injEq, Prod.mk.injEq] at h
          obtain ⟨rfl, rfl⟩ := h
          obtain ⟨hw2, hd2, hsub2, _⟩ := addLinked_winv m sf s2 x v' level hwF hlink
          refine ⟨⟨hw2.del_res, hw2.entry_res, hw2.ml, hw2.empty_entry⟩, hd2.trans hdF, ?_⟩
          intro j hj
          rcases hsub2 j hj with h1 | h1
          · exact Or.inl (hsubF j h1)
          · exact Or.inr h1

/-- the weak invariant along every history with fresh ids and allowed flush picks -/
theorem run_winv :
    ∀ (ops : List (Op V)) (s0 s : State V),
      WInv s0 →
      (∀ i ∈ addedIds ops, s0.nodes.contains i = false) → (addedIds ops).Nodup →
      validPicks m s0 ops = true →
      run m s0 ops = .ok s →
      WInv s ∧ s.dim = s0.dim := by
  intro ops
  induction ops with
  | nil =>
    intro s0 s hinv _ _ _ hrun
    simp only [run, Except.ok.injEq] at hrun; subst hrun
    exact ⟨hinv, rfl⟩
  | cons op rest ih =>
    intro s0 s hinv hfresh hnd hv hrun
    simp only [validPicks, along_cons, Bool.and_eq_true] at hv
    simp only [run] at hrun
    cases hstep : step m s0 op with
    | error e => rw [hstep] at hrun; cases hrun
    | ok s1 =>
      rw [hstep] at hrun hv
      simp only at hrun hv
      have hrestsub : ∀ i ∈ addedIds rest, i ∈ addedIds (op :: rest) := by
        intro i hi
        cases op <;> simp_all [addedIds, Flat.addedIds, Op.toFlat]
      have key : WInv s1 ∧ s1.dim = s0.dim ∧
          (∀ i ∈ addedIds rest, s1.nodes.contains i = false) ∧ (addedIds rest).Nodup := by
        cases op with
        | add x v level pk =>
          simp only [step] at hstep
          split at hstep
          · next s' e hadd =>
            simp only [Except.ok.injEq] at hstep; subst hstep
            rw [addedIds_cons_add] at hnd hfresh
            obtain ⟨hw, hd, hc⟩ := add_winv m s0 s' x v level pk e hinv
              (hfresh x (by simp))
              (by
                intro hd
                have := hv.1
                simp only [addFlushes, hd, Bool.or_true, Bool.not_true, Bool.false_or] at this
                simpa using this) hadd
            refine ⟨hw, hd, ?_, (List.nodup_cons.1 hnd).2⟩
            intro i hi
            cases hci : s'.nodes.contains i with
            | false => rfl
            | true =>
              exfalso
              rcases hc i hci with h1 | h1
              · rw [hfresh i (List.mem_cons_of_mem _ hi)] at h1; cases h1
              · subst h1; exact (List.nodup_cons.1 hnd).1 hi
          · cases hstep
        | remove id =>
          simp only [step, Except.ok.injEq] at hstep; subst hstep
          obtain ⟨hw, hn, hd, _⟩ := remove_winv s0 id hinv
          exact ⟨hw, hd, fun i hi => by rw [hn]; exact hfresh i (hrestsub i hi), hnd⟩
        | flush e =>
          simp only [step, Except.ok.injEq] at hstep; subst hstep
          obtain ⟨hw, hd, hsub, _, _, _⟩ := flush_winv s0 e hinv (by simpa using hv.1)
          refine ⟨hw, hd, ?_, hnd⟩
          intro i hi
          cases hci : (flushTo s0 e).nodes.contains i with
          | false => rfl
          | true =>
            have := hsub i hci
            rw [hfresh i (hrestsub i hi)] at this; cases this
      obtain ⟨hw1, hd1, hf1, hnd1⟩ := key
      obtain ⟨r1, r2⟩ := ih s1 s hw1 hf1 hnd1 hv.2 hrun
      exact ⟨r1, r2.trans hd1⟩

end
end Comet.HNSW
