/-
  State-level consequences of "the entry point is live" and "layer 0 is complete on
  the live vertices" (helper lemmas for C12).
-/
import CometProofs.HNSWSearch
import CometProofs.Flat
namespace Comet.HNSW

variable {V S : Type}

/-- resident and not soft-deleted -/
def Live (s : State V) (i : Id) : Prop := s.nodes.contains i = true ∧ isDeleted s i = false

theorem mem_liveIds {s : State V} {i : Id} : i ∈ liveIds s ↔ Live s i := by
  simp only [liveIds, List.mem_filter, IdMap.mem_keys, Live]
  constructor
  · rintro ⟨h1, h2⟩; exact ⟨h1, by simpa using h2⟩
  · rintro ⟨h1, h2⟩; exact ⟨h1, by simp [h2]⟩

theorem liveIds_nodup (s : State V) : (liveIds s).Nodup :=
  (IdMap.keys_nodup _).sublist List.filter_sublist

/-- layer 0 is the complete digraph on the live vertices -/
def Complete0 (s : State V) : Prop :=
  ∀ u v, Live s u → Live s v → u ≠ v → v ∈ nbrsAt s 0 u

/-- the live `(id, stored vector)` pairs, ascending ids -/
def stateLive (s : State V) : List (Id × V) :=
  (liveIds s).filterMap fun i => (s.nodes.get? i).map fun n => (i, n.vec)

section
variable (m : Metric V S)

/-! ### the greedy descent stays inside any neighbour-closed set -/

theorem greedyPass_closed (s : State V) (q : V) (P : Id → Prop) :
    ∀ (nbs : List Id) (acc acc' : Id × S × Bool),
      (∀ nb ∈ nbs, isDeleted s nb = false → s.nodes.contains nb = true → P nb) → P acc.1 →
      greedyPass m s q nbs acc = .ok acc' → P acc'.1 := by
  intro nbs
  induction nbs with
  | nil =>
    intro acc acc' _ hl h
    simp only [greedyPass, Except.ok.injEq] at h; subst h; exact hl
  | cons nb rest ih =>
    intro acc acc' hnb hl h
    obtain ⟨curr, cd, ch⟩ := acc
    have hrest := fun x hx => hnb x (List.mem_cons_of_mem _ hx)
    simp only [greedyPass] at h
    split at h
    · exact ih _ _ hrest hl h
    · next hdel =>
      split at h
      · cases h
      · next n hn =>
        split at h
        · refine ih _ _ hrest ?_ h
          exact hnb nb (by simp) (by simpa using hdel) (IdMap.contains_iff.2 ⟨n, node!_eq hn⟩)
        · exact ih _ _ hrest hl h

theorem greedyLayer_closed (s : State V) (q : V) (lc : Nat) (P : Id → Prop)
    (hcl : ∀ u, P u → ∀ w ∈ nbrsAt s lc u, isDeleted s w = false → s.nodes.contains w = true → P w) :
    ∀ (fuel : Nat) (acc acc' : Id × S), P acc.1 →
      greedyLayer m s q lc fuel acc = .ok acc' → P acc'.1 := by
  intro fuel
  induction fuel with
  | zero => intro acc acc' _ h; simp [greedyLayer] at h
  | succ fuel ih =>
    intro acc acc' hl h
    obtain ⟨curr, cd⟩ := acc
    simp only [greedyLayer] at h
    split at h
    · cases h
    · next n hn =>
      split at h
      · simp only [Except.ok.injEq] at h; subst h; exact hl
      · next nbs he =>
        have hnbs : ∀ nb ∈ nbs, isDeleted s nb = false → s.nodes.contains nb = true → P nb := by
          intro nb hnb
          refine hcl curr hl nb ?_
          simp [nbrsAt, node!_eq hn, he, hnb]
        split at h
        · cases h
        · next c' d' hp =>
          exact ih _ _ (greedyPass_closed m s q P _ _ _ hnbs hl hp) h
        · next c' d' hp =>
          simp only [Except.ok.injEq] at h; subst h
          exact greedyPass_closed m s q P _ _ _ hnbs hl hp

theorem greedyDescend_closed (s : State V) (q : V) (P : Id → Prop)
    (hcl : ∀ u, P u → ∀ l, ∀ w ∈ nbrsAt s l u, isDeleted s w = false → s.nodes.contains w = true → P w) :
    ∀ (layers : List Nat) (acc acc' : Id × S), P acc.1 →
      greedyDescend m s q layers acc = .ok acc' → P acc'.1 := by
  intro layers
  induction layers with
  | nil => intro acc acc' hl h; simp only [greedyDescend, Except.ok.injEq] at h; subst h; exact hl
  | cons lc rest ih =>
    intro acc acc' hl h
    simp only [greedyDescend] at h
    split at h
    · cases h
    · next a hg =>
      exact ih _ _ (greedyLayer_closed m s q lc P (fun u hu w hw => hcl u hu lc w hw) _ _ _ hl hg) h


/-- the greedy descent ends on its start vertex or on a live vertex -/
theorem greedyDescend_start_or_live (s : State V) (q : V) (layers : List Nat) (acc acc' : Id × S)
    (h : greedyDescend m s q layers acc = .ok acc') : acc'.1 = acc.1 ∨ Live s acc'.1 := by
  refine greedyDescend_closed m s q (fun i => i = acc.1 ∨ Live s i) ?_ layers acc acc' (Or.inl rfl) h
  intro u _ l w _ hwd hwr
  exact Or.inr ⟨hwr, hwd⟩

theorem insDesc_ne_nil (lt : S → S → Bool) (c : Hit S) (l : List (Hit S)) : insDesc lt c l ≠ [] := by
  cases l <;> simp only [insDesc] <;> try split
  all_goals simp

/-! ### the final sort -/

theorem lt_irrefl (ord : m.sc.Ordered) (a : S) : m.sc.lt a a = false := by
  rw [ord.lt_iff]
  have := ord.total a a
  simp only [Bool.or_self] at this
  simp [this]

/-- `¬ (b < a)` is `a ≤ b` -/
theorem le_of_not_lt (ord : m.sc.Ordered) {a b : S} (h : m.sc.lt b a = false) : m.sc.le a b = true := by
  rw [ord.lt_iff] at h
  simpa using h

theorem le_of_lt (ord : m.sc.Ordered) {a b : S} (h : m.sc.lt a b = true) : m.sc.le a b = true := by
  rw [ord.lt_iff] at h
  have := ord.total a b
  simp only [Bool.or_eq_true] at this
  rcases this with h1 | h1
  · exact h1
  · simp [h1] at h

theorem insStable_sorted (ord : m.sc.Ordered) (c : Hit S) :
    ∀ l : List (Hit S), l.Pairwise (fun a b => m.sc.le a.score b.score = true) →
      (insStable m.sc.lt c l).Pairwise (fun a b => m.sc.le a.score b.score = true)
  | [], _ => by simp [insStable]
  | a :: as, h => by
    simp only [insStable]
    rw [List.pairwise_cons] at h
    split
    · next hlt =>
      rw [List.pairwise_cons]
      refine ⟨?_, insStable_sorted ord c as h.2⟩
      intro b hb
      rcases List.mem_cons.1 ((insStable_perm m.sc.lt c as).mem_iff.1 hb) with rfl | hb'
      · exact le_of_lt m ord hlt
      · exact h.1 b hb'
    · next hlt =>
      have hca : m.sc.le c.score a.score = true := le_of_not_lt m ord (by simpa using hlt)
      rw [List.pairwise_cons]
      refine ⟨?_, List.pairwise_cons.2 h⟩
      intro b hb
      rcases List.mem_cons.1 hb with rfl | hb
      · exact hca
      · exact ord.trans _ _ _ hca (h.1 b hb)

theorem sortAsc_sorted (ord : m.sc.Ordered) :
    ∀ l : List (Hit S), (sortAsc m.sc.lt l).Pairwise (fun a b => m.sc.le a.score b.score = true)
  | [] => by simp [sortAsc]
  | a :: as => by
    have ih := sortAsc_sorted ord as
    simp only [sortAsc, List.foldr_cons] at ih ⊢
    exact insStable_sorted m ord a _ ih

/-- the search tail (`sort.Slice`, `sanitizeK`, truncation) returns a top-k of what it is given -/
theorem tail_isTopK (ord : m.sc.Ordered) (k : Int) (xs : List (Hit S)) :
    IsTopK m.sc.le k xs ((sortAsc m.sc.lt xs).take (sanitizeK k (sortAsc m.sc.lt xs).length)) := by
  have hsorted := sortAsc_sorted m ord xs
  have hperm := sortAsc_perm m.sc.lt xs
  have hlen : (sortAsc m.sc.lt xs).length = xs.length := hperm.length_eq
  have hsplit := List.take_append_drop (sanitizeK k xs.length) (sortAsc m.sc.lt xs)
  rw [hlen]
  refine ⟨hsorted.sublist (List.take_sublist _ _),
    ⟨(sortAsc m.sc.lt xs).drop (sanitizeK k xs.length), ?_, ?_⟩, ?_⟩
  · rw [hsplit]; exact hperm
  · intro a ha b hb
    rw [← hsplit, List.pairwise_append] at hsorted
    exact hsorted.2.2 a ha b hb
  · simp [List.length_take, hlen, sanitizeK_le]

theorem IsTopK.of_perm {le : S → S → Bool} {k : Int} {c c' r : List (Hit S)}
    (h : IsTopK le k c r) (hp : c.Perm c') : IsTopK le k c' r := by
  obtain ⟨h1, ⟨rest, h2, h3⟩, h4⟩ := h
  exact ⟨h1, ⟨rest, h2.trans hp, h3⟩, by rw [h4, hp.length_eq]⟩

/-- `Flat.cands` = score everything, then keep the eligible ones within the threshold -/
theorem cands_eq_filter (l : List (Id × V)) (q' : V) (thr : S) (F : List Id) :
    Flat.cands m l q' thr F =
      (l.map fun p => (⟨p.1, m.dist q' p.2⟩ : Hit S)).filter
        (fun h => Flat.eligible F h.id && !Flat.thrSkip m.sc thr h.score) := by
  unfold Flat.cands
  induction l with
  | nil => rfl
  | cons p t ih =>
    rw [List.filterMap_cons, List.map_cons, List.filter_cons, ih]
    by_cases h1 : Flat.eligible F p.1 = true
    · by_cases h2 : Flat.thrSkip m.sc thr (m.dist q' p.2) = true
      · simp [h1, h2]
      · simp [h1, h2]
    · simp [h1]

/-! ### state-level theorems -/

/-- every live vertex scored against `q'` -/
def allHits (s : State V) (q' : V) : List (Hit S) :=
  (stateLive s).map fun p => (⟨p.1, m.dist q' p.2⟩ : Hit S)

theorem mem_stateLive {s : State V} {i : Id} {v : V} :
    (i, v) ∈ stateLive s ↔ Live s i ∧ ∃ n, s.nodes.get? i = some n ∧ n.vec = v := by
  simp only [stateLive, List.mem_filterMap, mem_liveIds, Option.map_eq_some_iff, Prod.mk.injEq]
  constructor
  · rintro ⟨j, hj, n, hn, rfl, rfl⟩; exact ⟨hj, n, hn, rfl⟩
  · rintro ⟨hl, n, hn, rfl⟩; exact ⟨i, hl, n, hn, rfl, rfl⟩

theorem stateLive_ids_nodup (s : State V) : ((stateLive s).map (·.1)).Nodup := by
  have : (stateLive s).map (·.1) = (liveIds s).filter fun i => (s.nodes.get? i).isSome := by
    simp only [stateLive]
    induction liveIds s with
    | nil => rfl
    | cons a t ih =>
      simp only [List.filterMap_cons, List.filter_cons]
      cases h : s.nodes.get? a <;> simp [ih]
  rw [this]
  exact (liveIds_nodup s).sublist List.filter_sublist

/-- layer-0 edges point to resident vertices -/
def Resolves0 (s : State V) : Prop :=
  ∀ u w, w ∈ nbrsAt s 0 u → s.nodes.contains w = true

/-- a vertex from which the bottom-layer search finds every live vertex in one step -/
def CurrGood (s : State V) (c : Id) : Prop :=
  s.nodes.contains c = true ∧ ∀ v, Live s v → v ≠ c → v ∈ nbrsAt s 0 c

theorem currGood_of_live {s : State V} (hcomp : Complete0 s) {c : Id} (hc : Live s c) : CurrGood s c :=
  ⟨hc.1, fun v hv hne => hcomp c v hc hv (Ne.symm hne)⟩

/-- A bottom-layer search from a vertex that has an edge to every live vertex, with
    `ef ≥` the number of live vertices, returns exactly the live vertices, each with its
    distance (as a multiset) — whether or not the start vertex is soft-deleted. -/
theorem searchLayer0_perm_allHits (s : State V) (hres : Resolves0 s)
    (q' : V) (curr : Id) (ef : Nat)
    (hcurr : CurrGood s curr) (hef : (liveIds s).length ≤ ef) (raw : List (Hit S))
    (h : searchLayer m s q' curr ef 0 = .ok raw) : raw.Perm (allHits m s q') := by
  obtain ⟨hs1, hs2⟩ := searchLayer_sound m s q' ef 0 curr raw h
  -- everything reachable is resident
  have hRres : ∀ v, RL s 0 curr v → s.nodes.contains v = true := by
    intro v hv
    induction hv with
    | refl => exact hcurr.1
    | step _ hw _ => exact hres _ _ hw
  -- every live vertex is reachable (at most one step from `curr`)
  have hliveR : ∀ v, Live s v → RL s 0 curr v := by
    intro v hv
    by_cases hvc : v = curr
    · subst hvc; exact Reach.refl
    · exact Reach.step Reach.refl (hcurr.2 v hv hvc)
  have hall := searchLayer_complete m s q' ef 0 curr (liveIds s)
    (fun v hv hvd => mem_liveIds.2 ⟨hRres v hv, hvd⟩) hef raw h
  have hnd1 : raw.Nodup := List.Nodup.of_map _ hs2
  have hnd2 : (allHits m s q').Nodup := by
    refine List.Nodup.of_map (·.id) ?_
    have : (allHits m s q').map (·.id) = (stateLive s).map (·.1) := by
      simp [allHits, List.map_map, Function.comp_def]
    rw [this]
    exact stateLive_ids_nodup s
  rw [List.perm_ext_iff_of_nodup hnd1 hnd2]
  intro hit
  simp only [allHits, List.mem_map]
  constructor
  · intro hh
    obtain ⟨_, hdel, n, hn, hsc⟩ := hs1 hit hh
    refine ⟨(hit.id, n.vec), mem_stateLive.2 ⟨⟨IdMap.contains_iff.2 ⟨n, hn⟩, hdel⟩, n, hn, rfl⟩, ?_⟩
    cases hit; simp_all
  · rintro ⟨⟨i, v⟩, hp, rfl⟩
    obtain ⟨hl, n, hn, rfl⟩ := mem_stateLive.1 hp
    obtain ⟨hit, hh, hid⟩ := List.mem_map.1 (hall i (hliveR i hl) hl.2)
    obtain ⟨_, _, n', hn', hsc⟩ := hs1 hit hh
    rw [hid, hn] at hn'
    cases hn'
    have : hit = ⟨i, m.dist q' n.vec⟩ := by cases hit; simp_all
    rw [← this]; exact hh

theorem count_ne_zero_of_res {s : State V} {i : Id} (h : s.nodes.contains i = true) : s.nodes.count ≠ 0 := by
  have : i ∈ s.nodes.keys := IdMap.mem_keys.2 h
  simp only [IdMap.count]
  intro h0
  rw [List.eq_nil_of_length_eq_zero h0] at this
  cases this

theorem count_ne_zero_of_live {s : State V} {i : Id} (h : Live s i) : s.nodes.count ≠ 0 :=
  count_ne_zero_of_res h.1

/-- the ef that `searchSingleQuery` uses -/
def efUsed (s : State V) (efo : Int) : Nat := if efo ≤ 0 then s.efS else efo.toNat

/-- what `searchCands` computes: a bottom-layer search from the entry point or from a live
    vertex (the greedy descent only moves to non-deleted vertices), then the id restriction
    and the threshold -/
theorem searchCands_unfold (s : State V) (q q' : V) (thr : S) (F : List Id) (efo : Int)
    (hq : m.dimOf q = s.dim) (hml : s.maxLevel ≠ -1) (hpre : m.pre q = some q')
    (hentry : s.nodes.contains s.entry = true) (c : List (Hit S))
    (h : searchCands m s q thr F efo = .ok (.ok c)) :
    ∃ curr raw, (curr = s.entry ∨ Live s curr) ∧
      searchLayer m s q' curr (efUsed s efo) 0 = .ok raw ∧
      c = raw.filter fun c => Flat.eligible F c.id && !Flat.thrSkip m.sc thr c.score := by
  have hcnt := count_ne_zero_of_res hentry
  simp only [searchCands, hq, ne_eq, not_true_eq_false, if_false, hpre] at h
  have h0 : (s.nodes.count == 0 || s.maxLevel == -1) = false := by simp [hcnt, hml]
  simp only [h0, Bool.false_eq_true, if_false] at h
  split at h
  · cases h
  · next en hen =>
    split at h
    · cases h
    · next curr cd hg =>
      have hcurr := greedyDescend_start_or_live m s q' _ (s.entry, m.dist q' en.vec) (curr, cd) hg
      split at h
      · cases h
      · next raw hraw =>
        simp only [Except.ok.injEq] at h
        exact ⟨curr, raw, hcurr, hraw, h.symm⟩

/-- **State-level exactness.** If layer 0 is complete on the live vertices, the entry point
    (live or soft-deleted) has an edge to every other live vertex and `ef` is at least the
    number of live vertices, every completed search returns an exact top-k of the live,
    eligible, within-threshold vertices. -/
theorem search_exact_state (ord : m.sc.Ordered) (s : State V)
    (hcomp : Complete0 s) (hres : Resolves0 s) (hentry : CurrGood s s.entry) (hml : s.maxLevel ≠ -1)
    (q q' : V) (k : Int) (thr : S) (F : List Id) (efo : Int)
    (hq : m.dimOf q = s.dim) (hpre : m.pre q = some q')
    (hef : (liveIds s).length ≤ efUsed s efo) (res : List (Hit S))
    (h : searchSingle m s q k thr F efo = .ok (.ok res)) :
    IsTopK m.sc.le k (Flat.cands m (stateLive s) q' thr F) res := by
  simp only [searchSingle] at h
  split at h
  · cases h
  · cases h
  · next results hc =>
    simp only [Except.ok.injEq] at h; subst h
    obtain ⟨curr, raw, hcurr, hraw, rfl⟩ :=
      searchCands_unfold m s q q' thr F efo hq hml hpre hentry.1 results hc
    have hgood : CurrGood s curr := by
      rcases hcurr with rfl | hl
      · exact hentry
      · exact currGood_of_live hcomp hl
    have hperm := searchLayer0_perm_allHits m s hres q' curr _ hgood hef raw hraw
    refine IsTopK.of_perm (tail_isTopK m ord k _) ?_
    rw [cands_eq_filter]
    exact hperm.filter _

/-- **State-level non-emptiness.** If some live vertex is reachable from the entry point
    along bottom-layer edges (through any stored vertices), every completed unrestricted
    search returns at least one hit — whatever `ef`, `k`, and whether or not the entry point
    itself is soft-deleted. -/
theorem search_nonempty_state (ord : m.sc.Ordered) (s : State V)
    (hentry : s.nodes.contains s.entry = true) (hml : s.maxLevel ≠ -1)
    (v : Id) (hv : Live s v) (hreach : Reach (nbrsAt s 0) s.entry v)
    (q q' : V) (k efo : Int) (hq : m.dimOf q = s.dim) (hpre : m.pre q = some q')
    (res : List (Hit S)) (h : searchSingle m s q k m.sc.zero [] efo = .ok (.ok res)) :
    res ≠ [] := by
  simp only [searchSingle] at h
  split at h
  · cases h
  · cases h
  · next results hc =>
    simp only [Except.ok.injEq] at h; subst h
    obtain ⟨curr, raw, hcurr, hraw, rfl⟩ :=
      searchCands_unfold m s q q' m.sc.zero [] efo hq hml hpre hentry results hc
    have hne : raw ≠ [] := by
      rcases hcurr with rfl | hl
      · exact searchLayer_ne m s q' _ 0 _ raw hraw v hreach hv.2
      · exact searchLayer_ne m s q' _ 0 curr raw hraw curr Reach.refl hl.2
    have hfilter : (raw.filter fun c => Flat.eligible [] c.id && !Flat.thrSkip m.sc m.sc.zero c.score) = raw := by
      apply List.filter_eq_self.2
      intro a _
      simp [Flat.eligible, Flat.thrSkip, lt_irrefl m ord]
    rw [hfilter]
    have hlen : (sortAsc m.sc.lt raw).length = raw.length := (sortAsc_perm m.sc.lt raw).length_eq
    have hpos : 0 < raw.length := List.length_pos_iff.2 hne
    intro hnil
    have h0 := congrArg List.length hnil
    simp only [List.length_take, List.length_nil, hlen] at h0
    have : 0 < sanitizeK k raw.length := by
      unfold sanitizeK; split <;> omega
    omega

/-- **State-level reachability.** If the entry point (live or soft-deleted) has an edge to
    every other live vertex, every live vertex is reachable from it (in at most one step). -/
theorem reachable_state (s : State V) (hentry : CurrGood s s.entry) : Reachable s := by
  intro i hi
  have hl := mem_liveIds.1 hi
  by_cases he : i = s.entry
  · rw [he]; exact Reach.refl
  · exact Reach.step Reach.refl (hentry.2 i hl he)

end

/-! ### decidable forms of the state hypotheses (used by theorems and by the driver) -/

theorem liveB_iff {s : State V} {i : Id} : liveB s i = true ↔ Live s i := by
  simp [liveB, Live]

theorem complete0B_spec {s : State V} (h : complete0B s = true) (hent : s.nodes.contains s.entry = true) :
    Complete0 s ∧ Resolves0 s ∧ CurrGood s s.entry := by
  simp only [complete0B, List.all_eq_true, Bool.and_eq_true, Bool.or_eq_true, beq_iff_eq,
    List.contains_eq_mem, decide_eq_true_eq] at h
  obtain ⟨⟨h1, h2⟩, h3⟩ := h
  refine ⟨?_, ?_, hent, ?_⟩
  · intro u v hu hv hne
    rcases h1 u (mem_liveIds.2 hu) v (mem_liveIds.2 hv) with h | h
    · exact absurd h hne
    · exact h
  · intro u w hw
    by_cases hu : s.nodes.contains u = true
    · exact h2 u (IdMap.mem_keys.2 hu) w hw
    · have : s.nodes.get? u = none := by
        cases hg : s.nodes.get? u with
        | none => rfl
        | some n => exact absurd (IdMap.contains_iff.2 ⟨n, hg⟩) hu
      simp [nbrsAt, this] at hw
  · intro v hv hne
    rcases h3 v (mem_liveIds.2 hv) with h | h
    · exact absurd h hne
    · exact h

end Comet.HNSW
