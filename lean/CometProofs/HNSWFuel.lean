/-
  searchLayer never faults and its fuel suffices (helper lemmas for C12): every loop
  iteration pops one candidate and every push marks a vertex that was not visited before,
  so `|candidates| + |unvisited ids below the bound|` strictly decreases.
-/
import CometProofs.HNSWState
namespace Comet.HNSW

variable {V S : Type}

/-- number of ids below the bound that are not marked visited -/
def unv (s : State V) (vis : IdMap Unit) : Nat :=
  ((List.range s.nodes.bound).filter fun i => !vis.contains i).length

theorem filter_len_mono (vis : IdMap Unit) (nb : Id) :
    ∀ l : List Id, (l.filter fun i => !(vis.set nb ()).contains i).length ≤
      (l.filter fun i => !vis.contains i).length
  | [] => by simp
  | a :: t => by
    have ih := filter_len_mono vis nb t
    simp only [List.filter_cons]
    by_cases h : vis.contains a = true
    · have h' : (vis.set nb ()).contains a = true := vis_mono vis nb a h
      simp [h, h', ih]
    · have h0 : vis.contains a = false := by simpa using h
      cases h1 : (vis.set nb ()).contains a with
      | true => simp [h0]; omega
      | false => simp [h0]; omega

theorem filter_len_drop (vis : IdMap Unit) (nb : Id) (hnb : vis.contains nb = false) :
    ∀ l : List Id, nb ∈ l → (l.filter fun i => !(vis.set nb ()).contains i).length + 1 ≤
      (l.filter fun i => !vis.contains i).length
  | [], h => by cases h
  | a :: t, h => by
    simp only [List.filter_cons]
    by_cases ha : a = nb
    · subst ha
      have := filter_len_mono vis a t
      simp [hnb, vis_set_self vis a]; omega
    · have hmem : nb ∈ t := by
        rcases List.mem_cons.1 h with h1 | h1
        · exact absurd h1.symm ha
        · exact h1
      have ih := filter_len_drop vis nb hnb t hmem
      have hsame : (vis.set nb ()).contains a = vis.contains a := by
        cases hc : vis.contains a with
        | true => exact vis_mono vis nb a hc
        | false =>
          cases hc' : (vis.set nb ()).contains a with
          | false => rfl
          | true =>
            rcases (contains_set_iff vis nb a).1 hc' with h1 | h1
            · exact absurd h1.symm ha
            · rw [hc] at h1; cases h1
      rw [hsame]
      cases vis.contains a <;> simp <;> omega

theorem unv_set (s : State V) (vis : IdMap Unit) (nb : Id) (hlt : nb < s.nodes.bound)
    (hnb : vis.contains nb = false) : unv s (vis.set nb ()) + 1 ≤ unv s vis :=
  filter_len_drop vis nb hnb _ (List.mem_range.2 hlt)

theorem unv_empty (s : State V) : unv s (IdMap.empty : IdMap Unit) = s.nodes.bound := by
  simp [unv, IdMap.contains]

theorem node!_ok {s : State V} {i : Id} (h : s.nodes.contains i = true) : ∃ n, node! s i = .ok n := by
  obtain ⟨n, hn⟩ := IdMap.contains_iff.1 h
  exact ⟨n, by simp [node!, hn]⟩

section
variable (m : Metric V S) (s : State V) (q : V) (ef layer : Nat)

theorem admits_ok (hef : 1 ≤ ef) (rs : List (Hit S)) (d : S) : ∃ b, admits m.sc.lt ef rs d = .ok b := by
  simp only [admits]
  split
  · exact ⟨true, rfl⟩
  · next h =>
    cases rs with
    | nil => simp at h; omega
    | cons w _ => exact ⟨_, rfl⟩

theorem stops_ok (hef : 1 ≤ ef) (rs : List (Hit S)) (d : S) : ∃ b, stops m.sc.lt ef rs d = .ok b := by
  simp only [stops]
  split
  · next h =>
    cases rs with
    | nil => simp at h; omega
    | cons w _ => exact ⟨_, rfl⟩
  · exact ⟨false, rfl⟩

theorem scanNbrs_total (hef : 1 ≤ ef) :
    ∀ (nbs : List Id) (cs rs : List (Hit S)) (vis : IdMap Unit),
      (∀ nb ∈ nbs, s.nodes.contains nb = true) → (∀ c ∈ cs, s.nodes.contains c.id = true) →
      ∃ cs' rs' vis', scanNbrs m s q ef nbs (cs, rs, vis) = .ok (cs', rs', vis') ∧
        (∀ c ∈ cs', s.nodes.contains c.id = true) ∧ cs'.length + unv s vis' ≤ cs.length + unv s vis := by
  intro nbs
  induction nbs with
  | nil =>
    intro cs rs vis _ hcs
    exact ⟨cs, rs, vis, by simp [scanNbrs], hcs, Nat.le_refl _⟩
  | cons nb rest ih =>
    intro cs rs vis hnbs hcs
    have hrest : ∀ nb ∈ rest, s.nodes.contains nb = true := fun x hx => hnbs x (List.mem_cons_of_mem _ hx)
    have hnb := hnbs nb (by simp)
    simp only [scanNbrs]
    split
    · exact ih cs rs vis hrest hcs
    · next hvis =>
      have hvis' : vis.contains nb = false := by simpa using hvis
      obtain ⟨n, hn⟩ := node!_ok hnb
      have hlt : nb < s.nodes.bound := by
        obtain ⟨n', hn'⟩ := IdMap.contains_iff.1 hnb
        exact IdMap.lt_bound_of_get? hn'
      have hdrop := unv_set s vis nb hlt hvis'
      rw [hn]
      simp only
      obtain ⟨b, hb⟩ := admits_ok m ef hef rs (m.dist q n.vec)
      rw [hb]
      cases b with
      | false =>
        obtain ⟨cs', rs', vis', h1, h3, h4⟩ := ih cs rs (vis.set nb ()) hrest hcs
        exact ⟨cs', rs', vis', h1, h3, by omega⟩
      | true =>
        simp only
        have hcs' : ∀ c ∈ insAsc m.sc.lt ⟨nb, m.dist q n.vec⟩ cs, s.nodes.contains c.id = true := by
          intro c hc
          rcases mem_insAsc.1 hc with rfl | hc
          · exact hnb
          · exact hcs c hc
        have hl : (insAsc m.sc.lt ⟨nb, m.dist q n.vec⟩ cs).length = cs.length + 1 := by
          rw [(insAsc_perm m.sc.lt _ cs).length_eq]; simp
        split
        · obtain ⟨cs', rs', vis', h1, h3, h4⟩ := ih _ rs (vis.set nb ()) hrest hcs'
          exact ⟨cs', rs', vis', h1, h3, by omega⟩
        · obtain ⟨cs', rs', vis', h1, h3, h4⟩ := ih _ _ (vis.set nb ()) hrest hcs'
          exact ⟨cs', rs', vis', h1, h3, by omega⟩

theorem searchLoop_total (hef : 1 ≤ ef) (hres : ∀ j w, w ∈ nbrsAt s layer j → s.nodes.contains w = true) :
    ∀ (fuel : Nat) (cs rs : List (Hit S)) (vis : IdMap Unit),
      (∀ c ∈ cs, s.nodes.contains c.id = true) → cs.length + unv s vis ≤ fuel →
      ∃ res, searchLoop m s q ef layer fuel cs rs vis = .ok res := by
  intro fuel
  induction fuel with
  | zero =>
    intro cs rs vis _ hm
    cases cs with
    | nil => exact ⟨rs, by simp [searchLoop]⟩
    | cons c cs => simp at hm
  | succ fuel ih =>
    intro cs rs vis hcs hm
    cases cs with
    | nil => exact ⟨rs, by simp [searchLoop]⟩
    | cons c cs =>
      simp only [searchLoop]
      obtain ⟨b, hb⟩ := stops_ok m ef hef rs c.score
      rw [hb]
      cases b with
      | true => exact ⟨rs, rfl⟩
      | false =>
        simp only
        have hc := hcs c (by simp)
        obtain ⟨n, hn⟩ := node!_ok hc
        rw [hn]
        simp only
        have hcs' : ∀ x ∈ cs, s.nodes.contains x.id = true := fun x hx => hcs x (List.mem_cons_of_mem _ hx)
        simp only [List.length_cons] at hm
        cases he : n.edges[layer]? with
        | none => exact ih cs rs vis hcs' (by omega)
        | some nbs =>
          simp only
          have hnbs : ∀ nb ∈ nbs, s.nodes.contains nb = true := by
            intro nb hnb
            refine hres c.id nb ?_
            simp [nbrsAt, node!_eq hn, he, hnb]
          obtain ⟨cs', rs', vis', h1, h3, h4⟩ := scanNbrs_total m s q ef hef nbs cs rs vis hnbs hcs'
          rw [h1]
          exact ih cs' rs' vis' h3 (by omega)

/-- **Fuel lemma / no fault.** If the neighbour lists of the layer point to resident
    vertices and the start vertex is resident, `searchLayer` completes: `|nodes| + 1` rounds
    suffice and no nil lookup or empty-heap access happens (the ef clamp of fix f6a780e is
    what makes the heap bound safe while only soft-deleted vertices have been seen). -/
theorem searchLayer_total (ep : Id)
    (hres : ∀ j w, w ∈ nbrsAt s layer j → s.nodes.contains w = true)
    (hep : s.nodes.contains ep = true) :
    ∃ res, searchLayer m s q ep ef layer = .ok res := by
  simp only [searchLayer]
  obtain ⟨n, hn⟩ := node!_ok hep
  rw [hn]
  simp only
  have hlt : ep < s.nodes.bound := by
    obtain ⟨n', hn'⟩ := IdMap.contains_iff.1 hep
    exact IdMap.lt_bound_of_get? hn'
  have hm : ([⟨ep, m.dist q n.vec⟩] : List (Hit S)).length +
      unv s ((IdMap.empty : IdMap Unit).set ep ()) ≤ s.nodes.bound + 1 := by
    have := unv_set s (IdMap.empty : IdMap Unit) ep hlt (by simp [IdMap.contains])
    rw [unv_empty] at this
    simp only [List.length_cons, List.length_nil]
    omega
  obtain ⟨res, hr⟩ := searchLoop_total m s q (Nat.max ef 1) layer (Nat.le_max_right _ _) hres
    (s.nodes.bound + 1) [⟨ep, m.dist q n.vec⟩]
    (if isDeleted s ep then [] else [⟨ep, m.dist q n.vec⟩]) _
    (by intro c hc'; rcases List.mem_singleton.1 hc' with rfl; exact hep) hm
  rw [hr]
  exact ⟨res.reverse, rfl⟩

end
end Comet.HNSW
