/-
  `#audit_module M` — prints, for every theorem declared in module `M`, one line
     AXIOMS <name> : <comma separated axioms>
  and a final `AUDITED <n>`.  The check script parses these lines; nothing is
  counted by hand.
-/
import Lean
open Lean Elab Command

elab "#audit_module " m:ident : command => do
  let env ← getEnv
  let modName := m.getId
  let some idx := env.getModuleIdx? modName
    | throwError "module {modName} not imported"
  let mut n : Nat := 0
  let names := env.header.moduleData[idx.toNat]!.constNames
  for c in names do
    if c.isInternalDetail then continue
    match env.find? c with
    | some (.thmInfo _) =>
      let axs ← liftCoreM <| collectAxioms c
      let s := ", ".intercalate (axs.toList.map toString)
      logInfo m!"AXIOMS {c} : {s}"
      n := n + 1
    | _ => pure ()
  logInfo m!"AUDITED {n}"
