/-
  Helper lemmas for C01 (flat index): the model refines the abstract "live list".
-/
import Comet.Vector.Flat
namespace Comet.Flat

variable {V S : Type}

theorem step_dim (m : Metric V S) (s : State V) (op : Op V) : (step m s op).1.dim = s.dim := by
  cases op <;> simp only [step]
  · split
    · rfl
    · split <;> rfl
  · split
    · rfl
    · split <;> rfl
  · split <;> rfl

theorem run_dim (m : Metric V S) (s : State V) (ops : List (Op V)) : (run m s ops).dim = s.dim := by
  induction ops generalizing s with
  | nil => rfl
  | cons op t ih => simp only [run, List.foldl_cons] at *; rw [ih, step_dim]

/-- soft-deleted ids are always stored ids -/
def DelSub (s : State V) : Prop := ∀ i ∈ s.deleted, i ∈ ids s

theorem step_delSub (m : Metric V S) (s : State V) (op : Op V) (h : DelSub s) :
    DelSub (step m s op).1 := by
  cases op with
  | add id v =>
    simp only [step]
    split
    · exact h
    · split
      · exact h
      · intro i hi
        have := h i hi
        simp only [ids, List.map_append, List.mem_append] at *
        exact Or.inl this
  | remove id =>
    simp only [step]
    split
    · exact h
    · next hex =>
      split
      · exact h
      · intro i hi
        simp only [List.mem_cons] at hi
        rcases hi with rfl | hi
        · simp only [ids, List.mem_map]
          simp only [Decidable.not_not, List.any_eq_true] at hex
          obtain ⟨p, hp, he⟩ := hex
          exact ⟨p, hp, by simpa using he⟩
        · exact h i hi
  | flush =>
    simp only [step]
    split
    · exact h
    · intro i hi; cases hi

theorem step_ids_sub (m : Metric V S) (s : State V) (op : Op V) :
    ∀ i ∈ ids (step m s op).1, i ∈ ids s ∨ i ∈ addedIds [op] := by
  intro i hi
  cases op with
  | add id v =>
    simp only [step] at hi
    split at hi
    · exact Or.inl hi
    · split at hi
      · exact Or.inl hi
      · simp only [ids, List.map_append, List.mem_append, List.map_cons, List.map_nil,
          List.mem_singleton] at hi
        rcases hi with hi | hi
        · exact Or.inl hi
        · exact Or.inr (by simp [addedIds, hi])
  | remove id =>
    simp only [step] at hi
    split at hi
    · exact Or.inl hi
    · split at hi <;> exact Or.inl hi
  | flush =>
    simp only [step] at hi
    split at hi
    · exact Or.inl hi
    · simp only [ids, List.mem_map, List.mem_filter] at hi ⊢
      obtain ⟨p, ⟨hp, _⟩, rfl⟩ := hi
      exact Or.inl ⟨p, hp, rfl⟩

/-- one-step simulation -/
theorem eff_step (m : Metric V S) (s : State V) (op : Op V)
    (hadd : ∀ id v, op = .add id v → id ∉ s.deleted) :
    eff (step m s op).1 = specStep m s.dim (eff s) op := by
  cases op with
  | add id v =>
    simp only [step, specStep]
    split
    · rfl
    · cases hp : m.pre v with
      | none => rfl
      | some v' =>
        have := hadd id v rfl
        simp [eff, List.filter_append, this]
  | remove id =>
    simp only [step, specStep]
    split
    · next hex =>
      -- id not stored: filtering it out of the live list changes nothing
      simp only [List.any_eq_true, not_exists, not_and] at hex
      symm
      apply List.filter_eq_self.2
      intro p hp
      have hp' := (List.mem_filter.1 hp).1
      have := hex p hp'
      simpa using this
    · split
      · next hdel =>
        symm
        apply List.filter_eq_self.2
        intro p hp
        have hp' := (List.mem_filter.1 hp).2
        simp only [decide_eq_true_eq] at hp'
        simp only [bne_iff_ne, ne_eq]
        intro he
        exact hp' (he ▸ hdel)
      · simp only [eff, List.filter_filter]
        apply List.filter_congr
        intro p _
        simp only [List.mem_cons, not_or, Bool.decide_and]
        congr 1
        by_cases h : p.1 = id <;> simp [h]
  | flush =>
    simp only [step, specStep]
    split
    · rfl
    · simp [eff]

theorem eff_run (m : Metric V S) (s : State V) (ops : List (Op V))
    (hdel : DelSub s) (hfresh : FreshAdds ops)
    (hnew : ∀ i ∈ ids s, i ∉ addedIds ops) :
    eff (run m s ops) = ops.foldl (specStep m s.dim) (eff s) := by
  induction ops generalizing s with
  | nil => rfl
  | cons op t ih =>
    simp only [run, List.foldl_cons]
    have hstep : eff (step m s op).1 = specStep m s.dim (eff s) op := by
      apply eff_step
      intro id v he hd
      subst he
      exact hnew id (hdel id hd) (by simp [addedIds])
    have hfresh' : FreshAdds t := by
      cases op <;> simp_all [FreshAdds, addedIds]
    have hnew' : ∀ i ∈ ids (step m s op).1, i ∉ addedIds t := by
      intro i hi
      rcases step_ids_sub m s op i hi with h | h
      · have := hnew i h
        cases op <;> simp_all [addedIds]
      · cases op <;> simp_all [FreshAdds, addedIds]
    have := ih (step m s op).1 (step_delSub m s op hdel) hfresh' hnew'
    simp only [run] at this
    rw [this, step_dim, hstep]

theorem eff_run_init (m : Metric V S) (dim : Nat) (ops : List (Op V)) (hfresh : FreshAdds ops) :
    eff (run m (init dim) ops) = live m dim ops := by
  have := eff_run m (init dim) ops (by intro i hi; cases hi) hfresh (by intro i hi; cases hi)
  simpa [live, eff, init] using this

/-- the scan loop only sees the effective list -/
theorem scan_eq_cands (m : Metric V S) (s : State V) (q' : V) (thr : S) (filter : List Id) :
    scan m s q' thr filter = cands m (eff s) q' thr filter := by
  simp only [scan, cands, eff, List.filterMap_filter]
  congr 1
  funext p
  by_cases h : p.1 ∈ s.deleted <;> simp [h]

theorem scan_length_le (m : Metric V S) (s : State V) (q' : V) (thr : S) (filter : List Id) :
    (scan m s q' thr filter).length ≤ s.vecs.length := by
  simp only [scan]; exact List.length_filterMap_le _ _

/-- `searchSingleQuery` is `selectK` over the scan -/
theorem searchSingle_eq (m : Metric V S) (s : State V) (q q' : V) (k : Int) (thr : S)
    (filter : List Id) (hq : m.dimOf q = s.dim) (hpre : m.pre q = some q') :
    searchSingle m s q k thr filter = .ok (selectK m.sc.le k (scan m s q' thr filter)) := by
  simp only [searchSingle, hq, hpre, ne_eq, not_true_eq_false, if_false, selectK]
  congr 2
  rw [List.length_mergeSort]
  exact sanitizeK_twice k _ _ (scan_length_le m s q' thr filter)

end Comet.Flat
