/-
  Helper lemmas for C01 (flat index): the model refines the abstract "live list".
-/
import Comet.Vector.Flat
namespace Comet.Flat

variable {V S : Type}

theorem flushed_dim (s : State V) : (flushed s).dim = s.dim := rfl

theorem step_dim (m : Metric V S) (s : State V) (op : Op V) : (step m s op).1.dim = s.dim := by
  cases op <;> simp only [step]
  · split
    · rfl
    · split
      · rfl
      · dsimp only; split <;> rfl
  · split
    · rfl
    · split <;> rfl
  · split <;> rfl

theorem run_dim (m : Metric V S) (s : State V) (ops : List (Op V)) : (run m s ops).dim = s.dim := by
  induction ops generalizing s with
  | nil => rfl
  | cons op t ih => simp only [run, List.foldl_cons] at *; rw [ih, step_dim]

/-- purging tombstoned entries does not change what the state means -/
theorem eff_flushed (s : State V) : eff (flushed s) = eff s := by
  simp [eff, flushed]

theorem eff_append (s : State V) (id : Id) (v' : V) (h : id ∉ s.deleted) :
    eff { dim := s.dim, vecs := s.vecs ++ [(id, v')], deleted := s.deleted } =
      eff s ++ [(id, v')] := by
  simp [eff, List.filter_append, h]

/-- one-step simulation: the model refines the live-list specification, for EVERY op
    (since comet's Add purges a tombstone before re-adding its id, no freshness
    hypothesis is needed) -/
theorem eff_step (m : Metric V S) (s : State V) (op : Op V) :
    eff (step m s op).1 = specStep m s.dim (eff s) op := by
  cases op with
  | add id v =>
    simp only [step, specStep]
    split
    · rfl
    · cases hp : m.pre v with
      | none => rfl
      | some v' =>
        dsimp only
        by_cases hd : id ∈ s.deleted
        · simp only [hd, if_true]
          rw [eff_append (flushed s) id v' (by simp [flushed]), eff_flushed]
        · simp only [hd, if_false]
          exact eff_append s id v' hd
  | remove id =>
    simp only [step, specStep]
    split
    · next hex =>
      -- id not stored: filtering it out of the live list changes nothing
      simp only [List.any_eq_true, not_exists, not_and] at hex
      symm
      apply List.filter_eq_self.2
      intro p hp
      have hp' := (List.mem_filter.1 hp).1
      have := hex p hp'
      simpa using this
    · split
      · next hdel =>
        symm
        apply List.filter_eq_self.2
        intro p hp
        have hp' := (List.mem_filter.1 hp).2
        simp only [decide_eq_true_eq] at hp'
        simp only [bne_iff_ne, ne_eq]
        intro he
        exact hp' (he ▸ hdel)
      · simp only [eff, List.filter_filter]
        apply List.filter_congr
        intro p _
        simp only [List.mem_cons, not_or, Bool.decide_and]
        congr 1
        by_cases h : p.1 = id <;> simp [h]
  | flush =>
    simp only [step, specStep]
    split
    · rfl
    · exact eff_flushed s

theorem eff_run (m : Metric V S) (s : State V) (ops : List (Op V)) :
    eff (run m s ops) = ops.foldl (specStep m s.dim) (eff s) := by
  induction ops generalizing s with
  | nil => rfl
  | cons op t ih =>
    simp only [run, List.foldl_cons]
    have := ih (step m s op).1
    simp only [run] at this
    rw [this, step_dim, eff_step]

theorem eff_run_init (m : Metric V S) (dim : Nat) (ops : List (Op V)) :
    eff (run m (init dim) ops) = live m dim ops := by
  have := eff_run m (init dim) ops
  simpa [live, eff, init] using this

/-- the scan loop only sees the effective list -/
theorem scan_eq_cands (m : Metric V S) (s : State V) (q' : V) (thr : S) (filter : List Id) :
    scan m s q' thr filter = cands m (eff s) q' thr filter := by
  simp only [scan, cands, eff, List.filterMap_filter]
  congr 1
  funext p
  by_cases h : p.1 ∈ s.deleted <;> simp [h]

theorem scan_length_le (m : Metric V S) (s : State V) (q' : V) (thr : S) (filter : List Id) :
    (scan m s q' thr filter).length ≤ s.vecs.length := by
  simp only [scan]; exact List.length_filterMap_le _ _

/-- `searchSingleQuery` is `selectK` over the scan -/
theorem searchSingle_eq (m : Metric V S) (s : State V) (q q' : V) (k : Int) (thr : S)
    (filter : List Id) (hq : m.dimOf q = s.dim) (hpre : m.pre q = some q') :
    searchSingle m s q k thr filter = .ok (selectK m.sc.le k (scan m s q' thr filter)) := by
  simp only [searchSingle, hq, hpre, ne_eq, not_true_eq_false, if_false, selectK]
  congr 2
  rw [List.length_mergeSort]
  exact sanitizeK_twice k _ _ (scan_length_le m s q' thr filter)

end Comet.Flat
