/- Helper lemmas for C03 (BM25 text index); see the files for the section plan. -/
import CometProofs.BM25.AList
import CometProofs.BM25.Loops
import CometProofs.BM25.Inv
import CometProofs.BM25.Search
import CometProofs.BM25.Rank
import CometProofs.BM25.Agg
import CometProofs.BM25.SpecLemmas
import CometProofs.BM25.Toy
