/-
  Helper lemmas for C20 (quantiser part): the two roundings on ℚ and the exponent
  selection of the binary16 model.
-/
import Mathlib.Data.Rat.Floor
import Mathlib.Algebra.Order.Field.Basic
import Mathlib.Tactic.Linarith
import Mathlib.Tactic.Ring
import Mathlib.Tactic.Positivity
import Mathlib.Tactic.FieldSimp
import Mathlib.Tactic.NormNum
import Comet.Quant
import Comet.DistanceF32
namespace Comet.Quant
open Comet.Dist

theorem floor_le' (t : ℚ) : ((t.floor : ℤ) : ℚ) ≤ t := Int.floor_le t
theorem lt_floor_add_one' (t : ℚ) : t < ((t.floor : ℤ) : ℚ) + 1 := Int.lt_floor_add_one t

theorem rabs_eq (x : ℚ) : rabs x = |x| := by
  unfold rabs
  split
  · next h => rw [abs_of_neg h]
  · next h => rw [abs_of_nonneg (not_lt.1 h)]

/-- round-to-nearest-even is within one half -/
theorem rne_err (t : ℚ) : |t - (rne t : ℚ)| ≤ 1 / 2 := by
  have h1 := floor_le' t
  have h2 := lt_floor_add_one' t
  unfold rne
  simp only
  split
  · rw [abs_le]; constructor <;> linarith
  · split
    · push_cast; rw [abs_le]; constructor <;> linarith
    · split
      · rw [abs_le]; constructor <;> linarith
      · push_cast; rw [abs_le]; constructor <;> linarith

theorem int_abs_le_of_le_add_half (z n : ℤ) (h : |(z : ℚ)| ≤ (n : ℚ) + 1 / 2) : |z| ≤ n := by
  rw [abs_le] at h ⊢
  obtain ⟨h1, h2⟩ := h
  constructor
  · have : (-(n : ℚ) - 1) < (z : ℚ) := by linarith
    have : -(n : ℤ) - 1 < z := by exact_mod_cast this
    omega
  · have : (z : ℚ) < (n : ℚ) + 1 := by linarith
    have : z < n + 1 := by exact_mod_cast this
    omega

theorem rne_abs_le (t : ℚ) (n : ℤ) (h : |t| ≤ (n : ℚ)) : |rne t| ≤ n := by
  apply int_abs_le_of_le_add_half
  have h1 := rne_err t
  have : |(rne t : ℚ)| ≤ |t| + |t - (rne t : ℚ)| := by
    have := abs_sub_abs_le_abs_sub (rne t : ℚ) t
    rw [abs_sub_comm] at this
    linarith
  linarith

/-- `math.Round` is within one half -/
theorem roundHalfAway_err (t : ℚ) : |t - (roundHalfAway t : ℚ)| ≤ 1 / 2 := by
  unfold roundHalfAway
  split
  · have h1 := floor_le' (t + 1 / 2)
    have h2 := lt_floor_add_one' (t + 1 / 2)
    rw [abs_le]; constructor <;> linarith
  · have h1 := floor_le' (-t + 1 / 2)
    have h2 := lt_floor_add_one' (-t + 1 / 2)
    push_cast
    rw [abs_le]; constructor <;> linarith

theorem roundHalfAway_abs_le (t : ℚ) (n : ℤ) (h : |t| ≤ (n : ℚ)) : |roundHalfAway t| ≤ n := by
  apply int_abs_le_of_le_add_half
  have h1 := roundHalfAway_err t
  have : |(roundHalfAway t : ℚ)| ≤ |t| + |t - (roundHalfAway t : ℚ)| := by
    have := abs_sub_abs_le_abs_sub (roundHalfAway t : ℚ) t
    rw [abs_sub_comm] at this
    linarith
  linarith

theorem wrap8_id (z : ℤ) (h : |z| ≤ 127) : wrap8 z = z := by
  rw [abs_le] at h
  unfold wrap8
  rw [Int.bmod_def]
  omega

/-- exponent selection: `10 ≤ E ≤ 10+n`, `2^E ≤ aX` unless `E = 10`, and `aX < 2^(E+1)`
    unless `E` is the largest candidate -/
theorem halfExpFrom_spec (aX : ℚ) (n : ℕ) :
    10 ≤ halfExpFrom aX n ∧ halfExpFrom aX n ≤ 10 + n ∧
    (10 < halfExpFrom aX n → (2 : ℚ) ^ halfExpFrom aX n ≤ aX) ∧
    (halfExpFrom aX n < 10 + n → aX < (2 : ℚ) ^ (halfExpFrom aX n + 1)) := by
  induction n with
  | zero => simp [halfExpFrom]
  | succ m ih =>
    simp only [halfExpFrom]
    split
    · next h => exact ⟨by omega, by omega, fun _ => h, fun hlt => by omega⟩
    · next h =>
      obtain ⟨h1, h2, h3, h4⟩ := ih
      refine ⟨h1, by omega, h3, ?_⟩
      intro _
      by_cases hE : halfExpFrom aX m < 10 + m
      · exact h4 hE
      · have : halfExpFrom aX m = 10 + m := by omega
        rw [this]
        exact not_le.1 h

theorem ofInt8_rat (q : ℤ) : ofInt8 ratOps q = (q : ℚ) := by
  have h3 : ((q.natAbs : ℕ) : ℚ) = |(q : ℚ)| := by rw [Nat.cast_natAbs, Int.cast_abs]
  unfold ofInt8
  split
  · next h =>
    simp only [ratOps]
    rw [h3, abs_of_neg (by exact_mod_cast h)]; ring
  · next h =>
    simp only [ratOps]
    rw [h3, abs_of_nonneg (by exact_mod_cast (not_lt.1 h))]

theorem absMaxStep_rat (m y : ℚ) : m ≤ absMaxStep ratOps m y ∧ |y| ≤ absMaxStep ratOps m y := by
  have habs : absS ratOps y = |y| := by
    unfold absS; simp only [ratOps, decide_eq_true_eq]
    split
    · next h => rw [abs_of_neg h]
    · next h => rw [abs_of_nonneg (not_lt.1 h)]
  unfold absMaxStep
  simp only [habs]
  simp only [ratOps, decide_eq_true_eq]
  split
  · next h => exact ⟨h.le, le_refl _⟩
  · next h => exact ⟨le_refl _, not_lt.1 h⟩

theorem isTrained_rat (A : ℚ) : isTrained ratOps A = decide (0 < A) := rfl

end Comet.Quant
