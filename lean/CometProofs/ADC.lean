/-
  The asymmetric-distance identity for the model's own definitions, for any
  arithmetic whose addition is associative with a two-sided zero (core Lean only;
  instantiated at commutative rings and at ℝ in CometProofs/ADCReal.lean):

      Σ_m table[m][code[m]]  =  ‖q − recon(code)‖²

  The left side is summed subspace by subspace (each table entry is itself a left fold
  over the components), the right side is one left fold over all components: the two
  agree by associativity only.
-/
import CometProofs.PQ
namespace Comet.PQ

variable {S : Type}

/-- the laws the identity needs (an additive monoid) -/
structure Ops.Laws (o : Ops S) : Prop where
  add_assoc : ∀ a b c, o.add (o.add a b) c = o.add a (o.add b c)
  zero_add : ∀ a, o.add o.zero a = a
  add_zero : ∀ a, o.add a o.zero = a

variable {o : Ops S} (L : o.Laws)
include L

theorem foldl_add_eq (a : S) (l : List S) :
    l.foldl o.add a = o.add a (l.foldl o.add o.zero) := by
  induction l generalizing a with
  | nil => simp [L.add_zero]
  | cons x xs ih =>
    simp only [List.foldl_cons]
    rw [ih (o.add a x), ih (o.add o.zero x), L.zero_add, L.add_assoc]

theorem sqDist_append (a1 a2 c1 c2 : List S) (h : a1.length = c1.length) :
    sqDist o (a1 ++ a2) (c1 ++ c2) = o.add (sqDist o a1 c1) (sqDist o a2 c2) := by
  unfold sqDist
  rw [List.zipWith_append h, List.foldl_append, foldl_add_eq L]

omit L in
theorem sqDist_nil (o : Ops S) : sqDist o ([] : List S) [] = o.zero := rfl

/-- the segment of `q` covered by subspaces `i, …, i+n−1` -/
def seg (dsub : Nat) (q : List S) (i n : Nat) : List S := (q.drop (i * dsub)).take (n * dsub)

omit L in
theorem seg_succ (dsub : Nat) (q : List S) (i n : Nat) :
    seg dsub q i (n + 1) = subvec dsub i q ++ seg dsub q (i + 1) n := by
  unfold seg subvec
  have h1 : (n + 1) * dsub = dsub + n * dsub := by rw [Nat.add_mul, Nat.one_mul, Nat.add_comm]
  rw [h1, List.take_add, List.drop_drop]
  congr 3
  rw [Nat.add_mul, Nat.one_mul]

omit L in
theorem subvec_length (dsub : Nat) (q : List S) (i : Nat) (h : (i + 1) * dsub ≤ q.length) :
    (subvec dsub i q).length = dsub := by
  unfold subvec
  rw [List.length_take, List.length_drop]
  rw [Nat.add_mul, Nat.one_mul] at h
  omega

/-- The identity, for the sub-sum starting at subspace `i` with accumulator `acc`. -/
theorem adcSumFrom_eq (dsub : Nat) (q : List S) (cbs : List (List (List S)))
    (hw : ∀ cb ∈ cbs, ∀ w ∈ cb, w.length = dsub) (i : Nat)
    (hq : (i + cbs.length) * dsub ≤ q.length) (code : List Nat) (acc s : S)
    (h : adcSumFrom o acc (tablesFrom o dsub q i cbs) code = some s) :
    ∃ r, recon cbs code = some r ∧
      s = o.add acc (sqDist o (seg dsub q i cbs.length) r) := by
  induction cbs generalizing i code acc with
  | nil =>
    simp only [tablesFrom, adcSumFrom, Option.some.injEq] at h
    refine ⟨[], rfl, ?_⟩
    simp [seg, sqDist, L.add_zero, h]
  | cons cb rest ih =>
    cases code with
    | nil => simp [tablesFrom, adcSumFrom] at h
    | cons c cs =>
      simp only [tablesFrom, adcSumFrom] at h
      cases hc : (cb.map (sqDist o (subvec dsub i q)))[c]? with
      | none => simp [hc] at h
      | some d =>
        simp only [hc] at h
        simp only [List.getElem?_map, Option.map_eq_some_iff] at hc
        obtain ⟨w, hw1, hw2⟩ := hc
        have hwl : w.length = dsub :=
          hw cb List.mem_cons_self w (List.mem_of_getElem? hw1)
        have hq' : (i + 1 + rest.length) * dsub ≤ q.length := by
          simp only [List.length_cons] at hq
          have : i + 1 + rest.length = i + (rest.length + 1) := by omega
          rw [this]; exact hq
        obtain ⟨r, hr1, hr2⟩ := ih (fun cb' h' => hw cb' (List.mem_cons_of_mem _ h')) (i + 1) hq'
          cs (o.add acc d) h
        refine ⟨w ++ r, by simp [recon, hw1, hr1], ?_⟩
        have hsl : (subvec dsub i q).length = w.length := by
          rw [hwl]
          apply subvec_length
          simp only [List.length_cons] at hq
          have : (i + 1) * dsub ≤ (i + (rest.length + 1)) * dsub :=
            Nat.mul_le_mul_right _ (by omega)
          omega
        rw [hr2, List.length_cons, seg_succ, sqDist_append L _ _ _ _ hsl, ← hw2, L.add_assoc]

/-- **ADC identity** for the model's definitions: when the dimension is `M·dsub` and the
    codebooks are well-formed, the table sum of a code is the squared distance between the
    query and the reconstruction of the code. -/
theorem adcSum_eq_sqDist_recon (M ksub dsub : Nat) (cbs : List (List (List S)))
    (hwf : cbWF M ksub dsub cbs = true) (q : List S) (hq : q.length = M * dsub)
    (code : List Nat) (s : S) (h : adcSum o (tables o dsub cbs q) code = some s) :
    ∃ r, recon cbs code = some r ∧ s = sqDist o q r := by
  obtain ⟨hlen, hall⟩ := (cbWF_iff M ksub dsub cbs).1 hwf
  obtain ⟨r, hr1, hr2⟩ := adcSumFrom_eq L dsub q cbs (fun cb h => (hall cb h).2) 0
    (by rw [Nat.zero_add, hlen, hq]; exact Nat.le_refl _) code o.zero s h
  refine ⟨r, hr1, ?_⟩
  rw [hr2, L.zero_add]
  congr 1
  simp [seg, hlen, ← hq]

end Comet.PQ
