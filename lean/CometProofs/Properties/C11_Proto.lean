/-
  C11 (C) index protocols and (E) id uniqueness — property theorems only.

  lin_visibility            every interleaving of the protocol's regions (any number of
                            threads, any programs) yields a history satisfying VisibilityOK
                            — the predicate the driver checks on logged histories    — full
                            (per query: a multi-query search takes the read lock once per
                            query, so each query is one `search` region / one history entry)
  checkVisibility_iff       the driver's checker decides exactly VisibilityOK         — full
  no_spurious_error         the only failing responses are Remove's "not found" /
                            "already deleted", each equal to what the sequential (atomic)
                            Remove answers on the state the check region read         — full
  never_panics              with the one-region Remove of today's code (fb7bd70) no
                            interleaving panics                                        — full
  flush_no_panic_partial    (former two-region Remove) no panic if no flush runs inside a
                            Remove's check→write window                               — partial
  remove_flush_window_panics  (former two-region Remove) "never panics" is FALSE for flat /
                            PQ: concrete 7-region two-thread interleaving — the defect D16
                            found by this check and repaired in /repo by fb7bd70       — negation
  ids_unique                atomic counter ⇒ pairwise distinct ids until wrap-around   — full
-/
import CometProofs.Conc.RemoveProto
namespace Comet.Conc.Proto

/-- **(C) visibility-linearizability.**  For every configuration and every interleaving `acts`
    of Add / Remove-check / Remove-write / search / Flush regions, the resulting history is
    `VisibilityOK`: every search returns each id whose successful add completed before the
    search began and no removal of which began before the search ended (V1); never an id
    whose successful removal completed before the search began, unless it was added again
    after that removal began (V2); never an id that was not added (V3). -/
theorem lin_visibility (cfg : Cfg) (acts : List Act) : VisibilityOK (run cfg acts).hist :=
  (good_run cfg acts).vis

/-- the driver's checker decides the history predicate (soundness and completeness) -/
theorem checkVisibility_iff (h : List HOp) : checkVisibility h = true ↔ VisibilityOK h := by
  simp only [checkVisibility, VisibilityOK, List.all_eq_true, Bool.or_eq_true, Bool.not_eq_true',
    Bool.and_eq_true, beq_eq_false_iff_ne, ne_eq, checkV1_iff, checkV2_iff, checkV3_iff]
  constructor
  · intro hc S hS hk
    rcases hc S hS with h1 | h1
    · exact absurd hk h1
    · exact ⟨h1.1.1, h1.1.2, h1.2⟩
  · intro hv S hS
    by_cases hk : S.kind = .search
    · obtain ⟨a, b, c⟩ := hv S hS hk
      exact .inr ⟨⟨a, b⟩, c⟩
    · exact .inl hk

theorem checkVisibility_sound (h : List HOp) (hc : checkVisibility h = true) : VisibilityOK h :=
  (checkVisibility_iff h).1 hc

/-- non-vacuity: a history in which V1 and V2 both have work to do is accepted, and the same
    history with the removed id returned / the live id missing is rejected -/
example : checkVisibility
    [⟨.add, 1, 0, 1, true, []⟩, ⟨.add, 2, 2, 3, true, []⟩, ⟨.remove, 1, 4, 5, true, []⟩,
     ⟨.search, 0, 6, 7, true, [2]⟩] = true := by decide
example : checkVisibility
    [⟨.add, 1, 0, 1, true, []⟩, ⟨.add, 2, 2, 3, true, []⟩, ⟨.remove, 1, 4, 5, true, []⟩,
     ⟨.search, 0, 6, 7, true, [1, 2]⟩] = false := by decide
example : checkVisibility
    [⟨.add, 1, 0, 1, true, []⟩, ⟨.add, 2, 2, 3, true, []⟩, ⟨.remove, 1, 4, 5, true, []⟩,
     ⟨.search, 0, 6, 7, true, []⟩] = false := by decide
/-- a search overlapping the removal may go either way -/
example : checkVisibility [⟨.add, 1, 0, 1, true, []⟩, ⟨.remove, 1, 2, 5, true, []⟩,
    ⟨.search, 0, 3, 4, true, [1]⟩] = true ∧
  checkVisibility [⟨.add, 1, 0, 1, true, []⟩, ⟨.remove, 1, 2, 5, true, []⟩,
    ⟨.search, 0, 3, 4, true, []⟩] = true := by decide

/-- **(C) no spurious error.**  In every interleaving: (1) the only failing responses are a
    Remove that failed in its *check* region, or an Add / Flush that panicked (see
    `flush_no_panic_partial`); a Remove's write region, a search and a non-panicking Add /
    Flush never fail.  (2) A Remove fails in its check region exactly when — and with exactly
    the error that — the sequential specification's atomic Remove returns on the state the
    region read, and then neither changes the state: the failing Remove is linearised at its
    check region.  (Two racing `Remove(id)` may both return nil — `racing_removes_both_ok` —
    which the property allows: neither *fails*.) -/
theorem no_spurious_error (cfg : Cfg) (acts : List Act) :
    FailKinds (run cfg acts) ∧
    ∀ id, let s := run cfg acts
      (∀ e, rmCheckResp s.stored s.deleted id = some e →
          e ≠ .ok ∧ seqRemove s.stored s.deleted id = (s.deleted, e) ∧
          ∃ o, (step cfg s (.rmCheck id)).hist = o :: s.hist ∧ o.kind = .remove ∧ o.id = id ∧ o.ok = false ∧
            (step cfg s (.rmCheck id)).stored = s.stored ∧ (step cfg s (.rmCheck id)).deleted = s.deleted) ∧
      (rmCheckResp s.stored s.deleted id = none →
          seqRemove s.stored s.deleted id = (id :: s.deleted, .ok) ∧
          (cfg.atomicRemove = false → (step cfg s (.rmCheck id)).hist = s.hist) ∧
          (cfg.atomicRemove = true →
            (step cfg s (.rmCheck id)).deleted = (seqRemove s.stored s.deleted id).1 ∧
            ∃ o, (step cfg s (.rmCheck id)).hist = o :: s.hist ∧ o.kind = .remove ∧ o.id = id ∧ o.ok = true)) := by
  constructor
  · unfold run
    have : ∀ (acts : List Act) (s : PSt), FailKinds s → FailKinds (acts.foldl (step cfg) s) := by
      intro acts
      induction acts with
      | nil => intro s h; exact h
      | cons a as ih => intro s h; exact ih _ (failKinds_step cfg h a)
    exact this acts {} (by intro op hop; cases hop)
  · intro id
    simp only
    generalize run cfg acts = s
    constructor
    · intro e he
      by_cases h1 : id ∈ s.stored
      · by_cases h2 : id ∈ s.deleted
        · have : e = .alreadyDeleted := by simpa [rmCheckResp, h1, h2] using he.symm
          subst this
          exact ⟨by simp, by simp [seqRemove, h1, h2], by simp [step, h1, h2]⟩
        · simp [rmCheckResp, h1, h2] at he
      · have : e = .notFound := by simpa [rmCheckResp, h1] using he.symm
        subst this
        exact ⟨by simp, by simp [seqRemove, h1], by simp [step, h1]⟩
    · intro hn
      by_cases h1 : id ∈ s.stored
      · by_cases h2 : id ∈ s.deleted
        · simp [rmCheckResp, h1, h2] at hn
        · refine ⟨by simp [seqRemove, h1, h2], ?_, ?_⟩
          · intro ha; simp [step, h1, h2, ha]
          · intro ha; simp [step, seqRemove, h1, h2, ha]
      · simp [rmCheckResp, h1] at hn

/-- two racing `Remove(5)` both pass the check and both return nil (allowed: neither fails) -/
theorem racing_removes_both_ok :
    ((run ⟨true, true, false⟩ [.add 5, .rmCheck 5, .rmCheck 5, .rmWrite 0, .rmWrite 0]).hist.filter
      fun o => o.kind == .remove && o.ok).length = 2 := by decide

/-! ### the Remove check→write window and Flush -/

/-- FULL statement (false for flat and PQ, `capPanic = true`): no interleaving panics. -/
def NeverPanics (cfg : Cfg) : Prop := ∀ acts, (run cfg acts).panicked = false

/-- **Negation from a concrete witness** (two threads, seven regions): T1 passes Remove(5)'s
    check; T2 removes 5 and flushes (5 is physically gone, tombstones cleared); T1's write
    region then plants a stale tombstone for an id that is no longer stored; the next Flush
    computes `make(…, 0, len(stored) - |deleted|) = make(…, 0, -1)` and panics.  No sequential
    history can do this (`flush_no_panic_partial`): the panic is due to interleaving alone. -/
theorem remove_flush_window_panics : ¬ NeverPanics ⟨false, true, false⟩ := by
  intro h
  have := h [.add 5, .rmCheck 5, .rmCheck 5, .rmWrite 1, .flush, .rmWrite 0, .flush]
  revert this
  decide

/-- with the tombstone-purging Add (e29df80) the stale tombstone makes a later `Add(5)` panic -/
theorem remove_flush_window_panics_in_add : ¬ NeverPanics ⟨true, true, false⟩ := by
  intro h
  have := h [.add 5, .rmCheck 5, .rmCheck 5, .rmWrite 1, .flush, .rmWrite 0, .add 5]
  revert this
  decide

/-- **Partial** (explicit decidable hypothesis): if no flush — explicit, or by a purging Add —
    runs while some Remove is between its check and its write region, nothing panics: the
    invariant `deleted ⊆ stored`, `deleted` duplicate-free gives `|deleted| ≤ |stored|`. -/
theorem flush_no_panic_partial (cfg : Cfg) (acts : List Act)
    (h : noFlushInRemoveWindow cfg {} acts = true) : (run cfg acts).panicked = false :=
  tidy_steps cfg acts {} ⟨by simp, by simp, by simp, rfl⟩ h

/-- the hypothesis is satisfiable by a non-trivial history: the sequential order of the
    witness's operations (every Remove's write directly after its check) -/
example : noFlushInRemoveWindow ⟨true, true, false⟩ {}
    [.add 5, .rmCheck 5, .rmWrite 0, .rmCheck 5, .flush, .rmCheck 5, .flush, .add 5, .search] = true := by
  decide

/-- **(C) no panic — full strength for the code as it is** (`Remove` = one write-locked
    region, fb7bd70): for every purge / capacity configuration and every interleaving of Add,
    Remove, search and Flush regions, nothing panics. -/
theorem never_panics (cfg : Cfg) (ha : cfg.atomicRemove = true) : NeverPanics cfg := fun acts =>
  flush_no_panic_partial cfg acts (noWindow_of_atomic cfg ha acts {} rfl)

/-- the witness of `remove_flush_window_panics`, run with the atomic Remove: the second
    Remove(5) answers "already deleted", both Flushes pass -/
example : (run ⟨false, true, true⟩ [.add 5, .rmCheck 5, .rmCheck 5, .rmWrite 1, .flush, .rmWrite 0, .flush]).panicked = false ∧
    ((run ⟨false, true, true⟩ [.add 5, .rmCheck 5, .rmCheck 5]).hist.map (·.ok)) = [false, true, true] := by decide

/-! ### (E) ids -/

/-- **(E)** Ids drawn from the one global atomic counter — by any goroutines, for any index
    instances, in any interleaving (each draw is a single atomic region, so an interleaving
    is just the order `whos` of the draws) — are pairwise distinct as long as fewer than 2³²
    ids are drawn (wrap-around of the uint32 counter is the hypothesis). -/
theorem ids_unique (c : Nat) (whos : List (Nat × Nat)) (h : whos.length < W32) :
    ((issue c whos).map (·.2)).Nodup := by
  induction whos generalizing c with
  | nil => simp [issue]
  | cons w rest ih =>
    simp only [issue, List.map_cons, List.nodup_cons]
    simp only [List.length_cons] at h
    refine ⟨?_, ih _ (by omega)⟩
    intro hmem
    obtain ⟨j, h1, h2, h3⟩ := issue_ids_range rest _ _ hmem
    simp only [W32] at h h3
    omega

/-- non-vacuity, and what the theorem excludes: two goroutines × two instances get four
    distinct ids; a non-atomic read-modify-write counter hands out a duplicate -/
example : (issue 7 [(0, 0), (1, 0), (0, 1), (1, 1)]).map (·.2) = [8, 9, 10, 11] := by decide
theorem nonatomic_counter_duplicates :
    rmwRun 0 [] [.read 1, .read 2, .write 1, .write 2] = [1, 1] := by decide

end Comet.Conc.Proto
