/-
  C13 — IVF is exact at full probe; fewer probes search the nearest clusters exactly.

  ONLY property theorems and non-vacuity examples live here; helper lemmas are in
  CometProofs/IVF.lean (and Comet/TopK.lean, CometProofs/Flat.lean).

  Reading guide.
    * `m : Metric V S` (dimension, preprocessing, distance, score scalar) and
      `inf : S` (the `+Inf` the arg-min loop starts from) are parameters; the
      theorems hold for every metric whose score order is a total preorder
      (`m.sc.Ordered`) with `inf` on top (`∀ x, le x inf`).
    * `trainedRun m inf dim nlist n cs ops` is the model state after
      `NewIVFIndex(dim, nlist)`, `Train` of `n ≥ nlist` vectors for which k-means
      returned the centroids `cs` (`|cs| = nlist`; any centroids: empty clusters and
      identical centroids are just cases), and then the Add / Remove / Flush history
      `ops` — literally a history of the flat index (`Flat.Op`), so that "the same
      data" is the flat index after `ops` and the specification is C01's
      `Flat.live m dim ops`.
    * Histories are arbitrary (ids may be re-added: since the re-add fix `Add` of a
      soft-deleted id purges the tombstones first — in the IVF index as in the flat
      index — and every theorem below except `ivf_stored_in_exactly_one` holds for
      every history; that one needs C01's `FreshAdds`, each id added at most once,
      because with a re-added live id an id legitimately occurs twice).
    * `nearest m inf v cs` is `FindNearestCentroidIndex`; `probe m q' cs np` the
      first `np` list indexes of the model's centroid ranking; `clampProbes p nlist`
      the effective number of probes for the builder value `p ∈ ℤ`.
    * `IsProbeSet m q' cs np P`: `P` is a legitimate reading of "the `np` clusters
      whose centroids are nearest to the query" (ties may be resolved either way).
    * `probeCands m inf cs P live q' thr F`: the hits the property allows for the
      probe set `P` — live, stored in a cluster of `P`, eligible under the id
      restriction `F`, within the threshold; scored by the metric.
-/
import CometProofs.IVF
namespace Comet.IVF

variable {V S : Type}

/-! ## assignment -/

/-- `FindNearestCentroidIndex` returns the least index among the minimisers: the
    centroid it names is at least as near as every centroid, and every centroid with
    a smaller index is strictly farther. -/
theorem ivf_nearest_least_minimiser (m : Metric V S) (ord : m.sc.Ordered) (inf : S)
    (top : ∀ x, m.sc.le x inf = true) (v : V) (cs : List V) (hne : cs ≠ []) :
    ∃ c, cs[nearest m inf v cs]? = some c ∧
      (∀ c' ∈ cs, m.sc.le (m.dist v c) (m.dist v c') = true) ∧
      ∀ j, j < nearest m inf v cs → ∀ cj, cs[j]? = some cj →
        m.sc.le (m.dist v cj) (m.dist v c) = false :=
  nearest_spec m ord inf top v cs hne

/-- A successful `Add` preprocesses the vector, purges the soft-deleted entries first
    when the id is itself soft-deleted (`s₁`), and appends the entry to the list of the
    centroid nearest to the *preprocessed* vector; nothing else changes. -/
theorem ivf_add_stores_in_nearest (m : Metric V S) (inf : S) (s s' : State V) (id : Id) (v : V)
    (h : step m inf s (.add id v) = (s', none)) :
    ∃ v' s₁, m.pre v = some v' ∧ s.trained = true ∧ m.dimOf v = s.dim ∧
      s₁ = (if id ∈ s.deleted then flushLocked s else s) ∧
      nearest m inf v' s₁.centroids < s₁.lists.length ∧
      s' = { s₁ with lists := appendAt (id, v') s₁.lists (nearest m inf v' s₁.centroids) } := by
  simp only [step] at h
  split at h
  · cases h
  · next ht =>
    split at h
    · cases h
    · next hd =>
      split at h
      · cases h
      · next v' hp =>
        generalize hs1 : (if id ∈ s.deleted then flushLocked s else s) = s₁ at h
        split at h
        · next hlt =>
          injection h with h1 _
          exact ⟨v', s₁, hp, by simpa using ht, by simpa using hd, rfl, hlt, h1.symm⟩
        · cases h

/-- Headline (assignment, full strength): after training and ANY Add / Remove / Flush
    history there are exactly `nlist` lists and list `i` holds exactly the entries the
    flat index stores after the same history whose nearest centroid is `i`, in
    insertion order — so every stored vector sits in the list of its nearest centroid
    and in no other. -/
theorem ivf_assign (m : Metric V S) (inf : S) (dim nlist n : Nat) (cs : List V)
    (hpos : 0 < nlist) (hn : nlist ≤ n) (hcs : cs.length = nlist) (ops : List (Flat.Op V)) :
    (trainedRun m inf dim nlist n cs ops).lists.length = nlist ∧
    ∀ i, i < nlist →
      (trainedRun m inf dim nlist n cs ops).lists[i]? =
        some ((Flat.run m (Flat.init dim) ops).vecs.filter fun e => nearest m inf e.2 cs == i) := by
  have h := sim_trainedRun m inf dim nlist n cs hpos hn hcs ops
  rw [h.lists]
  refine ⟨by rw [bucketsOf_length, hcs], ?_⟩
  intro i hi
  exact bucketsOf_getElem? _ _ _ i (by omega)

/-- … in membership form: an entry is in list `i` iff it is stored and `i` is its
    nearest centroid (every history). -/
theorem ivf_assign_mem (m : Metric V S) (inf : S) (dim nlist n : Nat) (cs : List V)
    (hpos : 0 < nlist) (hn : nlist ≤ n) (hcs : cs.length = nlist) (ops : List (Flat.Op V))
    (i : Nat) (l : List (Id × V))
    (hl : (trainedRun m inf dim nlist n cs ops).lists[i]? = some l) (e : Id × V) :
    e ∈ l ↔ e ∈ (Flat.run m (Flat.init dim) ops).vecs ∧ nearest m inf e.2 cs = i := by
  obtain ⟨hlen, hall⟩ := ivf_assign m inf dim nlist n cs hpos hn hcs ops
  have hi : i < nlist := by
    rcases Nat.lt_or_ge i nlist with h | h
    · exact h
    · rw [List.getElem?_eq_none (by omega)] at hl; cases hl
  rw [hall i hi] at hl
  injection hl with hl
  subst hl
  simp [List.mem_filter]

/-- With distinct add ids every stored id occurs exactly once across all lists
    ("stored in exactly one cluster"). -/
theorem ivf_stored_in_exactly_one (m : Metric V S) (inf : S) (dim nlist n : Nat) (cs : List V)
    (hpos : 0 < nlist) (hn : nlist ≤ n) (hcs : cs.length = nlist) (ops : List (Flat.Op V))
    (hfresh : Flat.FreshAdds ops) :
    ((trainedRun m inf dim nlist n cs ops).lists.flatten.map (·.1)).Nodup := by
  have h := sim_trainedRun m inf dim nlist n cs hpos hn hcs ops
  have hne : cs ≠ [] := by intro h0; rw [h0] at hcs; simp at hcs; omega
  have hp := (h.flatten_perm hne).map (·.1)
  exact hp.nodup_iff.2 (flat_ids_nodup m dim ops hfresh)

/-! ## refinement of the flat index -/

/-- Headline (refinement, every history): after training, the IVF index holds, as a
    multiset over all its lists, exactly what the flat index (C01's model `Flat.run`)
    holds after the same history, with the same soft-delete set and dimension. -/
theorem ivf_refines_flat (m : Metric V S) (inf : S) (dim nlist n : Nat) (cs : List V)
    (hpos : 0 < nlist) (hn : nlist ≤ n) (hcs : cs.length = nlist) (ops : List (Flat.Op V)) :
    (trainedRun m inf dim nlist n cs ops).lists.flatten.Perm (Flat.run m (Flat.init dim) ops).vecs ∧
    (trainedRun m inf dim nlist n cs ops).deleted = (Flat.run m (Flat.init dim) ops).deleted ∧
    (trainedRun m inf dim nlist n cs ops).dim = dim ∧
    (trainedRun m inf dim nlist n cs ops).trained = true ∧
    (trainedRun m inf dim nlist n cs ops).centroids = cs := by
  have h := sim_trainedRun m inf dim nlist n cs hpos hn hcs ops
  have hne : cs ≠ [] := by intro h0; rw [h0] at hcs; simp at hcs; omega
  refine ⟨h.flatten_perm hne, h.deleted, ?_, h.trained, h.cent⟩
  rw [h.dim, Flat.run_dim]; rfl

/-- … and every further Add / Remove / Flush has the flat index's outcome (same
    error or success; in particular it never panics). -/
theorem ivf_outcomes_eq_flat (m : Metric V S) (inf : S) (dim nlist n : Nat) (cs : List V)
    (hpos : 0 < nlist) (hn : nlist ≤ n) (hcs : cs.length = nlist) (ops : List (Flat.Op V))
    (op : Flat.Op V) :
    (step m inf (trainedRun m inf dim nlist n cs ops) (ofFlat op)).2 =
      (Flat.step m (Flat.run m (Flat.init dim) ops) op).2.map Fail.err := by
  have h := sim_trainedRun m inf dim nlist n cs hpos hn hcs ops
  have hne : cs ≠ [] := by intro h0; rw [h0] at hcs; simp at hcs; omega
  exact (sim_step m inf cs hne _ _ h op).2

/-! ## search -/

/-- Headline (any number of probes, full strength, every history): for every `p ∈ ℤ` the search
    succeeds and returns an exact top-k of the live, eligible, within-threshold vectors
    stored in the clusters `P = probe …`, where `P` consists of `clampProbes p nlist`
    distinct clusters none of which is strictly farther from the (preprocessed) query
    than a cluster outside `P`. -/
theorem ivf_partial_exact (m : Metric V S) (ord : m.sc.Ordered) (inf : S)
    (dim nlist n : Nat) (cs : List V)
    (hpos : 0 < nlist) (hn : nlist ≤ n) (hcs : cs.length = nlist)
    (ops : List (Flat.Op V))
    (q q' : V) (k : Int) (thr : S) (F : List Id) (p : Int)
    (hq : m.dimOf q = dim) (hpre : m.pre q = some q') :
    ∃ res, searchSingle m (trainedRun m inf dim nlist n cs ops) q k thr F p = .ok res ∧
      IsProbeSet m q' cs (clampProbes p nlist) (probe m q' cs (clampProbes p nlist)) ∧
      IsTopK m.sc.le k
        (probeCands m inf cs (probe m q' cs (clampProbes p nlist)) (Flat.live m dim ops) q' thr F)
        res := by
  have h := sim_trainedRun m inf dim nlist n cs hpos hn hcs ops
  have hd : (trainedRun m inf dim nlist n cs ops).dim = dim := by
    rw [h.dim, Flat.run_dim]; rfl
  have hps : IsProbeSet m q' cs (clampProbes p nlist) (probe m q' cs (clampProbes p nlist)) :=
    probe_isProbeSet m ord q' cs _ (by rw [hcs]; exact clampProbes_le p nlist)
  refine ⟨_, searchSingle_eq m inf cs _ _ h q q' k thr F p (by rw [hd]; exact hq) hpre, ?_, ?_⟩
  · exact hps
  · rw [hcs]
    have hperm := scan_probe_perm m inf cs (Flat.run m (Flat.init dim) ops)
      (trainedRun m inf dim nlist n cs ops).dim q' thr F _ hps.nodup
    rw [Flat.eff_run_init m dim ops] at hperm
    exact (selectK_isTopK m.sc.le ord.total ord.trans k _).of_perm hperm

/-- Every score is a true distance: each hit is a live stored vector of a probed
    cluster, eligible, within the threshold, and its score is the metric distance
    between the preprocessed query and that stored vector. -/
theorem ivf_score_is_distance (m : Metric V S) (ord : m.sc.Ordered) (inf : S)
    (dim nlist n : Nat) (cs : List V)
    (hpos : 0 < nlist) (hn : nlist ≤ n) (hcs : cs.length = nlist)
    (ops : List (Flat.Op V))
    (q q' : V) (k : Int) (thr : S) (F : List Id) (p : Int)
    (hq : m.dimOf q = dim) (hpre : m.pre q = some q') (res : List (Hit S))
    (hres : searchSingle m (trainedRun m inf dim nlist n cs ops) q k thr F p = .ok res) :
    ∀ r ∈ res, ∃ v, (r.id, v) ∈ Flat.live m dim ops ∧ r.score = m.dist q' v ∧
      nearest m inf v cs ∈ probe m q' cs (clampProbes p nlist) ∧
      Flat.eligible F r.id = true ∧ Flat.thrSkip m.sc thr r.score = false := by
  obtain ⟨res', h1, _, h3⟩ :=
    ivf_partial_exact m ord inf dim nlist n cs hpos hn hcs ops q q' k thr F p hq hpre
  rw [hres] at h1
  injection h1 with h1
  subst h1
  intro r hr
  obtain ⟨rest, hperm, _⟩ := h3.split
  have hr' : r ∈ probeCands m inf cs (probe m q' cs (clampProbes p nlist))
      (Flat.live m dim ops) q' thr F := hperm.subset (List.mem_append_left _ hr)
  simp only [probeCands, inClusters, Flat.cands, List.mem_filterMap, List.mem_filter] at hr'
  obtain ⟨e, ⟨he, hin⟩, her⟩ := hr'
  split at her
  · cases her
  · next hel =>
    split at her
    · cases her
    · next hth =>
      injection her with her
      subst her
      exact ⟨e.2, he, rfl, by simpa using hin, by simpa using hel, by simpa using hth⟩

/-- Headline (full probe, full strength, every history): with `p ≤ 0` or `p ≥ nlist` the search returns
    an exact top-k of `Flat.cands … (Flat.live …)` — the very specification that C01's
    `flat_search_exact` proves of the flat index, for the same data, metric, `k`,
    threshold and id restriction. -/
theorem ivf_fullprobe_exact (m : Metric V S) (ord : m.sc.Ordered) (inf : S)
    (dim nlist n : Nat) (cs : List V)
    (hpos : 0 < nlist) (hn : nlist ≤ n) (hcs : cs.length = nlist)
    (ops : List (Flat.Op V))
    (q q' : V) (k : Int) (thr : S) (F : List Id) (p : Int)
    (hp : p ≤ 0 ∨ (nlist : Int) ≤ p)
    (hq : m.dimOf q = dim) (hpre : m.pre q = some q') :
    ∃ res, searchSingle m (trainedRun m inf dim nlist n cs ops) q k thr F p = .ok res ∧
      IsTopK m.sc.le k (Flat.cands m (Flat.live m dim ops) q' thr F) res := by
  obtain ⟨res, h1, _, h3⟩ :=
    ivf_partial_exact m ord inf dim nlist n cs hpos hn hcs ops q q' k thr F p hq hpre
  refine ⟨res, h1, ?_⟩
  have hne : cs ≠ [] := by intro h0; rw [h0] at hcs; simp at hcs; omega
  have hall : inClusters m inf cs (probe m q' cs (clampProbes p nlist)) (Flat.live m dim ops) =
      Flat.live m dim ops := by
    unfold inClusters
    apply List.filter_eq_self.2
    intro e _
    rw [clampProbes_full hp, ← hcs]
    simpa using mem_probe_full m q' cs _ (nearest_lt m inf e.2 cs hne)
  unfold probeCands at h3
  rw [hall] at h3
  exact h3

/-- … hence the IVF index at full probe and the flat index return the same list of
    scores (the property's notion of "returns exactly what exact search returns"),
    when the score order is antisymmetric. -/
theorem ivf_fullprobe_same_scores_as_flat (m : Metric V S) (ord : m.sc.Ordered) (inf : S)
    (antisymm : ∀ a b : S, m.sc.le a b → m.sc.le b a → a = b)
    (dim nlist n : Nat) (cs : List V)
    (hpos : 0 < nlist) (hn : nlist ≤ n) (hcs : cs.length = nlist)
    (ops : List (Flat.Op V))
    (q q' : V) (k : Int) (thr : S) (F : List Id) (p : Int)
    (hp : p ≤ 0 ∨ (nlist : Int) ≤ p)
    (hq : m.dimOf q = dim) (hpre : m.pre q = some q') :
    ∃ ri rf, searchSingle m (trainedRun m inf dim nlist n cs ops) q k thr F p = .ok ri ∧
      Flat.searchSingle m (Flat.run m (Flat.init dim) ops) q k thr F = .ok rf ∧
      ri.map (·.score) = rf.map (·.score) := by
  obtain ⟨ri, h1, h2⟩ :=
    ivf_fullprobe_exact m ord inf dim nlist n cs hpos hn hcs ops q q' k thr F p hp hq hpre
  have hd : (Flat.run m (Flat.init dim) ops).dim = dim := by rw [Flat.run_dim]; rfl
  have hf := Flat.searchSingle_eq m (Flat.run m (Flat.init dim) ops) q q' k thr F
    (by rw [hd]; exact hq) hpre
  refine ⟨ri, _, h1, hf, ?_⟩
  have h3 : IsTopK m.sc.le k (Flat.cands m (Flat.live m dim ops) q' thr F)
      (selectK m.sc.le k (Flat.scan m (Flat.run m (Flat.init dim) ops) q' thr F)) := by
    rw [Flat.scan_eq_cands, Flat.eff_run_init m dim ops]
    exact selectK_isTopK m.sc.le ord.total ord.trans k _
  exact isTopK_scores_eq m.sc.le ord.total ord.trans antisymm k _ _ _ h2 h3

/-! ## monotonicity in the number of probes -/

/-- Order-generic core: an exact top-k of a super-multiset is at least as long as,
    and rank by rank at least as good as, an exact top-k of the sub-multiset
    (the i-th smallest of a super-multiset is `≤` the i-th smallest of the sub-multiset). -/
theorem ivf_topK_mono (le : S → S → Bool)
    (tot : ∀ a b : S, le a b || le b a)
    (tr : ∀ a b c : S, le a b → le b c → le a c)
    (k : Int) (c extra c' r r' : List (Hit S))
    (hc : c'.Perm (c ++ extra))
    (h : IsTopK le k c r) (h' : IsTopK le k c' r') :
    r.length ≤ r'.length ∧
      ∀ (i : Nat) (a a' : Hit S), r[i]? = some a → r'[i]? = some a' →
        le a'.score a.score = true :=
  topK_mono le tot tr k c extra c' r r' hc h h'

/-- The clusters probed with fewer probes are a prefix of those probed with more. -/
theorem ivf_probe_monotone (m : Metric V S) (q' : V) (cs : List V) (np np' : Nat) (h : np ≤ np') :
    ∃ extra, probe m q' cs np' = probe m q' cs np ++ extra :=
  probe_prefix m q' cs np np' h

/-- Headline (monotonicity, full strength): if `p'` means at least as many probes as `p`
    (after the clamp), the answer for `p'` is at least as long and, rank by rank, its
    scores are never worse. -/
theorem ivf_scores_monotone (m : Metric V S) (ord : m.sc.Ordered) (inf : S)
    (dim nlist n : Nat) (cs : List V)
    (hpos : 0 < nlist) (hn : nlist ≤ n) (hcs : cs.length = nlist)
    (ops : List (Flat.Op V))
    (q q' : V) (k : Int) (thr : S) (F : List Id) (p p' : Int)
    (hpp : clampProbes p nlist ≤ clampProbes p' nlist)
    (hq : m.dimOf q = dim) (hpre : m.pre q = some q') :
    ∃ r r', searchSingle m (trainedRun m inf dim nlist n cs ops) q k thr F p = .ok r ∧
      searchSingle m (trainedRun m inf dim nlist n cs ops) q k thr F p' = .ok r' ∧
      r.length ≤ r'.length ∧
      ∀ (i : Nat) (a a' : Hit S), r[i]? = some a → r'[i]? = some a' →
        m.sc.le a'.score a.score = true := by
  have h := sim_trainedRun m inf dim nlist n cs hpos hn hcs ops
  have hd : (trainedRun m inf dim nlist n cs ops).dim = dim := by
    rw [h.dim, Flat.run_dim]; rfl
  have e1 := searchSingle_eq m inf cs _ _ h q q' k thr F p (by rw [hd]; exact hq) hpre
  have e2 := searchSingle_eq m inf cs _ _ h q q' k thr F p' (by rw [hd]; exact hq) hpre
  refine ⟨_, _, e1, e2, ?_⟩
  rw [hcs]
  obtain ⟨extra, hex⟩ := probe_prefix m q' cs _ _ hpp
  rw [hex]
  refine topK_mono m.sc.le ord.total ord.trans k _
    (Flat.scan m ⟨(trainedRun m inf dim nlist n cs ops).dim,
      extra.flatMap (fun i => (Flat.run m (Flat.init dim) ops).vecs.filter
        fun e => keyOf m inf cs e == i), (Flat.run m (Flat.init dim) ops).deleted⟩ q' thr F)
    _ _ _ ?_
    (selectK_isTopK m.sc.le ord.total ord.trans k _)
    (selectK_isTopK m.sc.le ord.total ord.trans k _)
  simp only [Flat.scan, List.flatMap_append, List.filterMap_append]
  exact List.Perm.refl _

/-- The property's wording: `p + 1` probes are never worse than `p` probes
    (`1 ≤ p < nlist`, where the clamp is the identity). -/
theorem ivf_one_more_probe_never_worse (m : Metric V S) (ord : m.sc.Ordered) (inf : S)
    (dim nlist n : Nat) (cs : List V)
    (hpos : 0 < nlist) (hn : nlist ≤ n) (hcs : cs.length = nlist)
    (ops : List (Flat.Op V))
    (q q' : V) (k : Int) (thr : S) (F : List Id) (p : Int)
    (hp0 : 0 < p) (hp1 : p < nlist)
    (hq : m.dimOf q = dim) (hpre : m.pre q = some q') :
    ∃ r r', searchSingle m (trainedRun m inf dim nlist n cs ops) q k thr F p = .ok r ∧
      searchSingle m (trainedRun m inf dim nlist n cs ops) q k thr F (p + 1) = .ok r' ∧
      r.length ≤ r'.length ∧
      ∀ (i : Nat) (a a' : Hit S), r[i]? = some a → r'[i]? = some a' →
        m.sc.le a'.score a.score = true := by
  apply ivf_scores_monotone m ord inf dim nlist n cs hpos hn hcs ops q q' k thr F p (p + 1) ?_ hq hpre
  rw [clampProbes_of_pos_le hp0 (by omega), clampProbes_of_pos_le (by omega) (by omega)]
  omega

/-! ## errors -/

/-- Adding before training is an error and changes nothing. -/
theorem ivf_untrained_add_err (m : Metric V S) (inf : S) (s : State V) (id : Id) (v : V)
    (h : s.trained = false) : step m inf s (.add id v) = (s, some (.err .untrained)) := by
  simp [step, h]

/-- Searching before training is an error. -/
theorem ivf_untrained_search_err (m : Metric V S) (s : State V) (q : V) (k : Int) (thr : S)
    (F : List Id) (p : Int) (h : s.trained = false) :
    searchSingle m s q k thr F p = .error (.err .untrained) := by
  simp [searchSingle, h]

/-- … also through `Execute` with a query vector. -/
theorem ivf_untrained_execute_err (m : Metric V S) (s : State V) (q : V) (k : Int) (thr : S)
    (F : List Id) (agg : AggKind) (p : Int) (h : s.trained = false) :
    execute m s [q] [] k thr F agg p = .error (.err .untrained) := by
  simp [execute, searchSingle, h, bind, Except.bind, pure, Except.pure]

/-- `Train` with fewer than `nlist` vectors is an error and leaves the index untrained. -/
theorem ivf_train_too_few_err (m : Metric V S) (inf : S) (s : State V) (n : Nat) (cs : List V)
    (h : n < s.nlist) : step m inf s (.train n cs) = (s, some (.err .other)) := by
  simp [step, h]

/-- A fresh index is untrained and stays exactly as it is under every Add / Remove /
    Flush history and every failed `Train`: each `Add` in it fails. -/
theorem ivf_untrained_history (m : Metric V S) (inf : S) (dim nlist : Nat)
    (ops : List (Op V))
    (hops : ∀ op ∈ ops, ∀ n cs, op = .train n cs → n < nlist) :
    run m inf (init dim nlist) ops = init dim nlist := by
  induction ops with
  | nil => rfl
  | cons op t ih =>
    simp only [run, List.foldl_cons]
    have hstep : (step m inf (init dim nlist) op).1 = init dim nlist := by
      cases op with
      | train n cs =>
        have := hops (.train n cs) (by simp) n cs rfl
        simp [step, init, this]
      | add id v => simp [step, init]
      | remove id => simp [step, init]
      | flush => simp [step, init, flushLocked]
    rw [hstep]
    exact ih (fun op hop => hops op (by simp [hop]))

/-- `NewIVFIndex` rejects non-positive dimensions and list counts. -/
theorem ivf_new_rejects_nonpositive (dim nlist : Int) (h : dim ≤ 0 ∨ nlist ≤ 0) :
    (new? dim nlist : Option (State V)) = none := by
  unfold new?
  rcases h with h | h
  · simp [h]
  · by_cases hd : dim ≤ 0 <;> simp [hd, h]

/-- Wrong query dimension is rejected. -/
theorem ivf_query_wrong_dim (m : Metric V S) (s : State V) (q : V) (k : Int) (thr : S)
    (F : List Id) (p : Int) (ht : s.trained = true) (h : m.dimOf q ≠ s.dim) :
    searchSingle m s q k thr F p = .error (.err .dim) := by
  simp [searchSingle, ht, h]

/-! ## non-vacuity: a concrete instance with identical centroids, an empty cluster,
    a vector equidistant from two centroids, a removal, a tie at the probe boundary -/

section Example

/-- scores `ℕ ∪ {∞}` (`none` = `+Inf`) -/
def toyLe : Option Nat → Option Nat → Bool
  | _, none => true
  | none, some _ => false
  | some a, some b => decide (a ≤ b)

/-- one-dimensional toy metric on ℕ: |a − b| -/
def toy : Metric Nat (Option Nat) where
  dimOf _ := 1
  pre v := some v
  dist a b := some (if a ≤ b then b - a else a - b)
  sc := { zero := some 0, add := fun a b => do pure ((← a) + (← b)),
          divNat := fun a n => a.map (· / n),
          le := toyLe, lt := fun a b => !toyLe b a }

theorem toy_ordered : toy.sc.Ordered where
  total a b := by
    cases a <;> cases b <;> simp [toy, toyLe]; omega
  trans a b c := by
    cases a <;> cases b <;> cases c <;> simp [toy, toyLe]; omega
  lt_iff a b := rfl

theorem toy_top : ∀ x, toy.sc.le x none = true := by
  intro x; cases x <;> rfl

/-- centroids: 10, 30, 30 (identical to the previous one), 50 -/
def toyCs : List Nat := [10, 30, 30, 50]

def toyOps : List (Flat.Op Nat) :=
  [.add 1 12, .add 2 29, .add 3 31, .add 4 20, .remove 2, .add 5 49, .flush, .add 6 33, .remove 6]

example : Flat.FreshAdds toyOps := by simp [Flat.FreshAdds, toyOps, Flat.addedIds]

-- 20 is equidistant from the centroids 10 and 30: the least index wins; the second
-- of the two identical centroids never receives a vector (an empty cluster)
example : nearest toy none 20 toyCs = 0 := by decide
example : nearest toy none 31 toyCs = 1 := by decide
example : (trainedRun toy none 1 4 7 toyCs toyOps).lists =
    [[(1, 12), (4, 20)], [(3, 31), (6, 33)], [], [(5, 49)]] := by decide
example : (trainedRun toy none 1 4 7 toyCs toyOps).deleted = [6] := by decide
example : Flat.live toy 1 toyOps = [(1, 12), (3, 31), (4, 20), (5, 49)] := by decide

-- the model ranks the centroids for the query 30 as 1, 2 (distance 0, a tie), 0, 3 (20, a tie)
example : probe toy 30 toyCs 4 = [1, 2, 0, 3] := by decide
-- with one probe the model scans cluster 1; scanning the (empty) cluster 2 instead is
-- an equally legitimate reading of "the nearest cluster"; cluster 0 is not
example : IsProbeSet toy 30 toyCs 1 [1] :=
  probe_isProbeSet toy toy_ordered 30 toyCs 1 (by decide)
example : IsProbeSet toy 30 toyCs 1 [2] :=
  ⟨by decide, rfl, by decide, by
    intro i hi j hj ci cj hci hcj
    simp only [List.mem_singleton] at hi
    subst hi
    have : j < 4 := by
      rcases Nat.lt_or_ge j 4 with h | h
      · exact h
      · rw [List.getElem?_eq_none (by simpa [toyCs] using h)] at hcj; cases hcj
    have hci' : ci = 30 := by simpa [toyCs] using hci.symm
    subst hci'
    match j, this, hcj with
    | 0, _, hcj => have : cj = 10 := by simpa [toyCs] using hcj.symm
                   subst this; decide
    | 1, _, hcj => have : cj = 30 := by simpa [toyCs] using hcj.symm
                   subst this; decide
    | 2, _, _ => exact absurd (by simp) hj
    | 3, _, hcj => have : cj = 50 := by simpa [toyCs] using hcj.symm
                   subst this; decide⟩
example : ¬ IsProbeSet toy 30 toyCs 1 [0] := fun h => by
  have := h.nearestFirst 0 (by simp) 1 (by simp) 10 30 rfl rfl
  revert this; decide

-- the specification's candidates for one, three and all probes (query 30, no threshold)
example : probeCands toy none toyCs [1] (Flat.live toy 1 toyOps) 30 (some 0) [] =
    [⟨3, some 1⟩] := by decide
example : probeCands toy none toyCs [1, 2, 0] (Flat.live toy 1 toyOps) 30 (some 0) [] =
    [⟨1, some 18⟩, ⟨3, some 1⟩, ⟨4, some 10⟩] := by decide
example : Flat.cands toy (Flat.live toy 1 toyOps) 30 (some 0) [] =
    [⟨1, some 18⟩, ⟨3, some 1⟩, ⟨4, some 10⟩, ⟨5, some 19⟩] := by decide

-- all hypotheses of the headline theorems are met by this instance
example : ∃ res, searchSingle toy (trainedRun toy none 1 4 7 toyCs toyOps) 30 2 (some 0) [] 3 = .ok res ∧
    IsProbeSet toy 30 toyCs (clampProbes 3 4) (probe toy 30 toyCs (clampProbes 3 4)) ∧
    IsTopK toy.sc.le 2
      (probeCands toy none toyCs (probe toy 30 toyCs (clampProbes 3 4)) (Flat.live toy 1 toyOps)
        30 (some 0) []) res :=
  ivf_partial_exact toy toy_ordered none 1 4 7 toyCs (by decide) (by decide) rfl toyOps
    30 30 2 (some 0) [] 3 rfl rfl
example : ∃ res, searchSingle toy (trainedRun toy none 1 4 7 toyCs toyOps) 30 2 (some 0) [] 0 = .ok res ∧
    IsTopK toy.sc.le 2 (Flat.cands toy (Flat.live toy 1 toyOps) 30 (some 0) []) res :=
  ivf_fullprobe_exact toy toy_ordered none 1 4 7 toyCs (by decide) (by decide) rfl toyOps
    30 30 2 (some 0) [] 0 (by decide) rfl rfl
-- what the specification accepts / rejects at three probes, k = 2: the removed ids 2
-- and 6 never appear, id 5 (cluster 3, not probed) is not a legitimate hit although it
-- is live; at full probe the answer [3, 4] is exact as well
example : IsTopK toy.sc.le 2
    (probeCands toy none toyCs [1, 2, 0] (Flat.live toy 1 toyOps) 30 (some 0) [])
    [⟨3, some 1⟩, ⟨4, some 10⟩] := checkTopK_sound _ _ _ _ (by decide)
example : ¬ IsTopK toy.sc.le 2
    (probeCands toy none toyCs [1, 2, 0] (Flat.live toy 1 toyOps) 30 (some 0) [])
    [⟨3, some 1⟩, ⟨5, some 19⟩] := fun h => absurd (checkTopK_complete _ _ _ _ h) (by decide)
example : IsTopK toy.sc.le 2 (Flat.cands toy (Flat.live toy 1 toyOps) 30 (some 0) [])
    [⟨3, some 1⟩, ⟨4, some 10⟩] := checkTopK_sound _ _ _ _ (by decide)
-- a history that re-adds a soft-deleted id (2) while another id (1) is soft-deleted as
-- well: `Add` purges both tombstoned entries, then stores the new vector; the theorems
-- above cover it (no freshness hypothesis)
example : ¬ Flat.FreshAdds
    ([.add 1 12, .add 2 29, .add 3 31, .remove 1, .remove 2, .add 2 48] : List (Flat.Op Nat)) := by
  simp [Flat.FreshAdds, Flat.addedIds]
example : (trainedRun toy none 1 4 7 toyCs
    [.add 1 12, .add 2 29, .add 3 31, .remove 1, .remove 2, .add 2 48]).lists =
    [[], [(3, 31)], [], [(2, 48)]] := by decide
example : (trainedRun toy none 1 4 7 toyCs
    [.add 1 12, .add 2 29, .add 3 31, .remove 1, .remove 2, .add 2 48]).deleted = [] := by decide
example : Flat.live toy 1 [.add 1 12, .add 2 29, .add 3 31, .remove 1, .remove 2, .add 2 48] =
    [(3, 31), (2, 48)] := by decide
example : ∃ res, searchSingle toy (trainedRun toy none 1 4 7 toyCs
      [.add 1 12, .add 2 29, .add 3 31, .remove 1, .remove 2, .add 2 48]) 30 1 (some 0) [] (-1) = .ok res ∧
    IsTopK toy.sc.le 1 (Flat.cands toy (Flat.live toy 1
      [.add 1 12, .add 2 29, .add 3 31, .remove 1, .remove 2, .add 2 48]) 30 (some 0) []) res :=
  ivf_fullprobe_exact toy toy_ordered none 1 4 7 toyCs (by decide) (by decide) rfl _
    30 30 1 (some 0) [] (-1) (by decide) rfl rfl
-- monotonicity is not vacuous: one probe finds only id 3, three probes find more
example : clampProbes 1 4 ≤ clampProbes 3 4 := by decide
-- untrained: the fresh index rejects adds and searches
example : step toy none (init 1 4) (.add 1 12) = (init 1 4, some (.err .untrained)) :=
  ivf_untrained_add_err toy none (init 1 4) 1 12 rfl
example : searchSingle toy (init 1 4 : State Nat) 30 2 (some 0) [] 0 = .error (.err .untrained) :=
  ivf_untrained_search_err toy (init 1 4) 30 2 (some 0) [] 0 rfl
example : step toy none (init 1 4) (.train 3 toyCs) = (init 1 4, some (.err .other)) :=
  ivf_train_too_few_err toy none (init 1 4) 3 toyCs (by decide)
-- … and a fresh index is unchanged by any such history
example : run toy none (init 1 4) [.add 1 12, .train 3 toyCs, .remove 1, .flush] = init 1 4 :=
  ivf_untrained_history toy none 1 4 _ (by
    intro op hop n cs he
    simp only [List.mem_cons, List.not_mem_nil, or_false] at hop
    rcases hop with rfl | rfl | rfl | rfl
    · cases he
    · injection he with h1 _; omega
    · cases he
    · cases he)

end Example

end Comet.IVF
