/-
  C01 — Flat index returns exactly the k nearest live vectors.

  ONLY property theorems and non-vacuity examples live here; helper lemmas are in
  CometProofs/Flat.lean and Comet/TopK.lean.

  Reading guide.  `run m (init dim) ops` is the model state after the history
  `ops`; `live m dim ops` is the abstract specification (the `(id, preprocessed
  vector)` pairs added successfully and not removed since, in insertion order);
  `cands … (live …) q' thr F` is the list of hits the property allows: live,
  eligible under the id restriction `F` (`[]` = no restriction, as in Go),
  within the threshold when it is positive, scored by the metric.
  `IsTopK le k cands res` says `res` is sorted, is the best `sanitizeK k |cands|`
  part of `cands` (as multisets, any tie-break), nothing outside is better.
-/
import CometProofs.Flat
namespace Comet.Flat

variable {V S : Type}

/-- Headline (full strength): for EVERY history of adds, removals and flushes (no
    freshness hypothesis: the model's `add` purges a tombstone before re-adding its
    id, as comet's does), every query, every `k ∈ ℤ`, threshold and id restriction,
    the single-query search returns an exact top-k of the live, eligible,
    within-threshold vectors, scored by the metric.  (With distinct add ids — C01's
    quantifier — `live` holds each id at most once.) -/
theorem flat_search_exact (m : Metric V S) (ord : m.sc.Ordered) (dim : Nat)
    (ops : List (Op V))
    (q q' : V) (k : Int) (thr : S) (F : List Id)
    (hq : m.dimOf q = dim) (hpre : m.pre q = some q') :
    ∃ res, searchSingle m (run m (init dim) ops) q k thr F = .ok res ∧
      IsTopK m.sc.le k (cands m (live m dim ops) q' thr F) res := by
  have hd : (run m (init dim) ops).dim = dim := by rw [run_dim]; rfl
  refine ⟨_, searchSingle_eq m _ q q' k thr F (by rw [hd]; exact hq) hpre, ?_⟩
  rw [scan_eq_cands, eff_run_init m dim ops]
  exact selectK_isTopK m.sc.le ord.total ord.trans k _

/-- Any two correct answers carry the same score list (the property's notion of
    equality), when the score order is antisymmetric. -/
theorem flat_answers_same_scores (m : Metric V S) (ord : m.sc.Ordered)
    (antisymm : ∀ a b : S, m.sc.le a b → m.sc.le b a → a = b)
    (k : Int) (c r₁ r₂ : List (Hit S))
    (h₁ : IsTopK m.sc.le k c r₁) (h₂ : IsTopK m.sc.le k c r₂) :
    r₁.map (·.score) = r₂.map (·.score) :=
  isTopK_scores_eq m.sc.le ord.total ord.trans antisymm k c r₁ r₂ h₁ h₂

/-- Every hit is a live stored vector, eligible, within threshold, and its score is
    the metric distance between the preprocessed query and that stored vector. -/
theorem flat_score_is_distance (m : Metric V S) (dim : Nat)
    (ops : List (Op V))
    (q q' : V) (k : Int) (thr : S) (F : List Id)
    (hq : m.dimOf q = dim) (hpre : m.pre q = some q')
    (res : List (Hit S))
    (hres : searchSingle m (run m (init dim) ops) q k thr F = .ok res) :
    ∀ r ∈ res, ∃ v, (r.id, v) ∈ live m dim ops ∧ r.score = m.dist q' v ∧
      eligible F r.id = true ∧ thrSkip m.sc thr r.score = false := by
  have hd : (run m (init dim) ops).dim = dim := by rw [run_dim]; rfl
  rw [searchSingle_eq m _ q q' k thr F (by rw [hd]; exact hq) hpre] at hres
  injection hres with hres
  subst hres
  intro r hr
  have hr' : r ∈ scan m (run m (init dim) ops) q' thr F := by
    have := List.mem_of_mem_take hr
    exact List.mem_mergeSort.1 this
  rw [scan_eq_cands, eff_run_init m dim ops] at hr'
  simp only [cands, List.mem_filterMap] at hr'
  obtain ⟨p, hp, hpr⟩ := hr'
  split at hpr
  · cases hpr
  · next hel =>
    split at hpr
    · cases hpr
    · next hth =>
      injection hpr with hpr
      subst hpr
      exact ⟨p.2, hp, rfl, by simpa using hel, by simpa using hth⟩

/-- A removed vector never appears, whether or not a flush has happened since:
    ids of hits are ids of the *specification's* live list, which forgets an id at
    the moment of its successful removal. -/
theorem flat_removed_never_returned (m : Metric V S) (dim : Nat)
    (ops : List (Op V))
    (q q' : V) (k : Int) (thr : S) (F : List Id)
    (hq : m.dimOf q = dim) (hpre : m.pre q = some q') (res : List (Hit S))
    (hres : searchSingle m (run m (init dim) ops) q k thr F = .ok res) :
    ∀ r ∈ res, r.id ∈ (live m dim ops).map (·.1) := by
  intro r hr
  obtain ⟨v, hv, _⟩ := flat_score_is_distance m dim ops q q' k thr F hq hpre res hres r hr
  exact List.mem_map.2 ⟨(r.id, v), hv, rfl⟩

/-- … and the specification's live list really drops a removed id for good
    (until a later add of it, which C01 excludes and C06 covers). -/
theorem live_remove_drops (m : Metric V S) (dim : Nat) (ops rest : List (Op V)) (id : Id)
    (hrest : id ∉ addedIds rest) :
    id ∉ (live m dim (ops ++ [.remove id] ++ rest)).map (·.1) := by
  simp only [live, List.foldl_append, List.foldl_cons, List.foldl_nil]
  generalize hl : (specStep m dim (List.foldl (specStep m dim) [] ops) (Op.remove id)) = l
  have h0 : id ∉ l.map (·.1) := by
    subst hl
    simp [specStep, List.mem_map, List.mem_filter]
  clear hl
  induction rest generalizing l with
  | nil => simpa using h0
  | cons op t ih =>
    simp only [List.foldl_cons]
    have hrest' : id ∉ addedIds t := by
      cases op <;> simp_all [addedIds]
    refine ih hrest' _ ?_
    cases op with
    | add i v =>
      have hne : id ≠ i := by
        intro h; apply hrest; simp [addedIds, h]
      simp only [specStep]
      split
      · exact h0
      · split
        · exact h0
        · simp only [List.map_append, List.mem_append, List.map_cons, List.map_nil,
            List.mem_singleton, not_or]
          exact ⟨h0, hne⟩
    | remove i =>
      intro hmem
      apply h0
      simp only [specStep, List.mem_map, List.mem_filter] at hmem ⊢
      obtain ⟨p, ⟨hp, _⟩, he⟩ := hmem
      exact ⟨p, hp, he⟩
    | flush => exact h0

/-- Re-adding a removed id (outside C01's quantifier, inside C06's): the new vector,
    and only the new vector, is live afterwards, whether or not a flush happened. -/
theorem live_readd (m : Metric V S) (dim : Nat) (ops : List (Op V)) (id : Id) (v v' : V)
    (hd : m.dimOf v = dim) (hp : m.pre v = some v') :
    live m dim (ops ++ [.remove id, .add id v]) =
      (live m dim ops).filter (fun p => p.1 != id) ++ [(id, v')] := by
  simp [live, List.foldl_append, specStep, hd, hp]

/-- `k ≤ 0` returns every eligible live vector. -/
theorem flat_k_nonpos_returns_all (m : Metric V S) (ord : m.sc.Ordered) (dim : Nat)
    (ops : List (Op V))
    (q q' : V) (k : Int) (hk : k ≤ 0) (thr : S) (F : List Id)
    (hq : m.dimOf q = dim) (hpre : m.pre q = some q') :
    ∃ res, searchSingle m (run m (init dim) ops) q k thr F = .ok res ∧
      res.Perm (cands m (live m dim ops) q' thr F) := by
  obtain ⟨res, h1, h2⟩ := flat_search_exact m ord dim ops q q' k thr F hq hpre
  refine ⟨res, h1, ?_⟩
  obtain ⟨rest, hp, _⟩ := h2.split
  have hl := h2.len
  rw [sanitizeK_nonpos hk] at hl
  have : rest = [] := by
    have := hp.length_eq
    simp only [List.length_append] at this
    exact List.eq_nil_of_length_eq_zero (by omega)
  subst this
  simpa using hp

/-- A non-positive threshold has no effect at all … -/
theorem flat_threshold_nonpos_no_effect (m : Metric V S) (l : List (Id × V)) (q' : V)
    (thr : S) (F : List Id) (h : m.sc.lt m.sc.zero thr = false) :
    cands m l q' thr F =
      l.filterMap fun p => if !eligible F p.1 then none else some ⟨p.1, m.dist q' p.2⟩ := by
  simp [cands, thrSkip, h]

/-- … a positive threshold keeps exactly the candidates with `¬ (thr < d)`, and an id
    restriction keeps exactly the listed ids: both only *remove* candidates. -/
theorem flat_filter_threshold_only_remove (m : Metric V S) (l : List (Id × V)) (q' : V)
    (thr : S) (F : List Id) :
    cands m l q' thr F =
      (l.filterMap fun p => some (⟨p.1, m.dist q' p.2⟩ : Hit S)).filter
        (fun h => eligible F h.id && !thrSkip m.sc thr h.score) := by
  simp only [cands, List.filter_filterMap]
  congr 1
  funext p
  by_cases h1 : eligible F p.1 <;> by_cases h2 : thrSkip m.sc thr (m.dist q' p.2) <;>
    simp [h1, h2, Option.filter]

/-- Flushing soft-deleted vectors never changes a search answer (literal equality
    in the model: filtering is idempotent and the sort is stable). -/
theorem flat_flush_noop_on_search (m : Metric V S) (s : State V)
    (q : V) (k : Int) (thr : S) (F : List Id) :
    searchSingle m (step m s .flush).1 q k thr F = searchSingle m s q k thr F := by
  have hd := step_dim m s .flush
  by_cases hq : m.dimOf q = s.dim
  · cases hpre : m.pre q with
    | none => simp [searchSingle, hd, hq, hpre]
    | some q' =>
      rw [searchSingle_eq m _ q q' k thr F (by rw [hd]; exact hq) hpre,
          searchSingle_eq m s q q' k thr F hq hpre, scan_eq_cands, scan_eq_cands]
      have : eff (step m s .flush).1 = eff s := by
        have := eff_step m s .flush
        simpa [specStep] using this
      rw [this]
  · simp [searchSingle, hd, hq]

/-- Error behaviour: wrong dimension / zero vector under cosine are rejected and
    leave the index unchanged. -/
theorem flat_add_wrong_dim (m : Metric V S) (s : State V) (id : Id) (v : V)
    (h : m.dimOf v ≠ s.dim) : step m s (.add id v) = (s, some .dim) := by
  simp [step, h]

theorem flat_add_pre_fail_unchanged (m : Metric V S) (s : State V) (id : Id) (v : V)
    (h : m.dimOf v = s.dim) (hz : m.pre v = none) : step m s (.add id v) = (s, some .zero) := by
  simp [step, h, hz]

theorem flat_query_wrong_dim (m : Metric V S) (s : State V) (q : V) (k : Int) (thr : S)
    (F : List Id) (h : m.dimOf q ≠ s.dim) : searchSingle m s q k thr F = .error .dim := by
  simp [searchSingle, h]

theorem flat_remove_unknown (m : Metric V S) (s : State V) (id : Id)
    (h : id ∉ ids s) : step m s (.remove id) = (s, some .notFound) := by
  have : ¬ s.vecs.any (·.1 == id) = true := by
    simp only [List.any_eq_true, not_exists, not_and]
    intro p hp he
    exact h (List.mem_map.2 ⟨p, hp, by simpa using he⟩)
  simp [step, this]

/-! ### non-vacuity: a concrete history over ℕ-valued "vectors" with a removal, a
    tie at the k-th place, a threshold equal to a distance, a filter with an absent id -/

section Example
/-- one-dimensional toy metric on ℕ: |a − b| -/
def toy : Metric Nat Nat where
  dimOf _ := 1
  pre v := some v
  dist a b := if a ≤ b then b - a else a - b
  sc := { zero := 0, add := (· + ·), divNat := fun a n => a / n,
          le := fun a b => decide (a ≤ b), lt := fun a b => decide (a < b) }

theorem toy_ordered : toy.sc.Ordered where
  total a b := by simp only [toy, Bool.or_eq_true, decide_eq_true_eq]; omega
  trans a b c := by simp only [toy, decide_eq_true_eq]; omega
  lt_iff a b := by simp only [toy]; by_cases h : a < b <;> simp [h] <;> omega

def toyOps : List (Op Nat) := [.add 1 10, .add 2 20, .add 3 30, .remove 2, .add 4 20, .flush, .add 5 0]

example : FreshAdds toyOps := by simp [FreshAdds, toyOps, addedIds]
example : live toy 1 toyOps = [(1, 10), (3, 30), (4, 20), (5, 0)] := by decide
-- all hypotheses of `flat_search_exact` are met by this instance:
example : ∃ res, searchSingle toy (run toy (init 1) toyOps) 20 2 0 [] = .ok res ∧
    IsTopK toy.sc.le 2 (cands toy (live toy 1 toyOps) 20 0 []) res :=
  flat_search_exact toy toy_ordered 1 toyOps 20 20 2 0 [] rfl rfl
-- candidates: tie at distance 10 (ids 1 and 3); id 2 was removed
example : cands toy (live toy 1 toyOps) 20 0 [] = [⟨1, 10⟩, ⟨3, 10⟩, ⟨4, 0⟩, ⟨5, 20⟩] := by decide
-- both tie-breaks at the 2nd place are accepted by the spec, a non-nearest answer is not
example : IsTopK toy.sc.le 2 (cands toy (live toy 1 toyOps) 20 0 []) [⟨4, 0⟩, ⟨1, 10⟩] :=
  checkTopK_sound _ _ _ _ (by decide)
example : IsTopK toy.sc.le 2 (cands toy (live toy 1 toyOps) 20 0 []) [⟨4, 0⟩, ⟨3, 10⟩] :=
  checkTopK_sound _ _ _ _ (by decide)
example : ¬ IsTopK toy.sc.le 2 (cands toy (live toy 1 toyOps) 20 0 []) [⟨4, 0⟩, ⟨5, 20⟩] :=
  fun h => absurd (checkTopK_complete _ _ _ _ h) (by decide)
-- threshold equal to a distance keeps that candidate; the filter names an absent id (99)
example : cands toy (live toy 1 toyOps) 20 10 [1, 3, 99] = [⟨1, 10⟩, ⟨3, 10⟩] := by decide
end Example

end Comet.Flat
