/-
  C03 — BM25 returns exactly the matching live documents with textbook scores.

  ONLY property theorems and non-vacuity examples live here; helper lemmas are in
  CometProofs/BM25/*.lean, the model and the specification in Comet/BM25.lean.

  Reading guide.
    * `run init h` is the model state of `BM25SearchIndex` after the history `h`
      (ops: `add id tokens` — fresh id, live id (replace) or removed id (re-add) —,
      `remove id`, `flush`); every incremental field of the Go struct is mirrored.
    * `spec h : Spec` is what the history denotes: `corpus` maps every id that
      still counts in the statistics (live, or removed and not yet flushed) to its
      current token list — the last add wins —, `tomb` lists the removed ones.
      `Spec.N / df / total / avg` are the collection statistics INCLUDING tombstoned
      documents; `Spec.live` are the live documents.
    * `sc : Scoring R S` is the arithmetic: `sc.score N df tf len avg` stands for
      `ln((N-df+0.5)/(df+0.5)+1) · tf·(k1+1) / (tf + k1·(1-b+b·len/avg))`,
      `sc.add` for float64 `+`, `sc.toS` for `float32(·)`; the executable instance is
      `Comet.BM25F.scoring` (k1 = 1.2, b = 0.75), tied to the Go source by the
      correspondence run and the regenerated facts (CometGen/Obligations_C03.lean).
    * `specCands sc (spec h) q F` is the list of hits the property allows: one per live
      document that is eligible under the id restriction `F` (`[]` = none, as in Go)
      and shares a token with the query `q`, scored by
      `specScore` = Σ over the query-token occurrences (in query order, WITH
      multiplicity) present in the document of `sc.score N (df t) (tf t d) (len d) avg`.
    * `IsTopK ge k cands res`: `res` is sorted, is the best `sanitizeK k |cands|` part
      of `cands` as multisets (any tie-break), nothing outside is better.

  All theorems are FULL strength: every history (including re-adding a removed id
  before or after a flush — `Add` clears the tombstone since the repair of D4),
  every query, `k ∈ ℤ`, id restriction; every iteration order of Go's score map and
  every lawful priority queue in the ranking theorems.
-/
import CometProofs.BM25
namespace Comet.BM25

variable {Tok : Type} [DecidableEq Tok] {R S : Type}

/-! ## bookkeeping -/

/-- **bm25_inv.** In every reachable state the incremental fields are exactly the
    statistics of the corpus the history denotes: `docTokens` is that corpus (removed
    documents stay until the next flush), `postings[t]` is the duplicate-free set of
    documents containing `t` (so `df = |postings[t]|`), `tf[t][d]` the number of
    occurrences, `docLengths[d]` the token count, `numDocs`, `totalTokens`,
    `avgDocLen` the collection totals, `deletedDocs` the tombstones. -/
theorem bm25_inv (h : List (Op Tok)) :
    let s := run init h
    let c := spec h
    s.docTokens = c.corpus ∧ s.deleted = c.tomb ∧
    (akeys c.corpus).Nodup ∧ c.tomb.Nodup ∧ (∀ d ∈ c.tomb, d ∈ akeys c.corpus) ∧
    (∀ t d, d ∈ postOf s t ↔ ∃ toks, (d, toks) ∈ c.corpus ∧ t ∈ toks) ∧
    (∀ t, (postOf s t).Nodup) ∧
    (∀ t, (postOf s t).length = c.df t) ∧
    (∀ t d toks, (d, toks) ∈ c.corpus → tfOf s t d = toks.count t ∧ lenOf s d = toks.length) ∧
    (∀ t d, d ∉ akeys c.corpus → tfOf s t d = 0 ∧ lenOf s d = 0) ∧
    s.numDocs = (c.N : Int) ∧ s.totalTokens = (c.total : Int) ∧ s.avgDocLen = c.avg := by
  intro s c
  have i : Inv s c := inv_run h
  have w := i.toWFc
  have hk : (akeys c.corpus).Nodup := i.corpus ▸ w.keys
  refine ⟨i.corpus, i.tomb, hk, i.tomb ▸ i.delNodup, ?_, ?_, w.postNodup, ?_, ?_, ?_, ?_, ?_, ?_⟩
  · intro d hd
    rw [← i.corpus]; exact i.delSub d (i.tomb ▸ hd)
  · intro t d
    rw [w.post, mem_toksOf w, i.corpus]
  · intro t; rw [df_eq w, i.corpus]; rfl
  · intro t d toks hm
    have : toksOf s d = toks := by
      unfold toksOf; rw [i.corpus, aget_of_mem hk hm]; rfl
    exact ⟨by rw [w.tf, this], by rw [lenOf_eq w, this]⟩
  · intro t d hd
    have : toksOf s d = [] := toksOf_absent (i.corpus ▸ hd)
    exact ⟨by rw [w.tf, this]; rfl, by rw [lenOf_eq w, this]; rfl⟩
  · rw [w.numDocs, i.corpus]; rfl
  · rw [w.total, i.corpus]; rfl
  · rw [w.avg, w.numDocs, w.total, i.corpus]
    simp only [Spec.avg, Spec.N, Spec.total]
    by_cases hz : c.corpus.length = 0
    · simp [hz]
    · simp [hz]

/-- What the specification's corpus is, op by op ("last add wins", removal is a
    tombstone, flush drops the tombstoned). -/
theorem spec_add (h : List (Op Tok)) (id : Id) (toks : List Tok) :
    let c := spec (h ++ [.add id toks])
    aget c.corpus id = some toks ∧ id ∉ c.tomb ∧
    (∀ d, d ≠ id → aget c.corpus d = aget (spec h).corpus d ∧ (d ∈ c.tomb ↔ d ∈ (spec h).tomb)) := by
  simp only [spec_append, List.foldl_cons, List.foldl_nil, specStep]
  refine ⟨?_, ?_, ?_⟩
  · rw [aget_append, aget_aerase_self]; simp [aget]
  · simp [mem_bmRemove]
  · intro d hd
    constructor
    · rw [aget_append, aget_aerase_ne _ hd]
      cases aget (spec h).corpus d <;> simp [aget, Ne.symm hd]
    · simp [mem_bmRemove, hd]

theorem spec_remove (h : List (Op Tok)) (id : Id) :
    let c := spec (h ++ [.remove id])
    c.corpus = (spec h).corpus ∧
    (∀ d, d ∈ c.tomb ↔ d ∈ (spec h).tomb ∨ (d = id ∧ id ∈ akeys (spec h).corpus)) := by
  simp only [spec_append, List.foldl_cons, List.foldl_nil, specStep]
  split
  · next hp =>
    refine ⟨rfl, ?_⟩
    intro d
    simp only [List.mem_append, List.mem_singleton]
    have := (aget_isSome_iff _ _).1 hp.1
    constructor
    · rintro (h | rfl)
      · exact Or.inl h
      · exact Or.inr ⟨rfl, this⟩
    · rintro (h | ⟨rfl, _⟩)
      · exact Or.inl h
      · exact Or.inr rfl
  · next hp =>
    refine ⟨rfl, ?_⟩
    intro d
    constructor
    · exact Or.inl
    · rintro (h | ⟨rfl, hk⟩)
      · exact h
      · have hs := (aget_isSome_iff _ _).2 hk
        apply Classical.byContradiction
        intro hc
        exact hp ⟨hs, hc⟩

theorem spec_flush (h : List (Op Tok)) :
    spec (h ++ [.flush]) = ⟨(spec h).live, []⟩ := by
  simp only [spec_append, List.foldl_cons, List.foldl_nil, specStep, Spec.live]

/-- **bm25_stats_after_flush.** Until the next flush removed documents still count in
    `N`, `df` and the average length (`bm25_inv`); after a flush those statistics are
    exactly those of the live documents. -/
theorem bm25_stats_after_flush (h : List (Op Tok)) :
    let s := run init (h ++ [.flush])
    let live := (spec h).live
    s.docTokens = live ∧ s.deleted = [] ∧
    s.numDocs = (live.length : Int) ∧ s.totalTokens = (sumLen live : Int) ∧
    (∀ t, (postOf s t).length = (live.filter fun p => decide (t ∈ p.2)).length) ∧
    s.avgDocLen = (if live.length = 0 then Avg.zero else Avg.quot (sumLen live) live.length) := by
  have b := bm25_inv (h ++ [.flush])
  simp only [spec_flush] at b
  obtain ⟨h1, h2, _, _, _, _, _, h8, _, _, h11, h12, h13⟩ := b
  exact ⟨h1, h2, h11, h12, h8, h13⟩

/-! ## search -/

/-- **Headline.** For every history, query, `k ∈ ℤ` and id restriction, the
    single-query search returns an exact top-k (descending float32 score, any
    tie-break) of the live, eligible documents sharing a token with the query, each
    scored by the specification's BM25 sum. -/
theorem bm25_search_exact (sc : Scoring R S) (leS : S → S → Bool) (ord : sc.Ordered leS)
    (h : List (Op Tok)) (q : List Tok) (k : Int) (F : List Id) :
    IsTopK (geR leS) k (specHits sc (spec h) q F) (searchSingle sc (run init h) q k F) := by
  have i : Inv (run init h) (spec h) := inv_run h
  have o : TotalPreorder sc.le := ⟨ord.total, ord.trans⟩
  have empty : ∀ c : List (Hit S), c = [] → IsTopK (geR leS) k c [] := by
    intro c hc; subst hc
    exact ⟨List.Pairwise.nil, ⟨[], List.Perm.refl _, by intro a ha; cases ha⟩,
      (Nat.le_zero.1 (sanitizeK_le k 0)).symm⟩
  unfold searchSingle
  by_cases hq : q.isEmpty = true
  · simp only [hq, if_true]
    apply empty
    have : q = [] := List.isEmpty_iff.1 hq
    simp [specHits, specCands, this, shares]
  · simp only [hq, Bool.false_eq_true, if_false]
    by_cases hn : (run init h).numDocs = 0
    · simp only [hn, if_true]
      apply empty
      have : (spec h).corpus = [] := by
        have := i.numDocs
        rw [hn, i.corpus] at this
        exact List.eq_nil_of_length_eq_zero (by omega)
      simp [specHits, specCands, Spec.live, this]
    · simp only [hn, if_false]
      have top := rankWith_isTopK sc.le o (popMin sc.le) (popMin_lawful sc.le o) k
        (toHits (scoreMap sc (run init h) F q))
      have top' := isTopK_of_perm top (scoreMap_perm_specCands sc i q F)
      exact isTopK_map (le := geR sc.le) (le' := geR leS) sc.toS (fun a b hab => ord.mono b a hab) top'

/-- **bm25_match_set.** With `k ≤ 0` the returned ids are exactly the live documents
    inside the id restriction that share at least one token with the query — each
    once. -/
theorem bm25_match_set (sc : Scoring R S) (leS : S → S → Bool) (ord : sc.Ordered leS)
    (h : List (Op Tok)) (q : List Tok) (k : Int) (hk : k ≤ 0) (F : List Id) :
    let ids := (searchSingle sc (run init h) q k F).map (·.id)
    ids.Nodup ∧
    ∀ d, d ∈ ids ↔ ∃ toks, (d, toks) ∈ (spec h).corpus ∧ d ∉ (spec h).tomb ∧
                    eligible F d = true ∧ ∃ t ∈ q, t ∈ toks := by
  intro ids
  have top := bm25_search_exact sc leS ord h q k F
  have i : Inv (run init h) (spec h) := inv_run h
  obtain ⟨rest, hp, _⟩ := top.split
  have hl := top.len
  rw [sanitizeK_nonpos hk] at hl
  have hrest : rest = [] := by
    have := hp.length_eq
    simp only [List.length_append] at this
    exact List.eq_nil_of_length_eq_zero (by omega)
  subst hrest
  rw [List.append_nil] at hp
  have hids : ids.Perm ((candPairs sc (spec h) q F).map (·.1)) := by
    have := hp.map (·.id)
    simp only [specHits, specCands_eq, toHits, List.map_map] at this
    exact this
  have hnd := nodup_candPairs sc (i.corpus ▸ i.keys) q F
  refine ⟨hids.nodup_iff.2 hnd, ?_⟩
  intro d
  rw [hids.mem_iff]
  simp only [candPairs, Spec.live, List.map_map, List.mem_map, List.mem_filter, Function.comp,
    decide_eq_true_eq, Bool.and_eq_true, shares, List.any_eq_true]
  constructor
  · rintro ⟨⟨d', toks⟩, ⟨⟨hm, ht⟩, he, hs⟩, rfl⟩
    exact ⟨toks, hm, ht, he, hs⟩
  · rintro ⟨toks, hm, ht, he, hs⟩
    exact ⟨(d, toks), ⟨⟨hm, ht⟩, he, hs⟩, rfl⟩

/-- **bm25_score.** Whatever `k`, every returned hit is a live, eligible document
    sharing a token with the query, and its score is `float32` of the sum — in query
    order and with multiplicity — over the query-token occurrences present in it of
    `score N (df t) (tf t d) (len d) avg`, where `N`, `df`, `avg = total/N` are counted
    over the corpus INCLUDING removed-but-unflushed documents. -/
theorem bm25_score (sc : Scoring R S) (leS : S → S → Bool) (ord : sc.Ordered leS)
    (h : List (Op Tok)) (q : List Tok) (k : Int) (F : List Id) :
    let c := spec h
    ∀ r ∈ searchSingle sc (run init h) q k F,
      ∃ toks, (r.id, toks) ∈ c.corpus ∧ r.id ∉ c.tomb ∧ eligible F r.id = true ∧
        (∃ t ∈ q, t ∈ toks) ∧
        r.score = sc.toS ((q.filter fun t => decide (t ∈ toks)).foldl
          (fun acc t => sc.add acc
            (sc.score c.corpus.length (c.corpus.filter fun p => decide (t ∈ p.2)).length
              (toks.count t) toks.length
              (if c.corpus.length = 0 then Avg.zero
               else Avg.quot (sumLen c.corpus) c.corpus.length)))
          sc.zero) := by
  intro c r hr
  have top := bm25_search_exact sc leS ord h q k F
  obtain ⟨rest, hp, _⟩ := top.split
  have hm : r ∈ specHits sc (spec h) q F := hp.subset (List.mem_append_left _ hr)
  simp only [specHits, specCands, Spec.live, List.map_map, List.mem_map, List.mem_filter,
    Function.comp, decide_eq_true_eq, Bool.and_eq_true, shares, List.any_eq_true] at hm
  obtain ⟨⟨d, toks⟩, ⟨⟨hm1, hm2⟩, he, hs⟩, rfl⟩ := hm
  exact ⟨toks, hm1, hm2, he, hs, rfl⟩

/-- **bm25_removed_never_returned.** After `remove id`, no search returns `id` —
    before or after any number of flushes — until `id` is added again. -/
theorem bm25_removed_never_returned (sc : Scoring R S) (leS : S → S → Bool) (ord : sc.Ordered leS)
    (h₁ h₂ : List (Op Tok)) (id : Id) (hno : ∀ op ∈ h₂, ∀ toks, op ≠ .add id toks)
    (q : List Tok) (k : Int) (F : List Id) :
    ∀ r ∈ searchSingle sc (run init (h₁ ++ [.remove id] ++ h₂)) q k F, r.id ≠ id := by
  intro r hr he
  obtain ⟨toks, hm, ht, _⟩ := bm25_score sc leS ord (h₁ ++ [.remove id] ++ h₂) q k F r hr
  have nl : NotLive (spec (h₁ ++ [.remove id] ++ h₂)) id := by
    rw [spec_append, spec_append]
    simp only [List.foldl_cons, List.foldl_nil]
    exact notLive_foldl (notLive_after_remove _ id) h₂ hno
  rw [he] at hm ht
  exact ht (nl toks hm)

/-- **bm25_replace_no_trace.** Adding over an id (live or removed) leaves no trace of
    the text it had: the state equals — up to the order of Go's maps — the state of
    the history from which the earlier add of that id has been deleted (nothing
    naming the id in between), hence no statistic and no search answer depends on
    the old text. -/
theorem bm25_replace_no_trace (h₁ h₂ : List (Op Tok)) (id : Id) (t₁ t₂ : List Tok)
    (hops : ∀ op ∈ h₂, mentions id op = false) :
    StateEquiv (run init (h₁ ++ [.add id t₁] ++ h₂ ++ [.add id t₂]))
               (run init (h₁ ++ h₂ ++ [.add id t₂])) := by
  have i1 := inv_run (h₁ ++ [.add id t₁] ++ h₂ ++ [.add id t₂])
  have i2 := inv_run (h₁ ++ h₂ ++ [.add id t₂])
  rw [spec_overwritten_add h₁ h₂ id t₁ t₂ hops] at i1
  exact inv_unique i1 i2

/-- … in particular both states answer every search with an exact top-k of the SAME
    candidate list, in which the old text `t₁` does not occur. -/
theorem bm25_replace_no_trace_search (sc : Scoring R S) (leS : S → S → Bool) (ord : sc.Ordered leS)
    (h₁ h₂ : List (Op Tok)) (id : Id) (t₁ t₂ : List Tok)
    (hops : ∀ op ∈ h₂, mentions id op = false) (q : List Tok) (k : Int) (F : List Id) :
    let cands := specHits sc (spec (h₁ ++ h₂ ++ [.add id t₂])) q F
    IsTopK (geR leS) k cands
      (searchSingle sc (run init (h₁ ++ [.add id t₁] ++ h₂ ++ [.add id t₂])) q k F) ∧
    IsTopK (geR leS) k cands (searchSingle sc (run init (h₁ ++ h₂ ++ [.add id t₂])) q k F) := by
  intro cands
  have a := bm25_search_exact sc leS ord (h₁ ++ [.add id t₁] ++ h₂ ++ [.add id t₂]) q k F
  rw [spec_overwritten_add h₁ h₂ id t₁ t₂ hops] at a
  exact ⟨a, bm25_search_exact sc leS ord (h₁ ++ h₂ ++ [.add id t₂]) q k F⟩

/-! ## ranking: heap selection and full heap-sort -/

/-- **heap_select_isTopK.** The ranking tail of `searchSingleQuery` — size-k min-heap
    with strict `>` replacement when `0 < k < len(scores)`, full heap-sort otherwise —
    returns an exact descending top-k of the score map, for EVERY order `hits'` in
    which Go iterates the map and every lawful priority queue (`Pop` returns some
    minimum). -/
theorem heap_select_isTopK (le : R → R → Bool) (o : TotalPreorder le) (pm : PopMin R)
    (law : LawfulPopMin le pm) (k : Int) (hits hits' : List (Hit R)) (order : hits'.Perm hits) :
    IsTopK (geR le) k hits (rankWith le pm k hits') :=
  isTopK_of_perm (rankWith_isTopK le o pm law k hits') order

/-- the heap branch spelled out -/
theorem heap_branch_isTopK (le : R → R → Bool) (o : TotalPreorder le) (pm : PopMin R)
    (law : LawfulPopMin le pm) (k : Int) (hits : List (Hit R))
    (hk : 0 < k) (hkn : k < (hits.length : Int)) :
    let h := hits.foldl (heapStep le pm k.toNat) []
    IsTopK (geR le) k hits ((drain pm h.length h).reverse) := by
  have := rankWith_isTopK le o pm law k hits
  unfold rankWith at this
  have hc : ¬ (k ≤ 0 ∨ k ≥ (hits.length : Int)) := by omega
  simpa only [hc, if_false] using this

/-- **full_heapsort_sorted.** `k ≤ 0` or `k ≥ len(scores)`: every entry of the score
    map is returned, in descending score order. -/
theorem full_heapsort_sorted (le : R → R → Bool) (pm : PopMin R) (law : LawfulPopMin le pm)
    (k : Int) (hits : List (Hit R)) (hk : k ≤ 0 ∨ k ≥ (hits.length : Int)) :
    (rankWith le pm k hits).Perm hits ∧
    (rankWith le pm k hits).Pairwise fun a b => le b.score a.score = true := by
  unfold rankWith
  simp only [hk, if_true]
  exact drain_reverse_sorted le pm law hits

/-- the model's own priority queue is lawful -/
theorem popMin_is_lawful (le : R → R → Bool) (o : TotalPreorder le) : LawfulPopMin le (popMin le) :=
  popMin_lawful le o

/-- any two exact top-k answers carry the same score list -/
theorem bm25_answers_same_scores (leS : S → S → Bool) (o : TotalPreorder leS)
    (antisymm : ∀ a b : S, leS a b → leS b a → a = b)
    (k : Int) (c r₁ r₂ : List (Hit S)) (h₁ : IsTopK (geR leS) k c r₁) (h₂ : IsTopK (geR leS) k c r₂) :
    r₁.map (·.score) = r₂.map (·.score) :=
  isTopK_scores_eq (geR leS) (fun a b => by have := o.total b a; simpa [geR] using this)
    (fun a b c h1 h2 => o.trans _ _ _ h2 h1) (fun a b h1 h2 => antisymm a b h2 h1) k c r₁ r₂ h₁ h₂

/-! ## multi-query search -/

/-- **text_aggregate_spec.** The text aggregation returns one hit per distinct
    document id of its input, scored by the selected rule applied to that document's
    per-query scores in input order, sorted by descending score. -/
theorem text_aggregate_spec (ag : Scalar S) (ord : ag.Ordered) (kind : AggKind) (xs : List (Hit S)) :
    let res := textAggregate ag kind xs
    (res.map (·.id)).Nodup ∧
    (∀ r, r ∈ res ↔ r.id ∈ xs.map (·.id) ∧ r.score = reduceVec ag kind (scoresOf r.id xs)) ∧
    res.Pairwise fun a b => ag.le b.score a.score = true :=
  ⟨textAggregate_ids_nodup ag kind xs, mem_textAggregate ag kind xs, textAggregate_sorted ag ord kind xs⟩

/-- the three rules: sum = left fold of `+` from 0 in input order; mean = that sum
    divided by the number of scores; max = one of the scores, none being larger -/
theorem reduce_rules (ag : Scalar S) (ord : ag.Ordered) (s : S) (ss : List S) :
    reduceVec ag .sum (s :: ss) = (s :: ss).foldl ag.add ag.zero ∧
    reduceVec ag .mean (s :: ss) = ag.divNat ((s :: ss).foldl ag.add ag.zero) (ss.length + 1) ∧
    reduceVec ag .max (s :: ss) ∈ s :: ss ∧
    ∀ x ∈ s :: ss, ag.le x (reduceVec ag .max (s :: ss)) = true :=
  ⟨rfl, rfl, maxScores_spec ag ord s ss⟩

/-- **bm25_execute_spec.** `Execute` with one or more queries: every query is searched
    on its own (each answer an exact top-k of its candidates, `bm25_search_exact`),
    the per-query answers are concatenated in query order and combined per document
    by the selected rule (`text_aggregate_spec`), and the `k` best combined hits are
    returned in descending order (all when `k ≤ 0`). -/
theorem bm25_execute_spec (sc : Scoring R S) (ag : Scalar S) (ord : ag.Ordered)
    (s : State Tok) (queries : List (List Tok)) (hq : queries ≠ []) (k : Int) (F : List Id)
    (kind : AggKind) :
    let all := (queries.map fun q => searchSingle sc s q k F).flatten
    let combined := if all.isEmpty then all else textAggregate ag kind all
    execute sc ag s queries k F (some kind) = .ok (limitResults k combined) ∧
    IsTopK (geR ag.le) k combined (limitResults k combined) := by
  intro all combined
  constructor
  · unfold execute
    have : queries.isEmpty = false := by cases queries <;> simp_all
    simp only [this, Bool.false_eq_true, if_false]
    rfl
  · apply isTopK_take_of_sorted
    show (if all.isEmpty then all else textAggregate ag kind all).Pairwise _
    split
    · next he =>
      have : all = [] := List.isEmpty_iff.1 he
      rw [this]; exact List.Pairwise.nil
    · exact textAggregate_sorted ag ord kind all

/-- error outcomes of `Execute` -/
theorem bm25_execute_errors (sc : Scoring R S) (ag : Scalar S) (s : State Tok)
    (queries : List (List Tok)) (k : Int) (F : List Id) (kind : Option AggKind) :
    (queries = [] → execute sc ag s queries k F kind = .error .noQuery) ∧
    (queries ≠ [] → kind = none → execute sc ag s queries k F kind = .error .badAgg) := by
  constructor
  · intro h; subst h; rfl
  · intro h hk; subst hk
    unfold execute
    have : queries.isEmpty = false := by cases queries <;> simp_all
    simp [this]

/-! ## non-vacuity: a concrete history over ℕ tokens with exact ℕ "scores" -/

section Example

/-- tokens: 0 "a", 1 "b", 2 "c", 3 " " -/
def toyOps : List (Op Nat) :=
  [.add 1 [0, 3, 1], .add 2 [1, 3, 1, 3, 2], .add 3 [], .add 4 [0, 3, 1],
   .add 2 [2],              -- replace a live document
   .remove 1, .remove 9,    -- remove, remove an absent id
   .add 5 [0, 0],
   .remove 4, .add 4 [1]]   -- re-add a removed id before any flush

-- the corpus the history denotes: 1 is removed but still counted; 2 has its new text; 4 is live again
example : spec toyOps = ⟨[(1, [0, 3, 1]), (3, []), (2, [2]), (5, [0, 0]), (4, [1])], [1]⟩ := by decide
example : (run init toyOps).docTokens = (spec toyOps).corpus := by decide
example : (run init toyOps).numDocs = 5 ∧ (run init toyOps).totalTokens = 7 ∧
    (run init toyOps).avgDocLen = .quot 7 5 ∧ postOf (run init toyOps) 0 = [1, 5] ∧
    tfOf (run init toyOps) 0 5 = 2 ∧ (run init toyOps).deleted = [1] := by decide
-- after a flush the statistics are those of the live documents only
example : (run init (toyOps ++ [.flush])).numDocs = 4 ∧ (run init (toyOps ++ [.flush])).totalTokens = 4 ∧
    postOf (run init (toyOps ++ [.flush])) 0 = [5] := by decide
-- query "a b a" (the token 0 twice): candidates are the live documents sharing a token;
-- document 1 (removed) is absent although it contains both tokens; 5 is scored twice for "a"
example : specHits toy (spec toyOps) [0, 1, 0] [] = [⟨5, 3200⟩, ⟨4, 1333⟩] := by decide
example : searchSingle toy (run init toyOps) [0, 1, 0] 0 [] = [⟨5, 3200⟩, ⟨4, 1333⟩] := by decide
-- heap branch (k = 1 < 2 matches), id restriction, restriction naming an absent id
example : searchSingle toy (run init toyOps) [0, 1, 0] 1 [] = [⟨5, 3200⟩] := by decide
example : searchSingle toy (run init toyOps) [0, 1, 0] 5 [4, 77] = [⟨4, 1333⟩] := by decide
-- the hypotheses of the headline theorem are met by this instance:
example : IsTopK (geR leN) 1 (specHits toy (spec toyOps) [0, 1, 0] [])
    (searchSingle toy (run init toyOps) [0, 1, 0] 1 []) :=
  bm25_search_exact toy leN toy_ordered toyOps [0, 1, 0] 1 []
-- a wrong answer is rejected by the same notion
example : ¬ IsTopK (geR leN) 1 (specHits toy (spec toyOps) [0, 1, 0] []) [⟨4, 1333⟩] :=
  fun h => absurd (checkTopK_complete _ _ _ _ h) (by decide)
-- replace leaves no trace: dropping the first add of id 2 gives the same corpus
example : spec toyOps =
    spec ([.add 1 [0, 3, 1], .add 3 [], .add 4 [0, 3, 1], .add 2 [2], .remove 1, .remove 9,
           .add 5 [0, 0], .remove 4, .add 4 [1]] : List (Op Nat)) := by decide
-- a tie at the k-th place: both tie-breaks are exact top-1 answers
example : specHits toy (spec [.add 1 [0], .add 2 [0], .add 3 [1]]) [0] [] = [⟨1, 666⟩, ⟨2, 666⟩] := by
  decide
example : IsTopK (geR leN) 1 [⟨1, 666⟩, ⟨2, 666⟩] [⟨2, 666⟩] := checkTopK_sound _ _ _ _ (by decide)
example : IsTopK (geR leN) 1 [⟨1, 666⟩, ⟨2, 666⟩] [⟨1, 666⟩] := checkTopK_sound _ _ _ _ (by decide)

end Example

end Comet.BM25
