/-
  C07 — serialising and reloading any index preserves its content.

  ONLY property theorems and non-vacuity examples live here; the models are in
  Comet/Codec/*.lean (one `encode`/`decode` pair per index kind, written after the Go
  field order), helper lemmas in CometProofs/Codec/*.lean.

  Reading guide.
    * `bm : BlobCodec` is the roaring library's `ToBytes` / `UnmarshalBinary`, a
      PARAMETER: `bm.Lawful dom` is the assumption `UnmarshalBinary (ToBytes b) = b` (and
      `|ToBytes b| < 2^32`) for the bitmaps in `dom`; `Meta.NonEmpty` says a blob is never
      empty.  The executable roaring model the driver uses is validated byte for byte
      against the real library on every run, not proved lawful.
    * `K.writeTo bm s = (s', bytes, n)`: the source index after `WriteTo` (it is flushed),
      the stream, and the byte count `WriteTo` REPORTS (computed like the Go closure does:
      by a type switch on the static type of each written value, or a manual `+=` after a
      raw `w.Write`).  `K.encode bm s` is the stream.
    * `K.decodeC bm p inp = ok ((s', n), rest)`: `ReadFrom` of a receiver constructed with
      parameters `p`: new content, REPORTED read count, unread rest.  `K.decode` forgets `n`.
    * `K.wf s` is the explicit decidable well-formedness of a state (sizes fit their
      fields, stored vectors have the index's dimension, a trained index has its
      centroids / codebooks, map keys are distinct): what every reachable state satisfies.
    * `roundtrip_K … (encode s ++ rest) = ok (forget (flush s), rest)` says at once "reads
      back the flushed content" and "consumes exactly its own bytes" (the arbitrary `rest`
      is left untouched) — for every order in which Go may iterate its maps (the model
      writes map entries in list order and the theorem holds for every list).
    * PQ / IVFPQ: `forget` drops the raw vectors, which the stream does not carry (the
      property excludes node-id queries for them).
  "Answers every query identically" and "accepts further adds and removals" follow from
  equality of content for any search / update function of the content; for the real
  code they are checked by the correspondence stream `codec` (the search models of the
  individual kinds are other properties' business).
-/
import CometProofs.Codec.Eval
import CometProofs.Codec.Hybrid
import CometProofs.Flat
import CometProofs.Codec.Example
namespace Comet.Codec.C07
open Comet.Codec

variable (bm : BlobCodec) (dom : List Nat → Prop)

/-! ## flat -/

theorem roundtrip_flat (hbm : bm.Lawful dom) (h0 : dom []) (s : Flat.State)
    (hwf : Flat.wf s = true) (rest : Bytes) :
    Flat.decode bm s.params (Flat.encode bm s ++ rest) = .ok (Flat.flush s, rest) := by
  have := run_of_reads (Flat.reads_decodeC bm dom hbm (Flat.flush s) (Flat.wf_flush s hwf)
    (by rw [Flat.flush_deleted]; exact h0)) rest
  rw [Flat.flush_params] at this
  exact this

/-- the count `ReadFrom` reports is the stream length (and the rest is left unread) -/
theorem count_read_flat (hbm : bm.Lawful dom) (h0 : dom []) (s : Flat.State)
    (hwf : Flat.wf s = true) (rest : Bytes) :
    Flat.decodeC bm s.params (Flat.encode bm s ++ rest) =
      .ok ((Flat.flush s, (Flat.encode bm s).length), rest) := by
  have := count_of_reads (Flat.exact_decodeC bm _) (Flat.reads_decodeC bm dom hbm (Flat.flush s)
    (Flat.wf_flush s hwf) (by rw [Flat.flush_deleted]; exact h0)) rest
  rw [Flat.flush_params] at this
  exact this

/-- the count `WriteTo` reports is the stream length -/
theorem count_write_flat (s : Flat.State) :
    (Flat.writeTo bm s).2.2 = (Flat.encode bm s).length :=
  reported_of_all _ _ (by simp [Flat.items, Flat.vecItems, wLenBytes, List.all_flatMap, Flat.swW])

/-- `WriteTo` leaves the source index flushed, nothing else; doing it again changes nothing -/
theorem write_is_flush_flat (s : Flat.State) :
    (Flat.writeTo bm s).1 = Flat.flush s ∧
    Flat.writeTo bm (Flat.writeTo bm s).1 = Flat.writeTo bm s := by
  refine ⟨rfl, ?_⟩
  simp only [Flat.writeTo, Flat.flush_flush]

/-- … and the codec's flush is the search model's flush (C01's `Flat.step … .flush`) -/
theorem write_is_flush_flat_model {S : Type} (m : Metric (List Nat) S) (mk : Bytes)
    (st : Comet.Flat.State (List Nat)) :
    Flat.flush (Flat.ofModel mk st) = Flat.ofModel mk (Comet.Flat.step m st .flush).1 := by
  unfold Flat.flush Comet.Flat.step Flat.ofModel
  by_cases h : st.deleted.isEmpty
  · simp [h]
  · simp only [h, Bool.false_eq_true, if_false]
    congr 1
    apply List.filter_congr
    intro p _
    simp [List.contains_iff_mem]

/-- no soft-deleted id occurs in the stream's content -/
theorem removed_absent_from_stream_flat (hbm : bm.Lawful dom) (h0 : dom []) (s : Flat.State)
    (hwf : Flat.wf s = true) :
    ∃ s', Flat.decode bm s.params (Flat.encode bm s) = .ok (s', []) ∧ s'.deleted = [] ∧
      ∀ id ∈ s.deleted, id ∉ Flat.streamIds s' := by
  refine ⟨Flat.flush s, ?_, Flat.flush_deleted s, Flat.removed_absent s⟩
  simpa using roundtrip_flat bm dom hbm h0 s hwf []

/-! ## IVF -/

theorem roundtrip_ivf (hbm : bm.Lawful dom) (h0 : dom []) (s : IVF.State)
    (hwf : IVF.wf s = true) (rest : Bytes) :
    IVF.decode bm s.params (IVF.encode bm s ++ rest) = .ok (IVF.flush s, rest) := by
  have := run_of_reads (IVF.reads_decodeC bm dom hbm (IVF.flush s) (IVF.wf_flush s hwf)
    (by rw [IVF.flush_deleted]; exact h0)) rest
  rw [IVF.flush_params] at this
  exact this

theorem count_read_ivf (hbm : bm.Lawful dom) (h0 : dom []) (s : IVF.State)
    (hwf : IVF.wf s = true) (rest : Bytes) :
    IVF.decodeC bm s.params (IVF.encode bm s ++ rest) =
      .ok ((IVF.flush s, (IVF.encode bm s).length), rest) := by
  have := count_of_reads (IVF.exact_decodeC bm _) (IVF.reads_decodeC bm dom hbm (IVF.flush s)
    (IVF.wf_flush s hwf) (by rw [IVF.flush_deleted]; exact h0)) rest
  rw [IVF.flush_params] at this
  exact this

theorem count_write_ivf (s : IVF.State) :
    (IVF.writeTo bm s).2.2 = (IVF.encode bm s).length :=
  reported_of_all _ _ (by
    cases h : (IVF.flush s).trained <;>
    simp [IVF.items, IVF.centroidItems, IVF.listItems, IVF.entryItems, wLenBytes,
      List.all_flatMap, IVF.swW, h])

theorem write_is_flush_ivf (s : IVF.State) :
    (IVF.writeTo bm s).1 = IVF.flush s ∧
    IVF.writeTo bm (IVF.writeTo bm s).1 = IVF.writeTo bm s := by
  refine ⟨rfl, ?_⟩
  simp only [IVF.writeTo, IVF.flush_flush]

theorem removed_absent_from_stream_ivf (hbm : bm.Lawful dom) (h0 : dom []) (s : IVF.State)
    (hwf : IVF.wf s = true) :
    ∃ s', IVF.decode bm s.params (IVF.encode bm s) = .ok (s', []) ∧ s'.deleted = [] ∧
      ∀ id ∈ s.deleted, id ∉ IVF.streamIds s' := by
  refine ⟨IVF.flush s, ?_, IVF.flush_deleted s, IVF.removed_absent s⟩
  simpa using roundtrip_ivf bm dom hbm h0 s hwf []

/-! ## PQ -/

theorem roundtrip_pq (hbm : bm.Lawful dom) (h0 : dom []) (s : PQ.State)
    (hwf : PQ.wf s = true) (rest : Bytes) :
    PQ.decode bm s.params (PQ.encode bm s ++ rest) = .ok (PQ.forget (PQ.flush s), rest) := by
  have := run_of_reads (PQ.reads_decodeC bm dom hbm (PQ.flush s) (PQ.wf_flush s hwf)
    (by rw [PQ.flush_deleted]; exact h0)) rest
  rw [PQ.flush_params] at this
  exact this

/-- a reloaded PQ index holds no raw vectors (node-id queries are excluded by the property) -/
theorem reload_pq_no_vectors (hbm : bm.Lawful dom) (h0 : dom []) (s : PQ.State)
    (hwf : PQ.wf s = true) :
    ∃ s', PQ.decode bm s.params (PQ.encode bm s) = .ok (s', []) ∧ ∀ e ∈ s'.entries, e.vec = none := by
  refine ⟨PQ.forget (PQ.flush s), by simpa using roundtrip_pq bm dom hbm h0 s hwf [], ?_⟩
  intro e he
  simp only [PQ.forget, List.mem_map] at he
  obtain ⟨e', _, rfl⟩ := he
  rfl

theorem count_read_pq (hbm : bm.Lawful dom) (h0 : dom []) (s : PQ.State)
    (hwf : PQ.wf s = true) (rest : Bytes) :
    PQ.decodeC bm s.params (PQ.encode bm s ++ rest) =
      .ok ((PQ.forget (PQ.flush s), (PQ.encode bm s).length), rest) := by
  have := count_of_reads (PQ.exact_decodeC bm _) (PQ.reads_decodeC bm dom hbm (PQ.flush s)
    (PQ.wf_flush s hwf) (by rw [PQ.flush_deleted]; exact h0)) rest
  rw [PQ.flush_params] at this
  exact this

theorem count_write_pq (s : PQ.State) :
    (PQ.writeTo bm s).2.2 = (PQ.encode bm s).length :=
  reported_of_all _ _ (by
    cases h : (PQ.flush s).trained <;>
    simp [PQ.items, PQ.codebookItems, PQ.entryItems, wLenBytes, List.all_flatMap, PQ.swW, h])

theorem write_is_flush_pq (s : PQ.State) :
    (PQ.writeTo bm s).1 = PQ.flush s ∧
    PQ.writeTo bm (PQ.writeTo bm s).1 = PQ.writeTo bm s := by
  refine ⟨rfl, ?_⟩
  simp only [PQ.writeTo, PQ.flush_flush]

theorem removed_absent_from_stream_pq (hbm : bm.Lawful dom) (h0 : dom []) (s : PQ.State)
    (hwf : PQ.wf s = true) :
    ∃ s', PQ.decode bm s.params (PQ.encode bm s) = .ok (s', []) ∧ s'.deleted = [] ∧
      ∀ id ∈ s.deleted, id ∉ PQ.streamIds s' := by
  refine ⟨PQ.forget (PQ.flush s), by simpa using roundtrip_pq bm dom hbm h0 s hwf [],
    PQ.flush_deleted s, ?_⟩
  intro id hid
  have := PQ.removed_absent s id hid
  simpa [PQ.streamIds, PQ.forget, List.map_map, Function.comp_def] using this

/-! ## IVFPQ -/

theorem roundtrip_ivfpq (hbm : bm.Lawful dom) (h0 : dom []) (s : IVFPQ.State)
    (hwf : IVFPQ.wf s = true) (rest : Bytes) :
    IVFPQ.decode bm s.params (IVFPQ.encode bm s ++ rest) =
      .ok (IVFPQ.forget (IVFPQ.flush s), rest) := by
  have := run_of_reads (IVFPQ.reads_decodeC bm dom hbm (IVFPQ.flush s) (IVFPQ.wf_flush s hwf)
    (by rw [IVFPQ.flush_deleted]; exact h0)) rest
  rw [IVFPQ.flush_params] at this
  exact this

theorem count_read_ivfpq (hbm : bm.Lawful dom) (h0 : dom []) (s : IVFPQ.State)
    (hwf : IVFPQ.wf s = true) (rest : Bytes) :
    IVFPQ.decodeC bm s.params [] (IVFPQ.encode bm s ++ rest) =
      .ok ((IVFPQ.forget (IVFPQ.flush s), (IVFPQ.encode bm s).length), rest) := by
  have := count_of_reads (IVFPQ.exact_decodeC bm _ _) (IVFPQ.reads_decodeC bm dom hbm
    (IVFPQ.flush s) (IVFPQ.wf_flush s hwf) (by rw [IVFPQ.flush_deleted]; exact h0)) rest
  rw [IVFPQ.flush_params] at this
  exact this

theorem count_write_ivfpq (s : IVFPQ.State) :
    (IVFPQ.writeTo bm s).2.2 = (IVFPQ.encode bm s).length :=
  reported_of_all _ _ (by
    cases h : (IVFPQ.flush s).trained <;>
    simp [IVFPQ.items, IVFPQ.f32ListItems, IVFPQ.listItems, IVFPQ.entryItems, wLenBytes,
      List.all_flatMap, IVFPQ.swW, h])

theorem write_is_flush_ivfpq (s : IVFPQ.State) :
    (IVFPQ.writeTo bm s).1 = IVFPQ.flush s ∧
    IVFPQ.writeTo bm (IVFPQ.writeTo bm s).1 = IVFPQ.writeTo bm s := by
  refine ⟨rfl, ?_⟩
  simp only [IVFPQ.writeTo, IVFPQ.flush_flush]

theorem removed_absent_from_stream_ivfpq (hbm : bm.Lawful dom) (h0 : dom []) (s : IVFPQ.State)
    (hwf : IVFPQ.wf s = true) :
    ∃ s', IVFPQ.decode bm s.params (IVFPQ.encode bm s) = .ok (s', []) ∧ s'.deleted = [] ∧
      ∀ id ∈ s.deleted, id ∉ IVFPQ.streamIds s' := by
  refine ⟨IVFPQ.forget (IVFPQ.flush s), by simpa using roundtrip_ivfpq bm dom hbm h0 s hwf [],
    IVFPQ.flush_deleted s, ?_⟩
  intro id hid
  have := IVFPQ.removed_absent s id hid
  simpa [IVFPQ.streamIds, IVFPQ.forget, List.flatMap_map, List.map_map, Function.comp_def] using this

/-! ## HNSW -/

theorem roundtrip_hnsw (hbm : bm.Lawful dom) (h0 : dom []) (s : HNSW.State)
    (hwf : HNSW.wf s = true) (rest : Bytes) :
    HNSW.decode bm s.params (HNSW.encode bm s ++ rest) = .ok (HNSW.flush s, rest) := by
  have := run_of_reads (HNSW.reads_decodeC bm dom hbm (HNSW.flush s) (HNSW.wf_flush s hwf)
    (by rw [HNSW.flush_deleted]; exact h0)) rest
  rw [HNSW.flush_params] at this
  exact this

theorem count_read_hnsw (hbm : bm.Lawful dom) (h0 : dom []) (s : HNSW.State)
    (hwf : HNSW.wf s = true) (rest : Bytes) :
    HNSW.decodeC bm s.params (HNSW.encode bm s ++ rest) =
      .ok ((HNSW.flush s, (HNSW.encode bm s).length), rest) := by
  have := count_of_reads (HNSW.exact_decodeC bm _) (HNSW.reads_decodeC bm dom hbm (HNSW.flush s)
    (HNSW.wf_flush s hwf) (by rw [HNSW.flush_deleted]; exact h0)) rest
  rw [HNSW.flush_params] at this
  exact this

theorem count_write_hnsw (s : HNSW.State) :
    (HNSW.writeTo bm s).2.2 = (HNSW.encode bm s).length :=
  reported_of_all _ _ (by
    simp [HNSW.items, HNSW.nodeItems, HNSW.edgeItems, wLenBytes, List.all_flatMap, HNSW.swW])

theorem write_is_flush_hnsw (s : HNSW.State) :
    (HNSW.writeTo bm s).1 = HNSW.flush s ∧
    HNSW.writeTo bm (HNSW.writeTo bm s).1 = HNSW.writeTo bm s := by
  refine ⟨rfl, ?_⟩
  simp only [HNSW.writeTo, HNSW.flush_flush]

theorem removed_absent_from_stream_hnsw (hbm : bm.Lawful dom) (h0 : dom []) (s : HNSW.State)
    (hwf : HNSW.wf s = true) :
    ∃ s', HNSW.decode bm s.params (HNSW.encode bm s) = .ok (s', []) ∧ s'.deleted = [] ∧
      ∀ id ∈ s.deleted, id ∉ HNSW.streamIds s' := by
  refine ⟨HNSW.flush s, ?_, HNSW.flush_deleted s, HNSW.removed_absent s⟩
  simpa using roundtrip_hnsw bm dom hbm h0 s hwf []

/-! ## BM25
    `avg tot n` stands for `float64(tot) / float64(n)` (a bit pattern): the theorems hold
    for every such function. -/

theorem roundtrip_bm25 (avg : Nat → Nat → Nat) (havg : ∀ t n, avg t n < 18446744073709551616)
    (hbm : bm.Lawful dom) (s : BM25.State) (hwf : BM25.wf s = true)
    (hdom : ∀ b ∈ BM25.bitmaps (BM25.flush avg s), dom b) (rest : Bytes) :
    BM25.decode bm (BM25.encode avg bm s ++ rest) = .ok (BM25.flush avg s, rest) :=
  run_of_reads (BM25.reads_decodeC bm dom hbm (BM25.flush avg s)
    (BM25.wf_flush avg havg s hwf) hdom) rest

theorem count_read_bm25 (avg : Nat → Nat → Nat) (havg : ∀ t n, avg t n < 18446744073709551616)
    (hbm : bm.Lawful dom) (s : BM25.State) (hwf : BM25.wf s = true)
    (hdom : ∀ b ∈ BM25.bitmaps (BM25.flush avg s), dom b) (rest : Bytes) :
    BM25.decodeC bm (BM25.encode avg bm s ++ rest) =
      .ok ((BM25.flush avg s, (BM25.encode avg bm s).length), rest) :=
  count_of_reads (BM25.exact_decodeC bm) (BM25.reads_decodeC bm dom hbm (BM25.flush avg s)
    (BM25.wf_flush avg havg s hwf) hdom) rest

theorem count_write_bm25 (avg : Nat → Nat → Nat) (s : BM25.State) :
    (BM25.writeTo avg bm s).2.2 = (BM25.encode avg bm s).length :=
  reported_of_all _ _ (by
    simp [BM25.items, BM25.docLenItems, BM25.docTokItems, BM25.postingItems, BM25.tfItems,
      wLenBytes, List.all_flatMap, BM25.swW])

theorem write_is_flush_bm25 (avg : Nat → Nat → Nat) (s : BM25.State) :
    (BM25.writeTo avg bm s).1 = BM25.flush avg s ∧
    BM25.writeTo avg bm (BM25.writeTo avg bm s).1 = BM25.writeTo avg bm s := by
  refine ⟨rfl, ?_⟩
  simp only [BM25.writeTo, BM25.flush_flush]

/-! ## metadata (Flush is a no-op; Remove clears the id from every bitmap at once) -/

theorem roundtrip_meta (hbm : bm.Lawful dom) (hne : Meta.NonEmpty bm dom) (s : Meta.State)
    (hwf : Meta.wf s = true) (hdom : ∀ b ∈ Meta.bitmaps s, dom b) (rest : Bytes) :
    Meta.decode bm (Meta.encode bm s ++ rest) = .ok (s, rest) :=
  run_of_reads (Meta.reads_decodeC bm dom hbm hne s hwf hdom) rest

theorem count_read_meta (hbm : bm.Lawful dom) (hne : Meta.NonEmpty bm dom) (s : Meta.State)
    (hwf : Meta.wf s = true) (hdom : ∀ b ∈ Meta.bitmaps s, dom b) (rest : Bytes) :
    Meta.decodeC bm (Meta.encode bm s ++ rest) = .ok ((s, (Meta.encode bm s).length), rest) :=
  count_of_reads (Meta.exact_decodeC bm) (Meta.reads_decodeC bm dom hbm hne s hwf hdom) rest

theorem count_write_meta (s : Meta.State) :
    (Meta.writeTo bm s).2.2 = (Meta.encode bm s).length :=
  reported_of_all _ _ (by
    simp [Meta.items, Meta.catItems, Meta.numItems, Meta.flush, wLenBytes, List.all_flatMap,
      Meta.swW])

theorem write_is_flush_meta (s : Meta.State) : (Meta.writeTo bm s).1 = s := rfl

/-! ## hybrid: four streams written, one concatenation read -/

theorem roundtrip_hybrid (avg : Nat → Nat → Nat) (havg : ∀ t n, avg t n < 18446744073709551616)
    (hbm : bm.Lawful dom) (hne : Meta.NonEmpty bm dom) (s : Hybrid.State)
    (hwf : Hybrid.wf s = true) (hdom : ∀ b ∈ Hybrid.bitmaps (Hybrid.flush avg s), dom b)
    (rest : Bytes) :
    Hybrid.decode bm s.params (Hybrid.encode avg bm s ++ rest) =
      .ok (Hybrid.forget (Hybrid.flush avg s), rest) := by
  have := run_of_reads (Hybrid.reads_decodeC bm dom hbm hne (Hybrid.flush avg s)
    (Hybrid.wf_flush avg havg s hwf) hdom) rest
  rw [Hybrid.flush_params] at this
  exact this

/-- the concatenation hybrid ++ vector ++ text ++ metadata of the four streams `WriteTo`
    produced decodes to the flushed content, and bytes that follow are left unread -/
theorem hybrid_concat_decodes (avg : Nat → Nat → Nat)
    (havg : ∀ t n, avg t n < 18446744073709551616)
    (hbm : bm.Lawful dom) (hne : Meta.NonEmpty bm dom) (s : Hybrid.State)
    (hwf : Hybrid.wf s = true) (hdom : ∀ b ∈ Hybrid.bitmaps (Hybrid.flush avg s), dom b)
    (junk : Bytes) :
    let w := (Hybrid.writeTo avg bm s).2
    Hybrid.decode bm s.params (w.1 ++ w.2.1 ++ w.2.2.1 ++ w.2.2.2 ++ junk) =
      .ok (Hybrid.forget (Hybrid.flush avg s), junk) := by
  have := roundtrip_hybrid bm dom avg havg hbm hne s hwf hdom junk
  simpa [Hybrid.encode, Hybrid.encodeRaw, Hybrid.writeTo, List.append_assoc] using this

theorem count_read_hybrid (avg : Nat → Nat → Nat) (havg : ∀ t n, avg t n < 18446744073709551616)
    (hbm : bm.Lawful dom) (hne : Meta.NonEmpty bm dom) (s : Hybrid.State)
    (hwf : Hybrid.wf s = true) (hdom : ∀ b ∈ Hybrid.bitmaps (Hybrid.flush avg s), dom b)
    (rest : Bytes) :
    Hybrid.decodeC bm s.params (Hybrid.encode avg bm s ++ rest) =
      .ok ((Hybrid.forget (Hybrid.flush avg s), (Hybrid.encode avg bm s).length), rest) := by
  have := count_of_reads (Hybrid.exact_decodeC bm _) (Hybrid.reads_decodeC bm dom hbm hne
    (Hybrid.flush avg s) (Hybrid.wf_flush avg havg s hwf) hdom) rest
  rw [Hybrid.flush_params] at this
  exact this

theorem write_is_flush_hybrid (avg : Nat → Nat → Nat) (s : Hybrid.State) :
    (Hybrid.writeTo avg bm s).1 = Hybrid.flush avg s ∧
    Hybrid.writeTo avg bm (Hybrid.writeTo avg bm s).1 = Hybrid.writeTo avg bm s := by
  refine ⟨rfl, ?_⟩
  simp only [Hybrid.writeTo, Hybrid.flush_flush]

/-! ## non-vacuity: the hypotheses are satisfiable by non-trivial instances
    (a lawful blob codec on a real domain; states with soft-deleted entries, a trained
    index, a deleted HNSW entry point, maps in non-sorted order, all three sub-indexes) -/

example : Example.listCodec.Lawful Example.dom ∧ Meta.NonEmpty Example.listCodec Example.dom ∧
    Example.dom [] :=
  ⟨Example.listCodec_lawful, Example.listCodec_nonEmpty, Example.dom_nil⟩
example : Flat.wf Example.flat1 = true ∧ Example.flat1.deleted ≠ [] ∧
    (Flat.flush Example.flat1).vecs.length = 2 := by decide
example : IVF.wf Example.ivf1 = true ∧ Example.ivf1.trained = true ∧
    IVF.streamIds (IVF.flush Example.ivf1) = [1, 4] := by decide
example : PQ.wf Example.pq1 = true ∧ PQ.streamIds (PQ.flush Example.pq1) = [2] := by decide
example : IVFPQ.wf Example.ivfpq1 = true ∧
    IVFPQ.streamIds (IVFPQ.flush Example.ivfpq1) = [1] := by decide
example : HNSW.wf Example.hnsw1 = true ∧ (HNSW.flush Example.hnsw1).entry = 8 ∧
    (HNSW.flush Example.hnsw1).maxLevel = 0 ∧
    (HNSW.flush Example.hnsw1).nodes = [(8, ⟨0, [1065353216], [[]]⟩)] := by decide
example : BM25.wf Example.bm25_1 = true ∧
    (BM25.flush (fun _ _ => 0) Example.bm25_1).postings.length = 2 ∧
    (∀ b ∈ BM25.bitmaps (BM25.flush (fun _ _ => 0) Example.bm25_1), Example.dom b) := by decide
example : Meta.wf Example.meta1 = true ∧ (∀ b ∈ Meta.bitmaps Example.meta1, Example.dom b) := by
  decide
example : Hybrid.wf Example.hybrid1 = true ∧
    (∀ b ∈ Hybrid.bitmaps (Hybrid.flush (fun _ _ => 0) Example.hybrid1), Example.dom b) := by decide

end Comet.Codec.C07
