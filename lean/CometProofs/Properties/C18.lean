/-
  C18 — distance functions obey the metric laws the indexes rely on.

  ONLY property theorems and non-vacuity examples; helper lemmas (and the links to
  Mathlib's `dist`, `‖·‖`, `inner`) are in CometProofs/Distance.lean.

  Reading guide.  `R = Dist.realOps` is the ℝ instance of the scalar operations the
  model of distance.go (Comet/Distance.lean) is written over; `euclid R`, `l2sq R`,
  `cosine R`, `cosPre R`, `norm R`, `scale R`, `normalize R`, `calculate R k`,
  `preprocess R k`, `calculateBatch R k` are *the same definitions* the driver executes
  at `Float32` (bit for bit against the Go code on every run), read at exact real
  arithmetic: this is the meaning of the property "up to float32 accumulation error".
  Vectors are lists; "equal length" is an explicit hypothesis where it is needed.
  `vecN n a` is the point of `EuclideanSpace ℝ (Fin n)` a list of length `n` denotes.
-/
import CometProofs.Distance
namespace Comet.Dist
local notation "R" => realOps

/-! ### Euclidean and squared Euclidean -/

theorem euclid_nonneg (a b : List ℝ) : 0 ≤ euclid R a b := Real.sqrt_nonneg _

theorem l2sq_nonneg (a b : List ℝ) : 0 ≤ l2sq R a b := sumSqDiff_nonneg a b

theorem l2sq_symm (a b : List ℝ) : l2sq R a b = l2sq R b a := by
  show sumSqDiff R a b = sumSqDiff R b a
  rw [sumSqDiff_eq, sumSqDiff_eq, List.zipWith_comm]
  have : (fun b a : ℝ => (a - b) ^ 2) = fun x y => (x - y) ^ 2 := by
    funext x y; ring
  rw [this]

theorem euclid_symm (a b : List ℝ) : euclid R a b = euclid R b a := by
  show Real.sqrt (l2sq R a b) = Real.sqrt (l2sq R b a)
  rw [l2sq_symm]

theorem l2sq_self (a : List ℝ) : l2sq R a a = 0 := by
  show sumSqDiff R a a = 0
  rw [sumSqDiff_eq]
  induction a with
  | nil => simp
  | cons x t ih => simp

theorem euclid_self (a : List ℝ) : euclid R a a = 0 := by
  show Real.sqrt (l2sq R a a) = 0
  rw [l2sq_self, Real.sqrt_zero]

/-- squared-Euclidean is the square of Euclidean -/
theorem l2sq_eq_euclid_sq (a b : List ℝ) : l2sq R a b = euclid R a b ^ 2 :=
  (Real.sq_sqrt (sumSqDiff_nonneg a b)).symm

/-- the model's Euclidean distance *is* the metric of Euclidean space … -/
theorem euclid_is_dist (n : ℕ) (a b : List ℝ) (ha : a.length = n) (hb : b.length = n) :
    euclid R a b = dist (vecN n a) (vecN n b) := euclid_eq_dist n a b ha hb

/-- … hence the triangle inequality, for all vectors of equal length. -/
theorem euclid_triangle (a b c : List ℝ) (hab : a.length = b.length) (hbc : b.length = c.length) :
    euclid R a c ≤ euclid R a b + euclid R b c := by
  rw [euclid_eq_dist c.length a c (hab.trans hbc) rfl, euclid_eq_dist c.length a b (hab.trans hbc) hbc,
    euclid_eq_dist c.length b c hbc rfl]
  exact dist_triangle _ _ _

/-- separation (not demanded by the property text, but what makes it a metric) -/
theorem euclid_eq_zero_iff (a b : List ℝ) (h : a.length = b.length) :
    euclid R a b = 0 ↔ a = b := by
  constructor
  · intro h0
    rw [euclid_eq_dist b.length a b h rfl, dist_eq_zero] at h0
    apply List.ext_getElem h
    intro i h1 h2
    have := congrArg (fun v : EuclideanSpace ℝ (Fin b.length) => v ⟨i, h2⟩) h0
    simpa [vecN, List.getD_eq_getElem?_getD, h1, h2] using this
  · rintro rfl; exact euclid_self a

/-! ### Cosine -/

/-- range [0, 2] for ARBITRARY inputs (normalised or not, any lengths): by the clamp -/
theorem cosine_range (a b : List ℝ) : 0 ≤ cosine R a b ∧ cosine R a b ≤ 2 := by
  rw [cosine_eq]
  have h1 : max (-1) (min 1 (dot R a b)) ≤ 1 := max_le (by norm_num) (min_le_left _ _)
  have h2 : -1 ≤ max (-1) (min 1 (dot R a b)) := le_max_left _ _
  constructor <;> linarith

theorem cosine_nonneg (a b : List ℝ) : 0 ≤ cosine R a b := (cosine_range a b).1

theorem cosine_symm (a b : List ℝ) : cosine R a b = cosine R b a := by
  rw [cosine_eq, cosine_eq, dot_comm]

/-- a zero vector is rejected by cosine preprocessing — and only a zero vector is -/
theorem pre_zero_rejected (a : List ℝ) : cosPre R a = none ↔ ∀ x ∈ a, x = 0 := by
  rw [cosPre_eq, ← norm_eq_zero_iff]
  by_cases h : norm R a = 0 <;> simp [h]

/-- preprocessing yields a unit vector of the same length (in place or as a copy: the
    same function gives the new buffer content) -/
theorem pre_unit (a a' : List ℝ) (h : cosPre R a = some a') :
    norm R a' = 1 ∧ a'.length = a.length := by
  rw [cosPre_eq] at h
  by_cases hn : norm R a = 0
  · simp [hn] at h
  · simp only [hn, if_false, Option.some.injEq] at h
    subst h
    have hpos : 0 < norm R a := lt_of_le_of_ne (norm_nonneg' a) (Ne.symm hn)
    refine ⟨?_, by simp⟩
    rw [norm_map_mul a _ (by positivity)]
    field_simp

/-- cosine distance after preprocessing = 1 − ⟪a,b⟫ / (‖a‖‖b‖), the clamp being inactive
    by Cauchy–Schwarz; stated with the model's own dot and norm … -/
theorem cosine_eq_one_sub_cos (a b : List ℝ) (hlen : a.length = b.length)
    (ha : ∃ x ∈ a, x ≠ 0) (hb : ∃ x ∈ b, x ≠ 0) :
    ∃ a' b', cosPre R a = some a' ∧ cosPre R b = some b' ∧
      cosine R a' b' = 1 - dot R a b / (norm R a * norm R b) := by
  have hna : norm R a ≠ 0 := by
    rw [Ne, norm_eq_zero_iff]; push Not; exact ha
  have hnb : norm R b ≠ 0 := by
    rw [Ne, norm_eq_zero_iff]; push Not; exact hb
  have hpa : 0 < norm R a := lt_of_le_of_ne (norm_nonneg' a) (Ne.symm hna)
  have hpb : 0 < norm R b := lt_of_le_of_ne (norm_nonneg' b) (Ne.symm hnb)
  refine ⟨_, _, by rw [cosPre_eq, if_neg hna], by rw [cosPre_eq, if_neg hnb], ?_⟩
  rw [cosine_eq, dot_map_mul]
  have hcs := abs_dot_le a b hlen
  have hq : 1 / norm R a * (1 / norm R b) * dot R a b = dot R a b / (norm R a * norm R b) := by
    field_simp
  rw [hq]
  have hle : |dot R a b / (norm R a * norm R b)| ≤ 1 := by
    rw [abs_div, abs_of_pos (mul_pos hpa hpb)]
    exact div_le_one_of_le₀ hcs (mul_pos hpa hpb).le
  obtain ⟨h1, h2⟩ := abs_le.1 hle
  rw [min_eq_right h2, max_eq_right h1]

/-- … and with Mathlib's angle: the distance equals 1 minus the cosine of the angle
    between the raw vectors. -/
theorem cosine_eq_one_sub_cos_angle (n : ℕ) (a b : List ℝ) (hla : a.length = n) (hlb : b.length = n)
    (ha : ∃ x ∈ a, x ≠ 0) (hb : ∃ x ∈ b, x ≠ 0) :
    ∃ a' b', cosPre R a = some a' ∧ cosPre R b = some b' ∧
      cosine R a' b' = 1 - Real.cos (InnerProductGeometry.angle (vecN n a) (vecN n b)) := by
  obtain ⟨a', b', h1, h2, h3⟩ := cosine_eq_one_sub_cos a b (hla.trans hlb.symm) ha hb
  refine ⟨a', b', h1, h2, ?_⟩
  rw [h3, InnerProductGeometry.cos_angle, dot_eq_inner n a b hla hlb, norm_eq_norm n a hla,
    norm_eq_norm n b hlb]

/-- zero between a vector and itself after preprocessing -/
theorem cosine_self_zero (a a' : List ℝ) (h : cosPre R a = some a') : cosine R a' a' = 0 := by
  have hu := (pre_unit a a' h).1
  have : dot R a' a' = 1 := by
    rw [← sumSq_eq_dot, ← norm_sq, hu]; norm_num
  rw [cosine_eq, this]
  norm_num

/-- invariance under positive scaling of the raw vector: preprocessing maps `s·a` and
    `a` to the SAME vector, … -/
theorem pre_scale_invariant (a : List ℝ) (s : ℝ) (hs : 0 < s) :
    cosPre R (scale R a s) = cosPre R a := by
  have hsc : scale R a s = a.map (· * s) := rfl
  rw [hsc, cosPre_eq, cosPre_eq, norm_map_mul a s hs.le]
  by_cases hn : norm R a = 0
  · simp [hn]
  · have : s * norm R a ≠ 0 := mul_ne_zero hs.ne' hn
    simp only [this, hn, if_false, List.map_map, Option.some.injEq]
    apply List.map_congr_left
    intro x _
    simp only [Function.comp]
    field_simp

/-- … so the distance is invariant under positive scaling of either argument. -/
theorem cosine_scale_invariant (a b : List ℝ) (s t : ℝ) (hs : 0 < s) (ht : 0 < t) :
    (do let a' ← cosPre R (scale R a s); let b' ← cosPre R (scale R b t); pure (cosine R a' b')) =
    (do let a' ← cosPre R a; let b' ← cosPre R b; pure (cosine R a' b')) := by
  rw [pre_scale_invariant a s hs, pre_scale_invariant b t ht]

/-! ### all three kinds at once -/

/-- every distance kind is non-negative (for cosine: on arbitrary inputs) -/
theorem calculate_nonneg (k : Kind) (a b : List ℝ) : 0 ≤ calculate R k a b := by
  cases k
  · exact euclid_nonneg a b
  · exact l2sq_nonneg a b
  · exact cosine_nonneg a b

/-- every distance kind is symmetric -/
theorem calculate_symm (k : Kind) (a b : List ℝ) : calculate R k a b = calculate R k b a := by
  cases k
  · exact euclid_symm a b
  · exact l2sq_symm a b
  · exact cosine_symm a b

/-- every distance kind is zero between a vector and itself after the kind's preprocessing -/
theorem calculate_self_zero (k : Kind) (a a' : List ℝ) (h : preprocess R k a = some a') :
    calculate R k a' a' = 0 := by
  cases k
  · exact euclid_self a'
  · exact l2sq_self a'
  · exact cosine_self_zero a a' h

/-- the L2 kinds' preprocessing is the identity (Go returns the argument slice itself) -/
theorem pre_l2_identity (a : List ℝ) : preprocess R .l2 a = some a ∧ preprocess R .l2sq a = some a :=
  ⟨rfl, rfl⟩

/-! ### helpers Norm / Scale / Normalize -/

theorem norm_def (a : List ℝ) : norm R a = Real.sqrt ((a.map (· ^ 2)).sum) := by
  show Real.sqrt (sumSq R a) = _
  rw [sumSq_eq]

/-- the model's `Norm` is the Euclidean norm of Mathlib -/
theorem norm_is_norm (n : ℕ) (a : List ℝ) (ha : a.length = n) : norm R a = ‖vecN n a‖ :=
  norm_eq_norm n a ha

theorem scale_def (a : List ℝ) (s : ℝ) :
    (scale R a s).length = a.length ∧
    ∀ (i : ℕ) (h : i < a.length), (scale R a s)[i]? = some (a[i] * s) := by
  refine ⟨by simp [scale], ?_⟩
  intro i h
  simp [scale, realOps, h]

theorem normalize_def (a : List ℝ) (h : ∃ x ∈ a, x ≠ 0) :
    normalize R a = a.map (· / norm R a) ∧ norm R (normalize R a) = 1 := by
  have hn : norm R a ≠ 0 := by
    rw [Ne, norm_eq_zero_iff]; push Not; exact h
  have hpos : 0 < norm R a := lt_of_le_of_ne (norm_nonneg' a) (Ne.symm hn)
  rw [normalize_eq, if_neg hn]
  constructor
  · apply List.map_congr_left
    intro x _
    field_simp
  · rw [norm_map_mul a _ (by positivity)]
    field_simp

/-- `Normalize` of a zero vector is that vector (no NaN) -/
theorem normalize_zero (a : List ℝ) (h : ∀ x ∈ a, x = 0) : normalize R a = a := by
  rw [normalize_eq, if_pos ((norm_eq_zero_iff a).2 h)]

/-- `Normalize` agrees with cosine preprocessing wherever the latter is defined -/
theorem normalize_eq_cosPre (a a' : List ℝ) (h : cosPre R a = some a') : normalize R a = a' := by
  rw [cosPre_eq] at h
  rw [normalize_eq]
  by_cases hn : norm R a = 0
  · simp [hn] at h
  · simpa [hn] using h

/-! ### batch evaluation equals element-wise evaluation — for EVERY scalar instance,
    in particular literally for the `Float32` instance the driver executes -/

theorem batch_eq_map' {S : Type} (o : Ops S) (k : Kind) (qs : List (List S)) (t : List S) :
    calculateBatch o k qs t = qs.map fun q => calculate o k q t :=
  batch_eq_map o k qs t

/-! ### non-vacuity -/

section Examples
-- the hypotheses of `cosine_eq_one_sub_cos` are satisfiable: a = (3,4), b = (4,3)
example : ∃ a' b', cosPre R [3, 4] = some a' ∧ cosPre R [4, 3] = some b' ∧
    cosine R a' b' = 1 - dot R [3, 4] [4, 3] / (norm R [3, 4] * norm R [4, 3]) :=
  cosine_eq_one_sub_cos [3, 4] [4, 3] rfl ⟨3, by simp, by norm_num⟩ ⟨4, by simp, by norm_num⟩
-- the model computes what one expects on a 3-4-5 triangle
example : l2sq R [0, 0] [3, 4] = 25 := by
  rw [show l2sq R [0, 0] [3, 4] = sumSqDiff R [0, 0] [3, 4] from rfl, sumSqDiff_eq]; norm_num
example : euclid R [0, 0] [3, 4] = 5 := by
  have h : l2sq R [0, 0] [3, 4] = 25 := by
    rw [show l2sq R [0, 0] [3, 4] = sumSqDiff R [0, 0] [3, 4] from rfl, sumSqDiff_eq]; norm_num
  show Real.sqrt (l2sq R [0, 0] [3, 4]) = 5
  rw [h, show (25 : ℝ) = 5 ^ 2 by norm_num, Real.sqrt_sq (by norm_num)]
-- the clamp is what gives the range on non-normalised input: dot = 25, distance = 0
example : cosine R [3, 4] [3, 4] = 0 := by
  rw [cosine_eq, dot_eq]; norm_num
-- opposite unit vectors are at distance 2
example : cosine R [1, 0] [-1, 0] = 2 := by
  rw [cosine_eq, dot_eq]; norm_num
-- a zero vector is rejected
example : cosPre R [0, 0, 0] = none := (pre_zero_rejected _).2 (by simp)
end Examples

end Comet.Dist
