/-
  C19 — result post-processing obeys its laws.   Part 1: aggregation.go, limiter.go.
  (Part 2, fusion.go and storage_merge.go: CometProofs/Properties/C19_Fusion.lean.)

  ONLY property theorems and non-vacuity examples live here; helper lemmas are in
  CometProofs/{Agg,Limiter,XR}.lean.

  Reading guide.  `vecAggregate sc kind xs` / `textAggregate sc kind xs` model
  `VectorAggregation.Aggregate` / `TextAggregation.Aggregate` (Comet/Agg.lean):
  `scoresOf i xs` are the input scores of id `i` in arrival order, `reduceVec` the
  sum / running maximum / sum ÷ count over them exactly as the Go loops compute
  them.  `autocut o ys c : Except Panic Nat` models `Autocut` with CHECKED slice
  reads over arbitrary float operations `o` (Comet/Limiter.lean).

  Floating point.  The "each id once" and "score = reduction of its own scores in
  arrival order" theorems hold for ANY scalar operations (hence for float32
  including ±Inf and NaN).  "Best-first" needs a total preorder (`Scalar.Ordered`:
  true of floats without NaN; a NaN is unordered, so "best-first" and "maximum" have
  no meaning for it).  "Independent of input order" is exact for a commutative,
  associative addition (ℚ); float addition is commutative but not associative, so
  for float32 the sum/mean differ by rounding between orders — which is what the
  property's "up to float rounding" allows and what the correspondence run bounds by
  `(n+1)·2⁻²³·Σ|x|`.  "Autocut never panics" is proved for an IEEE-like scalar with
  ±0, ±∞, NaN and arbitrary rounding (`XR`), and for lengths ≠ 2 for arbitrary
  operations whatsoever.
-/
import CometProofs.Agg
import CometProofs.Limiter
import CometProofs.XR
import CometProofs.AggRat
namespace Comet

variable {S : Type}

/-! ## aggregation: each id once, with the reduction of its own scores, best-first -/

/-- Each input id occurs exactly once in the result, and nothing else does (vector). -/
theorem vec_agg_each_id_once (sc : Scalar S) (kind : AggKind) (xs : List (Hit S)) :
    ((vecAggregate sc kind xs).map (·.id)).Nodup ∧
    ∀ i, i ∈ (vecAggregate sc kind xs).map (·.id) ↔ i ∈ xs.map (·.id) := by
  have hp := (vecAggregate_perm sc kind xs).map (·.id)
  rw [aggList_ids] at hp
  exact ⟨hp.nodup_iff.2 (firstIds_nodup _), fun i => by rw [hp.mem_iff, mem_firstIds]⟩

/-- Each input id occurs exactly once in the result, and nothing else does (text). -/
theorem text_agg_each_id_once (sc : Scalar S) (kind : AggKind) (xs : List (Hit S)) :
    ((textAggregate sc kind xs).map (·.id)).Nodup ∧
    ∀ i, i ∈ (textAggregate sc kind xs).map (·.id) ↔ i ∈ xs.map (·.id) := by
  have hp := (textAggregate_perm sc kind xs).map (·.id)
  rw [aggList_ids] at hp
  exact ⟨hp.nodup_iff.2 (firstIds_nodup _), fun i => by rw [hp.mem_iff, mem_firstIds]⟩

/-- The score of a result is the sum / max / mean (`reduceVec`) of the input scores of
    that id, taken in arrival order; the group is never empty.  Any scalar. -/
theorem vec_agg_score (sc : Scalar S) (kind : AggKind) (xs : List (Hit S)) :
    ∀ h ∈ vecAggregate sc kind xs,
      scoresOf h.id xs ≠ [] ∧ h.score = reduceVec sc kind (scoresOf h.id xs) := by
  intro h hh
  have := (mem_aggList sc kind xs h).1 ((vecAggregate_perm sc kind xs).subset hh)
  exact ⟨scoresOf_ne_nil xs h.id this.1, this.2⟩

theorem text_agg_score (sc : Scalar S) (kind : AggKind) (xs : List (Hit S)) :
    ∀ h ∈ textAggregate sc kind xs,
      scoresOf h.id xs ≠ [] ∧ h.score = reduceVec sc kind (scoresOf h.id xs) := by
  intro h hh
  have := (mem_aggList sc kind xs h).1 ((textAggregate_perm sc kind xs).subset hh)
  exact ⟨scoresOf_ne_nil xs h.id this.1, this.2⟩

/-- … and conversely every (id, reduction) pair of an input id is in the result. -/
theorem vec_agg_complete (sc : Scalar S) (kind : AggKind) (xs : List (Hit S)) (i : Id)
    (hi : i ∈ xs.map (·.id)) :
    (⟨i, reduceVec sc kind (scoresOf i xs)⟩ : Hit S) ∈ vecAggregate sc kind xs :=
  (vecAggregate_perm sc kind xs).symm.subset ((mem_aggList sc kind xs _).2 ⟨hi, rfl⟩)

theorem text_agg_complete (sc : Scalar S) (kind : AggKind) (xs : List (Hit S)) (i : Id)
    (hi : i ∈ xs.map (·.id)) :
    (⟨i, reduceVec sc kind (scoresOf i xs)⟩ : Hit S) ∈ textAggregate sc kind xs :=
  (textAggregate_perm sc kind xs).symm.subset ((mem_aggList sc kind xs _).2 ⟨hi, rfl⟩)

/-- Vector results are ordered best-first = ascending (distances). -/
theorem vec_agg_best_first (sc : Scalar S) (ord : sc.Ordered) (kind : AggKind)
    (xs : List (Hit S)) :
    (vecAggregate sc kind xs).Pairwise fun a b => sc.le a.score b.score = true :=
  List.pairwise_mergeSort (le := hitLe sc.le)
    (fun a b c => ord.trans a.score b.score c.score) (fun a b => ord.total a.score b.score) _

/-- Text results are ordered best-first = descending (relevance). -/
theorem text_agg_best_first (sc : Scalar S) (ord : sc.Ordered) (kind : AggKind)
    (xs : List (Hit S)) :
    (textAggregate sc kind xs).Pairwise fun a b => sc.le b.score a.score = true :=
  List.pairwise_mergeSort (le := hitLe fun a b => sc.le b a)
    (fun a b c h1 h2 => ord.trans c.score b.score a.score h2 h1)
    (fun a b => by have := ord.total b.score a.score; simpa [hitLe, Bool.or_comm] using this) _

/-- The max reduction is the maximum: a member of the group, at least every member. -/
theorem agg_max_is_maximum (sc : Scalar S) (ord : sc.Ordered) (ss : List S) (hne : ss ≠ []) :
    reduceVec sc .max ss ∈ ss ∧ ∀ x ∈ ss, sc.le x (reduceVec sc .max ss) = true :=
  maxScores_spec sc ord ss hne

/-! ### what the reductions are over an exact field -/

/-- sum aggregation is the sum -/
theorem agg_sum_is_sum (ss : List ℚ) : reduceVec qScalar .sum ss = ss.sum := by
  simp only [reduceVec, sumScores, qScalar]
  rw [foldl_add_rat]; simp

/-- mean aggregation is the sum divided by the number of scores -/
theorem agg_mean_is_mean (ss : List ℚ) : reduceVec qScalar .mean ss = ss.sum / (ss.length : ℚ) := by
  have h := agg_sum_is_sum ss
  simp only [reduceVec] at h ⊢
  rw [h]; rfl

/-- **Aggregation specification over ℚ** (vector; the text one is the same with the
    order reversed): each id once, exactly the input ids, score = Σ / max / mean of
    that id's input scores, ascending. -/
theorem vec_agg_spec (kind : AggKind) (xs : List (Hit ℚ)) :
    ((vecAggregate qScalar kind xs).map (·.id)).Nodup ∧
    (∀ i, i ∈ (vecAggregate qScalar kind xs).map (·.id) ↔ i ∈ xs.map (·.id)) ∧
    (∀ h ∈ vecAggregate qScalar kind xs,
      match kind with
      | .sum => h.score = (scoresOf h.id xs).sum
      | .mean => h.score = (scoresOf h.id xs).sum / ((scoresOf h.id xs).length : ℚ)
      | .max => h.score ∈ scoresOf h.id xs ∧ ∀ x ∈ scoresOf h.id xs, x ≤ h.score) ∧
    (vecAggregate qScalar kind xs).Pairwise (fun a b => a.score ≤ b.score) := by
  refine ⟨(vec_agg_each_id_once _ _ _).1, (vec_agg_each_id_once _ _ _).2, ?_, ?_⟩
  · intro h hh
    obtain ⟨hne, hs⟩ := vec_agg_score qScalar kind xs h hh
    cases kind with
    | sum => simp only; rw [hs, agg_sum_is_sum]
    | mean => simp only; rw [hs, agg_mean_is_mean]
    | max =>
      simp only
      obtain ⟨h1, h2⟩ := agg_max_is_maximum qScalar qScalar_ordered _ hne
      rw [hs]
      exact ⟨h1, fun x hx => by simpa [qScalar] using h2 x hx⟩
  · exact (vec_agg_best_first qScalar qScalar_ordered kind xs).imp (by simp [qScalar])

theorem text_agg_spec (kind : AggKind) (xs : List (Hit ℚ)) :
    ((textAggregate qScalar kind xs).map (·.id)).Nodup ∧
    (∀ i, i ∈ (textAggregate qScalar kind xs).map (·.id) ↔ i ∈ xs.map (·.id)) ∧
    (∀ h ∈ textAggregate qScalar kind xs,
      match kind with
      | .sum => h.score = (scoresOf h.id xs).sum
      | .mean => h.score = (scoresOf h.id xs).sum / ((scoresOf h.id xs).length : ℚ)
      | .max => h.score ∈ scoresOf h.id xs ∧ ∀ x ∈ scoresOf h.id xs, x ≤ h.score) ∧
    (textAggregate qScalar kind xs).Pairwise (fun a b => b.score ≤ a.score) := by
  refine ⟨(text_agg_each_id_once _ _ _).1, (text_agg_each_id_once _ _ _).2, ?_, ?_⟩
  · intro h hh
    obtain ⟨hne, hs⟩ := text_agg_score qScalar kind xs h hh
    cases kind with
    | sum => simp only; rw [hs, agg_sum_is_sum]
    | mean => simp only; rw [hs, agg_mean_is_mean]
    | max =>
      simp only
      obtain ⟨h1, h2⟩ := agg_max_is_maximum qScalar qScalar_ordered _ hne
      rw [hs]
      exact ⟨h1, fun x hx => by simpa [qScalar] using h2 x hx⟩
  · exact (text_agg_best_first qScalar qScalar_ordered kind xs).imp (by simp [qScalar])

/-! ### independence of the input order -/

/-- **Permutation invariance** over any exact scalar (commutative, associative
    addition; antisymmetric total order): permuting the input permutes the output,
    i.e. the result *as a set of (id, score)* does not depend on the input order.
    (The order among equal scores may differ: ties.) -/
theorem agg_perm_invariant (sc : Scalar S) (ord : sc.Ordered)
    (antisymm : ∀ a b : S, sc.le a b → sc.le b a → a = b)
    (add_comm : ∀ a b : S, sc.add a b = sc.add b a)
    (add_assoc : ∀ a b c : S, sc.add (sc.add a b) c = sc.add a (sc.add b c))
    (kind : AggKind) {xs ys : List (Hit S)} (h : xs.Perm ys) :
    (vecAggregate sc kind xs).Perm (vecAggregate sc kind ys) ∧
    (textAggregate sc kind xs).Perm (textAggregate sc kind ys) := by
  have hl := aggList_perm sc ord antisymm add_comm add_assoc kind h
  exact ⟨((vecAggregate_perm sc kind xs).trans hl).trans (vecAggregate_perm sc kind ys).symm,
    ((textAggregate_perm sc kind xs).trans hl).trans (textAggregate_perm sc kind ys).symm⟩

/-- … in particular over ℚ: the same (id, score) pairs whatever the input order. -/
theorem agg_perm_invariant_rat (kind : AggKind) {xs ys : List (Hit ℚ)} (h : xs.Perm ys) :
    (∀ r, r ∈ vecAggregate qScalar kind xs ↔ r ∈ vecAggregate qScalar kind ys) ∧
    (∀ r, r ∈ textAggregate qScalar kind xs ↔ r ∈ textAggregate qScalar kind ys) := by
  have := agg_perm_invariant qScalar qScalar_ordered
    (by intro a b h1 h2; simp only [qScalar, decide_eq_true_eq] at h1 h2; exact le_antisymm h1 h2)
    (fun a b => add_comm a b) (fun a b c => add_assoc a b c) kind h
  exact ⟨fun r => this.1.mem_iff, fun r => this.2.mem_iff⟩

/-- Why the order hypothesis is needed: an unordered score `n` (NaN: `n < x` and
    `x < n` both false) makes the running maximum depend on the arrival order —
    `[n, x] ↦ n` but `[x, n] ↦ x`.  Holds for any scalar; the real code shows the same
    (corpus/C19/post_len2_specials.json: max of `[NaN, 1]` is NaN, of `[1, NaN]` is 1;
    flag `nanorder=1` in the evidence).  "Maximum", "best-first" and "independent of
    input order" are therefore claimed for ordered scores only. -/
theorem agg_max_unordered_depends_on_order (sc : Scalar S) (n x : S)
    (h1 : sc.lt n x = false) (h2 : sc.lt x n = false) :
    reduceVec sc .max [n, x] = n ∧ reduceVec sc .max [x, n] = x := by
  simp [reduceVec, maxScores, h1, h2]

/-! ## limiting -/

/-- `LimitResults` returns the first `sanitizeK k len` results; the slice bound is in
    range (no panic). -/
theorem limit_spec (k : Int) (xs : List α) :
    limitResults k xs = xs.take (sanitizeK k xs.length) ∧ sanitizeK k xs.length ≤ xs.length :=
  ⟨rfl, sanitizeK_le k xs.length⟩

/-- for `0 < k ≤ len` exactly the first `k` -/
theorem limit_first_k (k : Int) (xs : List α) (h0 : 0 < k) (h : k ≤ xs.length) :
    limitResults k xs = xs.take k.toNat ∧ (limitResults k xs).length = k.toNat := by
  unfold limitResults
  rw [sanitizeK_of_pos_le h0 h]
  exact ⟨rfl, by rw [List.length_take]; omega⟩

/-- everything when `k ≤ 0` or `k` exceeds the length -/
theorem limit_all_when (k : Int) (xs : List α) (h : k ≤ 0 ∨ (xs.length : Int) < k) :
    limitResults k xs = xs := by
  unfold limitResults sanitizeK
  simp [h]

/-! ## autocut -/

/-- **Index safety, generic.**  For ANY float operations whose length-2 guard is false
    (`Len2Safe`), `Autocut` does not panic and returns an index `≤ len`. -/
theorem autocut_no_panic_of_len2Safe (o : FOps F) (h2 : Len2Safe o) (ys : List F) (c : Int) :
    ∃ n, autocut o ys c = .ok n ∧ n ≤ ys.length := by
  unfold autocut
  by_cases h1 : ys.length ≤ 1
  · simp [h1]
  · simp only [h1, if_false]
    obtain ⟨d, hd, hl⟩ := autocutDiff_ok o ys
    have hL : 3 ≤ d.length ∨ ∃ a b, d = [b, a] ∧ o.gt a b = false := by
      by_cases h3 : 3 ≤ ys.length
      · left; omega
      · right
        have h2' : ys.length = 2 := by omega
        match ys, h2' with
        | [y0, y1], _ =>
          rw [autocutDiff_two] at hd
          injection hd with hd
          exact ⟨_, _, hd.symm, h2 y0 y1⟩
    obtain ⟨r, hr, hmem⟩ := autocutScan_ok o d c ys.length hL (List.range d.length) 0
      (fun i hi => List.mem_range.1 hi)
    refine ⟨r, by simp [hd, hr, bind, Except.bind], ?_⟩
    rcases hmem with rfl | hmem
    · exact Nat.le_refl _
    · have := List.mem_range.1 hmem; omega

/-- For every length other than 2 index safety is pure control flow: it holds for
    arbitrary operations (whatever the float unit returns). -/
theorem autocut_no_panic_len_ne_two (o : FOps F) (ys : List F) (c : Int) (h : ys.length ≠ 2) :
    ∃ n, autocut o ys c = .ok n ∧ n ≤ ys.length := by
  unfold autocut
  by_cases h1 : ys.length ≤ 1
  · simp [h1]
  · simp only [h1, if_false]
    obtain ⟨d, hd, hl⟩ := autocutDiff_ok o ys
    obtain ⟨r, hr, hmem⟩ := autocutScan_ok o d c ys.length (Or.inl (by omega))
      (List.range d.length) 0 (fun i hi => List.mem_range.1 hi)
    refine ⟨r, by simp [hd, hr, bind, Except.bind], ?_⟩
    rcases hmem with rfl | hmem
    · exact Nat.le_refl _
    · have := List.mem_range.1 hmem; omega

/-- For length 2 the hazard is real in the model: the `diff[-1]` read is reached —
    and panics — exactly when the guard `diff[1] > diff[0]` is true. -/
theorem autocut_len2_panics_iff_guard (o : FOps F) (y0 y1 : F) (c : Int) :
    autocut o [y0, y1] c = .error (.index (-1) 2) ↔
      o.gt (diffAt o 2 y0 y1 y1 1) (diffAt o 2 y0 y1 y0 0) = true := by
  by_cases hg : o.gt (diffAt o 2 y0 y1 y1 1) (diffAt o 2 y0 y1 y0 0) = true
  · simp [autocut, autocutDiff_two, autocutScan, idx, List.range, List.range.loop, bind,
      Except.bind, hg]
  · simp [autocut, autocutDiff_two, autocutScan, idx, List.range, List.range.loop, bind,
      Except.bind, hg, pure, Except.pure]

/-- **Autocut never panics**, for all score lists over the IEEE-like scalar `XR`
    (finite, ±0, ±∞, NaN; arbitrary rounding incl. overflow), every cut-off in ℤ;
    the returned index is at most the length. -/
theorem autocut_no_panic (r : XR.Rounding) (ys : List XR) (c : Int) :
    ∃ n, autocut (XR.ops r) ys c = .ok n ∧ n ≤ ys.length :=
  autocut_no_panic_of_len2Safe (XR.ops r) (XR.len2Safe r) ys c

/-- `AutocutResults` returns a prefix of its input (and its slice bound is in range). -/
theorem autocut_prefix (o : FOps F) (h2 : Len2Safe o) (score : α → F) (xs : List α) (c : Int) :
    ∃ n, n ≤ xs.length ∧ autocutResults o score xs c = .ok (xs.take n) := by
  unfold autocutResults
  by_cases h : (c == -1 || xs.length == 0) = true
  · exact ⟨xs.length, Nat.le_refl _, by simp [h]⟩
  · obtain ⟨n, hn, hle⟩ := autocut_no_panic_of_len2Safe o h2 (xs.map score) c
    rw [List.length_map] at hle
    refine ⟨n, hle, ?_⟩
    simp [h, hn, bind, Except.bind, sliceTo, hle]

/-- … in particular for all IEEE-like scores, including equal, infinite and NaN ones. -/
theorem autocut_results_no_panic (r : XR.Rounding) (score : α → XR) (xs : List α) (c : Int) :
    ∃ n, n ≤ xs.length ∧ autocutResults (XR.ops r) score xs c = .ok (xs.take n) :=
  autocut_prefix (XR.ops r) (XR.len2Safe r) score xs c

/-- cut-off −1 disables autocut: the whole input, for any operations -/
theorem autocut_disabled (o : FOps F) (score : α → F) (xs : List α) :
    autocutResults o score xs (-1) = .ok xs := by
  simp [autocutResults]

/-! ## non-vacuity -/

section Examples

/-- a toy scalar on ℕ for `decide`-able examples -/
def natScalar : Scalar Nat :=
  { zero := 0, add := (· + ·), divNat := fun a n => a / n,
    le := fun a b => decide (a ≤ b), lt := fun a b => decide (a < b) }

-- duplicates, ties, three kinds
example : (aggList natScalar .sum [⟨7, 3⟩, ⟨2, 5⟩, ⟨7, 4⟩, ⟨9, 5⟩, ⟨2, 1⟩]) =
    [⟨7, 7⟩, ⟨2, 6⟩, ⟨9, 5⟩] := by decide
example : (aggList natScalar .max [⟨7, 3⟩, ⟨2, 5⟩, ⟨7, 4⟩, ⟨9, 5⟩, ⟨2, 1⟩]) =
    [⟨7, 4⟩, ⟨2, 5⟩, ⟨9, 5⟩] := by decide
example : (aggList natScalar .mean [⟨7, 3⟩, ⟨2, 5⟩, ⟨7, 5⟩, ⟨9, 5⟩, ⟨2, 1⟩]) =
    [⟨7, 4⟩, ⟨2, 3⟩, ⟨9, 5⟩] := by decide
-- the hypotheses of `agg_perm_invariant` are satisfiable (ℚ), on a non-trivial permutation
example : (vecAggregate qScalar .mean [⟨2, 3⟩, ⟨1, 4⟩, ⟨1, 2⟩]).Perm
    (vecAggregate qScalar .mean [⟨2, 3⟩, ⟨1, 2⟩, ⟨1, 4⟩]) :=
  (agg_perm_invariant qScalar qScalar_ordered
    (by intro a b h1 h2; simp only [qScalar, decide_eq_true_eq] at h1 h2; exact le_antisymm h1 h2)
    (fun a b => add_comm a b) (fun a b c => add_assoc a b c) .mean
    ((List.Perm.swap _ _ _).cons _)).1

-- an unordered element exists in a concrete scalar (`none` plays NaN): the two arrival orders differ
example :
    let sc : Scalar (Option Nat) :=
      { zero := some 0, add := fun a _ => a, divNat := fun a _ => a,
        le := fun a b => match a, b with | some x, some y => decide (x ≤ y) | _, _ => false,
        lt := fun a b => match a, b with | some x, some y => decide (x < y) | _, _ => false }
    reduceVec sc .max [none, some 1] ≠ reduceVec sc .max [some 1, none] := by decide

-- limiting
example : limitResults 2 [10, 20, 30] = [10, 20] := by decide
example : limitResults 0 [10, 20, 30] = [10, 20, 30] := by decide
example : limitResults (-4) [10, 20, 30] = [10, 20, 30] := by decide
example : limitResults 7 [10, 20, 30] = [10, 20, 30] := by decide

/-- toy fixed-point operations on ℤ (unit 1/12, truncating): enough to run `Autocut` -/
def intOps : FOps Int :=
  { zero := 0, one := 12, ofNat := fun n => 12 * n, add := (· + ·), sub := (· - ·),
    mul := fun a b => a * b / 12, div := fun a b => a * 12 / b, gt := fun a b => decide (a > b) }

-- scores 0,1,4,4: the differences are [0, −1/12, 4/12, 0], a strict local maximum at index 2
example : autocutDiff intOps [0, 12, 48, 48] = .ok [0, -1, 4, 0] := by decide
example : autocut intOps [0, 12, 48, 48] 1 = .ok 2 := by decide
example : autocutResults intOps id [0, 12, 48, 48] 1 = .ok [0, 12] := by decide
example : autocutResults intOps id [0, 12, 48, 48] (-1) = .ok [0, 12, 48, 48] := by decide
-- a cut-off larger than the number of extrema keeps everything; cut-off ≤ 0 behaves like 1
example : autocut intOps [0, 12, 48, 48] 2 = .ok 4 := by decide
example : autocut intOps [0, 12, 48, 48] (-7) = .ok 2 := by decide
-- the last element can be the extremum (this is the branch that reads `diff[i-2]`)
example : autocutDiff intOps [0, 0, 0, 48] = .ok [0, -4, -8, 0] := by decide
example : autocut intOps [0, 0, 0, 48] 1 = .ok 3 := by decide
-- `Len2Safe` is a real hypothesis: operations violating it make the model panic …
example : autocut { intOps with gt := fun _ _ => true } [5, 5] 1 = .error (.index (-1) 2) := by
  decide
-- … and the XR operations satisfy it (`XR.len2Safe`), e.g. two equal scores, two NaNs,
-- +∞ and −∞: all are instances of `autocut_no_panic`.
example (r : XR.Rounding) : ∃ n, autocut (XR.ops r) [.fin 3, .fin 3] 1 = .ok n ∧ n ≤ 2 :=
  autocut_no_panic r _ _
example (r : XR.Rounding) : ∃ n, autocut (XR.ops r) [.nan, .pinf, .ninf, .nzero] 0 = .ok n ∧ n ≤ 4 :=
  autocut_no_panic r _ _
/-- a rounding exists (the identity on ℚ): the theorem is not vacuous -/
def exactRounding : XR.Rounding := ⟨XR.fin, rfl, rfl, rfl⟩

end Examples

end Comet
