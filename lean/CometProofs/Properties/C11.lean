/-
  C11 — race freedom and visibility-linearizability under concurrency.
  ONLY property theorems + non-vacuity examples; helpers are in CometProofs/Conc/*.lean,
  models in Comet/Conc/*.lean.

  (A) lockset_sound            lock discipline (decidable, re-checked on regenerated facts
                               each run: CometGen/Obligations_C11.lean) ⇒ no data race in any
                               reachable state of the abstract machine          — full (model)
  (B) acyclic_no_deadlock      ranked lock order ⇒ not every thread is blocked   — partial
                               (lock-induced deadlock only; channels/WaitGroup not modelled)
  (C)–(E) are in C11_Proto.lean / C11_Rotation.lean.
-/
import CometProofs.Conc.Lockset
namespace Comet.Conc

/-- **(A)** In every state reachable from threads that start in entry functions holding
    nothing, no two threads are about to perform conflicting accesses (same instance slot,
    same field, at least one write) to a plain-data field — whitelisted accesses excepted.
    `Discipline T` is decidable and is re-established by `decide` on the lock facts
    regenerated from /repo on every run. -/
theorem lockset_sound (T : Table) (hd : Discipline T) (st : State) (hr : Reachable T st) :
    ¬ Race T st := by
  rintro ⟨pre, mid, post, t, u, b, f, m₁, s₁, m₂, s₂, rfl, hn₁, hn₂, hw, hna, hns, he₁, he₂⟩
  obtain ⟨hpw, hwc⟩ := inv_reachable hd hr
  have ht : t ∈ pre ++ t :: mid := List.mem_append_right _ (List.mem_cons_self ..)
  obtain ⟨c₁, w₁⟩ := hwc t (List.mem_append_left _ ht)
  obtain ⟨c₂, w₂⟩ := hwc u (List.mem_append_right _ (List.mem_cons_self ..))
  have hex : Excl (heldAll t) (heldAll u) := by
    rw [List.pairwise_append] at hpw
    exact hpw.2.2 t ht u (List.mem_cons_self ..)
  have h₁ := next_access_held w₁ hn₁ he₁ hna hns
  have h₂ := next_access_held w₂ hn₂ he₂ hna hns
  rcases h₁ with ⟨hc₁, hm₁⟩ | ⟨hc₁, hh₁⟩
  · rcases h₂ with ⟨_, hm₂⟩ | ⟨hc₂, _⟩
    · subst hm₁; subst hm₂
      rcases hw with h | h <;> cases h
    · rw [hc₁] at hc₂; cases hc₂
  · rcases h₂ with ⟨hc₂, _⟩ | ⟨_, hh₂⟩
    · rw [hc₁] at hc₂; cases hc₂
    · rcases hw with rfl | rfl
      · obtain ⟨m', hm'⟩ := holds_mem hh₂
        exact (hex b).1 (holds_W hh₁) m' hm'
      · obtain ⟨m', hm'⟩ := holds_mem hh₁
        exact (hex b).2 (holds_W hh₂) m' hm'

/-- the Boolean obligation over raw facts yields a disciplined table -/
theorem checkRaw_sound (raw : List RawFn) (classes : List Nat) (wl : List (Nat × Nat))
    (h : checkRaw raw classes wl = true) :
    ∃ T, decodeTable raw classes wl = some T ∧ Discipline T := by
  unfold checkRaw at h
  split at h
  · next T hT => exact ⟨T, hT, h⟩
  · cases h

/-- Non-vacuity of (A): a two-function table in the style of `FlatIndex` (Add writes field 0
    under the W lock, search reads it under the R lock through a helper that requires R) is
    disciplined, and the same table with the helper called outside the lock is not. -/
def exT (searchLocked : Bool) : Table :=
  { fns := [
      { id := 0, entry := true, req := [], paths := [[.acq 0 .W, .acc 0 0 .W 0, .rel 0 .W]] },
      { id := 1, entry := true, req := [],
        paths := [if searchLocked then [.acq 0 .R, .call [2], .rel 0 .R]
                  else [.acq 0 .R, .rel 0 .R, .call [2]]] },
      { id := 2, entry := false, req := [(0, .R)], paths := [[.acc 0 0 .R 2]] }],
    classes := [.guarded], whitelist := [] }

example : Discipline (exT true) := by decide
example : ¬ Discipline (exT false) := by decide

/-- … and the undisciplined variant really races: the reachable state in which thread 0 holds
    the W lock and is about to write while thread 1 (past its lock region) is about to read. -/
example : ∃ st, Reachable (exT false) st ∧ Race (exT false) st := by
  let T := exT false
  have l0 : T.lookup 0 = some ⟨0, true, [], [[.acq 0 .W, .acc 0 0 .W 0, .rel 0 .W]]⟩ := rfl
  have l1 : T.lookup 1 = some ⟨1, true, [], [[.acq 0 .R, .rel 0 .R, .call [2]]]⟩ := rfl
  have l2 : T.lookup 2 = some ⟨2, false, [(0, .R)], [[.acc 0 0 .R 2]]⟩ := rfl
  let t₀ : Thread := [⟨[], [.call [0]]⟩]
  have r0 : Reachable T ([t₀] ++ [⟨[], [.call [1]]⟩] :: []) := .init _ (by
    intro t ht
    simp only [List.cons_append, List.nil_append, List.mem_cons, List.not_mem_nil, or_false] at ht
    rcases ht with rfl | rfl
    · exact ⟨0, _, l0, rfl, rfl⟩
    · exact ⟨1, _, l1, rfl, rfl⟩)
  -- thread 1: call, acquire R, release R, call the helper outside the lock
  have r1 : Reachable T ([t₀] ++ [⟨[], [.acq 0 .R, .rel 0 .R, .call [2]]⟩, ⟨[], []⟩] :: []) :=
    .step _ _ r0 (.mk _ _ _ _ (.call [] [] [] [1] 1 _ _ (by simp) l1 (by simp)))
  have r2 : Reachable T ([t₀] ++ [⟨[(0, .R)], [.rel 0 .R, .call [2]]⟩, ⟨[], []⟩] :: []) :=
    .step _ _ r1 (.mk _ _ _ _ (.acq [] _ _ 0 .R (by
      intro u hu; simp [t₀, heldAll] at hu ⊢; rcases hu with rfl | rfl <;> simp)))
  have r3 : Reachable T ([t₀] ++ [⟨[], [.call [2]]⟩, ⟨[], []⟩] :: []) :=
    .step _ _ r2 (.mk _ _ _ _ (.rel [(0, .R)] _ _ 0 .R (by simp)))
  have r4 : Reachable T ([t₀] ++ [⟨[], [.acc 0 0 .R 2]⟩, ⟨[], []⟩, ⟨[], []⟩] :: []) :=
    .step _ _ r3 (.mk _ _ _ _ (.call [] [] _ [2] 2 _ _ (by simp) l2 (by simp)))
  -- thread 0: call, acquire W
  have r5 : Reachable T ([] ++ [⟨[], [.acq 0 .W, .acc 0 0 .W 0, .rel 0 .W]⟩, ⟨[], []⟩] ::
      [[⟨[], [.acc 0 0 .R 2]⟩, ⟨[], []⟩, ⟨[], []⟩]]) :=
    .step _ _ r4 (.mk [] _ _ _ (.call [] [] [] [0] 0 _ _ (by simp) l0 (by simp)))
  have r6 : Reachable T ([] ++ [⟨[(0, .W)], [.acc 0 0 .W 0, .rel 0 .W]⟩, ⟨[], []⟩] ::
      [[⟨[], [.acc 0 0 .R 2]⟩, ⟨[], []⟩, ⟨[], []⟩]]) :=
    .step _ _ r5 (.mk [] _ _ _ (.acq [] _ _ 0 .W (by
      intro u hu m; simp [heldAll] at hu ⊢; rcases hu with rfl | rfl <;> simp)))
  refine ⟨_, r6, [], [], [], _, _, 0, 0, .W, 0, .R, 2, rfl, rfl, rfl, .inl rfl, ?_, ?_, rfl, rfl⟩ <;>
    simp [exT, Table.classOf]

/-! ### (B) lock order -/

/-- **(B)** (generic) If every nested acquisition respects a strict order on locks (`rank` of
    every held lock is below the rank of the awaited one — `lockorder_acyclic` checks this
    for the regenerated nesting facts) then the threads cannot all be blocked on locks held
    by one another: in any non-empty set of threads some thread is not waiting, or waits for
    a lock that nobody in the set holds.  Partial: only lock-induced deadlock; blocking on
    channels / WaitGroup (Close) and writer-preference of sync.RWMutex with recursive read
    locking are not modelled. -/
theorem acyclic_no_deadlock (rank : String → Nat) (ts : List Waiter) (hne : ts ≠ [])
    (hord : ∀ t ∈ ts, ∀ l, t.waiting = some l → ∀ h ∈ t.held, rank h < rank l) :
    ¬ (∀ t ∈ ts, ∃ l, t.waiting = some l ∧ ∃ u ∈ ts, l ∈ u.held) := by
  intro hall
  -- a waiter whose awaited lock has maximal rank
  have hmax : ∀ (l : List Waiter), l ≠ [] → (∀ t ∈ l, ∃ x, t.waiting = some x) →
      ∃ t ∈ l, ∃ x, t.waiting = some x ∧ ∀ u ∈ l, ∀ y, u.waiting = some y → rank y ≤ rank x := by
    intro l
    induction l with
    | nil => intro h; exact absurd rfl h
    | cons a as ih =>
      intro _ hw
      obtain ⟨xa, hxa⟩ := hw a (List.mem_cons_self ..)
      by_cases has : as = []
      · subst has
        refine ⟨a, List.mem_cons_self .., xa, hxa, ?_⟩
        intro u hu y hy
        simp only [List.mem_cons, List.not_mem_nil, or_false] at hu
        subst hu
        rw [hxa] at hy; injection hy with hy; subst hy; exact Nat.le_refl _
      · obtain ⟨t, ht, x, hx, hmx⟩ := ih has (fun t ht => hw t (List.mem_cons_of_mem _ ht))
        by_cases hle : rank x ≤ rank xa
        · refine ⟨a, List.mem_cons_self .., xa, hxa, ?_⟩
          intro u hu y hy
          rcases List.mem_cons.1 hu with rfl | hu
          · rw [hxa] at hy; injection hy with hy; subst hy; exact Nat.le_refl _
          · exact Nat.le_trans (hmx u hu y hy) hle
        · refine ⟨t, List.mem_cons_of_mem _ ht, x, hx, ?_⟩
          intro u hu y hy
          rcases List.mem_cons.1 hu with rfl | hu
          · rw [hxa] at hy; injection hy with hy; subst hy; omega
          · exact hmx u hu y hy
  obtain ⟨t, ht, x, hx, hmx⟩ := hmax ts hne (fun t ht => let ⟨l, hl, _⟩ := hall t ht; ⟨l, hl⟩)
  obtain ⟨l, hl, u, hu, hlu⟩ := hall t ht
  rw [hx] at hl; injection hl with hl; subst hl
  obtain ⟨y, hy, _⟩ := hall u hu
  have h1 := hord u hu y hy x hlu
  have h2 := hmx u hu y hy
  omega

/-- non-vacuity of (B): with a cyclic order two threads do block each other -/
example : ∃ ts : List Waiter, ts ≠ [] ∧ ∀ t ∈ ts, ∃ l, t.waiting = some l ∧ ∃ u ∈ ts, l ∈ u.held :=
  ⟨[⟨["a"], some "b"⟩, ⟨["b"], some "a"⟩], by simp, by simp⟩

/-- `lockOrderOK` (the Boolean the per-run obligation evaluates) gives the hypothesis shape of
    `acyclic_no_deadlock` for every listed nesting edge that is not declared impossible. -/
theorem lockorder_acyclic (rank : String → Option Nat) (impossible edges : List (String × String))
    (h : lockOrderOK rank impossible edges = true) :
    ∀ e ∈ edges, e ∉ impossible → ∃ a b, rank e.1 = some a ∧ rank e.2 = some b ∧ a < b := by
  intro e he hni
  have := (List.all_eq_true.1 h) e he
  simp only [Bool.or_eq_true] at this
  rcases this with h1 | h1
  · exact absurd (by simpa using h1) hni
  · split at h1
    · next a b ha hb => exact ⟨a, b, ha, hb, by simpa using h1⟩
    · cases h1

end Comet.Conc
