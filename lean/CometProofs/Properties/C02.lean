/-
  C02 — Every vector index returns only live, eligible, correctly scored, ordered hits.

  ONLY property theorems and non-vacuity examples.
  * `Pipeline.Sound` (Comet/Vector/Pipeline.lean) is the single-query contract of the
    property; `checkSound_iff` (there) makes the checker the driver runs on EVERY kind's
    answers (flat, HNSW, IVF, PQ, IVFPQ) equivalent to it.
  * `tail_sound`: the tail shared by the five searchSingleQuery bodies meets the contract
    for ANY candidate source that yields each stored entry at most once with the kind's
    score — the obligation each kind's own model discharges (flat: `flat_sound` here; IVF:
    C13; PQ/IVFPQ: C14; HNSW: C12).
  * node-id queries, their error cases, the multi-query shape and flush invariance are
    proved here for the flat model (`Flat.execute`), whose `Execute` body the other four
    kinds copy (the correspondence stream exercises all five).
-/
import CometProofs.Pipeline
import CometProofs.AggNodup
namespace Comet.Pipeline

variable {V S : Type}

/-- The shared tail meets C02's contract for any well-formed candidate source. -/
theorem tail_sound (sc : Scalar S) (ord : sc.Ordered) (scoreOK : V → S → Bool)
    (live : List (Id × V)) (deleted filter : List Id) (thr : S) (k : Int) (kk : Nat)
    (cands : List (Id × V × S))
    (hn : (cands.map (·.1)).Nodup)
    (hc : ∀ c ∈ cands, c.1 ∉ deleted → (c.1, c.2.1) ∈ live ∧ scoreOK c.2.1 c.2.2 = true)
    (hk : 0 < k → (kk : Int) ≤ k) :
    Sound sc scoreOK live filter thr k (tail sc deleted filter thr kk cands) := by
  have hmem : ∀ h ∈ tail sc deleted filter thr kk cands,
      ∃ c ∈ cands, keep sc deleted filter thr c = some h := by
    intro h hh
    have := List.mem_mergeSort.1 (List.mem_of_mem_take hh)
    obtain ⟨c, hc', hk'⟩ := List.mem_filterMap.1 this
    exact ⟨c, hc', hk'⟩
  have hsortedAll : ((cands.filterMap (keep sc deleted filter thr)).mergeSort (hitLe sc.le)).Pairwise
      (fun a b => hitLe sc.le a b = true) :=
    List.pairwise_mergeSort (le := hitLe sc.le)
      (fun a b c => ord.trans a.score b.score c.score) (fun a b => ord.total a.score b.score) _
  refine ⟨?_, ?_, ?_, ?_, ?_, ?_⟩
  · intro h hh
    obtain ⟨c, hc', hk'⟩ := hmem h hh
    obtain ⟨h1, h2, h3, _, _⟩ := keep_some sc deleted filter thr c h hk'
    obtain ⟨hl, hs⟩ := hc c hc' h3
    exact ⟨c.2.1, by rw [h1]; exact hl, by rw [h2]; exact hs⟩
  · intro h hh
    obtain ⟨c, hc', hk'⟩ := hmem h hh
    obtain ⟨h1, _, _, h4, _⟩ := keep_some sc deleted filter thr c h hk'
    rw [h1]; exact h4
  · intro h hh
    obtain ⟨c, hc', hk'⟩ := hmem h hh
    obtain ⟨_, h2, _, _, h5⟩ := keep_some sc deleted filter thr c h hk'
    rw [h2]; exact h5
  · have h1 : ((cands.filterMap (keep sc deleted filter thr)).map (·.id)).Nodup :=
      (filterMap_ids_sublist _ (fun c h hk' => (keep_some sc deleted filter thr c h hk').1) cands).nodup hn
    have h2 : (((cands.filterMap (keep sc deleted filter thr)).mergeSort (hitLe sc.le)).map (·.id)).Nodup :=
      ((List.mergeSort_perm _ (hitLe sc.le)).map (·.id)).nodup_iff.2 h1
    exact h2.sublist ((List.take_sublist _ _).map _)
  · exact hsortedAll.sublist (List.take_sublist _ _)
  · intro hk0
    have := hk hk0
    have hl : (tail sc deleted filter thr kk cands).length ≤ kk := by
      simp [tail, List.length_take]; omega
    omega

end Comet.Pipeline

namespace Comet.Flat
open Comet.Pipeline

variable {V S : Type}

/-- flat's searchSingleQuery IS the shared tail over all stored entries … -/
theorem flat_search_is_tail (m : Metric V S) (s : State V) (q q' : V) (k : Int) (thr : S)
    (F : List Id) (hq : m.dimOf q = s.dim) (hpre : m.pre q = some q') :
    ∃ kk : Nat, (0 < k → (kk : Int) ≤ k) ∧
      searchSingle m s q k thr F =
        .ok (tail m.sc s.deleted F thr kk (s.vecs.map fun p => (p.1, p.2, m.dist q' p.2))) := by
  refine ⟨sanitizeK k (scan m s q' thr F).length, ?_, ?_⟩
  · intro hk
    unfold sanitizeK
    split <;> omega
  · rw [searchSingle_eq m s q q' k thr F hq hpre]
    simp only [selectK, tail]
    have : scan m s q' thr F =
        (s.vecs.map fun p => (p.1, p.2, m.dist q' p.2)).filterMap (keep m.sc s.deleted F thr) := by
      simp only [scan, List.filterMap_map]
      congr 1
      funext p
      simp only [keep, Function.comp]
      by_cases h1 : p.1 ∈ s.deleted <;> simp [h1]
    rw [this]

/-- … hence every flat answer meets C02's contract w.r.t. the specification's live set,
    with the TRUE metric distance as the score, for every history whose stored ids are
    distinct (C02's quantifier: distinct ids). -/
theorem flat_sound (m : Metric V S) [DecidableEq S] (ord : m.sc.Ordered) (dim : Nat) (ops : List (Op V))
    (hn : ((run m (init dim) ops).vecs.map (·.1)).Nodup)
    (q q' : V) (k : Int) (thr : S) (F : List Id)
    (hq : m.dimOf q = dim) (hpre : m.pre q = some q') :
    ∃ res, searchSingle m (run m (init dim) ops) q k thr F = .ok res ∧
      Sound m.sc (fun v s => decide (s = m.dist q' v)) (live m dim ops) F thr k res := by
  have hd : (run m (init dim) ops).dim = dim := by rw [run_dim]; rfl
  obtain ⟨kk, hkk, heq⟩ := flat_search_is_tail m (run m (init dim) ops) q q' k thr F
    (by rw [hd]; exact hq) hpre
  refine ⟨_, heq, ?_⟩
  apply tail_sound m.sc ord
  · simpa [List.map_map, Function.comp_def] using hn
  · intro c hc hnd
    simp only [List.mem_map] at hc
    obtain ⟨p, hp, rfl⟩ := hc
    refine ⟨?_, by simp⟩
    rw [← eff_run_init m dim ops]
    simp only [eff, List.mem_filter]
    exact ⟨hp, by simpa using hnd⟩
  · exact hkk

/-- one specification candidate: where it comes from -/
theorem cands_mem (m : Metric V S) (live : List (Id × V)) (q' : V) (thr : S) (F : List Id)
    (x : Hit S) (hx : x ∈ cands m live q' thr F) :
    ∃ p ∈ live, x.id = p.1 ∧ x.score = m.dist q' p.2 ∧
      eligible F p.1 = true ∧ thrSkip m.sc thr (m.dist q' p.2) = false := by
  simp only [cands, List.mem_filterMap] at hx
  obtain ⟨p, hp, hpx⟩ := hx
  split at hpx
  · cases hpx
  · next he =>
    split at hpx
    · cases hpx
    · next ht =>
      injection hpx with hpx
      subst hpx
      exact ⟨p, hp, rfl, rfl, by simpa using he, by simpa using ht⟩

/-- Exactness implies soundness: ANY exact top-k (C01 `flat_search_exact`, C13's IVF
    theorems, C14 `pq_topk` / `ivfpq_topk`, C12's partial exactness) of the specification's
    candidates meets C02's contract, with the metric's own distance as the score — provided
    the live ids are distinct (C02's quantifier). -/
theorem isTopK_cands_sound (m : Metric V S) [DecidableEq S] (live : List (Id × V))
    (hn : (live.map (·.1)).Nodup) (q' : V) (thr : S) (F : List Id) (k : Int)
    (res : List (Hit S)) (h : IsTopK m.sc.le k (cands m live q' thr F) res) :
    Sound m.sc (fun v s => decide (s = m.dist q' v)) live F thr k res := by
  obtain ⟨hsorted, ⟨rest, hperm, _⟩, hlen⟩ := h
  have hmem : ∀ x ∈ res, x ∈ cands m live q' thr F := fun x hx =>
    hperm.subset (List.mem_append_left _ hx)
  have hcn : ((cands m live q' thr F).map (·.id)).Nodup := by
    have hsub : ((cands m live q' thr F).map (·.id)).Sublist (live.map (·.1)) := by
      simp only [cands]
      apply filterMap_key_sublist (fun p : Id × V => p.1)
      intro c hh hc
      split at hc
      · cases hc
      · split at hc
        · cases hc
        · injection hc with hc; subst hc; rfl
    exact hsub.nodup hn
  refine ⟨?_, ?_, ?_, ?_, hsorted, ?_⟩
  · intro x hx
    obtain ⟨p, hp, h1, h2, _, _⟩ := cands_mem m live q' thr F x (hmem x hx)
    exact ⟨p.2, by rw [h1]; exact hp, by simp [h2]⟩
  · intro x hx
    obtain ⟨p, _, h1, _, h3, _⟩ := cands_mem m live q' thr F x (hmem x hx)
    rw [h1]; exact h3
  · intro x hx
    obtain ⟨p, _, _, h2, _, h4⟩ := cands_mem m live q' thr F x (hmem x hx)
    rw [h2]; exact h4
  · have : ((res ++ rest).map (·.id)).Nodup := (hperm.map (·.id)).nodup_iff.2 hcn
    rw [List.map_append] at this
    exact (List.nodup_append.1 this).1
  · intro hk
    rw [hlen]
    unfold sanitizeK
    split <;> omega

/-- distinct add ids (the quantifier) give distinct stored ids -/
theorem fresh_stored_nodup (m : Metric V S) (s : State V) (ops : List (Op V))
    (h0 : (s.vecs.map (·.1)).Nodup) (hfresh : FreshAdds ops)
    (hnew : ∀ i ∈ s.vecs.map (·.1), i ∉ addedIds ops) :
    ((run m s ops).vecs.map (·.1)).Nodup := by
  induction ops generalizing s with
  | nil => exact h0
  | cons op t ih =>
    simp only [run, List.foldl_cons]
    have hsub : ∀ i ∈ (step m s op).1.vecs.map (·.1), i ∈ s.vecs.map (·.1) ∨ i ∈ addedIds [op] := by
      intro i hi
      cases op with
      | add id v =>
        simp only [step] at hi
        split at hi
        · exact Or.inl hi
        · split at hi
          · exact Or.inl hi
          · simp only [List.map_append, List.mem_append, List.map_cons, List.map_nil,
              List.mem_singleton] at hi
            rcases hi with hi | hi
            · left
              split at hi
              · simp only [flushed, List.mem_map, List.mem_filter] at hi
                obtain ⟨p, ⟨hp, _⟩, rfl⟩ := hi
                exact List.mem_map.2 ⟨p, hp, rfl⟩
              · exact hi
            · right; simp [addedIds, hi]
      | remove id =>
        simp only [step] at hi
        split at hi
        · exact Or.inl hi
        · split at hi <;> exact Or.inl hi
      | flush =>
        simp only [step] at hi
        split at hi
        · exact Or.inl hi
        · simp only [flushed, List.mem_map, List.mem_filter] at hi
          obtain ⟨p, ⟨hp, _⟩, rfl⟩ := hi
          exact Or.inl (List.mem_map.2 ⟨p, hp, rfl⟩)
    have hnd : ((step m s op).1.vecs.map (·.1)).Nodup := by
      cases op with
      | add id v =>
        simp only [step]
        split
        · exact h0
        · split
          · exact h0
          · have hid : id ∉ s.vecs.map (·.1) := fun h => hnew id h (by simp [addedIds])
            simp only [List.map_append, List.map_cons, List.map_nil]
            split
            · have hs : ((flushed s).vecs.map (·.1)).Sublist (s.vecs.map (·.1)) :=
                (List.filter_sublist).map _
              rw [List.nodup_append]
              refine ⟨hs.nodup h0, by simp, ?_⟩
              intro a ha b hb
              simp only [List.mem_singleton] at hb
              subst hb
              exact fun he => hid (he ▸ hs.subset ha)
            · rw [List.nodup_append]
              refine ⟨h0, by simp, ?_⟩
              intro a ha b hb
              simp only [List.mem_singleton] at hb
              subst hb
              exact fun he => hid (he ▸ ha)
      | remove id =>
        simp only [step]
        split
        · exact h0
        · split <;> exact h0
      | flush =>
        simp only [step]
        split
        · exact h0
        · exact ((List.filter_sublist).map _).nodup h0
    apply ih _ hnd
    · cases op <;> simp_all [FreshAdds, addedIds]
    · intro i hi
      rcases hsub i hi with h | h
      · have := hnew i h
        cases op <;> simp_all [addedIds]
      · cases op <;> simp_all [FreshAdds, addedIds]

/-! ### node-id queries -/

/-- Searching from a stored node id is searching with that node's stored vector. -/
theorem node_query_eq_vector_query (m : Metric V S) (s : State V) (id : Id) (v : V)
    (hl : lookupNode s id = .ok v) (k : Int) (thr : S) (F : List Id) (agg : AggKind) :
    execute m s [] [id] k thr F agg = execute m s [v] [] k thr F agg := by
  simp [execute, hl, List.mapM_cons, List.mapM_nil, bind, Except.bind, pure, Except.pure]

/-- An unknown node id is an error … -/
theorem node_query_unknown_err (m : Metric V S) (s : State V) (id : Id)
    (h : id ∉ s.vecs.map (·.1)) (k : Int) (thr : S) (F : List Id) (agg : AggKind) :
    execute m s [] [id] k thr F agg = .error .notFound := by
  have hf : s.vecs.find? (·.1 == id) = none := by
    apply List.find?_eq_none.2
    intro p hp he
    exact h (List.mem_map.2 ⟨p, hp, by simpa using he⟩)
  simp [execute, lookupNode, hf, List.mapM_cons, bind, Except.bind]

/-- … and so is a removed (soft-deleted) one. -/
theorem node_query_removed_err (m : Metric V S) (s : State V) (id : Id)
    (h : id ∈ s.vecs.map (·.1)) (hd : id ∈ s.deleted) (k : Int) (thr : S) (F : List Id)
    (agg : AggKind) :
    execute m s [] [id] k thr F agg = .error .deleted := by
  obtain ⟨p, hp, he⟩ := List.mem_map.1 h
  cases hf : s.vecs.find? (·.1 == id) with
  | none =>
    have := List.find?_eq_none.1 hf p hp
    simp [he] at this
  | some p' =>
    simp [execute, lookupNode, hf, hd, List.mapM_cons, bind, Except.bind]

/-- No query at all is an error. -/
theorem no_query_err (m : Metric V S) (s : State V) (k : Int) (thr : S) (F : List Id)
    (agg : AggKind) : execute m s [] [] k thr F agg = .error .noQuery := by
  simp [execute, bind, Except.bind, throw, throwThe, MonadExceptOf.throw]

/-! ### multi-query searches combine per-query answers by the aggregation rule -/

/-- The multi-query answer is `LimitResults(k)` of the aggregation (`Comet.vecAggregate`,
    whose sum / max / mean laws are C19's `vec_agg_spec`) of the concatenated per-query
    answers. -/
theorem multi_query_is_aggregate (m : Metric V S) (s : State V) (qs : List V)
    (per : List (List (Hit S))) (hqs : qs ≠ [])
    (hper : qs.mapM (fun q => searchSingle m s q k thr F) = .ok per) (agg : AggKind) :
    execute m s qs [] k thr F agg =
      .ok (limitResults k (if per.flatten.isEmpty then per.flatten
                           else vecAggregate m.sc agg per.flatten)) := by
  have hne : qs.isEmpty = false := by cases qs <;> simp_all
  simp [execute, hne, hper, List.mapM_nil, bind, Except.bind, pure, Except.pure]

/-! ### the public `Execute` for one query: aggregation and limiting change nothing -/

/-- With one query, `Execute` (search, aggregate, limit) returns the single-query answer
    itself — hence an exact top-k of the live, eligible, within-threshold vectors (C01) —
    when reducing ONE score is the identity (`0 + d = d`, `d / 1 = d`: exact arithmetic; for
    IEEE floats it holds bit for bit except that `0 + (−0) = +0`, and distances are never −0)
    and the stored ids are distinct. -/
theorem flat_execute_single_exact (m : Metric V S) [DecidableEq S] (ord : m.sc.Ordered)
    (dim : Nat) (ops : List (Op V))
    (hn : ((run m (init dim) ops).vecs.map (·.1)).Nodup)
    (q q' : V) (k : Int) (thr : S) (F : List Id) (agg : AggKind)
    (hred : ∀ d : S, reduceVec m.sc agg [d] = d)
    (hq : m.dimOf q = dim) (hpre : m.pre q = some q') :
    ∃ res, execute m (run m (init dim) ops) [q] [] k thr F agg = .ok res ∧
      searchSingle m (run m (init dim) ops) q k thr F = .ok res ∧
      IsTopK m.sc.le k (cands m (live m dim ops) q' thr F) res := by
  obtain ⟨res, hres, hsound⟩ := flat_sound m ord dim ops hn q q' k thr F hq hpre
  have hd : (run m (init dim) ops).dim = dim := by rw [run_dim]; rfl
  have htop : IsTopK m.sc.le k (cands m (live m dim ops) q' thr F) res := by
    have h1 := searchSingle_eq m (run m (init dim) ops) q q' k thr F (by rw [hd]; exact hq) hpre
    rw [h1] at hres
    injection hres with hres
    subst hres
    rw [scan_eq_cands, eff_run_init m dim ops]
    exact selectK_isTopK m.sc.le ord.total ord.trans k _
  refine ⟨res, ?_, hres, htop⟩
  have hagg : (if res.isEmpty then res else vecAggregate m.sc agg res) = res := by
    split
    · rfl
    · exact vecAggregate_id m.sc agg res hsound.distinct hred hsound.sorted
  have hlim : limitResults k res = res := by
    unfold limitResults
    apply List.take_of_length_le
    have hl := htop.len
    rw [hl]
    unfold sanitizeK
    repeat' split
    all_goals omega
  have hagg' : (if res = [] then res else vecAggregate m.sc agg res) = res := by
    by_cases he : res = []
    · simp [he]
    · simp only [he, if_false]
      have : res.isEmpty = false := by cases res <;> simp_all
      simpa [this] using hagg
  simp only [execute, hres, List.mapM_cons, List.mapM_nil, bind, Except.bind, pure, Except.pure,
    List.isEmpty_cons, List.isEmpty_nil, Bool.false_and, List.append_nil,
    List.flatten_cons, List.flatten_nil, List.isEmpty_iff]
  simp [hagg', hlim]

/-! ### flushing soft-deleted vectors never changes a flat answer -/

/-- literal equality of every single-query answer before and after `Flush`, for every
    state, query, k, threshold and restriction (the same statement for PQ and for IVF /
    IVFPQ at full probe is part of C14 / C13) -/
theorem flat_flush_invariant (m : Metric V S) (s : State V) (q : V) (k : Int) (thr : S)
    (F : List Id) :
    searchSingle m (step m s .flush).1 q k thr F = searchSingle m s q k thr F := by
  have hd := step_dim m s .flush
  by_cases hq : m.dimOf q = s.dim
  · cases hpre : m.pre q with
    | none => simp [searchSingle, hd, hq, hpre]
    | some q' =>
      rw [searchSingle_eq m _ q q' k thr F (by rw [hd]; exact hq) hpre,
          searchSingle_eq m s q q' k thr F hq hpre, scan_eq_cands, scan_eq_cands]
      have : eff (step m s .flush).1 = eff s := by
        have := eff_step m s .flush
        simpa [specStep] using this
      rw [this]
  · simp [searchSingle, hd, hq]

/-! ### non-vacuity -/
section Example
def toyM : Metric Nat Nat where
  dimOf _ := 1
  pre v := some v
  dist a b := if a ≤ b then b - a else a - b
  sc := { zero := 0, add := (· + ·), divNat := fun a n => a / n,
          le := fun a b => decide (a ≤ b), lt := fun a b => decide (a < b) }

-- an answer with a removed id, a wrong score, or a duplicate is rejected by the checker
example : checkSound toyM.sc (fun v s => decide (s = toyM.dist 20 v))
    [(1, 10), (3, 30), (4, 20)] [] 0 2 [⟨4, 0⟩, ⟨1, 10⟩] = true := by decide
example : checkSound toyM.sc (fun v s => decide (s = toyM.dist 20 v))
    [(1, 10), (3, 30), (4, 20)] [] 0 2 [⟨4, 0⟩, ⟨2, 10⟩] = false := by decide   -- id 2 is not live
example : checkSound toyM.sc (fun v s => decide (s = toyM.dist 20 v))
    [(1, 10), (3, 30), (4, 20)] [] 0 2 [⟨4, 0⟩, ⟨1, 11⟩] = false := by decide   -- wrong score
example : checkSound toyM.sc (fun v s => decide (s = toyM.dist 20 v))
    [(1, 10), (3, 30), (4, 20)] [] 0 3 [⟨4, 0⟩, ⟨1, 10⟩, ⟨1, 10⟩] = false := by decide -- twice
example : checkSound toyM.sc (fun v s => decide (s = toyM.dist 20 v))
    [(1, 10), (3, 30), (4, 20)] [] 5 0 [⟨4, 0⟩, ⟨1, 10⟩] = false := by decide   -- beyond threshold 5
end Example

end Comet.Flat
