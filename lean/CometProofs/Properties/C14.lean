/-
  C14 — PQ and IVFPQ rank by the exact asymmetric distance to the quantised form.

  ONLY property theorems and non-vacuity examples live here; helper lemmas are in
  CometProofs/{PQ,IVFPQ,ADC,ADCReal}.lean.  Models: Comet/Vector/{PQ,IVFPQ}.lean.

  Reading guide.
  * `encodeRaw o lt inf dsub cbs v` is the list of per-subspace arg-min indexes of `v`
    against the codebooks `cbs` ([subspace][codeword][component]); `encode` is what the
    index stores: the same list through `uint8(·)` (`trunc8`).
  * `tables o dsub cbs q` are the per-subspace tables of squared distances of `q`;
    `adcSum o tabs code = some s` says `s = Σ_m tabs[m][code[m]]` (no lookup out of
    range); the reported score of an entry is `A.sqrt s` (`PQ.adcScore`, `PQ.scan`).
  * `recon cbs code` is the reconstruction (chosen codewords, concatenated);
    `sqDist o a c = Σ (aᵢ − cᵢ)²` summed left to right.
  * `PQ.lift m A trunc8 dsub cbs` / `IVFPQ.lift … cents cbs` is the metric of the *stored
    form* `⟨preprocessed vector, assigned list, code⟩`: `pre` = preprocess (then assign to
    the nearest centroid and take the residual) and encode; `dist` = the ADC score.
    `Flat.live (lift …) dim history` is the specification of C01 over that metric: the
    stored forms of the vectors added successfully and not removed since.
  * `Flat.cands … live q' thr F` / `IVFPQ.cands … live probed q' thr F`: live entries (of
    the probed lists), eligible under the id restriction `F` (`[]` = none), within the
    threshold when it is positive, scored by the ADC score.
  * `IsTopK le k cands res`: `res` is sorted, is the best `sanitizeK k |cands|` part of
    `cands` as a multiset (any tie-break), nothing outside is better.
  * Threshold, id restriction and `k` act on the candidates exactly as in C01: the theorems
    `flat_filter_threshold_only_remove`, `flat_threshold_nonpos_no_effect`,
    `flat_k_nonpos_returns_all`, `flat_answers_same_scores` of Properties/C01.lean are
    generic in the metric and apply verbatim to the lifted metric.
  * Quantifier: EVERY Add / Remove / Flush history after ONE successful `Train` (re-adding a
    removed id included: `Add` purges the tombstones first, as in C01); the trained
    codebooks / centroids are arbitrary well-formed inputs (`cbWF`, `centsWF`: the shapes
    `Train` allocates).
-/
import CometProofs.IVFPQ
import CometProofs.ADCReal
namespace Comet.PQ

variable {S : Type}

/-! ## 1. each stored vector is represented by the nearest codeword of every subspace -/

/-- **pq_encode_argmin** (full).  Before the `uint8` conversion, the code entry of subspace
    `mi` is the LEAST index minimising the squared distance between the sub-vector and the
    codewords of that subspace (for any total preorder on scores; `hfin`: the distances are
    below the `+Inf` the loop starts from). -/
theorem pq_encode_argmin {sc : Scalar S} (ord : sc.Ordered) (o : Ops S) (inf : S) (dsub : Nat)
    (cbs : List (List (List S))) (v : List S) (mi : Nat) (hm : mi < cbs.length)
    (hfin : ∃ w ∈ cbs[mi], sc.lt (sqDist o (subvec dsub mi v) w) inf = true) :
    ∃ hlen : mi < (encodeRaw o sc.lt inf dsub cbs v).length,
    ∃ hc : (encodeRaw o sc.lt inf dsub cbs v)[mi] < cbs[mi].length,
      (∀ k (hk : k < cbs[mi].length),
        sc.lt (sqDist o (subvec dsub mi v) cbs[mi][k])
          (sqDist o (subvec dsub mi v) (cbs[mi][(encodeRaw o sc.lt inf dsub cbs v)[mi]])) = false) ∧
      (∀ k (hk : k < (encodeRaw o sc.lt inf dsub cbs v)[mi]),
        sc.lt (sqDist o (subvec dsub mi v) (cbs[mi][(encodeRaw o sc.lt inf dsub cbs v)[mi]]))
          (sqDist o (subvec dsub mi v) (cbs[mi]'hm)[k]) = true) := by
  have hlen : mi < (encodeRaw o sc.lt inf dsub cbs v).length := by
    rw [encodeRaw_length]; exact hm
  have hrow : (encodeRaw o sc.lt inf dsub cbs v)[mi] =
      argmin sc.lt inf (cbs[mi].map (sqDist o (subvec dsub mi v))) := by
    simp only [encodeRaw, tables, List.getElem_map]
    rw [tablesFrom_getElem o dsub v 0 cbs mi hm, Nat.zero_add]
  obtain ⟨hc, h1, h2⟩ := argmin_spec ord inf (cbs[mi].map (sqDist o (subvec dsub mi v)))
    (by obtain ⟨w, hw, hlt⟩ := hfin; exact ⟨_, List.mem_map.2 ⟨w, hw, rfl⟩, hlt⟩)
  refine ⟨hlen, by rw [hrow]; simpa using hc, ?_, ?_⟩
  · intro k hk
    have := h1 k (by simpa using hk)
    simpa [hrow] using this
  · intro k hk
    have := h2 k (by rw [← hrow]; exact hk)
    simpa [hrow] using this

/-- **code_fits** (full): for every code size the constructors accept (`newOk`: `Nbits` in
    1..8) and codebooks of the trained shape, the stored code IS the arg-min index list —
    the `uint8` conversion loses nothing. -/
theorem code_fits (dim M nbits : Int) (hok : newOk dim M nbits = true) (o : Ops S)
    (lt : S → S → Bool) (inf : S) (dsub : Nat) (cbs : List (List (List S)))
    (hwf : cbWF M.toNat (2 ^ nbits.toNat) dsub cbs = true) (v : List S) :
    encode o lt inf dsub cbs v = encodeRaw o lt inf dsub cbs v := by
  have hn : nbits.toNat ≤ 8 := by
    simp only [newOk, Bool.and_eq_true, decide_eq_true_eq] at hok
    omega
  have hk : 2 ^ nbits.toNat ≤ 256 := by
    have : 2 ^ nbits.toNat ≤ 2 ^ 8 := Nat.pow_le_pow_right (by decide) hn
    simpa using this
  have hlt := encodeRaw_lt hwf (Nat.two_pow_pos _) o lt inf v
  unfold encode
  conv => rhs; rw [← List.map_id (encodeRaw o lt inf dsub cbs v)]
  apply List.map_congr_left
  intro c hc
  have := hlt c hc
  simp only [trunc8, id]
  exact Nat.mod_eq_of_lt (by omega)

/-- The same for the IVFPQ constructor (it has the same `Nbits` check). -/
theorem ivfpq_code_fits (dim nlist M nbits : Int) (hok : IVFPQ.newOk dim nlist M nbits = true)
    (o : Ops S) (lt : S → S → Bool) (inf : S) (dsub : Nat) (cbs : List (List (List S)))
    (hwf : cbWF M.toNat (2 ^ nbits.toNat) dsub cbs = true) (v : List S) :
    encode o lt inf dsub cbs v = encodeRaw o lt inf dsub cbs v := by
  apply code_fits dim M nbits _ o lt inf dsub cbs hwf v
  simp only [IVFPQ.newOk, newOk, Bool.and_eq_true, decide_eq_true_eq] at hok ⊢
  omega

/-! ## 2. the reported score is the distance between the query and the reconstruction -/

/-- **adc_identity** (full, any commutative ring).  With `dim = M·dsub` and codebooks of the
    trained shape, the table sum of a code is `‖q − recon code‖²` — about the model's own
    `tables` / `adcSum` / `recon` / `sqDist` instantiated at the ring. -/
theorem adc_identity (R : Type) [CommRing R] (M ksub dsub : Nat) (cbs : List (List (List R)))
    (hwf : cbWF M ksub dsub cbs = true) (q : List R) (hq : q.length = M * dsub)
    (code : List Nat) (s : R)
    (h : adcSum (Ops.ofRing R) (tables (Ops.ofRing R) dsub cbs q) code = some s) :
    ∃ r, recon cbs code = some r ∧ s = sqDist (Ops.ofRing R) q r :=
  adcSum_eq_sqDist_recon (Ops.ofRing_laws R) M ksub dsub cbs hwf q hq code s h

/-- … and the table sum of a stored code is always defined (no lookup out of range), so
    the score of a PQ entry with code `encode … v` is `√‖q' − recon (encode … v)‖²`. -/
theorem pq_score_is_recon_distance (M ksub dsub : Nat) (hk : 0 < ksub)
    (cbs : List (List (List ℝ))) (hwf : cbWF M ksub dsub cbs = true)
    (lt : ℝ → ℝ → Bool) (inf : ℝ) (q' v : List ℝ) (hq : q'.length = M * dsub) :
    ∃ s r, adcSum (Ops.ofRing ℝ) (tables (Ops.ofRing ℝ) dsub cbs q')
        (encode (Ops.ofRing ℝ) lt inf dsub cbs v) = some s ∧
      recon cbs (encode (Ops.ofRing ℝ) lt inf dsub cbs v) = some r ∧
      Real.sqrt s = Real.sqrt (sqDist (Ops.ofRing ℝ) q' r) := by
  obtain ⟨s, hs⟩ := adcSum_encoded_isSome (Ops.ofRing ℝ) lt inf dsub cbs
    (cbWF_ne_nil hwf hk) trunc8 trunc8_le q' v
  obtain ⟨r, hr, he⟩ := adc_identity ℝ M ksub dsub cbs hwf q' hq _ s hs
  exact ⟨s, r, hs, hr, by rw [he]⟩

/-- **adc_error_bound** (ℝ).  The reported score `√s` differs from the true Euclidean
    distance `‖q − x‖` by at most the quantisation error `‖x − x̂‖` of the vector, whatever
    code it carries. -/
theorem adc_error_bound (M ksub dsub : Nat) (cbs : List (List (List ℝ)))
    (hwf : cbWF M ksub dsub cbs = true) (q x : List ℝ) (hq : q.length = M * dsub)
    (hx : x.length = M * dsub) (code : List Nat) (s : ℝ)
    (h : adcSum (Ops.ofRing ℝ) (tables (Ops.ofRing ℝ) dsub cbs q) code = some s) :
    ∃ xhat, recon cbs code = some xhat ∧
      |Real.sqrt s - Real.sqrt (sqDist (Ops.ofRing ℝ) q x)| ≤
        Real.sqrt (sqDist (Ops.ofRing ℝ) x xhat) := by
  obtain ⟨r, hr, he⟩ := adc_identity ℝ M ksub dsub cbs hwf q hq code s h
  refine ⟨r, hr, ?_⟩
  obtain ⟨hlen, hall⟩ := (cbWF_iff M ksub dsub cbs).1 hwf
  have hrl : r.length = M * dsub := by
    rw [recon_length dsub cbs (fun cb h => (hall cb h).2) code r hr, hlen]
  rw [he, sqrt_sqDist_eq_dist q r _ hq hrl, sqrt_sqDist_eq_dist q x _ hq hx,
    sqrt_sqDist_eq_dist x r _ hx hrl, dist_comm (toE _ q) (toE _ r),
    dist_comm (toE _ q) (toE _ x), dist_comm (toE _ x) (toE _ r)]
  exact abs_dist_sub_le _ _ _

/-- **adc_exact_when_fixed** (ℝ).  A vector that coincides with its own reconstruction is
    reported at its true distance. -/
theorem adc_exact_when_fixed (M ksub dsub : Nat) (cbs : List (List (List ℝ)))
    (hwf : cbWF M ksub dsub cbs = true) (q x : List ℝ) (hq : q.length = M * dsub)
    (code : List Nat) (s : ℝ)
    (h : adcSum (Ops.ofRing ℝ) (tables (Ops.ofRing ℝ) dsub cbs q) code = some s)
    (hfix : recon cbs code = some x) :
    Real.sqrt s = Real.sqrt (sqDist (Ops.ofRing ℝ) q x) := by
  obtain ⟨r, hr, he⟩ := adc_identity ℝ M ksub dsub cbs hwf q hq code s h
  rw [hfix] at hr
  injection hr with hr
  rw [he, hr]

/-- IVFPQ: the same bound in residual form.  `q' − c` and `x' − c` are the residuals of the
    preprocessed query and vector to the centroid `c` of the (assigned = probed) list; the
    score `√s` differs from the TRUE distance `‖q' − x'‖` by at most the quantisation error
    of the residual. -/
theorem ivfpq_error_bound (M ksub dsub : Nat) (cbs : List (List (List ℝ)))
    (hwf : cbWF M ksub dsub cbs = true) (q' x' c : List ℝ) (hq : q'.length = M * dsub)
    (hx : x'.length = M * dsub) (hc : c.length = M * dsub) (code : List Nat) (s : ℝ)
    (h : adcSum (Ops.ofRing ℝ)
      (tables (Ops.ofRing ℝ) dsub cbs (vsub (Ops.ofRing ℝ) q' c)) code = some s) :
    ∃ rhat, recon cbs code = some rhat ∧
      |Real.sqrt s - Real.sqrt (sqDist (Ops.ofRing ℝ) q' x')| ≤
        Real.sqrt (sqDist (Ops.ofRing ℝ) (vsub (Ops.ofRing ℝ) x' c) rhat) := by
  have hql : (vsub (Ops.ofRing ℝ) q' c).length = M * dsub := by simp [vsub, hq, hc]
  have hxl : (vsub (Ops.ofRing ℝ) x' c).length = M * dsub := by simp [vsub, hx, hc]
  obtain ⟨r, hr, hb⟩ := adc_error_bound M ksub dsub cbs hwf _ _ hql hxl code s h
  refine ⟨r, hr, ?_⟩
  rw [sqDist_vsub_vsub q' x' c (by rw [hq, hc]) (by rw [hx, hc])] at hb
  exact hb

/-! ## 3. the result is the exact top-k by that score over the live vectors -/

/-- **pq_topk** (full).  After a successful `Train` (any well-formed codebooks) and ANY
    Add / Remove / Flush history, every search with a query of the
    right dimension that preprocesses returns — without panicking — an exact top-k of the
    live, eligible, within-threshold entries scored by the ADC score. -/
theorem pq_topk (m : Metric (List S) S) (A : Arith S) (ord : m.sc.Ordered)
    (dim M nbits n : Nat) (cbs : List (List (List S))) (s0 : State S)
    (htrain : train (init dim M nbits) n true cbs = (s0, .ok))
    (hwf : cbWF M (2 ^ nbits) (dim / M) cbs = true)
    (ops : List (Flat.Op (List S)))
    (q q' : List S) (hq : q.length = dim) (hpre : m.pre q = some q')
    (k : Int) (thr : S) (F : List Id) :
    ∃ res, searchSingle m A (run m A s0 ops) q k thr F = .ok res ∧
      IsTopK m.sc.le k
        (Flat.cands (lift m A trunc8 (dim / M) cbs)
          (Flat.live (lift m A trunc8 (dim / M) cbs) dim (ops.map liftOp)) (inject q') thr F)
        res := by
  have hs0 : s0 = { (init dim M nbits : State S) with cbs := cbs, trained := true } := by
    simp only [train] at htrain
    split at htrain
    · cases htrain
    · simp only [Bool.not_true, Bool.false_eq_true, if_false, Prod.mk.injEq] at htrain
      exact htrain.1.symm
  have htr : s0.trained = true := by rw [hs0]
  have hmm : mm m A s0 = lift m A trunc8 (dim / M) cbs := by rw [hs0]; rfl
  have hflat : toFlat s0 = Flat.init dim := by rw [hs0]; rfl
  obtain ⟨hrun, hsame⟩ := run_toFlat m A s0 ops htr
  have heff : Flat.eff (toFlat (run m A s0 ops)) =
      Flat.live (lift m A trunc8 (dim / M) cbs) dim (ops.map liftOp) := by
    rw [hrun, hflat, hmm]
    exact Flat.eff_run_init _ dim _
  have hmmF : mm m A (run m A s0 ops) = lift m A trunc8 (dim / M) cbs := by
    rw [hsame.mm_eq, hmm]
  have hne : ∀ cb ∈ (run m A s0 ops).cbs, cb ≠ [] := by
    rw [hsame.cbs, hs0]
    exact cbWF_ne_nil hwf (Nat.two_pow_pos _)
  have := searchSingle_topk m A ord (run m A s0 ops) hne (by rw [hsame.trained]; exact htr) _ heff
    (by rw [hmmF]; exact live_mem_pre _ _ _) q q' (by rw [hsame.dim, hs0]; exact hq) hpre k thr F
  rw [hmmF] at this
  exact this

/-- **pq_topk_nearest_codeword** (full): the same, read with the property's own words —
    for every code size the constructor accepts, the live entries carry the plain arg-min
    indexes (`lift … id …`: no `uint8` conversion in the specification). -/
theorem pq_topk_nearest_codeword (m : Metric (List S) S) (A : Arith S) (ord : m.sc.Ordered)
    (dim M nbits n : Nat) (hok : newOk dim M nbits = true)
    (cbs : List (List (List S))) (s0 : State S)
    (htrain : train (init dim M nbits) n true cbs = (s0, .ok))
    (hwf : cbWF M (2 ^ nbits) (dim / M) cbs = true)
    (ops : List (Flat.Op (List S)))
    (q q' : List S) (hq : q.length = dim) (hpre : m.pre q = some q')
    (k : Int) (thr : S) (F : List Id) :
    ∃ res, searchSingle m A (run m A s0 ops) q k thr F = .ok res ∧
      IsTopK m.sc.le k
        (Flat.cands (lift m A id (dim / M) cbs)
          (Flat.live (lift m A id (dim / M) cbs) dim (ops.map liftOp)) (inject q') thr F)
        res := by
  have hn : nbits ≤ 8 := by
    simp only [newOk, Bool.and_eq_true, decide_eq_true_eq] at hok
    omega
  have hk : 2 ^ nbits ≤ 256 := by
    have : 2 ^ nbits ≤ 2 ^ 8 := Nat.pow_le_pow_right (by decide) hn
    simpa using this
  rw [← lift_trunc8_eq m A hwf (Nat.two_pow_pos _) hk]
  exact pq_topk m A ord dim M nbits n cbs s0 htrain hwf ops q q' hq hpre k thr F

/-- No operation of a PQ index panics (the model has no panicking branch outside the table
    lookups of the search, which `pq_topk` excludes), and searches on an untrained index or
    with a query of the wrong dimension are errors. -/
theorem pq_step_never_panics (m : Metric (List S) S) (A : Arith S) (s : State S)
    (op : Flat.Op (List S)) : (step m A s op).2 ≠ .panic := by
  cases op with
  | add id v =>
    simp only [step]
    split
    · simp
    · split
      · simp
      · split <;> simp
  | remove id =>
    simp only [step]
    split
    · simp
    · split <;> simp
  | flush => simp [step]

theorem pq_search_untrained (m : Metric (List S) S) (A : Arith S) (s : State S)
    (h : s.trained = false) (q : List S) (k : Int) (thr : S) (F : List Id) :
    searchSingle m A s q k thr F = .error (.err .untrained) := by
  simp [searchSingle, h]

theorem pq_search_wrong_dim (m : Metric (List S) S) (A : Arith S) (s : State S)
    (h : s.trained = true) (q : List S) (hq : q.length ≠ s.dim) (k : Int) (thr : S) (F : List Id) :
    searchSingle m A s q k thr F = .error (.err .dim) := by
  simp [searchSingle, h, hq]

/-- What the live entries are: the stored form of a vector `x` added by the history —
    its preprocessed form `v'` and the code `encode … v'` (by `code_fits` and
    `pq_encode_argmin`: the nearest codeword of every subspace). -/
theorem pq_live_entries_encoded (m : Metric (List S) S) (A : Arith S) (dim dsub : Nat)
    (cbs : List (List (List S))) (ops : List (Flat.Op (List S))) :
    ∀ p ∈ Flat.live (lift m A trunc8 dsub cbs) dim (ops.map liftOp),
      ∃ x v', Flat.Op.add p.1 x ∈ ops ∧ m.pre x = some v' ∧
        p.2 = ⟨v', 0, encode (A.ops m.sc) m.sc.lt A.inf dsub cbs v'⟩ := by
  intro p hp
  obtain ⟨x, hx1, hx2⟩ := live_mem_add _ dim _ p hp
  obtain ⟨v', hv, he⟩ := lift_pre_some m A trunc8 dsub cbs x p.2 hx2
  simp only [List.mem_map] at hx1
  obtain ⟨op, hop, hopx⟩ := hx1
  cases op with
  | add id v =>
    simp only [liftOp, Flat.Op.add.injEq] at hopx
    obtain ⟨h1, h2⟩ := hopx
    subst h1
    refine ⟨v, v', hop, ?_, he⟩
    rw [← h2] at hv; exact hv
  | remove id => simp [liftOp] at hopx
  | flush => simp [liftOp] at hopx

/-- `PQIndex.Train` accepts exactly the training sets with at least `Ksub` vectors of the
    right dimension, and never panics. -/
theorem pq_train_ok (s : State S) (n : Nat) (cbs : List (List (List S)))
    (hn : 2 ^ s.nbits ≤ n) :
    (train s n true cbs).2 = .ok ∧ (train s n true cbs).1.trained = true ∧
      (train s n true cbs).1.cbs = cbs := by
  have : ¬ n < s.ksub := by unfold State.ksub; omega
  simp [train, this]

theorem pq_train_small_rejected (s : State S) (n : Nat) (dimsOK : Bool)
    (cbs : List (List (List S))) (hn : n < 2 ^ s.nbits) :
    train s n dimsOK cbs = (s, .err .other) := by
  have : n < s.ksub := hn
  simp [train, this]

end Comet.PQ

namespace Comet.IVFPQ
open Comet.PQ

variable {S : Type}

/-- **ivfpq_topk** (full).  After a successful `Train` (any well-formed centroids and
    codebooks) and ANY history, every search returns — without
    panicking — an exact top-k of the live, eligible, within-threshold entries OF THE PROBED
    LISTS, scored by the residual ADC score; the probed lists are an exact top-`nprobes`
    choice of the lists by metric distance between the preprocessed query and the centroids
    (`nprobes ≤ 0` or `> nlist`: all lists). -/
theorem ivfpq_topk (m : Metric (List S) S) (A : Arith S) (ord : m.sc.Ordered)
    (dim M nbits nlist n : Nat) (hnl : 0 < nlist) (cents : List (List S))
    (cbs : List (List (List S))) (s0 : State S)
    (htrain : train (init dim M nbits nlist) n true cents cbs = (s0, .ok))
    (hcw : centsWF nlist dim cents = true)
    (hwf : cbWF M (2 ^ nbits) (dim / M) cbs = true)
    (ops : List (Flat.Op (List S)))
    (q q' : List S) (hq : q.length = dim) (hpre : m.pre q = some q')
    (k nprobes : Int) (thr : S) (F : List Id) :
    ∃ probed res, searchSingle m A (run m A s0 ops) q k nprobes thr F = .ok res ∧
      IsTopK m.sc.le nprobes (centroidHits m q' cents) probed ∧
      IsTopK m.sc.le k
        (cands (lift m A trunc8 (dim / M) cents cbs)
          (Flat.live (lift m A trunc8 (dim / M) cents cbs) dim (ops.map liftOp))
          probed (inject q') thr F)
        res := by
  have hs0 : s0 = { (init dim M nbits nlist : State S) with
      cents := cents, cbs := cbs, trained := true } := by
    simp only [train] at htrain
    split at htrain
    · cases htrain
    · split at htrain
      · cases htrain
      · simp only [Bool.not_true, Bool.false_eq_true, if_false, Prod.mk.injEq] at htrain
        exact htrain.1.symm
  have htr : s0.trained = true := by rw [hs0]
  have hmm : mm m A s0 = lift m A trunc8 (dim / M) cents cbs := by rw [hs0]; rfl
  have hcl : s0.cents.length = s0.nlist := by
    rw [hs0]
    simp only [centsWF, Bool.and_eq_true, beq_iff_eq] at hcw
    exact hcw.1
  have hrel0 : Rel s0 (Flat.init dim) := by
    rw [hs0]
    exact ⟨by simp [init, Flat.init, split_nil], rfl, rfl, by intro p hp; cases hp⟩
  obtain ⟨hrel, hsame⟩ := run_rel m A s0 (Flat.init dim) ops hrel0 htr hcl
    (by rw [hs0]; exact hnl)
  have heff : Flat.eff (Flat.run (mm m A s0) (Flat.init dim) (ops.map liftOp)) =
      Flat.live (lift m A trunc8 (dim / M) cents cbs) dim (ops.map liftOp) := by
    rw [hmm]
    exact Flat.eff_run_init _ dim _
  have hmmF : mm m A (run m A s0 ops) = lift m A trunc8 (dim / M) cents cbs := by
    rw [hsame.mm_eq, hmm]
  have hne : ∀ cb ∈ (run m A s0 ops).cbs, cb ≠ [] := by
    rw [hsame.cbs, hs0]
    exact cbWF_ne_nil hwf (Nat.two_pow_pos _)
  have := searchSingle_topk m A ord (run m A s0 ops) _ hrel
    (by rw [hsame.cents, hsame.nlist]; exact hcl) hne (by rw [hsame.trained]; exact htr) _ heff
    (by rw [hmmF]; exact live_mem_pre _ _ _) q q' (by rw [hsame.dim, hs0]; exact hq) hpre
    k nprobes thr F
  rw [hmmF, hsame.cents] at this
  have hc0 : s0.cents = cents := by rw [hs0]
  rw [hc0] at this
  exact this

/-- **ivfpq_topk_nearest_codeword** (full): the same with plain arg-min codes in the
    specification, for every code size the constructor accepts. -/
theorem ivfpq_topk_nearest_codeword (m : Metric (List S) S) (A : Arith S) (ord : m.sc.Ordered)
    (dim M nbits nlist n : Nat) (hok : newOk dim nlist M nbits = true) (cents : List (List S))
    (cbs : List (List (List S))) (s0 : State S)
    (htrain : train (init dim M nbits nlist) n true cents cbs = (s0, .ok))
    (hcw : centsWF nlist dim cents = true)
    (hwf : cbWF M (2 ^ nbits) (dim / M) cbs = true)
    (ops : List (Flat.Op (List S)))
    (q q' : List S) (hq : q.length = dim) (hpre : m.pre q = some q')
    (k nprobes : Int) (thr : S) (F : List Id) :
    ∃ probed res, searchSingle m A (run m A s0 ops) q k nprobes thr F = .ok res ∧
      IsTopK m.sc.le nprobes (centroidHits m q' cents) probed ∧
      IsTopK m.sc.le k
        (cands (lift m A id (dim / M) cents cbs)
          (Flat.live (lift m A id (dim / M) cents cbs) dim (ops.map liftOp))
          probed (inject q') thr F)
        res := by
  have hp : 0 < nlist ∧ nbits ≤ 8 := by
    simp only [newOk, Bool.and_eq_true, decide_eq_true_eq] at hok
    omega
  have hk : 2 ^ nbits ≤ 256 := by
    have : 2 ^ nbits ≤ 2 ^ 8 := Nat.pow_le_pow_right (by decide) hp.2
    simpa using this
  rw [← lift_trunc8_eq m A hwf (Nat.two_pow_pos _) hk]
  exact ivfpq_topk m A ord dim M nbits nlist n hp.1 cents cbs s0 htrain hcw hwf ops
    q q' hq hpre k nprobes thr F

/-- **ivfpq_never_panics** (full): after a successful `Train` with `nlist` centroids, NO
    Add / Remove / Flush history (re-adds included) makes an operation panic: the assigned
    list index is always a valid index of `centroids` and `lists`. -/
theorem ivfpq_never_panics (m : Metric (List S) S) (A : Arith S)
    (dim M nbits nlist n : Nat) (hnl : 0 < nlist) (cents : List (List S))
    (cbs : List (List (List S))) (s0 : State S)
    (htrain : train (init dim M nbits nlist) n true cents cbs = (s0, .ok))
    (hcw : centsWF nlist dim cents = true)
    (ops : List (Flat.Op (List S))) (op : Flat.Op (List S)) :
    (step m A (run m A s0 ops) op).2 ≠ .panic := by
  have hs0 : s0 = { (init dim M nbits nlist : State S) with
      cents := cents, cbs := cbs, trained := true } := by
    simp only [train] at htrain
    split at htrain
    · cases htrain
    · split at htrain
      · cases htrain
      · simp only [Bool.not_true, Bool.false_eq_true, if_false, Prod.mk.injEq] at htrain
        exact htrain.1.symm
  have hshape : Shape s0 := by
    rw [hs0]
    simp only [centsWF, Bool.and_eq_true, beq_iff_eq] at hcw
    exact ⟨hcw.1, by simp [init], hnl⟩
  exact (step_shape m A _ op (run_shape m A s0 ops hshape)).2

theorem ivfpq_search_untrained (m : Metric (List S) S) (A : Arith S) (s : State S)
    (h : s.trained = false) (q : List S) (k nprobes : Int) (thr : S) (F : List Id) :
    searchSingle m A s q k nprobes thr F = .error (.err .untrained) := by
  simp [searchSingle, h]

theorem ivfpq_search_wrong_dim (m : Metric (List S) S) (A : Arith S) (s : State S)
    (h : s.trained = true) (q : List S) (hq : q.length ≠ s.dim) (k nprobes : Int) (thr : S)
    (F : List Id) :
    searchSingle m A s q k nprobes thr F = .error (.err .dim) := by
  simp [searchSingle, h, hq]

/-- What the live entries are: for a vector `x` added by the history, its preprocessed form
    `v'`, the list of the FIRST nearest centroid (`assign`, metric distance), and the code of
    the residual `v' − centroid` to that centroid. -/
theorem ivfpq_live_entries_encoded (m : Metric (List S) S) (A : Arith S) (dim dsub : Nat)
    (cents : List (List S)) (cbs : List (List (List S))) (ops : List (Flat.Op (List S))) :
    ∀ p ∈ Flat.live (lift m A trunc8 dsub cents cbs) dim (ops.map liftOp),
      ∃ x v' c, Flat.Op.add p.1 x ∈ ops ∧ m.pre x = some v' ∧
        cents[assign m A cents v']? = some c ∧
        p.2 = ⟨v', assign m A cents v',
          encode (A.ops m.sc) m.sc.lt A.inf dsub cbs (vsub (A.ops m.sc) v' c)⟩ := by
  intro p hp
  obtain ⟨x, hx1, hx2⟩ := live_mem_add _ dim _ p hp
  obtain ⟨v', c, hv, hc, he⟩ := lift_pre_some m A trunc8 dsub cents cbs x p.2 hx2
  simp only [List.mem_map] at hx1
  obtain ⟨op, hop, hopx⟩ := hx1
  cases op with
  | add id v =>
    simp only [liftOp, Flat.Op.add.injEq] at hopx
    obtain ⟨h1, h2⟩ := hopx
    subst h1
    refine ⟨v, v', c, hop, ?_, hc, he⟩
    rw [← h2] at hv; exact hv
  | remove id => simp [liftOp] at hopx
  | flush => simp [liftOp] at hopx

/-- **ivfpq_train_ok** (full): `Train` succeeds on every training set with at least
    `max (10·nlist) Ksub` vectors of the right dimension … -/
theorem ivfpq_train_ok (s : State S) (n : Nat) (cents : List (List S))
    (cbs : List (List (List S))) (hn : max (s.nlist * 10) (2 ^ s.nbits) ≤ n) :
    (train s n true cents cbs).2 = .ok ∧ (train s n true cents cbs).1.trained = true ∧
      (train s n true cents cbs).1.cents = cents ∧ (train s n true cents cbs).1.cbs = cbs := by
  have h1 : ¬ n < s.nlist * 10 := by omega
  have h2 : ¬ n < s.ksub := by unfold State.ksub; omega
  simp [train, h1, h2]

/-- … rejects (with an error, leaving the index untouched) every smaller one — in particular
    the sets with `10·nlist ≤ n < Ksub` on which the codebook copy loop would run out of
    centroids … -/
theorem ivfpq_train_small_rejected (s : State S) (n : Nat) (dimsOK : Bool)
    (cents : List (List S)) (cbs : List (List (List S)))
    (hn : n < max (s.nlist * 10) (2 ^ s.nbits)) :
    train s n dimsOK cents cbs = (s, .err .other) := by
  by_cases h1 : n < s.nlist * 10
  · simp [train, h1]
  · have h2 : n < s.ksub := by unfold State.ksub; omega
    simp [train, h1, h2]

/-- … and never panics. -/
theorem ivfpq_train_never_panics (s : State S) (n : Nat) (dimsOK : Bool) (cents : List (List S))
    (cbs : List (List (List S))) : (train s n dimsOK cents cbs).2 ≠ .panic := by
  unfold train
  split
  · simp
  · split
    · simp
    · split <;> simp

end Comet.IVFPQ

/-! ## 4. remark: why the constructors must reject `Nbits > 8`, and non-vacuity -/

namespace Comet.PQ.Example

/-- toy arithmetic over ℤ (squared distances, "sqrt" = identity, `+Inf` = 10⁹) -/
def toyOps : Ops Int := ⟨0, (· + ·), (· - ·), (· * ·)⟩
def toyLt (a b : Int) : Bool := decide (a < b)

/-- 512 one-component codewords `[0], [1], …, [511]` (a model state with `nbits = 9`,
    which no constructor call produces any more) -/
def ramp : List (List (List Int)) := [(List.range 512).map fun k => [(k : Int)]]

set_option maxRecDepth 200000 in
/-- **Remark** (the old defect D10, now excluded by the constructors): for a code size of
    9 bits the `uint8` conversion does lose the index — codeword 300 is stored as 44. -/
theorem trunc8_loses_index_above_8_bits :
    cbWF 1 (2 ^ 9) 1 ramp = true ∧
    encodeRaw toyOps toyLt 1000000000 1 ramp [300] = [300] ∧
    encode toyOps toyLt 1000000000 1 ramp [300] = [44] := by decide

def toy : Metric (List Int) Int where
  dimOf := List.length
  pre v := if v.all (· == 0) then none else some v      -- "zero vector" rejected
  dist a c := sqDist toyOps a c
  sc := { zero := 0, add := (· + ·), divNat := fun a n => a / n,
          le := fun a b => decide (a ≤ b), lt := toyLt }

def toyA : Arith Int := ⟨(· - ·), (· * ·), 1000000000, id⟩

theorem toy_ordered : toy.sc.Ordered where
  total a b := by simp only [toy, Bool.or_eq_true, decide_eq_true_eq]; omega
  trans a b c := by simp only [toy, decide_eq_true_eq]; omega
  lt_iff a b := by
    simp only [toy, toyLt]; by_cases h : a < b <;> simp [h]; omega

/-- dim 2, M 2, 1 bit: two codewords per subspace -/
def cb2 : List (List (List Int)) := [[[0], [10]], [[0], [10]]]

def hist : List (Flat.Op (List Int)) :=
  [.add 1 [1, 9], .add 2 [9, 9], .add 3 [0, 0], .add 4 [4, 4], .remove 2, .add 5 [10, 0],
   .remove 4, .add 4 [4, 4], .flush]

-- the hypotheses of `pq_topk` are satisfiable: constructor, training, history, query
example : newOk 2 2 1 = true := by decide
example : cbWF 2 (2 ^ 1) (2 / 2) cb2 = true := by decide
example : (train (init 2 2 1 : State Int) 2 true cb2).2 = .ok := by decide
example : ∃ res, searchSingle toy toyA (run toy toyA (train (init 2 2 1) 2 true cb2).1 hist)
      [1, 8] 2 0 [] = .ok res ∧
    IsTopK toy.sc.le 2
      (Flat.cands (lift toy toyA trunc8 (2 / 2) cb2)
        (Flat.live (lift toy toyA trunc8 (2 / 2) cb2) 2 (hist.map liftOp)) (inject [1, 8]) 0 [])
      res :=
  pq_topk toy toyA toy_ordered 2 2 1 2 cb2 _ rfl (by decide) hist [1, 8] [1, 8] rfl (by decide) 2 0 []
-- the live entries: id 2 removed, id 3 rejected (zero vector), id 4 removed and re-added
-- (now last); codes are the nearest codewords
example : Flat.live (lift toy toyA trunc8 1 cb2) 2 (hist.map liftOp) =
    [(1, ⟨[1, 9], 0, [0, 1]⟩), (5, ⟨[10, 0], 0, [1, 0]⟩), (4, ⟨[4, 4], 0, [0, 0]⟩)] := by decide
-- the candidates of query [1, 8]: scores are the squared distances to the reconstructions
-- [0,10], [0,0], [10,0] — not to the vectors themselves
example : Flat.cands (lift toy toyA trunc8 1 cb2)
    (Flat.live (lift toy toyA trunc8 1 cb2) 2 (hist.map liftOp)) (inject [1, 8]) 0 [] =
    [⟨1, 5⟩, ⟨5, 145⟩, ⟨4, 65⟩] := by decide
-- `adc_identity` on this instance: the table sum equals the distance to the reconstruction
example : adcSum toyOps (tables toyOps 1 cb2 [1, 8]) [0, 1] = some 5 ∧
    recon cb2 [0, 1] = some [0, 10] ∧ sqDist toyOps [1, 8] [0, 10] = 5 := by decide
-- a vector that is its own reconstruction is reported at its true distance
example : encode toyOps toyLt 1000000000 1 cb2 [10, 0] = [1, 0] ∧ recon cb2 [1, 0] = some [10, 0] ∧
    adcSum toyOps (tables toyOps 1 cb2 [1, 8]) [1, 0] = some (sqDist toyOps [1, 8] [10, 0]) := by
  decide
-- a correct and an incorrect answer for k = 2
example : IsTopK toy.sc.le 2 [⟨1, 5⟩, ⟨4, 65⟩, ⟨5, 145⟩] [⟨1, 5⟩, ⟨4, 65⟩] :=
  checkTopK_sound _ _ _ _ (by decide)
example : ¬ IsTopK toy.sc.le 2 [⟨1, 5⟩, ⟨4, 65⟩, ⟨5, 145⟩] [⟨1, 5⟩, ⟨5, 145⟩] :=
  fun h => absurd (checkTopK_complete _ _ _ _ h) (by decide)

/-! IVFPQ: two lists with centroids [0,0] and [10,10] -/
def cents2 : List (List Int) := [[0, 0], [10, 10]]
/-- residual codebooks: codewords −1 / +1 per subspace -/
def cbR : List (List (List Int)) := [[[-1], [1]], [[-1], [1]]]

example : IVFPQ.newOk 2 2 2 1 = true := by decide
example : IVFPQ.centsWF 2 2 cents2 = true := by decide
example : (IVFPQ.train (IVFPQ.init 2 2 1 2 : IVFPQ.State Int) 20 true cents2 cbR).2 = .ok := by decide
-- 10·nlist ≤ n < Ksub is rejected, not a panic (model state with 6 bits: Ksub = 64)
example : (IVFPQ.train (IVFPQ.init 2 2 6 2 : IVFPQ.State Int) 20 true cents2 cbR).2 = .err .other := by
  decide
example : ∃ probed res,
    IVFPQ.searchSingle toy toyA
      (IVFPQ.run toy toyA (IVFPQ.train (IVFPQ.init 2 2 1 2) 20 true cents2 cbR).1 hist)
      [1, 8] 2 1 0 [] = .ok res ∧
    IsTopK toy.sc.le 1 (IVFPQ.centroidHits toy [1, 8] cents2) probed ∧
    IsTopK toy.sc.le 2
      (IVFPQ.cands (IVFPQ.lift toy toyA trunc8 (2 / 2) cents2 cbR)
        (Flat.live (IVFPQ.lift toy toyA trunc8 (2 / 2) cents2 cbR) 2 (hist.map liftOp))
        probed (inject [1, 8]) 0 [])
      res :=
  IVFPQ.ivfpq_topk toy toyA toy_ordered 2 2 1 2 20 (by decide) cents2 cbR _ rfl (by decide)
    (by decide) hist [1, 8] [1, 8] rfl (by decide) 2 1 0 []
-- live entries with their lists and residual codes; [1,9] is equally far from both centroids
-- (1+81 = 81+1): a tie, the first centroid wins
example : Flat.live (IVFPQ.lift toy toyA trunc8 1 cents2 cbR) 2 (hist.map liftOp) =
    [(1, ⟨[1, 9], 0, [1, 1]⟩), (5, ⟨[10, 0], 0, [1, 0]⟩), (4, ⟨[4, 4], 0, [1, 1]⟩)] := by decide
-- probing only the list of centroid [10,10] finds nothing; probing [0,0] finds all three
example : IVFPQ.cands (IVFPQ.lift toy toyA trunc8 1 cents2 cbR)
    (Flat.live (IVFPQ.lift toy toyA trunc8 1 cents2 cbR) 2 (hist.map liftOp))
    [⟨1, 85⟩] (inject [1, 8]) 0 [] = [] := by decide
example : IVFPQ.cands (IVFPQ.lift toy toyA trunc8 1 cents2 cbR)
    (Flat.live (IVFPQ.lift toy toyA trunc8 1 cents2 cbR) 2 (hist.map liftOp))
    [⟨0, 65⟩] (inject [1, 8]) 0 [] = [⟨1, 49⟩, ⟨5, 81⟩, ⟨4, 49⟩] := by decide

end Comet.PQ.Example
