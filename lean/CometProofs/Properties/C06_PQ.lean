/-
  C06's vector-side visibility abstraction for the PQ index.  The write path of the PQ
  model (Comet/Vector/PQ.lean, the one C14 is proved about) IS a flat-index write path over
  stored records (preprocessed vector + PQ code): `pq_step_sim` shows that on a trained
  index every Add / Remove / Flush step of the PQ model is the flat model's step for the
  derived "metric" whose preprocessing also encodes.  The refinement of `Hybrid.VecIdx`
  then follows from the flat one (`absFlat_step`), with no second proof.
-/
import CometProofs.Properties.C06_Flat
import Comet.Vector.PQ
namespace Comet.Hybrid
open Comet.PQ

variable {S : Type}

/-- the flat-index view of a PQ state: same entries (as stored records), same tombstones -/
def pqToFlat (s : PQ.State S) : Flat.State (Stored S) := ⟨s.dim, s.entries, s.deleted⟩

/-- a vector as passed to Add, seen as a record that is not encoded yet -/
def raw (v : List S) : Stored S := ⟨v, 0, []⟩

/-- validation + preprocessing + encoding of `PQIndex.Add`, packaged as a flat "metric"
    over stored records (only `dimOf` and `pre` matter on the write path) -/
def pqMetric (m : Metric (List S) S) (A : Arith S) (dsub : Nat) (cbs : List (List (List S))) :
    Metric (Stored S) S :=
  { dimOf := fun r => r.vec.length,
    pre := fun r => (m.pre r.vec).map fun v' => ⟨v', 0, encode (A.ops m.sc) m.sc.lt A.inf dsub cbs v'⟩,
    dist := fun _ _ => m.sc.zero,
    sc := m.sc }

def embedOp : Flat.Op (List S) → Flat.Op (Stored S)
  | .add id v => .add id (raw v)
  | .remove id => .remove id
  | .flush => .flush

def outOf : Option Err → PQ.Out
  | none => PQ.Out.ok
  | some e => PQ.Out.err e

theorem pqToFlat_flushLocked (s : PQ.State S) (h : s.deleted ≠ []) :
    pqToFlat (flushLocked s) = Flat.flushed (pqToFlat s) := by
  unfold flushLocked
  have : s.deleted.isEmpty = false := by
    cases hd : s.deleted with
    | nil => exact absurd hd h
    | cons _ _ => rfl
  simp only [this, Bool.false_eq_true, if_false]
  rfl

theorem fl_trained (s : PQ.State S) : (flushLocked s).trained = s.trained := by
  unfold flushLocked; split <;> rfl
theorem fl_dsub (s : PQ.State S) : (flushLocked s).dsub = s.dsub := by
  unfold flushLocked; split <;> rfl
theorem fl_cbs (s : PQ.State S) : (flushLocked s).cbs = s.cbs := by
  unfold flushLocked; split <;> rfl

/-- **simulation**: on a trained PQ index every write step is the flat model's step over
    stored records, with the same outcome; codebooks, sub-dimension and the trained flag
    are untouched -/
theorem pq_step_sim (m : Metric (List S) S) (A : Arith S) (s : PQ.State S) (ht : s.trained = true)
    (op : Flat.Op (List S)) :
    pqToFlat (PQ.step m A s op).1 = (Flat.step (pqMetric m A s.dsub s.cbs) (pqToFlat s) (embedOp op)).1 ∧
    (PQ.step m A s op).2 = outOf (Flat.step (pqMetric m A s.dsub s.cbs) (pqToFlat s) (embedOp op)).2 ∧
    (PQ.step m A s op).1.trained = true ∧ (PQ.step m A s op).1.dsub = s.dsub ∧
    (PQ.step m A s op).1.cbs = s.cbs := by
  cases op with
  | add id v =>
    simp only [PQ.step, ht, Bool.not_true, Bool.false_eq_true, if_false, embedOp, Flat.step, pqMetric, raw,
      pqToFlat]
    by_cases hd : v.length ≠ s.dim
    · simp [hd, outOf, ht]
    · simp only [hd, if_false]
      cases hp : m.pre v with
      | none => simp [outOf, ht]
      | some v' =>
        simp only [Option.map_some]
        by_cases hdel : id ∈ s.deleted
        · have hne : s.deleted ≠ [] := fun h => by rw [h] at hdel; cases hdel
          have hf := pqToFlat_flushLocked s hne
          have hds := fl_dsub s
          have hcb := fl_cbs s
          have htr := fl_trained s
          simp only [hdel, if_true, hds, hcb, outOf, htr, ht, and_true, true_and]
          have := congrArg Flat.State.vecs hf
          have hd' := congrArg Flat.State.deleted hf
          have hdim := congrArg Flat.State.dim hf
          simp only [pqToFlat] at this hd' hdim
          simp only [State.dsub] at hds ⊢
          refine ⟨?_, ?_⟩
          · simp only [Flat.flushed] at this hd' hdim ⊢
            rw [this, hd', hdim]
          · exact hds
        · simp [hdel, outOf, ht, State.dsub]
  | remove id =>
    simp only [PQ.step, embedOp, Flat.step, pqToFlat]
    by_cases h1 : s.entries.any (·.1 == id) = true
    · by_cases h2 : id ∈ s.deleted
      · simp [h1, h2, outOf, ht]
      · simp [h1, h2, outOf, ht, State.dsub]
    · simp [h1, outOf, ht]
  | flush =>
    simp only [PQ.step, embedOp, Flat.step, pqToFlat, outOf]
    by_cases he : s.deleted.isEmpty = true
    · simp [flushLocked, he, ht]
    · have hne : s.deleted ≠ [] := fun h => he (by rw [h]; rfl)
      have hf := pqToFlat_flushLocked s hne
      simp only [he, Bool.false_eq_true, if_false]
      exact ⟨by simpa [pqToFlat] using hf, trivial, by rw [fl_trained, ht], fl_dsub s, fl_cbs s⟩

/-- the visibility content of a PQ-index state -/
def absPQ (s : PQ.State S) : VecIdx (Stored S) := absFlat (pqToFlat s)

/-- **PQ refines the visibility model**: every write step of a trained PQ index commutes with
    the abstraction; what is stored under an id is the preprocessed vector with its code -/
theorem absPQ_step (m : Metric (List S) S) (A : Arith S) (s : PQ.State S) (ht : s.trained = true)
    (op : Flat.Op (List S)) :
    absPQ (PQ.step m A s op).1 =
      vecStep (flatVpre (pqMetric m A s.dsub s.cbs) s.dim) (absPQ s) (embedOp op) := by
  unfold absPQ
  rw [(pq_step_sim m A s ht op).1, absFlat_step]
  rfl

/-- … for every history after training -/
theorem absPQ_run (m : Metric (List S) S) (A : Arith S) (s : PQ.State S) (ht : s.trained = true)
    (ops : List (Flat.Op (List S))) :
    absPQ (PQ.run m A s ops) =
      (ops.map embedOp).foldl (vecStep (flatVpre (pqMetric m A s.dsub s.cbs) s.dim)) (absPQ s) := by
  induction ops generalizing s with
  | nil => rfl
  | cons op t ih =>
    obtain ⟨hsim, _, htr, hds, hcb⟩ := pq_step_sim m A s ht op
    simp only [PQ.run, List.foldl_cons, List.map_cons] at ih ⊢
    rw [ih _ htr, hds, hcb, absPQ_step m A s ht op]
    have hdim : (PQ.step m A s op).1.dim = s.dim := by
      have := congrArg Flat.State.dim hsim
      simp only [pqToFlat] at this
      rw [this, Flat.step_dim]
    rw [hdim]

/-- an untrained PQ index rejects every Add and keeps its state -/
theorem pq_untrained_add (m : Metric (List S) S) (A : Arith S) (s : PQ.State S) (ht : s.trained = false)
    (id : Id) (v : List S) : PQ.step m A s (.add id v) = (s, PQ.Out.err .untrained) := by
  simp [PQ.step, ht]

end Comet.Hybrid
