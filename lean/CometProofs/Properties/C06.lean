/-
  C06 — Writes are all-or-nothing, removals are total, and remove+add updates a document.

  ONLY property theorems and non-vacuity examples.  Model: Comet/Hybrid.lean (the write
  path of hybrid_search_index.go over visibility models of the sub-indexes, as repaired by
  the comet commits "fix: re-adding a soft-deleted id …" and "fix: a rejected Add leaves
  no partial document behind …").  `observe s id` is what searches can reveal under `id`
  in the three modalities.
-/
import CometProofs.Hybrid
namespace Comet.Hybrid

variable {V T M : Type}

/-! ## 1. all-or-nothing adds -/

/-- A failed Add / AddWithID leaves the WHOLE state untouched (hence every later result). -/
theorem add_fail_unchanged (p : Params V M) (s : State V T M) (id : Id) (d : Doc V T M)
    (h : (addInternal p s id d).2.isSome) : (addInternal p s id d).1 = s := by
  unfold addInternal at *
  by_cases hb : badMeta p s d = true
  · simp [hb]
  · simp only [hb, Bool.false_eq_true, if_false] at h ⊢
    by_cases h1 : (addVec p s id d).2.2.isSome = true
    · simp only [h1, if_true]
      exact addVec_err p s id d h1
    · simp only [h1, Bool.false_eq_true, if_false] at h ⊢
      have hbad : badMeta p (addTxt (addVec p s id d).1 id d).1 d = false := by
        rw [badMeta_congr p s _ d]
        · simpa using hb
        · rw [(addTxt_frame _ id d).2.1, (addVec_frame p s id d).2.1]
      have hok := addMeta_ok_of_not_bad p _ id d hbad
      simp [hok] at h

/-- The same statement is FALSE of the unrepaired addInternal (no up-front validation):
    a bad metadata value after a good vector leaves the vector findable. -/
theorem add_old_not_atomic :
    ∃ (p : Params Nat Nat) (s : State Nat Nat Nat) (id : Id) (d : Doc Nat Nat Nat),
      (addInternalOld p s id d).2.isSome ∧ vecVisible (addInternalOld p s id d).1 id ≠ vecVisible s id :=
  ⟨⟨fun v => .ok v, fun m => m != 0⟩, init true true true 0, 7, ⟨some 5, some 1, some 0⟩, by decide⟩

/-- A successful add makes the document findable through every modality it supplied:
    its (preprocessed) vector is the last one visible under the id, its text is THE text
    visible under the id, its metadata entry is the last one visible under the id. -/
theorem add_success_findable (p : Params V M) (s : State V T M) (id : Id) (d : Doc V T M)
    (h : (addInternal p s id d).2 = none) :
    (∀ x v, s.vec = some x → d.vec = some v →
        ∃ v', p.vpre v = .ok v' ∧ vecVisible (addInternal p s id d).1 id = vecVisible s id ++ [v']) ∧
    (∀ x t, s.txt = some x → d.txt = some t → txtVisible (addInternal p s id d).1 id = some t) ∧
    (∀ x m, s.mdx = some x → d.md = some m →
        metaVisible (addInternal p s id d).1 id = metaVisible s id ++ [m]) := by
  unfold addInternal at *
  by_cases hb : badMeta p s d = true
  · simp [hb] at h
  · simp only [hb, Bool.false_eq_true, if_false] at h ⊢
    by_cases h1 : (addVec p s id d).2.2.isSome = true
    · simp only [h1, if_true] at h
      simp [h] at h1
    · simp only [h1, Bool.false_eq_true, if_false] at h ⊢
      by_cases h3 : (addMeta p (addTxt (addVec p s id d).1 id d).1 id d).2.2.isSome = true
      · simp only [h3, if_true] at h
        simp [h] at h3
      · simp only [h3, Bool.false_eq_true, if_false]
        have fv := addVec_frame p s id d
        have ft := addTxt_frame (addVec p s id d).1 id d
        have fm := addMeta_frame p (addTxt (addVec p s id d).1 id d).1 id d
        refine ⟨?_, ?_, ?_⟩
        · intro x v hx hv
          have h1' : (addVec p s id d).2.2 = none := by
            cases he : (addVec p s id d).2.2 with
            | none => rfl
            | some e => simp [he] at h1
          rw [addVec_some p s id d x v hx hv] at h1'
          obtain ⟨v', hv'⟩ := (VecIdx.add_ok_iff p.vpre x id v).1 h1'
          refine ⟨v', hv', ?_⟩
          simp only [vecVisible, fm.1, ft.1]
          rw [addVec_some p s id d x v hx hv]
          simp only [hx]
          rw [VecIdx.visible_add p.vpre x id v v' hv' id]
          simp
        · intro x t hx ht
          simp only [txtVisible, fm.2.1]
          have hx' : (addVec p s id d).1.txt = some x := by rw [fv.1]; exact hx
          rw [addTxt_some _ id d x t hx' ht]
          simp only
          rw [TxtIdx.visible_add x id t id]
          simp
        · intro x m hx hm
          have hx' : (addTxt (addVec p s id d).1 id d).1.mdx = some x := by
            rw [ft.2.1, fv.2.1]; exact hx
          have h3' : (addMeta p (addTxt (addVec p s id d).1 id d).1 id d).2.2 = none := by
            cases he : (addMeta p (addTxt (addVec p s id d).1 id d).1 id d).2.2 with
            | none => rfl
            | some e => simp [he] at h3
          rw [addMeta_some p _ id d x m hx' hm] at h3' ⊢
          have hm' := (MetaIdx.add_ok_iff p.mok x id m).1 h3'
          simp only [metaVisible, hx]
          rw [MetaIdx.visible_add p.mok x id m hm' id]
          simp

/-- `Add` returns an id never returned before: the counter value after the call, which
    strictly increases with every `Add` (successful or not) and is untouched by every
    other operation.  (Uniqueness across goroutines is C11's `ids_unique`.) -/
theorem auto_ids_fresh (p : Params V M) (s : State V T M) (d : Doc V T M) :
    (step p s (.add d)).2.id = some (s.counter + 1) ∧
    (step p s (.add d)).1.counter = s.counter + 1 := by
  refine ⟨rfl, ?_⟩
  simp only [step]
  unfold addInternal
  by_cases hb : badMeta p { s with counter := s.counter + 1 } d = true
  · simp [hb]
  · simp only [hb, Bool.false_eq_true, if_false]
    by_cases h1 : (addVec p { s with counter := s.counter + 1 } (s.counter + 1) d).2.2.isSome = true
    · simp only [h1, if_true]
      rw [(addVec_frame p _ _ d).2.2.2]
    · simp only [h1, Bool.false_eq_true, if_false]
      split
      · rw [(addMeta_frame p _ _ d).2.2.2, (addTxt_frame _ _ d).2.2.2, (addVec_frame p _ _ d).2.2.2]
      · simp only
        rw [(addMeta_frame p _ _ d).2.2.2, (addTxt_frame _ _ d).2.2.2, (addVec_frame p _ _ d).2.2.2]

theorem counter_monotone (p : Params V M) (s : State V T M) (op : Op V T M) :
    s.counter ≤ (step p s op).1.counter := by
  cases op with
  | add d => rw [(auto_ids_fresh p s d).2]; omega
  | addWithID id d =>
    simp only [step]
    unfold addInternal
    by_cases hb : badMeta p s d = true
    · simp [hb]
    · simp only [hb, Bool.false_eq_true, if_false]
      by_cases h1 : (addVec p s id d).2.2.isSome = true
      · simp only [h1, if_true]; rw [(addVec_frame p _ _ d).2.2.2]; omega
      · simp only [h1, Bool.false_eq_true, if_false]
        split
        · rw [(addMeta_frame p _ _ d).2.2.2, (addTxt_frame _ _ d).2.2.2, (addVec_frame p _ _ d).2.2.2]
          omega
        · simp only
          rw [(addMeta_frame p _ _ d).2.2.2, (addTxt_frame _ _ d).2.2.2, (addVec_frame p _ _ d).2.2.2]
          omega
  | remove id =>
    simp only [step, remove]
    split
    · simp
    · split
      · simp only [removeVec]; split
        · split <;> simp
        · simp
      · simp only [removeMeta, removeTxt, removeVec]
        repeat' split
        all_goals simp
  | flush => simp [step, flush]

/-! ## 2. removals are total -/

/-- Remove of an unknown (never added or already removed) id fails and changes nothing. -/
theorem remove_unknown_noeffect (s : State V T M) (id : Id) (h : s.info id = none) :
    remove s id = (s, some .notFound) := by
  unfold remove; simp [h]

/-- Whatever makes Remove fail, it leaves the state untouched. -/
theorem remove_fail_unchanged (s : State V T M) (id : Id) (h : (remove s id).2.isSome) :
    (remove s id).1 = s := by
  unfold remove at *
  cases hi : s.info id with
  | none => simp
  | some inf =>
    simp only [hi] at h ⊢
    by_cases h1 : (removeVec s id inf).2.isSome = true
    · simp only [h1, if_true]
      unfold removeVec at *
      cases hx : s.vec with
      | none => simp
      | some x =>
        simp only [hx] at h1 ⊢
        by_cases hv : inf.hasVector = true
        · simp only [hv, if_true] at h1 ⊢
          rw [VecIdx.remove_err x id h1]
          exact State.set_vec_self s x hx
        · simp [hv]
    · simp [h1] at h

/-- A successful Remove makes the document unfindable in ALL modalities at once … -/
theorem remove_total (s : State V T M) (hinv : Inv s) (id : Id) (h : (remove s id).2 = none) :
    observe (remove s id).1 id = ([], none, []) := by
  have hI := hinv id
  unfold remove at *
  cases hi : s.info id with
  | none => simp [hi] at h
  | some inf =>
    simp only [hi] at h hI ⊢
    by_cases h1 : (removeVec s id inf).2.isSome = true
    · simp only [h1, if_true] at h; simp [h] at h1
    · simp only [h1, Bool.false_eq_true, if_false] at h ⊢
      have h1' : (removeVec s id inf).2 = none := by
        cases he : (removeVec s id inf).2 with
        | none => rfl
        | some e => simp [he] at h1
      -- frame facts
      have fvt : (removeVec s id inf).1.txt = s.txt ∧ (removeVec s id inf).1.mdx = s.mdx := by
        unfold removeVec; cases s.vec <;> simp <;> split <;> simp
      have ftv : ∀ s' : State V T M, (removeTxt s' id inf).vec = s'.vec ∧
          (removeTxt s' id inf).mdx = s'.mdx := by
        intro s'; unfold removeTxt; cases s'.txt <;> simp <;> split <;> simp
      have fmv : ∀ s' : State V T M, (removeMeta s' id inf).vec = s'.vec ∧
          (removeMeta s' id inf).txt = s'.txt := by
        intro s'; unfold removeMeta; cases s'.mdx <;> simp <;> split <;> simp
      simp only [observe, vecVisible, txtVisible, metaVisible, (fmv _).1, (fmv _).2, (ftv _).1]
      refine Prod.ext ?_ (Prod.ext ?_ ?_)
      · -- vector
        simp only
        unfold removeVec at h1' ⊢
        cases hx : s.vec with
        | none => simp [hx]
        | some x =>
          simp only [hx] at h1' ⊢
          by_cases hv : inf.hasVector = true
          · simp only [hv, if_true] at h1' ⊢
            rw [VecIdx.visible_remove x id h1' id]; simp
          · simp only [hv, Bool.false_eq_true, if_false, hx]
            have := hI.2.1 (by simpa using hv)
            simpa [vecVisible, hx] using this
      · -- text
        simp only
        unfold removeTxt
        rw [fvt.1]
        cases hx : s.txt with
        | none => simp [fvt.1, hx]
        | some x =>
          simp only
          by_cases ht : inf.hasText = true
          · simp only [ht, if_true]
            rw [TxtIdx.visible_remove x id id]; simp
          · simp only [ht, Bool.false_eq_true, if_false, fvt.1, hx]
            have := hI.2.2.1 (by simpa using ht)
            simpa [txtVisible, hx] using this
      · -- metadata
        simp only
        unfold removeMeta
        rw [(ftv _).2, fvt.2]
        cases hx : s.mdx with
        | none => simp [(ftv _).2, fvt.2, hx]
        | some x =>
          simp only
          by_cases hm : inf.hasMeta = true
          · simp only [hm, if_true]
            rw [MetaIdx.visible_remove x id id]; simp
          · simp only [hm, Bool.false_eq_true, if_false, (ftv _).2, fvt.2, hx]
            have := hI.2.2.2 (by simpa using hm)
            simpa [metaVisible, hx] using this

/-- … and Remove of a known id always succeeds (it is not refused by a sub-index). -/
theorem remove_known_succeeds (s : State V T M) (hinv : Inv s) (id : Id) (inf : Info)
    (hi : s.info id = some inf) : (remove s id).2 = none := by
  have hI := hinv id
  simp only [hi] at hI
  unfold remove
  simp only [hi]
  have h1 : (removeVec s id inf).2 = none := by
    unfold removeVec
    cases hx : s.vec with
    | none => simp
    | some x =>
      simp only
      by_cases hv : inf.hasVector = true
      · simp only [hv, if_true]
        apply VecIdx.remove_ok_of_visible
        have := hI.1 hv
        simpa [vecVisible, hx] using this
      · simp [hv]
  simp [h1]

/-- After a successful Remove the id has no docInfo any more, so a second Remove fails
    without effect (`remove_unknown_noeffect`). -/
theorem remove_clears_info (s : State V T M) (id : Id) (h : (remove s id).2 = none) :
    (remove s id).1.info id = none := by
  unfold remove at *
  cases hi : s.info id with
  | none => simp [hi] at h
  | some inf =>
    simp only [hi] at h ⊢
    by_cases h1 : (removeVec s id inf).2.isSome = true
    · simp only [h1, if_true] at h; simp [h] at h1
    · simp [h1]

/-! ## 3. every reachable state is consistent; removed ids stay unfindable; re-adding works -/

/-- flushing changes no observation -/
theorem flush_observe (s : State V T M) (j : Id) : observe (flush s) j = observe s j := by
  simp only [observe, flush, vecVisible, txtVisible, metaVisible]
  cases s.vec <;> cases s.txt <;> simp

theorem inv_init (hv ht hm : Bool) (c : Nat) : Inv (init hv ht hm c : State V T M) := by
  intro j
  simp only [init, vecVisible, txtVisible, metaVisible]
  cases hv <;> cases ht <;> cases hm <;>
    simp [VecIdx.visible, VecIdx.empty, TxtIdx.visible, TxtIdx.empty, MetaIdx.visible, MetaIdx.empty]

theorem inv_flush (s : State V T M) (h : Inv s) : Inv (flush s) := by
  intro j
  have hj := h j
  have ho := flush_observe s j
  simp only [observe, Prod.mk.injEq] at ho
  have hinfo : (flush s).info = s.info := rfl
  rw [hinfo, ho.1, ho.2.1, ho.2.2]
  exact hj

/-- observations of ids other than the target are untouched by Remove -/
theorem remove_other (s : State V T M) (id j : Id) (hj : j ≠ id) :
    observe (remove s id).1 j = observe s j ∧ (remove s id).1.info j = s.info j := by
  by_cases he : (remove s id).2.isSome = true
  · rw [remove_fail_unchanged s id he]; exact ⟨rfl, rfl⟩
  · have h : (remove s id).2 = none := by
      cases hh : (remove s id).2 with
      | none => rfl
      | some e => simp [hh] at he
    unfold remove at *
    cases hi : s.info id with
    | none => simp [hi] at h
    | some inf =>
      simp only [hi] at h ⊢
      by_cases h1 : (removeVec s id inf).2.isSome = true
      · simp only [h1, if_true] at h; simp [h] at h1
      · simp only [h1, Bool.false_eq_true, if_false]
        have h1' : (removeVec s id inf).2 = none := by
          cases hh : (removeVec s id inf).2 with
          | none => rfl
          | some e => simp [hh] at h1
        have fvt : (removeVec s id inf).1.txt = s.txt ∧ (removeVec s id inf).1.mdx = s.mdx ∧
            (removeVec s id inf).1.info = s.info := by
          unfold removeVec; cases s.vec <;> simp <;> split <;> simp
        have ftv : ∀ s' : State V T M, (removeTxt s' id inf).vec = s'.vec ∧
            (removeTxt s' id inf).mdx = s'.mdx ∧ (removeTxt s' id inf).info = s'.info := by
          intro s'; unfold removeTxt; cases s'.txt <;> simp <;> split <;> simp
        have fmv : ∀ s' : State V T M, (removeMeta s' id inf).vec = s'.vec ∧
            (removeMeta s' id inf).txt = s'.txt ∧ (removeMeta s' id inf).info = s'.info := by
          intro s'; unfold removeMeta; cases s'.mdx <;> simp <;> split <;> simp
        refine ⟨?_, ?_⟩
        · simp only [observe, vecVisible, txtVisible, metaVisible, (fmv _).1, (fmv _).2.1, (ftv _).1]
          refine Prod.ext ?_ (Prod.ext ?_ ?_)
          · simp only
            unfold removeVec at h1' ⊢
            cases hx : s.vec with
            | none => simp [hx]
            | some x =>
              simp only [hx] at h1' ⊢
              by_cases hv : inf.hasVector = true
              · simp only [hv, if_true] at h1' ⊢
                rw [VecIdx.visible_remove x id h1' j]; simp [hj]
              · simp [hv, hx]
          · simp only
            unfold removeTxt
            rw [fvt.1]
            cases hx : s.txt with
            | none => simp [fvt.1, hx]
            | some x =>
              simp only
              by_cases ht : inf.hasText = true
              · simp only [ht, if_true]
                rw [TxtIdx.visible_remove x id j]; simp [hj]
              · simp [ht, fvt.1, hx]
          · simp only
            unfold removeMeta
            rw [(ftv _).2.1, fvt.2.1]
            cases hx : s.mdx with
            | none => simp [(ftv _).2.1, fvt.2.1, hx]
            | some x =>
              simp only
              by_cases hm : inf.hasMeta = true
              · simp only [hm, if_true]
                rw [MetaIdx.visible_remove x id j]; simp [hj]
              · simp [hm, (ftv _).2.1, fvt.2.1, hx]
        · simp [hj, (fmv _).2.2, (ftv _).2.2, fvt.2.2]

theorem inv_remove (s : State V T M) (h : Inv s) (id : Id) : Inv (remove s id).1 := by
  by_cases he : (remove s id).2.isSome = true
  · rw [remove_fail_unchanged s id he]; exact h
  · have hok : (remove s id).2 = none := by
      cases hh : (remove s id).2 with
      | none => rfl
      | some e => simp [hh] at he
    intro j
    by_cases hj : j = id
    · subst hj
      rw [remove_clears_info s j hok]
      have := remove_total s h j hok
      simp only [observe, Prod.mk.injEq] at this
      exact this
    · have := remove_other s id j hj
      simp only [observe, Prod.mk.injEq] at this
      rw [this.2, this.1.1, this.1.2.1, this.1.2.2]
      exact h j

/-- observations of ids other than the target are untouched by Add / AddWithID -/
theorem add_other (p : Params V M) (s : State V T M) (id : Id) (d : Doc V T M) (j : Id)
    (hj : j ≠ id) :
    observe (addInternal p s id d).1 j = observe s j ∧
    (addInternal p s id d).1.info j = s.info j := by
  by_cases he : (addInternal p s id d).2.isSome = true
  · rw [add_fail_unchanged p s id d he]; exact ⟨rfl, rfl⟩
  · have hok : (addInternal p s id d).2 = none := by
      cases hh : (addInternal p s id d).2 with
      | none => rfl
      | some e => simp [hh] at he
    obtain ⟨h1, h3, heq⟩ := addInternal_ok p s id d hok
    rw [heq]
    have fv := addVec_frame p s id d
    have ft := addTxt_frame (addVec p s id d).1 id d
    have fm := addMeta_frame p (addTxt (addVec p s id d).1 id d).1 id d
    refine ⟨?_, ?_⟩
    · simp only [observe]
      refine Prod.ext ?_ (Prod.ext ?_ ?_)
      · show vecVisible _ j = vecVisible s j
        have : vecVisible (addVec p s id d).1 j = vecVisible s j :=
          vecVisible_addVec_other p s id d h1 j (Or.inl hj)
        simpa [vecVisible, fm.1, ft.1] using this
      · show txtVisible _ j = txtVisible s j
        have : txtVisible (addTxt (addVec p s id d).1 id d).1 j = txtVisible (addVec p s id d).1 j :=
          txtVisible_addTxt_other _ id d j (Or.inl hj)
        simpa [txtVisible, fm.2.1, fv.1] using this
      · show metaVisible _ j = metaVisible s j
        have : metaVisible (addMeta p (addTxt (addVec p s id d).1 id d).1 id d).1 j =
            metaVisible (addTxt (addVec p s id d).1 id d).1 j :=
          metaVisible_addMeta_other p _ id d h3 j (Or.inl hj)
        simpa [metaVisible, ft.2.1, fv.2.1] using this
    · simp [hj, fm.2.2.1, ft.2.2.1, fv.2.2.1]

/-- Re-adding (or first adding) an id that has no docInfo: afterwards exactly the new
    content is findable under the id — the new vector alone, the new text, the new
    metadata entry alone; a modality that was not supplied (or is not configured) shows
    nothing.  With `flush_observe` this holds both before and after a flush, and with
    `remove_total`/`remove_clears_info` it is the "update = remove + add" clause. -/
theorem readd_visible (p : Params V M) (s : State V T M) (hinv : Inv s) (id : Id)
    (d : Doc V T M) (hfree : s.info id = none) (hok : (addInternal p s id d).2 = none) :
    (vecVisible (addInternal p s id d).1 id =
        match s.vec, d.vec with
        | some _, some v => (match p.vpre v with | .ok v' => [v'] | .error _ => [])
        | _, _ => []) ∧
    (txtVisible (addInternal p s id d).1 id =
        match s.txt, d.txt with
        | some _, some t => some t
        | _, _ => none) ∧
    (metaVisible (addInternal p s id d).1 id =
        match s.mdx, d.md with
        | some _, some m => [m]
        | _, _ => []) := by
  have hI := hinv id
  simp only [hfree] at hI
  have hfind := add_success_findable p s id d hok
  obtain ⟨h1, h3, heq⟩ := addInternal_ok p s id d hok
  have fv := addVec_frame p s id d
  have ft := addTxt_frame (addVec p s id d).1 id d
  have fm := addMeta_frame p (addTxt (addVec p s id d).1 id d).1 id d
  refine ⟨?_, ?_, ?_⟩
  · cases hx : s.vec with
    | none =>
      simp only
      rw [heq]
      have := vecVisible_addVec_other p s id d h1 id (Or.inr (by
        rw [addVec_none p s id d (Or.inl hx)]))
      simp only [vecVisible, fm.1, ft.1] at this ⊢
      rw [this]; simpa [vecVisible] using hI.1
    | some x =>
      cases hv : d.vec with
      | none =>
        simp only
        rw [heq]
        have := vecVisible_addVec_other p s id d h1 id (Or.inr (by
          rw [addVec_none p s id d (Or.inr hv)]))
        simp only [vecVisible, fm.1, ft.1] at this ⊢
        rw [this]; simpa [vecVisible] using hI.1
      | some v =>
        obtain ⟨v', hv', hvis⟩ := hfind.1 x v hx hv
        simp only [hv']
        rw [hvis, hI.1]; rfl
  · cases hx : s.txt with
    | none =>
      simp only
      rw [heq]
      have := txtVisible_addTxt_other (addVec p s id d).1 id d id (Or.inr (by
        rw [addTxt_none _ id d (Or.inl (by rw [fv.1]; exact hx))]))
      simp only [txtVisible, fm.2.1] at this ⊢
      rw [this, fv.1]; simpa [txtVisible] using hI.2.1
    | some x =>
      cases ht : d.txt with
      | none =>
        simp only
        rw [heq]
        have := txtVisible_addTxt_other (addVec p s id d).1 id d id (Or.inr (by
          rw [addTxt_none _ id d (Or.inr ht)]))
        simp only [txtVisible, fm.2.1] at this ⊢
        rw [this, fv.1]; simpa [txtVisible] using hI.2.1
      | some t => exact hfind.2.1 x t hx ht
  · cases hx : s.mdx with
    | none =>
      simp only
      rw [heq]
      have := metaVisible_addMeta_other p (addTxt (addVec p s id d).1 id d).1 id d h3 id (Or.inr (by
        rw [addMeta_none p _ id d (Or.inl (by rw [ft.2.1, fv.2.1]; exact hx))]))
      simp only [metaVisible] at this ⊢
      rw [this, ft.2.1, fv.2.1]; simpa [metaVisible] using hI.2.2
    | some x =>
      cases hm : d.md with
      | none =>
        simp only
        rw [heq]
        have := metaVisible_addMeta_other p (addTxt (addVec p s id d).1 id d).1 id d h3 id (Or.inr (by
          rw [addMeta_none p _ id d (Or.inr hm)]))
        simp only [metaVisible] at this ⊢
        rw [this, ft.2.1, fv.2.1]; simpa [metaVisible] using hI.2.2
      | some m =>
        rw [hfind.2.2 x m hx hm, hI.2.2]; rfl

theorem inv_add (p : Params V M) (s : State V T M) (hinv : Inv s) (id : Id) (d : Doc V T M)
    (hfree : s.info id = none) : Inv (addInternal p s id d).1 := by
  by_cases he : (addInternal p s id d).2.isSome = true
  · rw [add_fail_unchanged p s id d he]; exact hinv
  · have hok : (addInternal p s id d).2 = none := by
      cases hh : (addInternal p s id d).2 with
      | none => rfl
      | some e => simp [hh] at he
    intro j
    by_cases hj : j = id
    · subst hj
      obtain ⟨hv, ht, hm⟩ := readd_visible p s hinv j d hfree hok
      obtain ⟨h1, h3, heq⟩ := addInternal_ok p s j d hok
      have hinfo : (addInternal p s j d).1.info j =
          some ⟨(addVec p s j d).2.1, (addTxt (addVec p s j d).1 j d).2,
                (addMeta p (addTxt (addVec p s j d).1 j d).1 j d).2.1⟩ := by
        rw [heq]; simp
      rw [hinfo]
      have fv := addVec_frame p s j d
      have ft := addTxt_frame (addVec p s j d).1 j d
      refine ⟨?_, ?_, ?_, ?_⟩
      · intro hflag
        obtain ⟨x, v, hx, hvv⟩ := (addVec_flag p s j d).1 hflag
        obtain ⟨v', hv', hvis⟩ := (add_success_findable p s j d hok).1 x v hx hvv
        rw [hvis]; simp
      · intro hflag
        rw [hv]
        cases hx : s.vec with
        | none => rfl
        | some x =>
          cases hvv : d.vec with
          | none => rfl
          | some v =>
            have := (addVec_flag p s j d).2 ⟨x, v, hx, hvv⟩
            simp [this] at hflag
      · intro hflag
        rw [ht]
        cases hx : s.txt with
        | none => rfl
        | some x =>
          cases htt : d.txt with
          | none => rfl
          | some t =>
            have := (addTxt_flag (addVec p s j d).1 j d).2 ⟨x, t, by rw [fv.1]; exact hx, htt⟩
            simp [this] at hflag
      · intro hflag
        rw [hm]
        cases hx : s.mdx with
        | none => rfl
        | some x =>
          cases hmm : d.md with
          | none => rfl
          | some m =>
            have := (addMeta_flag p (addTxt (addVec p s j d).1 j d).1 j d).2
              ⟨x, m, by rw [ft.2.1, fv.2.1]; exact hx, hmm⟩
            simp [this] at hflag
    · have := add_other p s id d j hj
      simp only [observe, Prod.mk.injEq] at this
      rw [this.2, this.1.1, this.1.2.1, this.1.2.2]
      exact hinv j

/-- the quantifier of C06: an id is (re)used for an add only while it has no docInfo,
    i.e. it was never added or has been removed since -/
def StepOK (s : State V T M) : Op V T M → Prop
  | .add _ => s.info (s.counter + 1) = none
  | .addWithID id _ => s.info id = none
  | _ => True

def RunOK (p : Params V M) : State V T M → List (Op V T M) → Prop
  | _, [] => True
  | s, op :: t => StepOK s op ∧ RunOK p (step p s op).1 t

theorem inv_step (p : Params V M) (s : State V T M) (hinv : Inv s) (op : Op V T M)
    (hok : StepOK s op) : Inv (step p s op).1 := by
  cases op with
  | add d =>
    simp only [step]
    apply inv_add
    · exact hinv
    · exact hok
  | addWithID id d => exact inv_add p s hinv id d hok
  | remove id => exact inv_remove s hinv id
  | flush => exact inv_flush s hinv

/-- every state reachable by a history within C06's quantifier is consistent -/
theorem inv_run (p : Params V M) (s : State V T M) (hinv : Inv s) (ops : List (Op V T M))
    (hok : RunOK p s ops) : Inv (run p s ops) := by
  induction ops generalizing s with
  | nil => exact hinv
  | cons op t ih =>
    simp only [run, List.foldl_cons]
    exact ih (step p s op).1 (inv_step p s hinv op hok.1) hok.2

/-- which id an op (re)adds, if any -/
def addTarget (s : State V T M) : Op V T M → Option Id
  | .add _ => some (s.counter + 1)
  | .addWithID id _ => some id
  | _ => none

def NoAddOf (p : Params V M) (id : Id) : State V T M → List (Op V T M) → Prop
  | _, [] => True
  | s, op :: t => addTarget s op ≠ some id ∧ NoAddOf p id (step p s op).1 t

/-- "… immediately and for good": once an id has no docInfo (never added, or removed) it
    stays unfindable in every modality through any later history that does not add it
    again — flushes, other adds and other removals included. -/
theorem removed_stays_unfindable (p : Params V M) (s : State V T M) (hinv : Inv s) (id : Id)
    (hfree : s.info id = none) (ops : List (Op V T M)) (hok : RunOK p s ops)
    (hno : NoAddOf p id s ops) :
    observe (run p s ops) id = ([], none, []) ∧ (run p s ops).info id = none := by
  induction ops generalizing s with
  | nil =>
    have := hinv id
    simp only [hfree] at this
    exact ⟨by simp only [run, List.foldl_nil, observe, this.1, this.2.1, this.2.2], hfree⟩
  | cons op t ih =>
    simp only [run, List.foldl_cons]
    apply ih (step p s op).1 (inv_step p s hinv op hok.1) _ hok.2 hno.2
    cases op with
    | add d =>
      have hne : id ≠ s.counter + 1 := fun h => hno.1 (by simp [addTarget, h])
      have := add_other p { s with counter := s.counter + 1 } (s.counter + 1) d id hne
      simp only [step]
      rw [this.2]; exact hfree
    | addWithID i d =>
      have hne : id ≠ i := fun h => hno.1 (by simp [addTarget, h])
      have := add_other p s i d id hne
      simp only [step]
      rw [this.2]; exact hfree
    | remove i =>
      simp only [step]
      by_cases hi : id = i
      · subst hi
        rw [remove_unknown_noeffect s id hfree]; exact hfree
      · rw [(remove_other s i id hi).2]; exact hfree
    | flush => exact hfree

/-! ## 4. each underlying index on its own: remove + add replaces, before and after a flush -/

theorem vec_readd_visible (vpre : V → Except Err V) (x : VecIdx V) (id : Id) (v v' : V)
    (hr : (x.remove id).2 = none) (hv : vpre v = .ok v') (flushBetween flushAfter : Bool) :
    let x1 := (x.remove id).1
    let x2 := if flushBetween then x1.flush else x1
    let x3 := (x2.add vpre id v).1
    let x4 := if flushAfter then x3.flush else x3
    (x2.add vpre id v).2 = none ∧ x4.visible id = [v'] := by
  intro x1 x2 x3 x4
  have h1 : x1.visible id = [] := by
    have := VecIdx.visible_remove x id hr id; simpa using this
  have h2 : x2.visible id = [] := by
    cases flushBetween <;> simp [x2, h1]
  refine ⟨(VecIdx.add_ok_iff vpre x2 id v).2 ⟨v', hv⟩, ?_⟩
  have h3 : x3.visible id = [v'] := by
    have := VecIdx.visible_add vpre x2 id v v' hv id
    simpa [h2] using this
  cases flushAfter <;> simp [x4, h3]

theorem txt_readd_visible (x : TxtIdx T) (id : Id) (t : T) (flushBetween flushAfter : Bool) :
    let x1 := x.remove id
    let x2 := if flushBetween then x1.flush else x1
    let x3 := x2.add id t
    let x4 := if flushAfter then x3.flush else x3
    x4.visible id = some t := by
  intro x1 x2 x3 x4
  have h3 : x3.visible id = some t := by
    have := TxtIdx.visible_add x2 id t id; simpa using this
  cases flushAfter <;> simp [x4, h3]

theorem meta_readd_visible (mok : M → Bool) (x : MetaIdx M) (id : Id) (m : M) (hm : mok m = true) :
    (((x.remove id).add mok id m).1).visible id = [m] ∧ ((x.remove id).add mok id m).2 = none := by
  refine ⟨?_, (MetaIdx.add_ok_iff mok _ id m).2 hm⟩
  have := MetaIdx.visible_add mok (x.remove id) id m hm id
  rw [this, MetaIdx.visible_remove x id id]; simp

/-- metadata Add is atomic on its own: a rejected node changes nothing -/
theorem meta_add_fail_unchanged (mok : M → Bool) (x : MetaIdx M) (id : Id) (m : M)
    (h : (x.add mok id m).2.isSome) : (x.add mok id m).1 = x :=
  MetaIdx.add_err mok x id m h

/-! ## non-vacuity: a concrete history inside the quantifier (add, failing add, remove,
    re-add with a flush between) and what is observable afterwards -/
section Example
def exP : Params Nat Nat := ⟨fun v => if v = 0 then .error .zero else .ok (v * 10), fun m => m != 0⟩
def exOps : List (Op Nat String Nat) :=
  [.addWithID 7 ⟨some 1, some "a", some 5⟩,      -- ok
   .addWithID 8 ⟨some 0, some "b", some 5⟩,      -- vector rejected (1st sub-index)
   .addWithID 9 ⟨some 2, some "c", some 0⟩,      -- metadata rejected (3rd sub-index)
   .remove 7, .flush,
   .addWithID 7 ⟨some 3, none, some 6⟩,          -- update = remove + add, text dropped
   .add ⟨some 4, some "d", none⟩]                 -- auto id 1

instance (s : State V T M) (op : Op V T M) : Decidable (StepOK s op) := by
  cases op <;> simp only [StepOK] <;> infer_instance

instance decRunOK (p : Params V M) : (s : State V T M) → (ops : List (Op V T M)) →
    Decidable (RunOK p s ops)
  | _, [] => isTrue trivial
  | s, op :: t => by
    simp only [RunOK]
    exact @instDecidableAnd _ _ _ (decRunOK p _ t)

example : RunOK exP (init true true true 0) exOps := by decide
example : Inv (run exP (init true true true 0) exOps) :=
  inv_run exP _ (inv_init true true true 0) exOps (by decide)
example : observe (run exP (init true true true 0) exOps) 7 = ([30], none, [6]) := by decide
example : observe (run exP (init true true true 0) exOps) 8 = ([], none, []) := by decide
example : observe (run exP (init true true true 0) exOps) 9 = ([], none, []) := by decide
example : observe (run exP (init true true true 0) exOps) 1 = ([40], some "d", []) := by decide
end Example

end Comet.Hybrid
