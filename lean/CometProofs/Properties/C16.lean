/-
  C16 — truncated or mismatched serialised data is rejected, never half-accepted.

  ONLY property theorems and non-vacuity examples live here.  Models: Comet/Codec/*
  (the decoders of C07); helper lemmas: CometProofs/Codec/*.

  Reading guide.  `K.decodeC bm p inp` is `ReadFrom` of a fresh receiver of kind `K`
  constructed with parameters `p`, applied to the byte stream `inp` (everything the
  reader will ever deliver: a truncated file IS its prefix); `.error e` is "ReadFrom
  returned an error", `IsErr x` is "some error".  The decoders are total functions,
  structurally recursive on counts they have read (`CP.repeat`), and a Go panic is an
  explicit `Err.panic` outcome: totality is the model-level "never hangs, never
  panics".  `bm` (roaring's blob codec) is a parameter; no hypothesis about it is
  needed for rejection except where a round trip is quoted.

  Segment clause: a segment is loaded by `hybridSearchIndex.ReadFrom` over the
  concatenation of its four (gunzipped) component files; a truncated / empty / missing
  component ends that concatenation early, i.e. the reader delivers a strict prefix of
  the valid concatenation (`segment_component_truncated_rejected`).  That gzip delivers
  a prefix followed by an error, that `getIndex` then caches nothing, and what a search
  over the store returns afterwards are checked on the real code by the correspondence
  stream `trunc` (see the manifest text for the shared-template finding D13).
-/
import CometProofs.Codec.Mismatch
import CometProofs.Properties.C07
import CometProofs.Codec.Example
namespace Comet.Codec.C16
open Comet.Codec

variable (bm : BlobCodec) (dom : List Nat → Prop)

/-! ## combinator level, proved once -/

/-- the bundled invariant gives the two properties of the design -/
theorem good_stable_strict {α : Type} {p : Parser α} (h : Good p) : Stable p ∧ Strict p :=
  ⟨h.stable, h.strict⟩

/-- … holds for the primitives -/
theorem primitives_good (n : Nat) :
    Good (bytes n) ∧ Good u8 ∧ Good u32le ∧ Good i32le ∧ Good u64le ∧ Good f32bits ∧
    Good f64bits ∧ Good lenPrefixedBytes :=
  ⟨Good.bytes n, Good.u8, Good.u32le, Good.i32le, Good.u64le, Good.f32bits, Good.f64bits,
   Good.lenPrefixedBytes⟩

/-- … and is preserved by bind, repeat, guard / equality checks and if -/
theorem bind_good {α β : Type} {p : Parser α} {f : α → Parser β} (hp : Good p)
    (hf : ∀ a, Good (f a)) : Good (p.bind f) := Good.bind hp hf
theorem repeat_good {α : Type} (n : Nat) {p : Parser α} (hp : Good p) : Good («repeat» n p) :=
  Good.repeat n hp
theorem guard_good (c : Bool) (e : Err) : Good (guard c e) := Good.guard c e
theorem eqCheck_good {α : Type} [BEq α] (x want : α) (e : Err) : Good (eqCheck x want e) :=
  Good.eqCheck x want e
theorem ite_good {α : Type} {c : Prop} [Decidable c] {p q : Parser α} (hp : Good p) (hq : Good q) :
    Good (if c then p else q) := Good.ite hp hq

/-- every decoder of the eight kinds is built from these: `Stable` and `Strict` -/
theorem decoders_good (r : Recv) : Good (r.decodeC bm) := by
  cases r <;> simp only [Recv.decodeC]
  · exact Good.cp_map _ (Flat.good_decodeC bm _)
  · exact Good.cp_map _ (HNSW.good_decodeC bm _)
  · exact Good.cp_map _ (IVF.good_decodeC bm _)
  · exact Good.cp_map _ (PQ.good_decodeC bm _)
  · exact Good.cp_map _ (IVFPQ.good_decodeC bm _ _)
  · exact Good.cp_map _ (BM25.good_decodeC bm)
  · exact Good.cp_map _ (Meta.good_decodeC bm)
  · exact Good.cp_map _ (Hybrid.good_decodeC bm _)

/-! ## every strict prefix of a valid stream is rejected -/

theorem strict_prefix_rejected_flat (hbm : bm.Lawful dom) (h0 : dom []) (s : Flat.State)
    (hwf : Flat.wf s = true) (n : Nat) (hn : n < (Flat.encode bm s).length) :
    IsErr (Flat.decode bm s.params ((Flat.encode bm s).take n)) := by
  have hr := Flat.reads_decodeC bm dom hbm (Flat.flush s) (Flat.wf_flush s hwf)
    (by rw [Flat.flush_deleted]; exact h0)
  rw [Flat.flush_params] at hr
  exact strict_prefix_run (Flat.good_decodeC bm _) hr n hn

theorem strict_prefix_rejected_hnsw (hbm : bm.Lawful dom) (h0 : dom []) (s : HNSW.State)
    (hwf : HNSW.wf s = true) (n : Nat) (hn : n < (HNSW.encode bm s).length) :
    IsErr (HNSW.decode bm s.params ((HNSW.encode bm s).take n)) := by
  have hr := HNSW.reads_decodeC bm dom hbm (HNSW.flush s) (HNSW.wf_flush s hwf)
    (by rw [HNSW.flush_deleted]; exact h0)
  rw [HNSW.flush_params] at hr
  exact strict_prefix_run (HNSW.good_decodeC bm _) hr n hn

theorem strict_prefix_rejected_ivf (hbm : bm.Lawful dom) (h0 : dom []) (s : IVF.State)
    (hwf : IVF.wf s = true) (n : Nat) (hn : n < (IVF.encode bm s).length) :
    IsErr (IVF.decode bm s.params ((IVF.encode bm s).take n)) := by
  have hr := IVF.reads_decodeC bm dom hbm (IVF.flush s) (IVF.wf_flush s hwf)
    (by rw [IVF.flush_deleted]; exact h0)
  rw [IVF.flush_params] at hr
  exact strict_prefix_run (IVF.good_decodeC bm _) hr n hn

theorem strict_prefix_rejected_pq (hbm : bm.Lawful dom) (h0 : dom []) (s : PQ.State)
    (hwf : PQ.wf s = true) (n : Nat) (hn : n < (PQ.encode bm s).length) :
    IsErr (PQ.decode bm s.params ((PQ.encode bm s).take n)) := by
  have hr := PQ.reads_decodeC bm dom hbm (PQ.flush s) (PQ.wf_flush s hwf)
    (by rw [PQ.flush_deleted]; exact h0)
  rw [PQ.flush_params] at hr
  exact strict_prefix_run (PQ.good_decodeC bm _) hr n hn

theorem strict_prefix_rejected_ivfpq (hbm : bm.Lawful dom) (h0 : dom []) (s : IVFPQ.State)
    (hwf : IVFPQ.wf s = true) (n : Nat) (hn : n < (IVFPQ.encode bm s).length) :
    IsErr (IVFPQ.decode bm s.params ((IVFPQ.encode bm s).take n)) := by
  have hr := IVFPQ.reads_decodeC bm dom hbm (IVFPQ.flush s) (IVFPQ.wf_flush s hwf)
    (by rw [IVFPQ.flush_deleted]; exact h0)
  rw [IVFPQ.flush_params] at hr
  exact strict_prefix_run (IVFPQ.good_decodeC bm _ _) hr n hn

theorem strict_prefix_rejected_bm25 (avg : Nat → Nat → Nat)
    (havg : ∀ t n, avg t n < 18446744073709551616) (hbm : bm.Lawful dom) (s : BM25.State)
    (hwf : BM25.wf s = true) (hdom : ∀ b ∈ BM25.bitmaps (BM25.flush avg s), dom b)
    (n : Nat) (hn : n < (BM25.encode avg bm s).length) :
    IsErr (BM25.decode bm ((BM25.encode avg bm s).take n)) :=
  strict_prefix_run (BM25.good_decodeC bm)
    (BM25.reads_decodeC bm dom hbm (BM25.flush avg s) (BM25.wf_flush avg havg s hwf) hdom) n hn

theorem strict_prefix_rejected_meta (hbm : bm.Lawful dom) (hne : Meta.NonEmpty bm dom)
    (s : Meta.State) (hwf : Meta.wf s = true) (hdom : ∀ b ∈ Meta.bitmaps s, dom b)
    (n : Nat) (hn : n < (Meta.encode bm s).length) :
    IsErr (Meta.decode bm ((Meta.encode bm s).take n)) :=
  strict_prefix_run (Meta.good_decodeC bm) (Meta.reads_decodeC bm dom hbm hne s hwf hdom) n hn

/-- hybrid, in the form `ReadFrom` sees it: the concatenation of the four streams -/
theorem strict_prefix_rejected_hybrid (avg : Nat → Nat → Nat)
    (havg : ∀ t n, avg t n < 18446744073709551616) (hbm : bm.Lawful dom)
    (hne : Meta.NonEmpty bm dom) (s : Hybrid.State) (hwf : Hybrid.wf s = true)
    (hdom : ∀ b ∈ Hybrid.bitmaps (Hybrid.flush avg s), dom b)
    (n : Nat) (hn : n < (Hybrid.encode avg bm s).length) :
    IsErr (Hybrid.decode bm s.params ((Hybrid.encode avg bm s).take n)) := by
  have hr := Hybrid.reads_decodeC bm dom hbm hne (Hybrid.flush avg s)
    (Hybrid.wf_flush avg havg s hwf) hdom
  rw [Hybrid.flush_params] at hr
  exact strict_prefix_run (Hybrid.good_decodeC bm _) hr n hn

/-- Segment level (model part): the four component streams of a segment are read as one
    concatenation; when component number `i` (0 = hybrid, 1 = vector, 2 = text,
    3 = metadata) is cut to a strict prefix — `n = 0` is the empty / missing file — the
    reader delivers the earlier components and that prefix, and `ReadFrom` fails. -/
theorem segment_component_truncated_rejected (avg : Nat → Nat → Nat)
    (havg : ∀ t n, avg t n < 18446744073709551616) (hbm : bm.Lawful dom)
    (hne : Meta.NonEmpty bm dom) (s : Hybrid.State) (hwf : Hybrid.wf s = true)
    (hdom : ∀ b ∈ Hybrid.bitmaps (Hybrid.flush avg s), dom b) (n : Nat) :
    let w := (Hybrid.writeTo avg bm s).2
    (n < w.1.length → IsErr (Hybrid.decode bm s.params (w.1.take n))) ∧
    (n < w.2.1.length → IsErr (Hybrid.decode bm s.params (w.1 ++ w.2.1.take n))) ∧
    (n < w.2.2.1.length →
      IsErr (Hybrid.decode bm s.params (w.1 ++ w.2.1 ++ w.2.2.1.take n))) ∧
    (n < w.2.2.2.length →
      IsErr (Hybrid.decode bm s.params (w.1 ++ w.2.1 ++ w.2.2.1 ++ w.2.2.2.take n))) := by
  intro w
  have henc : Hybrid.encode avg bm s = w.1 ++ (w.2.1 ++ (w.2.2.1 ++ w.2.2.2)) := rfl
  have key : ∀ m, m < (Hybrid.encode avg bm s).length →
      IsErr (Hybrid.decode bm s.params ((Hybrid.encode avg bm s).take m)) :=
    fun m hm => strict_prefix_rejected_hybrid bm dom avg havg hbm hne s hwf hdom m hm
  refine ⟨?_, ?_, ?_, ?_⟩
  · intro hn
    have := key n (by rw [henc]; simp only [List.length_append]; omega)
    rw [henc, List.take_append_of_le_length (by omega)] at this
    exact this
  · intro hn
    have := key (w.1.length + n) (by rw [henc]; simp only [List.length_append]; omega)
    rw [henc, List.take_append, List.take_of_length_le (by omega)] at this
    simp only [Nat.add_sub_cancel_left] at this
    rw [List.take_append_of_le_length (by omega)] at this
    exact this
  · intro hn
    have := key (w.1.length + (w.2.1.length + n))
      (by rw [henc]; simp only [List.length_append]; omega)
    rw [henc, List.take_append, List.take_of_length_le (by omega)] at this
    simp only [Nat.add_sub_cancel_left] at this
    rw [List.take_append, List.take_of_length_le (by omega)] at this
    simp only [Nat.add_sub_cancel_left] at this
    rw [List.take_append_of_le_length (by omega)] at this
    simpa [List.append_assoc] using this
  · intro hn
    have := key (w.1.length + (w.2.1.length + (w.2.2.1.length + n)))
      (by rw [henc]; simp only [List.length_append]; omega)
    rw [henc, List.take_append, List.take_of_length_le (by omega)] at this
    simp only [Nat.add_sub_cancel_left] at this
    rw [List.take_append, List.take_of_length_le (by omega)] at this
    simp only [Nat.add_sub_cancel_left] at this
    rw [List.take_append, List.take_of_length_le (by omega)] at this
    simp only [Nat.add_sub_cancel_left] at this
    simpa [List.append_assoc] using this

/-! ## a stream of another kind is rejected -/

/-- the eight magic numbers are pairwise distinct -/
theorem magics_pairwise_distinct : ∀ k k' : Kind, k ≠ k' → k.magic ≠ k'.magic := by
  intro k k'
  cases k <;> cases k' <;> decide

/-- any input that does not start with the receiver's magic (too short included) -/
theorem wrong_magic_rejected (r : Recv) (inp : Bytes) (h : inp.take 4 ≠ r.kind.magic) :
    r.accepts bm inp = false :=
  accepts_false_of_isErr bm r inp (Recv.magic_rejected bm r inp h)

/-- full kind × kind matrix: a receiver of kind `k'` rejects every stream written by an
    index of another kind, whatever its state and whatever follows -/
theorem wrong_kind_rejected (r : Recv) (s : AnyState) (h : r.kind ≠ s.kind) (rest : Bytes) :
    r.accepts bm (s.encodeRaw bm ++ rest) = false := by
  apply wrong_magic_rejected
  rw [AnyState.take4]
  exact magics_pairwise_distinct _ _ (fun e => h e.symm)


/-! ## a stream of another format version is rejected -/

/-- whatever follows the version field, for every receiver of every kind -/
theorem wrong_version_rejected (r : Recv) (v : Nat) (hv : v ≠ 1) (hlt : v < 4294967296)
    (rest : Bytes) : r.accepts bm (r.kind.magic ++ (encU32 v ++ rest)) = false := by
  have hb : (v == 1) = false := beq_false_of_ne hv
  apply accepts_false_of_isErr
  cases r <;> simp only [Recv.decodeC, Recv.kind, Kind.magic] <;> apply map_isErr
  · refine ⟨.version, ?_⟩; simp only [Flat.decodeC, CP.bind_eq]; eval_dec
  · refine ⟨.version, ?_⟩; simp only [HNSW.decodeC, CP.bind_eq]; eval_dec
  · refine ⟨.version, ?_⟩; simp only [IVF.decodeC, CP.bind_eq]; eval_dec
  · refine ⟨.version, ?_⟩; simp only [PQ.decodeC, CP.bind_eq]; eval_dec
  · refine ⟨.version, ?_⟩; simp only [IVFPQ.decodeC, CP.bind_eq]; eval_dec
  · refine ⟨.version, ?_⟩; simp only [BM25.decodeC, CP.bind_eq]; eval_dec
  · refine ⟨.version, ?_⟩; simp only [Meta.decodeC, CP.bind_eq]; eval_dec
  · refine ⟨.version, ?_⟩; simp only [Hybrid.decodeC, Hybrid.decodeCWith, Hybrid.headC, CP.bind_eq]; eval_dec

/-! ## a stream written with other construction parameters is rejected
    One theorem per parameter the decoder compares, in the order it compares them: the
    parameters compared earlier agree, this one differs (the later ones are arbitrary —
    "exactly one parameter differs" is a special case); the error names the parameter. -/
theorem param_mismatch_rejected_flat_dim (p : Flat.Params) (s : Flat.State) (hwf : Flat.wf s = true)
     (hne : p.dim ≠ s.dim) (rest : Bytes) :
    Flat.decodeC bm p (Flat.encodeRaw bm s ++ rest) = .error (.param "dim") := by
  obtain ⟨hdim, hmk⟩ := Flat.wf_hdr hwf
  have hb : (s.dim == p.dim) = false := beq_false_of_ne (Ne.symm hne)
  open_stream
  eval_dec
theorem param_mismatch_rejected_flat_metric (p : Flat.Params) (s : Flat.State) (hwf : Flat.wf s = true)
    (h1 : p.dim = s.dim) (hne : p.metric ≠ s.metric) (rest : Bytes) :
    Flat.decodeC bm p (Flat.encodeRaw bm s ++ rest) = .error (.param "metric") := by
  obtain ⟨hdim, hmk⟩ := Flat.wf_hdr hwf
  have hb : (s.metric == p.metric) = false := beq_false_of_ne (Ne.symm hne)
  open_stream
  eval_dec
/-- any difference between the receiver's parameters and the writer's is rejected -/
theorem param_mismatch_rejected_flat (p : Flat.Params) (s : Flat.State) (hwf : Flat.wf s = true)
    (hne : p ≠ s.params) (rest : Bytes) :
    ∃ name, Flat.decodeC bm p (Flat.encodeRaw bm s ++ rest) = .error (.param name) := by
  by_cases h1 : p.dim = s.dim
  · 
    by_cases h2 : p.metric = s.metric
    · 
      exact absurd (by cases p; cases s; simp_all [Flat.State.params]) hne
    · exact ⟨_, param_mismatch_rejected_flat_metric bm p s hwf h1 h2 rest⟩
  · exact ⟨_, param_mismatch_rejected_flat_dim bm p s hwf  h1 rest⟩
theorem param_mismatch_rejected_hnsw_dim (p : HNSW.Params) (s : HNSW.State) (hwf : HNSW.wf s = true)
     (hne : p.dim ≠ s.dim) (rest : Bytes) :
    HNSW.decodeC bm p (HNSW.encodeRaw bm s ++ rest) = .error (.param "dim") := by
  obtain ⟨hdim, hmk, hm, hefc, hefs⟩ := HNSW.wf_hdr hwf
  have hb : (s.dim == p.dim) = false := beq_false_of_ne (Ne.symm hne)
  open_stream
  eval_dec
theorem param_mismatch_rejected_hnsw_metric (p : HNSW.Params) (s : HNSW.State) (hwf : HNSW.wf s = true)
    (h1 : p.dim = s.dim) (hne : p.metric ≠ s.metric) (rest : Bytes) :
    HNSW.decodeC bm p (HNSW.encodeRaw bm s ++ rest) = .error (.param "metric") := by
  obtain ⟨hdim, hmk, hm, hefc, hefs⟩ := HNSW.wf_hdr hwf
  have hb : (s.metric == p.metric) = false := beq_false_of_ne (Ne.symm hne)
  open_stream
  eval_dec
theorem param_mismatch_rejected_hnsw_m (p : HNSW.Params) (s : HNSW.State) (hwf : HNSW.wf s = true)
    (h1 : p.dim = s.dim) (h2 : p.metric = s.metric) (hne : p.m ≠ s.m) (rest : Bytes) :
    HNSW.decodeC bm p (HNSW.encodeRaw bm s ++ rest) = .error (.param "M") := by
  obtain ⟨hdim, hmk, hm, hefc, hefs⟩ := HNSW.wf_hdr hwf
  have hb : (s.m == p.m) = false := beq_false_of_ne (Ne.symm hne)
  open_stream
  eval_dec
theorem param_mismatch_rejected_hnsw_efC (p : HNSW.Params) (s : HNSW.State) (hwf : HNSW.wf s = true)
    (h1 : p.dim = s.dim) (h2 : p.metric = s.metric) (h3 : p.m = s.m) (hne : p.efC ≠ s.efC) (rest : Bytes) :
    HNSW.decodeC bm p (HNSW.encodeRaw bm s ++ rest) = .error (.param "efConstruction") := by
  obtain ⟨hdim, hmk, hm, hefc, hefs⟩ := HNSW.wf_hdr hwf
  have hb : (s.efC == p.efC) = false := beq_false_of_ne (Ne.symm hne)
  open_stream
  eval_dec
theorem param_mismatch_rejected_hnsw_efS (p : HNSW.Params) (s : HNSW.State) (hwf : HNSW.wf s = true)
    (h1 : p.dim = s.dim) (h2 : p.metric = s.metric) (h3 : p.m = s.m) (h4 : p.efC = s.efC) (hne : p.efS ≠ s.efS) (rest : Bytes) :
    HNSW.decodeC bm p (HNSW.encodeRaw bm s ++ rest) = .error (.param "efSearch") := by
  obtain ⟨hdim, hmk, hm, hefc, hefs⟩ := HNSW.wf_hdr hwf
  have hb : (s.efS == p.efS) = false := beq_false_of_ne (Ne.symm hne)
  open_stream
  eval_dec
/-- any difference between the receiver's parameters and the writer's is rejected -/
theorem param_mismatch_rejected_hnsw (p : HNSW.Params) (s : HNSW.State) (hwf : HNSW.wf s = true)
    (hne : p ≠ s.params) (rest : Bytes) :
    ∃ name, HNSW.decodeC bm p (HNSW.encodeRaw bm s ++ rest) = .error (.param name) := by
  by_cases h1 : p.dim = s.dim
  · 
    by_cases h2 : p.metric = s.metric
    · 
      by_cases h3 : p.m = s.m
      · 
        by_cases h4 : p.efC = s.efC
        · 
          by_cases h5 : p.efS = s.efS
          · 
            exact absurd (by cases p; cases s; simp_all [HNSW.State.params]) hne
          · exact ⟨_, param_mismatch_rejected_hnsw_efS bm p s hwf h1 h2 h3 h4 h5 rest⟩
        · exact ⟨_, param_mismatch_rejected_hnsw_efC bm p s hwf h1 h2 h3 h4 rest⟩
      · exact ⟨_, param_mismatch_rejected_hnsw_m bm p s hwf h1 h2 h3 rest⟩
    · exact ⟨_, param_mismatch_rejected_hnsw_metric bm p s hwf h1 h2 rest⟩
  · exact ⟨_, param_mismatch_rejected_hnsw_dim bm p s hwf  h1 rest⟩
theorem param_mismatch_rejected_ivf_dim (p : IVF.Params) (s : IVF.State) (hwf : IVF.wf s = true)
     (hne : p.dim ≠ s.dim) (rest : Bytes) :
    IVF.decodeC bm p (IVF.encodeRaw bm s ++ rest) = .error (.param "dim") := by
  obtain ⟨hdim, hmk, hnl⟩ := IVF.wf_hdr hwf
  have hb : (s.dim == p.dim) = false := beq_false_of_ne (Ne.symm hne)
  open_stream
  eval_dec
theorem param_mismatch_rejected_ivf_metric (p : IVF.Params) (s : IVF.State) (hwf : IVF.wf s = true)
    (h1 : p.dim = s.dim) (hne : p.metric ≠ s.metric) (rest : Bytes) :
    IVF.decodeC bm p (IVF.encodeRaw bm s ++ rest) = .error (.param "metric") := by
  obtain ⟨hdim, hmk, hnl⟩ := IVF.wf_hdr hwf
  have hb : (s.metric == p.metric) = false := beq_false_of_ne (Ne.symm hne)
  open_stream
  eval_dec
theorem param_mismatch_rejected_ivf_nlist (p : IVF.Params) (s : IVF.State) (hwf : IVF.wf s = true)
    (h1 : p.dim = s.dim) (h2 : p.metric = s.metric) (hne : p.nlist ≠ s.nlist) (rest : Bytes) :
    IVF.decodeC bm p (IVF.encodeRaw bm s ++ rest) = .error (.param "nlist") := by
  obtain ⟨hdim, hmk, hnl⟩ := IVF.wf_hdr hwf
  have hb : (s.nlist == p.nlist) = false := beq_false_of_ne (Ne.symm hne)
  open_stream
  eval_dec
/-- any difference between the receiver's parameters and the writer's is rejected -/
theorem param_mismatch_rejected_ivf (p : IVF.Params) (s : IVF.State) (hwf : IVF.wf s = true)
    (hne : p ≠ s.params) (rest : Bytes) :
    ∃ name, IVF.decodeC bm p (IVF.encodeRaw bm s ++ rest) = .error (.param name) := by
  by_cases h1 : p.dim = s.dim
  · 
    by_cases h2 : p.metric = s.metric
    · 
      by_cases h3 : p.nlist = s.nlist
      · 
        exact absurd (by cases p; cases s; simp_all [IVF.State.params]) hne
      · exact ⟨_, param_mismatch_rejected_ivf_nlist bm p s hwf h1 h2 h3 rest⟩
    · exact ⟨_, param_mismatch_rejected_ivf_metric bm p s hwf h1 h2 rest⟩
  · exact ⟨_, param_mismatch_rejected_ivf_dim bm p s hwf  h1 rest⟩
theorem param_mismatch_rejected_pq_dim (p : PQ.Params) (s : PQ.State) (hwf : PQ.wf s = true)
     (hne : p.dim ≠ s.dim) (rest : Bytes) :
    PQ.decodeC bm p (PQ.encodeRaw bm s ++ rest) = .error (.param "dim") := by
  obtain ⟨hdim, hmk, hm, hnb, hks, hds⟩ := PQ.wf_hdr hwf
  have hb : (s.dim == p.dim) = false := beq_false_of_ne (Ne.symm hne)
  open_stream
  eval_dec
theorem param_mismatch_rejected_pq_metric (p : PQ.Params) (s : PQ.State) (hwf : PQ.wf s = true)
    (h1 : p.dim = s.dim) (hne : p.metric ≠ s.metric) (rest : Bytes) :
    PQ.decodeC bm p (PQ.encodeRaw bm s ++ rest) = .error (.param "metric") := by
  obtain ⟨hdim, hmk, hm, hnb, hks, hds⟩ := PQ.wf_hdr hwf
  have hb : (s.metric == p.metric) = false := beq_false_of_ne (Ne.symm hne)
  open_stream
  eval_dec
theorem param_mismatch_rejected_pq_m (p : PQ.Params) (s : PQ.State) (hwf : PQ.wf s = true)
    (h1 : p.dim = s.dim) (h2 : p.metric = s.metric) (hne : p.m ≠ s.m) (rest : Bytes) :
    PQ.decodeC bm p (PQ.encodeRaw bm s ++ rest) = .error (.param "M") := by
  obtain ⟨hdim, hmk, hm, hnb, hks, hds⟩ := PQ.wf_hdr hwf
  have hb : (s.m == p.m) = false := beq_false_of_ne (Ne.symm hne)
  open_stream
  eval_dec
theorem param_mismatch_rejected_pq_nbits (p : PQ.Params) (s : PQ.State) (hwf : PQ.wf s = true)
    (h1 : p.dim = s.dim) (h2 : p.metric = s.metric) (h3 : p.m = s.m) (hne : p.nbits ≠ s.nbits) (rest : Bytes) :
    PQ.decodeC bm p (PQ.encodeRaw bm s ++ rest) = .error (.param "Nbits") := by
  obtain ⟨hdim, hmk, hm, hnb, hks, hds⟩ := PQ.wf_hdr hwf
  have hb : (s.nbits == p.nbits) = false := beq_false_of_ne (Ne.symm hne)
  open_stream
  eval_dec
theorem param_mismatch_rejected_pq_ksub (p : PQ.Params) (s : PQ.State) (hwf : PQ.wf s = true)
    (h1 : p.dim = s.dim) (h2 : p.metric = s.metric) (h3 : p.m = s.m) (h4 : p.nbits = s.nbits) (hne : p.ksub ≠ s.ksub) (rest : Bytes) :
    PQ.decodeC bm p (PQ.encodeRaw bm s ++ rest) = .error (.param "Ksub") := by
  obtain ⟨hdim, hmk, hm, hnb, hks, hds⟩ := PQ.wf_hdr hwf
  have hb : (s.ksub == p.ksub) = false := beq_false_of_ne (Ne.symm hne)
  open_stream
  eval_dec
theorem param_mismatch_rejected_pq_dsub (p : PQ.Params) (s : PQ.State) (hwf : PQ.wf s = true)
    (h1 : p.dim = s.dim) (h2 : p.metric = s.metric) (h3 : p.m = s.m) (h4 : p.nbits = s.nbits) (h5 : p.ksub = s.ksub) (hne : p.dsub ≠ s.dsub) (rest : Bytes) :
    PQ.decodeC bm p (PQ.encodeRaw bm s ++ rest) = .error (.param "dsub") := by
  obtain ⟨hdim, hmk, hm, hnb, hks, hds⟩ := PQ.wf_hdr hwf
  have hb : (s.dsub == p.dsub) = false := beq_false_of_ne (Ne.symm hne)
  open_stream
  eval_dec
/-- any difference between the receiver's parameters and the writer's is rejected -/
theorem param_mismatch_rejected_pq (p : PQ.Params) (s : PQ.State) (hwf : PQ.wf s = true)
    (hne : p ≠ s.params) (rest : Bytes) :
    ∃ name, PQ.decodeC bm p (PQ.encodeRaw bm s ++ rest) = .error (.param name) := by
  by_cases h1 : p.dim = s.dim
  · 
    by_cases h2 : p.metric = s.metric
    · 
      by_cases h3 : p.m = s.m
      · 
        by_cases h4 : p.nbits = s.nbits
        · 
          by_cases h5 : p.ksub = s.ksub
          · 
            by_cases h6 : p.dsub = s.dsub
            · 
              exact absurd (by cases p; cases s; simp_all [PQ.State.params]) hne
            · exact ⟨_, param_mismatch_rejected_pq_dsub bm p s hwf h1 h2 h3 h4 h5 h6 rest⟩
          · exact ⟨_, param_mismatch_rejected_pq_ksub bm p s hwf h1 h2 h3 h4 h5 rest⟩
        · exact ⟨_, param_mismatch_rejected_pq_nbits bm p s hwf h1 h2 h3 h4 rest⟩
      · exact ⟨_, param_mismatch_rejected_pq_m bm p s hwf h1 h2 h3 rest⟩
    · exact ⟨_, param_mismatch_rejected_pq_metric bm p s hwf h1 h2 rest⟩
  · exact ⟨_, param_mismatch_rejected_pq_dim bm p s hwf  h1 rest⟩
theorem param_mismatch_rejected_ivfpq_dim (p : IVFPQ.Params) (s : IVFPQ.State) (hwf : IVFPQ.wf s = true)
     (hne : p.dim ≠ s.dim) (rest : Bytes) :
    IVFPQ.decodeC bm p [] (IVFPQ.encodeRaw bm s ++ rest) = .error (.param "dim") := by
  obtain ⟨hdim, hmk, hnl, hm, hnb, hks, hds⟩ := IVFPQ.wf_hdr hwf
  have hb : (s.dim == p.dim) = false := beq_false_of_ne (Ne.symm hne)
  open_stream
  eval_dec
theorem param_mismatch_rejected_ivfpq_metric (p : IVFPQ.Params) (s : IVFPQ.State) (hwf : IVFPQ.wf s = true)
    (h1 : p.dim = s.dim) (hne : p.metric ≠ s.metric) (rest : Bytes) :
    IVFPQ.decodeC bm p [] (IVFPQ.encodeRaw bm s ++ rest) = .error (.param "metric") := by
  obtain ⟨hdim, hmk, hnl, hm, hnb, hks, hds⟩ := IVFPQ.wf_hdr hwf
  have hb : (s.metric == p.metric) = false := beq_false_of_ne (Ne.symm hne)
  open_stream
  eval_dec
theorem param_mismatch_rejected_ivfpq_nlist (p : IVFPQ.Params) (s : IVFPQ.State) (hwf : IVFPQ.wf s = true)
    (h1 : p.dim = s.dim) (h2 : p.metric = s.metric) (hne : p.nlist ≠ s.nlist) (rest : Bytes) :
    IVFPQ.decodeC bm p [] (IVFPQ.encodeRaw bm s ++ rest) = .error (.param "nlist") := by
  obtain ⟨hdim, hmk, hnl, hm, hnb, hks, hds⟩ := IVFPQ.wf_hdr hwf
  have hb : (s.nlist == p.nlist) = false := beq_false_of_ne (Ne.symm hne)
  open_stream
  eval_dec
theorem param_mismatch_rejected_ivfpq_m (p : IVFPQ.Params) (s : IVFPQ.State) (hwf : IVFPQ.wf s = true)
    (h1 : p.dim = s.dim) (h2 : p.metric = s.metric) (h3 : p.nlist = s.nlist) (hne : p.m ≠ s.m) (rest : Bytes) :
    IVFPQ.decodeC bm p [] (IVFPQ.encodeRaw bm s ++ rest) = .error (.param "M") := by
  obtain ⟨hdim, hmk, hnl, hm, hnb, hks, hds⟩ := IVFPQ.wf_hdr hwf
  have hb : (s.m == p.m) = false := beq_false_of_ne (Ne.symm hne)
  open_stream
  eval_dec
theorem param_mismatch_rejected_ivfpq_nbits (p : IVFPQ.Params) (s : IVFPQ.State) (hwf : IVFPQ.wf s = true)
    (h1 : p.dim = s.dim) (h2 : p.metric = s.metric) (h3 : p.nlist = s.nlist) (h4 : p.m = s.m) (hne : p.nbits ≠ s.nbits) (rest : Bytes) :
    IVFPQ.decodeC bm p [] (IVFPQ.encodeRaw bm s ++ rest) = .error (.param "Nbits") := by
  obtain ⟨hdim, hmk, hnl, hm, hnb, hks, hds⟩ := IVFPQ.wf_hdr hwf
  have hb : (s.nbits == p.nbits) = false := beq_false_of_ne (Ne.symm hne)
  open_stream
  eval_dec
theorem param_mismatch_rejected_ivfpq_ksub (p : IVFPQ.Params) (s : IVFPQ.State) (hwf : IVFPQ.wf s = true)
    (h1 : p.dim = s.dim) (h2 : p.metric = s.metric) (h3 : p.nlist = s.nlist) (h4 : p.m = s.m) (h5 : p.nbits = s.nbits) (hne : p.ksub ≠ s.ksub) (rest : Bytes) :
    IVFPQ.decodeC bm p [] (IVFPQ.encodeRaw bm s ++ rest) = .error (.param "Ksub") := by
  obtain ⟨hdim, hmk, hnl, hm, hnb, hks, hds⟩ := IVFPQ.wf_hdr hwf
  have hb : (s.ksub == p.ksub) = false := beq_false_of_ne (Ne.symm hne)
  open_stream
  eval_dec
theorem param_mismatch_rejected_ivfpq_dsub (p : IVFPQ.Params) (s : IVFPQ.State) (hwf : IVFPQ.wf s = true)
    (h1 : p.dim = s.dim) (h2 : p.metric = s.metric) (h3 : p.nlist = s.nlist) (h4 : p.m = s.m) (h5 : p.nbits = s.nbits) (h6 : p.ksub = s.ksub) (hne : p.dsub ≠ s.dsub) (rest : Bytes) :
    IVFPQ.decodeC bm p [] (IVFPQ.encodeRaw bm s ++ rest) = .error (.param "dsub") := by
  obtain ⟨hdim, hmk, hnl, hm, hnb, hks, hds⟩ := IVFPQ.wf_hdr hwf
  have hb : (s.dsub == p.dsub) = false := beq_false_of_ne (Ne.symm hne)
  open_stream
  eval_dec
/-- any difference between the receiver's parameters and the writer's is rejected -/
theorem param_mismatch_rejected_ivfpq (p : IVFPQ.Params) (s : IVFPQ.State) (hwf : IVFPQ.wf s = true)
    (hne : p ≠ s.params) (rest : Bytes) :
    ∃ name, IVFPQ.decodeC bm p [] (IVFPQ.encodeRaw bm s ++ rest) = .error (.param name) := by
  by_cases h1 : p.dim = s.dim
  · 
    by_cases h2 : p.metric = s.metric
    · 
      by_cases h3 : p.nlist = s.nlist
      · 
        by_cases h4 : p.m = s.m
        · 
          by_cases h5 : p.nbits = s.nbits
          · 
            by_cases h6 : p.ksub = s.ksub
            · 
              by_cases h7 : p.dsub = s.dsub
              · 
                exact absurd (by cases p; cases s; simp_all [IVFPQ.State.params]) hne
              · exact ⟨_, param_mismatch_rejected_ivfpq_dsub bm p s hwf h1 h2 h3 h4 h5 h6 h7 rest⟩
            · exact ⟨_, param_mismatch_rejected_ivfpq_ksub bm p s hwf h1 h2 h3 h4 h5 h6 rest⟩
          · exact ⟨_, param_mismatch_rejected_ivfpq_nbits bm p s hwf h1 h2 h3 h4 h5 rest⟩
        · exact ⟨_, param_mismatch_rejected_ivfpq_m bm p s hwf h1 h2 h3 h4 rest⟩
      · exact ⟨_, param_mismatch_rejected_ivfpq_nlist bm p s hwf h1 h2 h3 rest⟩
    · exact ⟨_, param_mismatch_rejected_ivfpq_metric bm p s hwf h1 h2 rest⟩
  · exact ⟨_, param_mismatch_rejected_ivfpq_dim bm p s hwf  h1 rest⟩
/-! hybrid: presence of each sub-index (a sub-index constructed with other parameters
    is rejected by that sub-index's own `ReadFrom`, theorems above; the propagation of
    that error through the hybrid reader is checked by the correspondence stream) -/

theorem param_mismatch_rejected_hybrid_vector (p : Hybrid.Params) (s : Hybrid.State)
    (hne : p.vec.isSome ≠ s.vec.isSome) (rest : Bytes) :
    Hybrid.decodeC bm p (Hybrid.encodeRaw bm s ++ rest) = .error (.param "hasVector") := by
  have hq : ∀ b : Bool, (Hybrid.b2n b == 1) = b := by intro b; cases b <;> rfl
  have hl : ∀ b : Bool, Hybrid.b2n b < 256 := by intro b; cases b <;> decide
  have l1 := hl s.vec.isSome; have l2 := hl s.txt.isSome; have l3 := hl s.md.isSome
  have hb : (s.vec.isSome == p.vec.isSome) = false := beq_false_of_ne (Ne.symm hne)
  open_stream
  eval_dec

theorem param_mismatch_rejected_hybrid_text (p : Hybrid.Params) (s : Hybrid.State)
    (h1 : p.vec.isSome = s.vec.isSome) (hne : p.txt ≠ s.txt.isSome) (rest : Bytes) :
    Hybrid.decodeC bm p (Hybrid.encodeRaw bm s ++ rest) = .error (.param "hasText") := by
  have hq : ∀ b : Bool, (Hybrid.b2n b == 1) = b := by intro b; cases b <;> rfl
  have hl : ∀ b : Bool, Hybrid.b2n b < 256 := by intro b; cases b <;> decide
  have l1 := hl s.vec.isSome; have l2 := hl s.txt.isSome; have l3 := hl s.md.isSome
  have hb : (s.txt.isSome == p.txt) = false := beq_false_of_ne (Ne.symm hne)
  open_stream
  eval_dec

theorem param_mismatch_rejected_hybrid_metadata (p : Hybrid.Params) (s : Hybrid.State)
    (h1 : p.vec.isSome = s.vec.isSome) (h2 : p.txt = s.txt.isSome) (hne : p.md ≠ s.md.isSome)
    (rest : Bytes) :
    Hybrid.decodeC bm p (Hybrid.encodeRaw bm s ++ rest) = .error (.param "hasMetadata") := by
  have hq : ∀ b : Bool, (Hybrid.b2n b == 1) = b := by intro b; cases b <;> rfl
  have hl : ∀ b : Bool, Hybrid.b2n b < 256 := by intro b; cases b <;> decide
  have l1 := hl s.vec.isSome; have l2 := hl s.txt.isSome; have l3 := hl s.md.isSome
  have hb : (s.md.isSome == p.md) = false := beq_false_of_ne (Ne.symm hne)
  open_stream
  eval_dec

/-! ## what the decoders do NOT compare (so the claim is exactly as wide as the code)
    Each theorem exhibits a stream that is accepted although the named quantity
    disagrees with the receiver's construction parameters. -/

/-- flat compares every header field it reads (dim, metric, every per-vector dimension):
    a stored vector of another length is rejected -/
theorem param_all_checked_flat (p : Flat.Params) (id : Nat) (v : List Nat) (rest : Bytes)
    (hid : id < 4294967296) (hv : v.length < 4294967296) (hp : p.dim < 4294967296)
    (hm : p.metric.length < 4294967296) (hne : v.length ≠ p.dim) :
    Flat.decodeC bm p (Flat.encodeRaw bm ⟨p.dim, p.metric, [(id, v)], []⟩ ++ rest) = .error .vecDim := by
  have hb : (v.length == p.dim) = false := beq_false_of_ne hne
  open_stream
  simp only [List.flatMap_cons, List.flatMap_nil, Flat.vecItems, List.length_cons, List.length_nil,
    flat_append, flat_cons, flat_nil, wU32_data, List.append_nil]
  eval_dec
  simp only [CP.repeat, Flat.decVec, CP.bind_eq, CP.pure_eq]
  eval_dec

/-- HNSW: a node's vector length is not compared with dim; levelMult, maxLevel and
    entryPoint are taken from the stream as they are -/
theorem param_not_checked_hnsw (hbm : bm.Lawful dom) (h0 : dom []) :
    ∃ s : HNSW.State, HNSW.wf s = true ∧ (∃ n ∈ s.nodes, n.2.vec.length ≠ s.dim) ∧
      ∀ rest, HNSW.decode bm s.params (HNSW.encodeRaw bm s ++ rest) = .ok (s, rest) :=
  ⟨⟨2, [], 16, 200, 200, 0, 7, 99, [(5, ⟨0, [1], [[]]⟩)], []⟩, by decide, ⟨_, List.mem_cons_self, by decide⟩,
    fun rest => run_of_reads (HNSW.reads_decodeC bm dom hbm _ (by decide) h0) rest⟩

/-- IVF: the number of inverted lists is not compared with nlist, a centroid's size not with dim -/
theorem param_not_checked_ivf (hbm : bm.Lawful dom) (h0 : dom []) :
    ∃ s : IVF.State, IVF.wf s = true ∧ s.lists.length ≠ s.nlist ∧
      (∃ c ∈ s.centroids, c.length ≠ s.dim) ∧
      ∀ rest, IVF.decode bm s.params (IVF.encodeRaw bm s ++ rest) = .ok (s, rest) :=
  ⟨⟨2, [], 1, true, [[7, 8, 9]], [], []⟩, by decide, by decide, ⟨_, List.mem_cons_self, by decide⟩,
    fun rest => run_of_reads (IVF.reads_decodeC bm dom hbm _ (by decide) h0) rest⟩

/-- PQ: a codebook's size is not compared with Ksub·dsub (nor dim with M·dsub, Ksub with 2^Nbits) -/
theorem param_not_checked_pq (hbm : bm.Lawful dom) (h0 : dom []) :
    ∃ s : PQ.State, PQ.wf s = true ∧ (∃ c ∈ s.codebooks, c.length ≠ s.ksub * s.dsub) ∧
      s.dim ≠ s.m * s.dsub ∧
      ∀ rest, PQ.decode bm s.params (PQ.encodeRaw bm s ++ rest) = .ok (PQ.forget s, rest) :=
  ⟨⟨4, [], 1, 8, 256, 2, true, [[1, 2, 3]], [], []⟩, by decide, ⟨_, List.mem_cons_self, by decide⟩,
    by decide, fun rest => run_of_reads (PQ.reads_decodeC bm dom hbm _ (by decide) h0) rest⟩

/-- IVFPQ: list count, centroid and codebook sizes are not compared -/
theorem param_not_checked_ivfpq (hbm : bm.Lawful dom) (h0 : dom []) :
    ∃ s : IVFPQ.State, IVFPQ.wf s = true ∧ s.lists.length ≠ s.nlist ∧
      (∃ c ∈ s.centroids, c.length ≠ s.dim) ∧ (∃ c ∈ s.codebooks, c.length ≠ s.ksub * s.dsub) ∧
      ∀ rest, IVFPQ.decode bm s.params (IVFPQ.encodeRaw bm s ++ rest) = .ok (IVFPQ.forget s, rest) :=
  ⟨⟨4, [], 1, 1, 8, 256, 4, true, [[1]], [[2, 3]], [], []⟩, by decide, by decide,
    ⟨_, List.mem_cons_self, by decide⟩, ⟨_, List.mem_cons_self, by decide⟩,
    fun rest => run_of_reads (IVFPQ.reads_decodeC bm dom hbm _ (by decide) h0) rest⟩

/-- metadata: a BSI with zero slices makes `BSI.UnmarshalBinary` index `bitData[0]`: the Go
    code panics (outside this property's quantifier — no valid stream, prefix of one, or
    stream of another kind has this shape — recorded so that the model's "never panics"
    is not read more widely than it holds) -/
theorem meta_zero_slices_panics (hall : bm.dec (bm.enc []) = .ok [])
    (hs : (bm.enc []).length < 4294967296) (rest : Bytes) :
    Meta.decodeC bm (Meta.magic ++ (encU32 1 ++ (encU32 (bm.enc []).length ++ (bm.enc [] ++
      (encU32 0 ++ (encU32 1 ++ (encU32 0 ++ (encU32 0 ++ rest)))))))) =
      .error (.panic "BSI.UnmarshalBinary: bitData[0] with len(bitData) == 0") := by
  have h1 : ∀ rest, CP.rLenBytes Meta.swR (encU32 0 ++ rest) =
      .ok (([], Meta.swR .u32 + 0), rest) := by
    intro rest
    have := CP.rLenBytes_enc Meta.swR (b := []) (by decide) rest
    simpa using this
  simp only [Meta.decodeC, Meta.decNum, CP.bind_eq, CP.pure_eq]
  simp (disch := first | assumption | omega | decide) only
    [CP.bind_apply, CP.rRaw_append, CP.rU32_enc, CP.rLenBytes_enc, h1,
     CP.guard_true_apply, beq_self_eq_true, hall, CP.ofOption, CP.ofExcept, CP.pure_apply,
     CP.fail_apply, CP.repeat_zero, CP.repeat_one, Meta.bsiDec]

/-- Why the segment clause is only partial on the unchanged store (finding D13): `ReadFrom`
    loads the sub-indexes in place one after the other, so a stream that ends inside the
    text part is rejected AFTER the vector part was loaded (`loadProgress = 1`); the store
    hands the same index instances to its memtables, which is where that load shows. -/
theorem hybrid_partial_load_witness :
    (Recv.hybrid Example.hybrid1.params).accepts Example.listCodec
      ((Hybrid.encode (fun _ _ => 0) Example.listCodec Example.hybrid1).take 100) = false ∧
    Hybrid.loadProgress Example.listCodec Example.hybrid1.params
      ((Hybrid.encode (fun _ _ => 0) Example.listCodec Example.hybrid1).take 100) = 1 := by
  decide +kernel

/-! ## non-vacuity -/

/-- there are strict prefixes to reject (the stream of `flat1` has 62 bytes), and the
    hypotheses of the prefix theorems are those of C07's round trips (examples there) -/
example : (Flat.encode Example.listCodec Example.flat1).length = 62 := by decide
/-- a receiver that differs in exactly one parameter -/
example : (⟨3, Example.flat1.metric⟩ : Flat.Params) ≠ Example.flat1.params ∧
    (⟨3, Example.flat1.metric⟩ : Flat.Params).metric = Example.flat1.params.metric := by decide
/-- two different kinds -/
example : (Recv.ivf Example.ivf1.params).kind ≠ (AnyState.flat Example.flat1).kind := by decide

end Comet.Codec.C16
