/-
  C20 (second half) — the scalar quantisers preserve length, leave their input untouched
  (definitional: the model functions return new values) and reconstruct every component
  within their precision.  ONLY property theorems and non-vacuity examples; helpers in
  CometProofs/Quant.lean.  Model: Comet/Quant.lean.
-/
import CometProofs.Quant
namespace Comet.Quant
open Comet.Dist

/-! ### float32 -/

/-- exact reconstruction -/
theorem q_full_exact {S : Type} (v : List S) : deqFull (quantFull v) = v := rfl

theorem q_len_preserved_full {S : Type} (v : List S) :
    (quantFull v).length = v.length ∧ (deqFull (quantFull v)).length = v.length := ⟨rfl, rfl⟩

/-! ### float16 -/

theorem q_len_preserved_half (v : List ℚ) :
    (quantHalf v).length = v.length ∧ (deqHalf (quantHalf v)).length = v.length := by
  simp [quantHalf, deqHalf]

/-- every component in the float16 normal range (in fact: every `|x| ≥ 2⁻¹⁴`) is
    reconstructed within half-precision rounding: relative error at most 2⁻¹¹ -/
theorem q_half_error (x : ℚ) (h : 1 / 16384 ≤ |x|) : |halfValue x - x| ≤ |x| / 2048 := by
  unfold halfValue halfRound
  simp only
  set X : ℚ := x * 2 ^ 24 with hX
  set E := halfExp (rabs X) with hE
  obtain ⟨h10, _, hlow, _⟩ := halfExpFrom_spec (rabs X) 29
  rw [← show halfExp (rabs X) = halfExpFrom (rabs X) 29 from rfl, ← hE] at h10 hlow
  have hXabs : rabs X = |x| * 2 ^ 24 := by
    rw [rabs_eq, hX, abs_mul, abs_of_pos (by positivity : (0 : ℚ) < 2 ^ 24)]
  -- 2^E ≤ |X| (also when E = 10, by the hypothesis)
  have hEle : (2 : ℚ) ^ E ≤ |x| * 2 ^ 24 := by
    by_cases h' : 10 < E
    · rw [← hXabs]; exact hlow h'
    · have : E = 10 := by omega
      rw [this]
      have : (2 : ℚ) ^ 10 = 1 / 16384 * 2 ^ 24 := by norm_num
      rw [this]
      exact mul_le_mul_of_nonneg_right h (by positivity)
  have hQpos : (0 : ℚ) < (2 : ℚ) ^ (E - 10) := by positivity
  have hQ : (((2 : ℤ) ^ (E - 10) : ℤ) : ℚ) = (2 : ℚ) ^ (E - 10) := by push_cast; rfl
  rw [hQ]
  have herr := rne_err (X / (2 : ℚ) ^ (E - 10))
  -- |R − X| ≤ Q/2
  have h1 : |(rne (X / (2 : ℚ) ^ (E - 10)) : ℚ) * (2 : ℚ) ^ (E - 10) - X| ≤ (2 : ℚ) ^ (E - 10) / 2 := by
    have : (rne (X / (2 : ℚ) ^ (E - 10)) : ℚ) * (2 : ℚ) ^ (E - 10) - X =
        -((X / (2 : ℚ) ^ (E - 10) - (rne (X / (2 : ℚ) ^ (E - 10)) : ℚ)) * (2 : ℚ) ^ (E - 10)) := by
      field_simp
      ring
    rw [this, abs_neg, abs_mul, abs_of_pos hQpos]
    calc _ ≤ 1 / 2 * (2 : ℚ) ^ (E - 10) := mul_le_mul_of_nonneg_right herr hQpos.le
      _ = _ := by ring
  -- Q/2 = 2^E / 2^11 ≤ |X| / 2^11
  have h2 : (2 : ℚ) ^ (E - 10) / 2 = (2 : ℚ) ^ E / 2048 := by
    have : (2 : ℚ) ^ E = (2 : ℚ) ^ (E - 10) * 2 ^ 10 := by
      rw [← pow_add]; congr 1; omega
    rw [this]; norm_num; ring
  have h3 : |(rne (X / (2 : ℚ) ^ (E - 10)) : ℚ) * (2 : ℚ) ^ (E - 10) - X| ≤ |x| * 2 ^ 24 / 2048 := by
    rw [h2] at h1
    exact le_trans h1 (div_le_div_of_nonneg_right hEle (by norm_num))
  have h4 : (rne (X / (2 : ℚ) ^ (E - 10)) : ℚ) * (2 : ℚ) ^ (E - 10) / 2 ^ 24 - x =
      ((rne (X / (2 : ℚ) ^ (E - 10)) : ℚ) * (2 : ℚ) ^ (E - 10) - X) / 2 ^ 24 := by
    rw [hX]; field_simp
  push_cast at h4 ⊢
  rw [h4, abs_div, abs_of_pos (by positivity : (0 : ℚ) < 2 ^ 24), div_le_iff₀ (by positivity)]
  calc _ ≤ |x| * 2 ^ 24 / 2048 := h3
    _ = _ := by ring

/-- inside the normal range the conversion does not overflow: the result is a finite
    binary16 value -/
theorem q_half_finite (x : ℚ) (h : |x| ≤ 65504) : halfOverflows x = false := by
  unfold halfOverflows
  rw [decide_eq_false_iff_not, not_le]
  unfold halfRound
  simp only
  set X : ℚ := x * 2 ^ 24 with hX
  set E := halfExp (rabs X) with hE
  obtain ⟨h10, h39, _, hup⟩ := halfExpFrom_spec (rabs X) 29
  rw [← show halfExp (rabs X) = halfExpFrom (rabs X) 29 from rfl, ← hE] at h10 h39 hup
  have hXabs : |X| = |x| * 2 ^ 24 := by
    rw [hX, abs_mul, abs_of_pos (by positivity : (0 : ℚ) < 2 ^ 24)]
  have hQpos : (0 : ℚ) < (2 : ℚ) ^ (E - 10) := by positivity
  have hQ : (((2 : ℤ) ^ (E - 10) : ℤ) : ℚ) = (2 : ℚ) ^ (E - 10) := by push_cast; rfl
  -- |X / Q| ≤ 2047 when E = 39, < 2^11 otherwise
  have hbound : |rne (X / (((2 : ℤ) ^ (E - 10) : ℤ) : ℚ))| * (2 : ℤ) ^ (E - 10) < (2 : ℤ) ^ 40 := by
    rw [hQ]
    by_cases hE39 : E = 39
    · have ht : |X / (2 : ℚ) ^ (E - 10)| ≤ ((2047 : ℤ) : ℚ) := by
        rw [abs_div, abs_of_pos hQpos, div_le_iff₀ hQpos, hXabs, hE39]
        have : (2 : ℚ) ^ (39 - 10) = 2 ^ 29 := by norm_num
        rw [this]
        calc |x| * 2 ^ 24 ≤ 65504 * 2 ^ 24 := mul_le_mul_of_nonneg_right h (by positivity)
          _ = ((2047 : ℤ) : ℚ) * 2 ^ 29 := by norm_num
      have := rne_abs_le _ 2047 ht
      rw [hE39]
      calc |rne (X / (2 : ℚ) ^ (39 - 10))| * (2 : ℤ) ^ (39 - 10) ≤ 2047 * (2 : ℤ) ^ (39 - 10) := by
            rw [← hE39]; exact mul_le_mul_of_nonneg_right this (by positivity)
        _ < (2 : ℤ) ^ 40 := by norm_num
    · have hlt : rabs X < (2 : ℚ) ^ (E + 1) := hup (by omega)
      rw [rabs_eq] at hlt
      have ht : |X / (2 : ℚ) ^ (E - 10)| ≤ ((2048 : ℤ) : ℚ) := by
        rw [abs_div, abs_of_pos hQpos, div_le_iff₀ hQpos]
        have : ((2048 : ℤ) : ℚ) * (2 : ℚ) ^ (E - 10) = (2 : ℚ) ^ (E + 1) := by
          have : (2048 : ℚ) = 2 ^ 11 := by norm_num
          push_cast
          rw [this, ← pow_add]; congr 1; omega
        rw [this]; exact hlt.le
      have := rne_abs_le _ 2048 ht
      calc |rne (X / (2 : ℚ) ^ (E - 10))| * (2 : ℤ) ^ (E - 10) ≤ 2048 * (2 : ℤ) ^ (E - 10) :=
            mul_le_mul_of_nonneg_right this (by positivity)
        _ = (2 : ℤ) ^ (E + 1) := by
            have : (2048 : ℤ) = 2 ^ 11 := by norm_num
            rw [this, ← pow_add]; congr 1; omega
        _ ≤ (2 : ℤ) ^ 39 := pow_le_pow_right₀ (by norm_num) (by omega)
        _ < (2 : ℤ) ^ 40 := by norm_num
  have hnat : ((rne (X / (((2 : ℤ) ^ (E - 10) : ℤ) : ℚ)) * (2 : ℤ) ^ (E - 10)).natAbs : ℤ) < (2 : ℤ) ^ 40 := by
    rw [Int.natCast_natAbs, abs_mul, abs_of_pos (by positivity : (0 : ℤ) < 2 ^ (E - 10))]
    exact hbound
  exact_mod_cast hnat

/-! ### int8 -/

section Generic
variable {S : Type} (o : Ops S)

/-- the int8 quantiser refuses to work before training — both directions -/
theorem q_int8_untrained_err (round : S → Int) (absMax : S) (h : isTrained o absMax = false)
    (v : List S) (qs : List Int) :
    quantInt8 o round absMax v = none ∧ deqInt8 o absMax qs = none := by
  simp [quantInt8, deqInt8, h]

/-- … and works, preserving length, once trained -/
theorem q_len_preserved_int8 (round : S → Int) (absMax : S) (h : isTrained o absMax = true)
    (v : List S) :
    ∃ qs ys, quantInt8 o round absMax v = some qs ∧ deqInt8 o absMax qs = some ys ∧
      qs.length = v.length ∧ ys.length = v.length := by
  refine ⟨v.map fun val => wrap8 (round (o.mul (o.div val absMax) (o.ofNat 127))),
    (v.map fun val => wrap8 (round (o.mul (o.div val absMax) (o.ofNat 127)))).map
      fun q => o.mul (o.div (ofInt8 o q) (o.ofNat 127)) absMax, ?_, ?_, by simp, by simp⟩
  · simp [quantInt8, h]
  · simp [deqInt8, h]

end Generic

/-- over ℚ, "trained" means `0 < absMax` (Go: `absMax > 0`) -/
theorem q_int8_trained_iff (A : ℚ) : isTrained ratOps A = true ↔ 0 < A := by
  rw [isTrained_rat]; simp

/-- one component: for `0 < A` and `|x| ≤ A` the reconstruction error is at most `A/254`
    (exact in ℚ: `|t − round t| ≤ ½` with `t = x/A·127`, and no wrap-around) -/
theorem q_int8_error_component (A x : ℚ) (hA : 0 < A) (hx : |x| ≤ A) :
    |ratOps.mul (ratOps.div (ofInt8 ratOps (wrap8 (roundHalfAway (ratOps.mul (ratOps.div x A) (ratOps.ofNat 127)))))
        (ratOps.ofNat 127)) A - x| ≤ A / 254 := by
  rw [ofInt8_rat]
  simp only [ratOps]
  set t : ℚ := x / A * ((127 : ℕ) : ℚ) with ht
  have htabs : |t| ≤ ((127 : ℤ) : ℚ) := by
    rw [ht, abs_mul, abs_div, abs_of_pos hA]
    have : |x| / A ≤ 1 := by rw [div_le_one hA]; exact hx
    have h127 : |((127 : ℕ) : ℚ)| = 127 := by norm_num
    rw [h127]; push_cast; nlinarith [abs_nonneg x]
  have hr := roundHalfAway_abs_le t 127 htabs
  rw [wrap8_id _ hr]
  have herr := roundHalfAway_err t
  have hxt : x = t * A / 127 := by
    rw [ht]; push_cast; field_simp
  have : (roundHalfAway t : ℚ) / ((127 : ℕ) : ℚ) * A - x = -((t - (roundHalfAway t : ℚ)) * (A / 127)) := by
    conv_lhs => rw [hxt]
    push_cast; ring
  rw [this, abs_neg, abs_mul, abs_of_pos (by positivity : (0 : ℚ) < A / 127)]
  calc _ ≤ 1 / 2 * (A / 127) := mul_le_mul_of_nonneg_right herr (by positivity)
    _ = A / 254 := by ring

/-- the vector statement: quantise, dequantise, every component within `A/254` -/
theorem q_int8_error (A : ℚ) (hA : 0 < A) (v : List ℚ) (hv : ∀ x ∈ v, |x| ≤ A) :
    ∃ qs ys, quantInt8 ratOps roundHalfAway A v = some qs ∧ deqInt8 ratOps A qs = some ys ∧
      List.Forall₂ (fun y x => |y - x| ≤ A / 254) ys v := by
  have htr : isTrained ratOps A = true := (q_int8_trained_iff A).2 hA
  refine ⟨v.map fun val => wrap8 (roundHalfAway (ratOps.mul (ratOps.div val A) (ratOps.ofNat 127))),
    (v.map fun val => wrap8 (roundHalfAway (ratOps.mul (ratOps.div val A) (ratOps.ofNat 127)))).map
      fun q => ratOps.mul (ratOps.div (ofInt8 ratOps q) (ratOps.ofNat 127)) A, ?_, ?_, ?_⟩
  · simp [quantInt8, htr]
  · simp [deqInt8, htr]
  · induction v with
    | nil => simp
    | cons x t ih =>
      simp only [List.map_cons, List.forall₂_cons]
      exact ⟨q_int8_error_component A x hA (hv x (List.mem_cons_self ..)),
        ih (fun y hy => hv y (List.mem_cons_of_mem _ hy))⟩

/-- training covers the training data: every training component lies inside the trained
    range `[-absMax, absMax]` -/
theorem q_int8_train_covers (vs : List (List ℚ)) :
    ∀ vec ∈ vs, ∀ x ∈ vec, |x| ≤ trainAbsMax ratOps vs := by
  have inner : ∀ (vec : List ℚ) (m0 : ℚ),
      m0 ≤ vec.foldl (absMaxStep ratOps) m0 ∧ ∀ x ∈ vec, |x| ≤ vec.foldl (absMaxStep ratOps) m0 := by
    intro vec
    induction vec with
    | nil => intro m0; simp
    | cons y t ih =>
      intro m0
      simp only [List.foldl_cons]
      obtain ⟨h1, h2⟩ := ih (absMaxStep ratOps m0 y)
      obtain ⟨hm1, hm2⟩ := absMaxStep_rat m0 y
      refine ⟨le_trans hm1 h1, ?_⟩
      intro x hx
      rcases List.mem_cons.1 hx with rfl | hx
      · exact le_trans hm2 h1
      · exact h2 x hx
  have key : ∀ (vs : List (List ℚ)) (m0 : ℚ),
      m0 ≤ vs.foldl (fun m vec => vec.foldl (absMaxStep ratOps) m) m0 ∧
      ∀ vec ∈ vs, ∀ x ∈ vec, |x| ≤ vs.foldl (fun m vec => vec.foldl (absMaxStep ratOps) m) m0 := by
    intro vs
    induction vs with
    | nil => intro m0; simp
    | cons vec t ih =>
      intro m0
      simp only [List.foldl_cons]
      obtain ⟨i1, i2⟩ := inner vec m0
      obtain ⟨h1, h2⟩ := ih (vec.foldl (absMaxStep ratOps) m0)
      refine ⟨le_trans i1 h1, ?_⟩
      intro w hw x hx
      rcases List.mem_cons.1 hw with rfl | hw
      · exact le_trans (i2 x hx) h1
      · exact h2 w hw x hx
  exact (key vs ratOps.zero).2

/-! ### non-vacuity -/
section Examples
-- 1/3 is inside the normal range
example : |halfValue (1 / 3) - 1 / 3| ≤ |(1 / 3 : ℚ)| / 2048 := q_half_error _ (by norm_num)
-- int8: absMax = 2, x = 1/2 → t = 31.75 → q = 32 → 64/127; error 1/254 ≤ 2/254
example : ∃ qs ys, quantInt8 ratOps roundHalfAway 2 [1 / 2, -2, 2] = some qs ∧ deqInt8 ratOps 2 qs = some ys ∧
    List.Forall₂ (fun y x => |y - x| ≤ (2 : ℚ) / 254) ys [1 / 2, -2, 2] :=
  q_int8_error 2 (by norm_num) _ (by
    intro x hx
    simp only [List.mem_cons, List.not_mem_nil, or_false] at hx
    rcases hx with rfl | rfl | rfl <;> norm_num [abs_le])
-- untrained (absMax = 0): both directions refuse
example : quantInt8 ratOps roundHalfAway 0 [1] = none ∧ deqInt8 ratOps 0 [1] = none :=
  q_int8_untrained_err ratOps roundHalfAway 0 (by rw [isTrained_rat]; simp) _ _
end Examples

end Comet.Quant
