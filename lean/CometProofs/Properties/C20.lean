/-
  C20 — training and quantisation are deterministic, in-range, error-bounded.

  ONLY property theorems and non-vacuity examples; helper lemmas are in
  CometProofs/KMeans.lean and CometProofs/Quant.lean.

  Reading guide.  `kmeans o dist vs k maxIter` is the model of clustering.go's
  `kmeansInternal` (Comet/KMeans.lean), written over scalar operations `o : Ops S` and
  an arbitrary distance function; `none` is Go's `(nil, nil)`.  The structural theorems
  hold for EVERY scalar instance — in particular for the `Float32` instance the driver
  executes and compares bit for bit with the Go code.  The bounding-box and
  first-minimiser theorems are over an arbitrary exact ordered field `K`
  (`fieldOps K`; ℚ, ℝ, …).  Determinism and input immutability are definitional in a
  pure functional model (a function applied twice to the same argument gives the same
  value; nothing is written): nothing is claimed by a theorem; they are tied to the
  code by the regenerated source facts (CometGen/Obligations_C20.lean: no math/rand, no
  map, no goroutine, no write to the argument in `kmeansInternal`, its callers and the
  three `Train` methods) and by the correspondence run (twice → identical bits, inputs
  unchanged, twice-trained IVF / PQ / IVFPQ answer identically).
  The quantiser theorems are over ℚ: `ratOps` is the exact-field instance of the same
  definitions the driver executes at `Float32`.
-/
import CometProofs.KMeans
import CometProofs.Quant
namespace Comet.KMeans
open Comet.Dist

section Structural
variable {S : Type} (o : Ops S) (dist : List S → List S → S)

/-- `(nil, nil)` exactly when there is no training vector or `k ≤ 0` (`maxIter` is irrelevant) -/
theorem kmeans_nil_cases (vs : List (List S)) (k maxIter : Int) :
    kmeans o dist vs k maxIter = none ↔ vs = [] ∨ k ≤ 0 := by
  cases vs with
  | nil => simp [kmeans]
  | cons v0 rest =>
    by_cases hk : k ≤ 0 <;> simp [kmeans, hk]

/-- exactly `min(k, n)` centroids, for every `k > 0`, `n > 0`, every `maxIter ∈ ℤ` -/
theorem kmeans_count (vs : List (List S)) (k maxIter : Int) (r : Result S)
    (h : kmeans o dist vs k maxIter = some r) :
    r.centroids.length = min k.toNat vs.length := by
  cases vs with
  | nil => simp [kmeans] at h
  | cons v0 rest =>
    by_cases hk : k ≤ 0
    · simp [kmeans, hk] at h
    · simp only [kmeans, hk, if_false, Option.some.injEq] at h
      subst h
      rw [iterate_centroids_length, initCentroids_length, effK_eq]
      simp

/-- every training vector is assigned to a valid centroid index -/
theorem kmeans_assign_valid (vs : List (List S)) (k maxIter : Int) (r : Result S)
    (h : kmeans o dist vs k maxIter = some r) :
    r.mapping.length = vs.length ∧
    ∀ m ∈ r.mapping, 0 ≤ m ∧ m < ((min k.toNat vs.length : Nat) : Int) := by
  cases vs with
  | nil => simp [kmeans] at h
  | cons v0 rest =>
    by_cases hk : k ≤ 0
    · simp [kmeans, hk] at h
    · simp only [kmeans, hk, if_false, Option.some.injEq] at h
      subst h
      obtain ⟨cs', hlen, hmap⟩ := iterate_mapping o dist v0.length (v0 :: rest) (effIter maxIter) 0
        (initCentroids v0 rest (effK k (rest.length + 1))) (List.replicate (rest.length + 1) (-1)) (effIter_pos _)
      rw [hmap]
      have hk' : 0 < effK k (rest.length + 1) := effK_pos k _ (by omega) (by omega)
      have hne : cs' ≠ [] := by
        intro h0
        rw [h0, initCentroids_length] at hlen
        simp at hlen
        omega
      refine ⟨assign_length o dist _ _, ?_⟩
      intro m hm
      have := assign_valid o dist (v0 :: rest) cs' hne m hm
      rw [hlen, initCentroids_length, effK_eq] at this
      simpa using this

/-- when the run converged (the loop ended because no assignment changed) every vector
    is assigned to `FindNearestCentroidIndex` of the RETURNED centroids … -/
theorem kmeans_converged_nearest (vs : List (List S)) (k maxIter : Int) (r : Result S)
    (h : kmeans o dist vs k maxIter = some r) (hc : r.converged = true) :
    r.mapping = vs.map fun v => (nearest o dist v r.centroids : Int) := by
  cases vs with
  | nil => simp [kmeans] at h
  | cons v0 rest =>
    by_cases hk : k ≤ 0
    · simp [kmeans, hk] at h
    · simp only [kmeans, hk, if_false, Option.some.injEq] at h
      subst h
      exact iterate_converged o dist _ _ _ _ _ _ hc

/-- centroids have the dimension of the (rectangular) training set -/
theorem kmeans_centroid_dim (dim : Nat) (vs : List (List S)) (hrect : ∀ v ∈ vs, v.length = dim)
    (k maxIter : Int) (r : Result S) (h : kmeans o dist vs k maxIter = some r) :
    ∀ c ∈ r.centroids, c.length = dim := by
  cases vs with
  | nil => simp [kmeans] at h
  | cons v0 rest =>
    by_cases hk : k ≤ 0
    · simp [kmeans, hk] at h
    · simp only [kmeans, hk, if_false, Option.some.injEq] at h
      subst h
      have hd : v0.length = dim := hrect v0 (List.mem_cons_self ..)
      rw [hd]
      exact iterate_dim o dist dim (v0 :: rest) hrect _ _ _ _
        (fun c hc => hrect c (initCentroids_mem v0 rest _ c hc))

end Structural

section Field
variable {K : Type} [Field K] [LinearOrder K] [IsStrictOrderedRing K] (dist : List K → List K → K)

omit [IsStrictOrderedRing K] in
/-- … which, over an exact ordered field, is the FIRST index of minimal distance:
    no centroid is nearer, and every earlier one is strictly farther. -/
theorem nearest_is_first_minimiser (v : List K) (cs : List (List K)) (hne : cs ≠ []) :
    ∃ h : nearest (fieldOps K) dist v cs < cs.length,
      (∀ c ∈ cs, dist v cs[nearest (fieldOps K) dist v cs] ≤ dist v c) ∧
      (∀ j (hj : j < cs.length), j < nearest (fieldOps K) dist v cs →
        dist v cs[nearest (fieldOps K) dist v cs] < dist v cs[j]) := by
  obtain ⟨h, h1, h2⟩ := nearest_first_min dist v cs hne
  have h' : nearest (fieldOps K) dist v cs < cs.length := by simpa using h
  refine ⟨h', ?_, ?_⟩
  · intro c hc
    have := h1 (dist v c) (List.mem_map.2 ⟨c, hc, rfl⟩)
    simpa using this
  · intro j hj hlt
    have := h2 j (by simpa using hj) hlt
    simpa using this

/-- bounding box, coordinate by coordinate, for ANY distance function: if coordinate `d`
    of every training vector lies in `[lo, hi]`, so does coordinate `d` of every
    returned centroid (initial centroids are training vectors; the mean of a non-empty
    sub-family lies in the hull; empty clusters keep their centroid; induction over the
    iterations). -/
theorem kmeans_bbox (d : Nat) (lo hi : K) (vs : List (List K)) (hvs : ∀ v ∈ vs, InBox d lo hi v)
    (k maxIter : Int) (r : Result K) (h : kmeans (fieldOps K) dist vs k maxIter = some r) :
    ∀ c ∈ r.centroids, InBox d lo hi c := by
  cases vs with
  | nil => simp [kmeans] at h
  | cons v0 rest =>
    by_cases hk : k ≤ 0
    · simp [kmeans, hk] at h
    · simp only [kmeans, hk, if_false, Option.some.injEq] at h
      subst h
      have hd : d < v0.length := by
        obtain ⟨x, hx, _⟩ := hvs v0 (List.mem_cons_self ..)
        by_contra hcon
        rw [List.getElem?_eq_none (not_lt.1 hcon)] at hx
        cases hx
      exact iterate_box dist d lo hi v0.length hd (v0 :: rest) hvs _ _ _ _
        (fun c hc => hvs c (initCentroids_mem v0 rest _ c hc))

/-- the same with the tightest box: every coordinate of every centroid lies between that
    coordinate of two training vectors (its minimum and maximum over the training set) -/
theorem kmeans_bbox_minmax (dim : Nat) (vs : List (List K)) (hrect : ∀ v ∈ vs, v.length = dim)
    (k maxIter : Int) (r : Result K) (h : kmeans (fieldOps K) dist vs k maxIter = some r)
    (d : Nat) (hd : d < dim) :
    ∃ vmin ∈ vs, ∃ vmax ∈ vs, ∃ a b, vmin[d]? = some a ∧ vmax[d]? = some b ∧
      ∀ c ∈ r.centroids, ∃ x, c[d]? = some x ∧ a ≤ x ∧ x ≤ b := by
  have hne : vs ≠ [] := by
    intro h0; rw [h0] at h; simp [kmeans] at h
  obtain ⟨vmin, hmin, a, ha, hamin⟩ := exists_coord_min d dim hd vs hne hrect
  obtain ⟨vmax, hmax, b, hb, hbmax⟩ := exists_coord_max d dim hd vs hne hrect
  refine ⟨vmin, hmin, vmax, hmax, a, b, ha, hb, ?_⟩
  have hbox : ∀ v ∈ vs, InBox d a b v := by
    intro v hv
    have hl : d < v.length := by rw [hrect v hv]; exact hd
    exact ⟨v[d], List.getElem?_eq_getElem hl, hamin v hv v[d] (List.getElem?_eq_getElem hl),
      hbmax v hv v[d] (List.getElem?_eq_getElem hl)⟩
  exact kmeans_bbox dist d a b vs hbox k maxIter r h

end Field

/-! ### non-vacuity: concrete runs (integer coordinates, exact means; a toy `Ops ℤ` so
    that the kernel can evaluate the model) with a duplicate point, k > n, k ≤ 0, an empty cluster -/
section Example
def toyOps : Ops Int where
  zero := 0
  one := 1
  add := (· + ·)
  sub := (· - ·)
  mul := (· * ·)
  div := (· / ·)
  neg := fun x => -x
  sqrt := id
  lt := fun a b => decide (a < b)
  isZero := fun x => decide (x = 0)
  ofNat := fun n => (n : Int)
  ltInf := fun _ => true

def exVs : List (List Int) := [[0, 0], [0, 0], [4, 0], [6, 2]]
-- two centroids, converged; [0,0] twice → cluster 0, the other two → cluster 1 with mean (5,1)
example : (kmeans toyOps (l2sq toyOps) exVs 2 0).map (fun r => (r.centroids, r.mapping, r.converged)) =
    some ([[0, 0], [5, 1]], [0, 0, 1, 1], true) := by decide
-- the hypotheses of `kmeans_converged_nearest` are met by this run
example : ∃ r, kmeans toyOps (l2sq toyOps) exVs 2 0 = some r ∧ r.converged = true ∧
    r.mapping = exVs.map fun v => (nearest toyOps (l2sq toyOps) v r.centroids : Int) := by
  refine ⟨_, rfl, by decide, ?_⟩
  exact kmeans_converged_nearest toyOps (l2sq toyOps) exVs 2 0 _ rfl (by decide)
-- maxIter = 1 stops before convergence: the mapping is nearest w.r.t. the INITIAL centroids
example : (kmeans toyOps (l2sq toyOps) exVs 2 1).map (fun r => (r.centroids, r.mapping, r.converged)) =
    some ([[0, 0], [5, 1]], [0, 0, 1, 1], false) := by decide
-- k > n is cut to n; k ≤ 0 gives nil
example : (kmeans toyOps (l2sq toyOps) exVs 9 1).map (fun r => r.centroids.length) = some 4 := by decide
example : (kmeans toyOps (l2sq toyOps) exVs 0 5).isNone = true := by decide
-- an empty cluster keeps its centroid: all points equal, k = 2
example : (kmeans toyOps (l2sq toyOps) [[1], [1], [1]] 2 3).map (fun r => (r.centroids, r.mapping)) =
    some ([[1], [1]], [0, 0, 0]) := by decide
end Example

end Comet.KMeans
