/-
  C02 for the other index kinds, by composition with their own properties' theorems:
  an exact top-k of the specification's candidates is a sound answer (`isTopK_cands_sound`).
  (HNSW: C12's exactness is partial, the correspondence checker `checkSound` decides every
  HNSW answer.)
-/
import CometProofs.Properties.C02
import CometProofs.Properties.C14
import CometProofs.Properties.C13
namespace Comet.PQ
open Comet.Pipeline

variable {S : Type}

/-- Every PQ answer — any history after one Train, any query, k, threshold, id
    restriction — is live, eligible, within threshold, duplicate-free, ascending, at most k,
    and carries the kind's score: the asymmetric distance of the lifted metric
    (`lift … .dist` = √Σ table[m][code[m]], C14) to the stored code. -/
theorem pq_sound [DecidableEq S] (m : Metric (List S) S) (A : Arith S) (ord : m.sc.Ordered)
    (dim M nbits n : Nat) (cbs : List (List (List S))) (s0 : State S)
    (htrain : train (init dim M nbits) n true cbs = (s0, .ok))
    (hwf : cbWF M (2 ^ nbits) (dim / M) cbs = true)
    (ops : List (Flat.Op (List S)))
    (hn : ((Flat.live (lift m A trunc8 (dim / M) cbs) dim (ops.map liftOp)).map (·.1)).Nodup)
    (q q' : List S) (hq : q.length = dim) (hpre : m.pre q = some q')
    (k : Int) (thr : S) (F : List Id) :
    ∃ res, searchSingle m A (run m A s0 ops) q k thr F = .ok res ∧
      Sound (lift m A trunc8 (dim / M) cbs).sc
        (fun v s => decide (s = (lift m A trunc8 (dim / M) cbs).dist (inject q') v))
        (Flat.live (lift m A trunc8 (dim / M) cbs) dim (ops.map liftOp)) F thr k res := by
  obtain ⟨res, h1, h2⟩ := pq_topk m A ord dim M nbits n cbs s0 htrain hwf ops q q' hq hpre k thr F
  exact ⟨res, h1, Flat.isTopK_cands_sound _ _ hn _ thr F k res h2⟩

end Comet.PQ

namespace Comet.Pipeline
variable {V S : Type}

/-- soundness w.r.t. a part of the live set is soundness w.r.t. the live set -/
theorem Sound.mono_live {sc : Scalar S} {scoreOK : V → S → Bool} {live' live : List (Id × V)}
    {F : List Id} {thr : S} {k : Int} {res : List (Hit S)}
    (h : Sound sc scoreOK live' F thr k res) (hsub : ∀ e ∈ live', e ∈ live) :
    Sound sc scoreOK live F thr k res :=
  ⟨fun x hx => by
      obtain ⟨v, hv, hs⟩ := h.live_scored x hx
      exact ⟨v, hsub _ hv, hs⟩,
   h.eligible, h.within, h.distinct, h.sorted, h.atMostK⟩

end Comet.Pipeline

namespace Comet.IVF
open Comet.Pipeline

variable {V S : Type}

/-- Every IVF answer — any post-training history, any query, k, threshold, id restriction
    and ANY number of probes — is live, eligible, within threshold, duplicate-free,
    ascending, at most k, and carries the true metric distance (by composition with C13's
    `ivf_partial_exact`). -/
theorem ivf_sound [DecidableEq S] (m : Metric V S) (ord : m.sc.Ordered) (inf : S)
    (dim nlist n : Nat) (cs : List V)
    (hpos : 0 < nlist) (hn : nlist ≤ n) (hcs : cs.length = nlist)
    (ops : List (Flat.Op V))
    (hnd : ((Flat.live m dim ops).map (·.1)).Nodup)
    (q q' : V) (k : Int) (thr : S) (F : List Id) (p : Int)
    (hq : m.dimOf q = dim) (hpre : m.pre q = some q') :
    ∃ res, searchSingle m (trainedRun m inf dim nlist n cs ops) q k thr F p = .ok res ∧
      Sound m.sc (fun v s => decide (s = m.dist q' v)) (Flat.live m dim ops) F thr k res := by
  obtain ⟨res, h1, _, h3⟩ :=
    ivf_partial_exact m ord inf dim nlist n cs hpos hn hcs ops q q' k thr F p hq hpre
  refine ⟨res, h1, ?_⟩
  unfold probeCands at h3
  have hnd' : ((inClusters m inf cs (probe m q' cs (clampProbes p nlist))
      (Flat.live m dim ops)).map (·.1)).Nodup :=
    ((List.filter_sublist).map _).nodup hnd
  exact (Flat.isTopK_cands_sound m _ hnd' q' thr F k res h3).mono_live
    (fun e he => (List.mem_filter.1 he).1)

end Comet.IVF
