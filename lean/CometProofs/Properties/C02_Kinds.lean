/-
  C02 for the other index kinds, by composition with their own properties' theorems:
  an exact top-k of the specification's candidates is a sound answer (`isTopK_cands_sound`).
  (IVF: added when C13's model is in the tree; HNSW: C12's exactness is partial, the
  correspondence checker `checkSound` decides every HNSW answer.)
-/
import CometProofs.Properties.C02
import CometProofs.Properties.C14
namespace Comet.PQ
open Comet.Pipeline

variable {S : Type}

/-- Every PQ answer — any history after one Train, any query, k, threshold, id
    restriction — is live, eligible, within threshold, duplicate-free, ascending, at most k,
    and carries the kind's score: the asymmetric distance of the lifted metric
    (`lift … .dist` = √Σ table[m][code[m]], C14) to the stored code. -/
theorem pq_sound [DecidableEq S] (m : Metric (List S) S) (A : Arith S) (ord : m.sc.Ordered)
    (dim M nbits n : Nat) (cbs : List (List (List S))) (s0 : State S)
    (htrain : train (init dim M nbits) n true cbs = (s0, .ok))
    (hwf : cbWF M (2 ^ nbits) (dim / M) cbs = true)
    (ops : List (Flat.Op (List S)))
    (hn : ((Flat.live (lift m A trunc8 (dim / M) cbs) dim (ops.map liftOp)).map (·.1)).Nodup)
    (q q' : List S) (hq : q.length = dim) (hpre : m.pre q = some q')
    (k : Int) (thr : S) (F : List Id) :
    ∃ res, searchSingle m A (run m A s0 ops) q k thr F = .ok res ∧
      Sound (lift m A trunc8 (dim / M) cbs).sc
        (fun v s => decide (s = (lift m A trunc8 (dim / M) cbs).dist (inject q') v))
        (Flat.live (lift m A trunc8 (dim / M) cbs) dim (ops.map liftOp)) F thr k res := by
  obtain ⟨res, h1, h2⟩ := pq_topk m A ord dim M nbits n cbs s0 htrain hwf ops q q' hq hpre k thr F
  exact ⟨res, h1, Flat.isTopK_cands_sound _ _ hn _ thr F k res h2⟩

end Comet.PQ
