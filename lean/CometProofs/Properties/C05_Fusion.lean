/-
  C05 ∘ C19: the hypothesis `KeysUnion` of C05's theorems (the fusion returns only ids of
  one of its inputs) is discharged for the concrete fusion models of fusion.go
  (Comet/Fusion.lean) from C19's union / intersection laws — weighted sum, max, min.
  (Reciprocal-rank fusion: C19's `fusion_rrf` gives the same by its lookup law; it needs the
  strict-weak-order hypothesis on the scores and is kept in C19.)
-/
import CometProofs.Properties.C05
import CometProofs.Properties.C19_Fusion
namespace Comet.HybridSearch

variable {S : Type}

theorem mem_ids_iff_lookup (m : List (Id × S)) (i : Id) :
    i ∈ ids m ↔ (m.lookup i).isSome = true := by
  induction m with
  | nil => simp [ids, List.lookup]
  | cons p t ih =>
    simp only [ids, List.map_cons, List.mem_cons, List.lookup] at ih ⊢
    by_cases h : i = p.1
    · subst h; simp
    · have : (i == p.1) = false := by simpa using h
      simp [h, this, ih]

theorem keysUnion_wsum (o : DOps S) (wv wt : S) : KeysUnion (wsumFusion o wv wt) := by
  intro v t hv ht i hi
  rw [mem_ids_iff_lookup] at hi
  rw [fusion_weighted_sum o wv wt v t hv ht i] at hi
  rw [mem_ids_iff_lookup, mem_ids_iff_lookup]
  cases h1 : v.lookup i <;> cases h2 : t.lookup i <;> simp_all

theorem keysUnion_max (o : DOps S) : KeysUnion (maxFusion o) := by
  intro v t hv ht i hi
  rw [mem_ids_iff_lookup] at hi
  rw [fusion_max o v t hv ht i] at hi
  rw [mem_ids_iff_lookup, mem_ids_iff_lookup]
  cases h1 : v.lookup i <;> cases h2 : t.lookup i <;> simp_all

/-- min fusion even stays inside the intersection -/
theorem keysUnion_min (o : DOps S) : KeysUnion (minFusion o) := by
  intro v t hv _ i hi
  rw [mem_ids_iff_lookup] at hi
  rw [fusion_min o v t hv i] at hi
  rw [mem_ids_iff_lookup, mem_ids_iff_lookup]
  cases h1 : v.lookup i <;> cases h2 : t.lookup i <;> simp_all

theorem keys_min_inter (o : DOps S) (v t : List (Id × S)) (hv : (ids v).Nodup) (i : Id)
    (hi : i ∈ ids (minFusion o v t)) : i ∈ ids v ∧ i ∈ ids t := by
  rw [mem_ids_iff_lookup] at hi
  rw [fusion_min o v t hv i] at hi
  rw [mem_ids_iff_lookup, mem_ids_iff_lookup]
  cases h1 : v.lookup i <;> cases h2 : t.lookup i <;> simp_all

end Comet.HybridSearch
