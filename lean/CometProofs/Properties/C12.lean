/-
  C12 — HNSW never hides live vectors.

  ONLY property theorems and non-vacuity examples live here; helper lemmas are in
  CometProofs/HNSW*.lean, the model and the statement vocabulary (`Op`, `run`, `liveSpec`,
  `Reachable`, `validPicks`, `residentsLe`, `complete0B`, …) in Comet/Vector/HNSW.lean.

  The model is the code AFTER the fixes fb5d06f (D1: register before linking), f6a780e
  (D2: searchLayer walks through soft-deleted vertices, never reports them; ef clamped to
  ≥ 1) and f98dc7f (D2: Add purges the tombstones first when the entry point is
  soft-deleted).  Consequences proved here, by induction over arbitrary histories:
      hnsw_nonempty_partial      EVERY history, size, ef: a completed unrestricted search is
                                 non-empty whenever some live vertex is reachable from the entry
                                 point along bottom-layer edges of stored vertices (no `entryLive`
                                 hypothesis any more); hnsw_nonempty_entry_live is the special case
      hnsw_nonempty_small        in the small regime: unconditionally (a live vertex exists)
      hnsw_small_exact_partial   `smallRegime`: never more than n ≤ min (2M+1) efC vertices; ef ≥ n
      hnsw_reachable_small       same regime
      hnsw_small_exact_ever      clause 2 in the reading "at most 2M vectors EVER": holds
  plus searchLayer_spec_{sound,full_or_all,complete,nonempty,total} and reachSet_correct.
  Still FALSE at full strength (negations proved from witnesses that are replayed against
  the real code on every run, corpus/C12):
      hnsw_nonempty_false             ¬ NonEmptyFull               known finding D3
      hnsw_clusters_disconnect        ¬ ReachableFull              known finding D3
      hnsw_small_exact_since_flush_false  ¬ SmallExactSinceFlushFull   known finding D21
      hnsw_removal_disconnects        ¬ Reachable after Flush, no pruning   known finding D21
  Why the repaired defects were defects (model variants):
      hnsw_entry_removed_empty        searchLayer BEFORE f6a780e answers [] after the entry point is removed
      hnsw_old_order_no_inlinks       the statement order BEFORE fb5d06f loses every in-link
  The partial theorems speak about COMPLETED model runs / searches (`run … = .ok s`,
  `searchSingle … = .ok (.ok res)`): that no fault (nil lookup, fuel) occurs is proved for
  searchLayer (searchLayer_spec_total) but not for the greedy descent / insertNode.
-/
import CometProofs.HNSWWeak
import CometProofs.HNSWFuel
namespace Comet.HNSW

variable {V S : Type}

/-! ## the verified graph checker used by the correspondence run -/

/-- `reachSet` (depth-first closure with fuel) decides reachability: whenever it
    answers, its answer is exactly the set of vertices reachable by `succ`-steps. -/
theorem reachSet_correct (succ : Id → List Id) (fuel : Nat) (e : Id) (r : List Id)
    (h : reachSet succ fuel e = some r) (v : Id) : v ∈ r ↔ Reach succ e v := by
  obtain ⟨h1, h2, _, h4⟩ := dfs_spec succ e fuel [e] [] r h
    (by intro x hx; rcases List.mem_singleton.1 hx with rfl; exact Reach.refl)
    (by intro x hx; cases hx) (by intro u hu; cases hu)
  constructor
  · exact h1 v
  · intro hv
    induction hv with
    | refl => exact h4 e (by simp)
    | step _ hw ih => exact h2 _ ih _ hw

/-! ## searchLayer (the graph search shared by insertion and query), code since f6a780e -/

/-- **searchLayer_spec, soundness.** Whatever `searchLayer` returns are distinct, resident,
    NON-deleted vertices reachable from the given start vertex along the edges of that layer
    (through any stored vertices, soft-deleted ones included), each with its distance. -/
theorem searchLayer_spec_sound (m : Metric V S) (s : State V) (q : V) (ep : Id) (ef layer : Nat)
    (res : List (Hit S)) (h : searchLayer m s q ep ef layer = .ok res) :
    (∀ r ∈ res, Reach (nbrsAt s layer) ep r.id ∧ isDeleted s r.id = false ∧
      ∃ n, s.nodes.get? r.id = some n ∧ r.score = m.dist q n.vec) ∧
    (res.map (·.id)).Nodup :=
  searchLayer_sound m s q ef layer ep res h

/-- **searchLayer_spec, the dichotomy.** The answer has at least `max ef 1` hits, or it
    contains EVERY non-deleted vertex reachable from the start vertex. -/
theorem searchLayer_spec_full_or_all (m : Metric V S) (s : State V) (q : V) (ep : Id) (ef layer : Nat)
    (res : List (Hit S)) (h : searchLayer m s q ep ef layer = .ok res) :
    Nat.max ef 1 ≤ res.length ∨
    ∀ v, Reach (nbrsAt s layer) ep v → isDeleted s v = false → v ∈ res.map (·.id) :=
  searchLayer_full_or_all m s q ef layer ep res h

/-- **searchLayer_spec, completeness.** If `ef` is at least the number of non-deleted
    vertices reachable from the start vertex (`U`: any list that covers them), ALL of them
    are returned: the early exit, the admission test and the eviction never lose one. -/
theorem searchLayer_spec_complete (m : Metric V S) (s : State V) (q : V) (ep : Id) (ef layer : Nat)
    (U : List Id) (hU : ∀ v, Reach (nbrsAt s layer) ep v → isDeleted s v = false → v ∈ U)
    (hlen : U.length ≤ ef) (res : List (Hit S))
    (h : searchLayer m s q ep ef layer = .ok res) :
    ∀ v, Reach (nbrsAt s layer) ep v → isDeleted s v = false → v ∈ res.map (·.id) :=
  searchLayer_complete m s q ef layer ep U hU hlen res h

/-- **searchLayer_spec, non-emptiness.** If some non-deleted vertex is reachable from the
    start vertex (which may itself be soft-deleted), the answer is not empty, for every `ef`. -/
theorem searchLayer_spec_nonempty (m : Metric V S) (s : State V) (q : V) (ep : Id) (ef layer : Nat)
    (res : List (Hit S)) (h : searchLayer m s q ep ef layer = .ok res)
    (v : Id) (hv : Reach (nbrsAt s layer) ep v) (hvd : isDeleted s v = false) : res ≠ [] :=
  searchLayer_ne m s q ef layer ep res h v hv hvd

/-- **searchLayer_spec, fuel lemma.** If the neighbour lists of the layer point to resident
    vertices and the start vertex is resident, `searchLayer` completes: `|nodes| + 1` rounds
    suffice, no nil lookup and no access to an empty heap happens. -/
theorem searchLayer_spec_total (m : Metric V S) (s : State V) (q : V) (ep : Id) (ef layer : Nat)
    (hres : ∀ j w, w ∈ nbrsAt s layer j → s.nodes.contains w = true)
    (hep : s.nodes.contains ep = true) :
    ∃ res, searchLayer m s q ep ef layer = .ok res :=
  searchLayer_total m s q ef layer ep hres hep

/-! ## the three clauses on one state (decidable hypotheses; `complete0B` is what the
    correspondence run checks on the exported graph of every case in the small regime) -/

/-- Clause 1 on a state: entry point resident and some live vertex reachable from it along
    bottom-layer edges ⇒ every completed unrestricted search is non-empty (`k ∈ ℤ`, any `ef`). -/
theorem hnsw_nonempty_state (m : Metric V S) (ord : m.sc.Ordered) (s : State V)
    (hentry : s.nodes.contains s.entry = true) (hml : s.maxLevel ≠ -1)
    (v : Id) (hv : liveB s v = true) (hreach : Reach (nbrsAt s 0) s.entry v)
    (q q' : V) (k ef : Int) (hq : m.dimOf q = s.dim) (hpre : m.pre q = some q')
    (res : List (Hit S)) (h : searchSingle m s q k m.sc.zero [] ef = .ok (.ok res)) :
    res ≠ [] :=
  search_nonempty_state m ord s hentry hml v (liveB_iff.1 hv) hreach q q' k ef hq hpre res h

/-- Clause 2 on a state: layer 0 complete on the live vertices, the entry point (live or
    soft-deleted) linked to all of them, `ef` at least their number ⇒ every completed search
    (any `k ∈ ℤ`, threshold, id restriction) is an exact top-k of the live vertices. -/
theorem hnsw_small_exact_state (m : Metric V S) (ord : m.sc.Ordered) (s : State V)
    (hcomp : complete0B s = true) (hentry : s.nodes.contains s.entry = true) (hml : s.maxLevel ≠ -1)
    (q q' : V) (k : Int) (thr : S) (F : List Id) (ef : Int)
    (hq : m.dimOf q = s.dim) (hpre : m.pre q = some q')
    (hef : (liveIds s).length ≤ efUsed s ef) (res : List (Hit S))
    (h : searchSingle m s q k thr F ef = .ok (.ok res)) :
    IsTopK m.sc.le k (Flat.cands m (stateLive s) q' thr F) res :=
  search_exact_state m ord s (complete0B_spec hcomp hentry).1 (complete0B_spec hcomp hentry).2.1
    (complete0B_spec hcomp hentry).2.2 hml q q' k thr F ef hq hpre hef res h

/-- Clause 3 on a state. -/
theorem hnsw_reachable_state (s : State V)
    (hcomp : complete0B s = true) (hentry : s.nodes.contains s.entry = true) : Reachable s :=
  reachable_state s (complete0B_spec hcomp hentry).2.2

/-! ## what holds along histories (the `…_partial` theorems): induction over ANY history of
    Add / Remove / Flush, any levels, any flush picks that Go's map order allows -/

/-- **Clause 1, partial — every history, every size, every ef.**  Whenever some live vertex
    is reachable from the entry point along bottom-layer edges of stored vertices (soft-deleted
    ones included), every completed unrestricted search returns at least one hit.  The
    reachability hypothesis is what remains hypothetical: D3 (pruning) and D21 (Flush without
    reconnection) can make every live vertex unreachable (hnsw_nonempty_false). -/
theorem hnsw_nonempty_partial (m : Metric V S) (ord : m.sc.Ordered)
    (dim M efC efS : Nat) (ops : List (Op V)) (s : State V)
    (hfresh : freshAdds ops = true) (hpicks : validPicks m (HNSW.init dim M efC efS) ops = true)
    (hrun : run m (HNSW.init dim M efC efS) ops = .ok s)
    (v : Id) (hv : liveB s v = true) (hreach : Reach (nbrsAt s 0) s.entry v)
    (q q' : V) (k ef : Int) (hq : m.dimOf q = dim) (hpre : m.pre q = some q')
    (res : List (Hit S)) (h : searchSingle m s q k m.sc.zero [] ef = .ok (.ok res)) :
    res ≠ [] := by
  simp only [freshAdds] at hfresh
  obtain ⟨hw, hdim⟩ := run_winv m ops (HNSW.init dim M efC efS) s (init_winv dim M efC efS)
    (fun i _ => by simp [HNSW.init, IdMap.contains]) ((nodupB_iff _).1 hfresh) hpicks hrun
  have hvl := liveB_iff.1 hv
  have hcnt : s.nodes.count ≠ 0 := count_ne_zero_of_live hvl
  have hml : s.maxLevel ≠ -1 := by have := hw.ml hcnt; omega
  exact search_nonempty_state m ord s (hw.entry_res hcnt) hml v hvl hreach q q' k ef
    (by rw [hdim]; exact hq) hpre res h

/-- special case: the entry point itself is live (it always is right after an Add or a
    Flush: f98dc7f) — then nothing else is needed, for every history, size and ef. -/
theorem hnsw_nonempty_entry_live (m : Metric V S) (ord : m.sc.Ordered)
    (dim M efC efS : Nat) (ops : List (Op V)) (s : State V)
    (hfresh : freshAdds ops = true) (hpicks : validPicks m (HNSW.init dim M efC efS) ops = true)
    (hrun : run m (HNSW.init dim M efC efS) ops = .ok s)
    (hentry : liveB s s.entry = true)
    (q q' : V) (k ef : Int) (hq : m.dimOf q = dim) (hpre : m.pre q = some q')
    (res : List (Hit S)) (h : searchSingle m s q k m.sc.zero [] ef = .ok (.ok res)) :
    res ≠ [] :=
  hnsw_nonempty_partial m ord dim M efC efS ops s hfresh hpicks hrun s.entry hentry Reach.refl
    q q' k ef hq hpre res h

/-- **Clause 1 in the small regime: unconditional.**  While the index never holds more than
    `n ≤ min (2M+1) efConstruction` vertices, every completed unrestricted search is non-empty
    as soon as a live vertex exists — whichever vertices were removed (the entry point
    included), flushed or not, for every `ef`. -/
theorem hnsw_nonempty_small (m : Metric V S) (ord : m.sc.Ordered)
    (dim M efC efS n : Nat) (ops : List (Op V)) (s : State V)
    (hreg : smallRegime m dim M efC efS n ops = true)
    (hrun : run m (HNSW.init dim M efC efS) ops = .ok s) (hlive : liveIds s ≠ [])
    (q q' : V) (k ef : Int) (hq : m.dimOf q = dim) (hpre : m.pre q = some q')
    (res : List (Hit S)) (h : searchSingle m s q k m.sc.zero [] ef = .ok (.ok res)) : res ≠ [] :=
  regime_nonempty m ord dim M efC efS n ops s hreg hrun hlive q q' k ef hq hpre res h

/-- **Clause 2, partial.**  Regime (`smallRegime`, decidable on the history): fresh ids
    (0 allowed), allowed flush picks, and the index never holds more than
    `n ≤ min (2M+1) efConstruction` vertices (the bound the code gives: pruning starts at the
    `2M+2`-nd resident vertex; the property asks for `2M`).  Then every completed search with
    `ef ≥ n` — any `k ∈ ℤ`, threshold, id restriction — is an exact top-k of the flat
    specification's live list; no hypothesis on the entry point is needed any more.
    Invariant (`Inv`, CometProofs/HNSWInv.lean): layer 0 is the complete digraph on the live
    vertices and the entry point, live or tombstoned, has an edge to every other live vertex. -/
theorem hnsw_small_exact_partial (m : Metric V S) (ord : m.sc.Ordered)
    (dim M efC efS n : Nat) (ops : List (Op V)) (s : State V)
    (hreg : smallRegime m dim M efC efS n ops = true)
    (hrun : run m (HNSW.init dim M efC efS) ops = .ok s)
    (q q' : V) (k : Int) (thr : S) (F : List Id) (ef : Int)
    (hq : m.dimOf q = dim) (hpre : m.pre q = some q') (hef : n ≤ efUsed s ef)
    (res : List (Hit S)) (h : searchSingle m s q k thr F ef = .ok (.ok res)) :
    IsTopK m.sc.le k (Flat.cands m (liveSpec m dim ops) q' thr F) res :=
  regime_exact m ord dim M efC efS n ops s hreg hrun q q' k thr F ef hq hpre hef res h

/-- **Clause 3, partial.**  In the same regime every live vertex is reachable from the
    entry point along bottom-layer edges. -/
theorem hnsw_reachable_small (m : Metric V S) (dim M efC efS n : Nat) (ops : List (Op V)) (s : State V)
    (hreg : smallRegime m dim M efC efS n ops = true)
    (hrun : run m (HNSW.init dim M efC efS) ops = .ok s) : Reachable s :=
  regime_reachable m dim M efC efS n ops s hreg hrun

/-- … and in that regime the model state is what the specification says: the live
    `(id, vector)` pairs of the graph are those of the flat specification, and the bottom
    layer is the complete digraph on them (what the driver checks on the exported graph). -/
theorem hnsw_small_live_eq_spec (m : Metric V S) (dim M efC efS n : Nat) (ops : List (Op V)) (s : State V)
    (hreg : smallRegime m dim M efC efS n ops = true)
    (hrun : run m (HNSW.init dim M efC efS) ops = .ok s) :
    (stateLive s).Perm (liveSpec m dim ops) ∧ Complete0 s :=
  ⟨(regime_facts m dim M efC efS n ops s hreg hrun).2.2.2.2.2.2,
   (regime_facts m dim M efC efS n ops s hreg hrun).1.comp⟩

/-! ## the full statements -/

/-- the quantifier of the property: `M ≥ 2`, `efConstruction, efSearch ≥ M` -/
structure Params where
  dim : Nat
  M : Nat
  efC : Nat
  efS : Nat
  hM : 2 ≤ M
  hC : M ≤ efC
  hS : M ≤ efS

def Params.init (p : Params) : State V := HNSW.init p.dim p.M p.efC p.efS

/-- Clause 1, full strength: while a live vector exists, a (completed) unrestricted search
    is never empty — any history, whichever vectors were removed, flushed or not.  FALSE. -/
def NonEmptyFull (m : Metric V S) : Prop :=
  ∀ (p : Params) (ops : List (Op V)) (s : State V),
    freshAdds ops = true → validPicks m p.init ops = true → run m p.init ops = .ok s →
    liveSpec m p.dim ops ≠ [] →
    ∀ (q : V) (k ef : Int), m.dimOf q = p.dim → (m.pre q).isSome = true →
      ∀ res, searchSingle m s q k m.sc.zero [] ef = .ok (.ok res) → res ≠ []

/-- Clause 2, reading "at most `2M` vectors EVER held": TRUE (hnsw_small_exact_ever). -/
def SmallExactEver (m : Metric V S) : Prop :=
  ∀ (p : Params) (ops : List (Op V)) (s : State V) (n : Nat),
    freshAdds ops = true → validPicks m p.init ops = true → run m p.init ops = .ok s →
    n ≤ 2 * p.M → residentsLe m n p.init ops = true → n ≤ p.efC → n ≤ p.efS →
    ∀ (q q' : V) (k : Int) (thr : S) (F : List Id), m.dimOf q = p.dim → m.pre q = some q' →
      ∀ res, searchSingle m s q k thr F 0 = .ok (.ok res) →
        IsTopK m.sc.le k (Flat.cands m (liveSpec m p.dim ops) q' thr F) res

/-- Clause 2 as the property words it — at most `2M` vectors "since it was last empty or
    flushed": the bound only has to hold after the last `flush`.  FALSE. -/
def SmallExactSinceFlushFull (m : Metric V S) : Prop :=
  ∀ (p : Params) (pre suf : List (Op V)) (e : Id) (s1 s : State V) (n : Nat),
    freshAdds (pre ++ [.flush e] ++ suf) = true →
    validPicks m p.init (pre ++ [.flush e] ++ suf) = true →
    run m p.init (pre ++ [.flush e]) = .ok s1 → run m s1 suf = .ok s →
    n ≤ 2 * p.M → residentsLe m n s1 suf = true → n ≤ p.efC → n ≤ p.efS →
    ∀ (q q' : V) (k : Int) (thr : S) (F : List Id), m.dimOf q = p.dim → m.pre q = some q' →
      ∀ res, searchSingle m s q k thr F 0 = .ok (.ok res) →
        IsTopK m.sc.le k (Flat.cands m (liveSpec m p.dim (pre ++ [.flush e] ++ suf)) q' thr F) res

/-- Clause 3, full strength: every live vertex stays reachable from the entry point
    through the bottom layer.  FALSE. -/
def ReachableFull (m : Metric V S) : Prop :=
  ∀ (p : Params) (ops : List (Op V)) (s : State V),
    freshAdds ops = true → validPicks m p.init ops = true → run m p.init ops = .ok s →
    Reachable s

/-- Clause 2 holds at full strength in the reading "at most 2M vectors ever" (completed
    searches; every ordered metric). -/
theorem hnsw_small_exact_ever (m : Metric V S) (ord : m.sc.Ordered) : SmallExactEver m := by
  intro p ops s n hf hv hrun hn hr hc hs q q' k thr F hq hpre res h
  have hreg : smallRegime m p.dim p.M p.efC p.efS n ops = true := by
    simp only [smallRegime, Bool.and_eq_true, decide_eq_true_eq]
    exact ⟨⟨⟨⟨hf, hv⟩, hr⟩, by omega⟩, hc⟩
  have hefS : s.efS = p.efS := (regime_facts m p.dim p.M p.efC p.efS n ops s hreg hrun).2.2.2.1
  exact regime_exact m ord p.dim p.M p.efC p.efS n ops s hreg hrun q q' k thr F 0 hq hpre
    (by simp [efUsed, hefS]; exact hs) res h

/-! ## proved negations (each witness is replayed on the real code: corpus/C12) -/

def answerIs (r : Except Fault (Except Err (List (Hit Nat)))) (l : List (Hit Nat)) : Bool :=
  match r with | .ok (.ok x) => decide (x = l) | _ => false

theorem eq_of_answerIs {r : Except Fault (Except Err (List (Hit Nat)))} {l : List (Hit Nat)}
    (h : answerIs r l = true) : r = .ok (.ok l) := by
  unfold answerIs at h
  split at h
  · simp only [decide_eq_true_eq] at h; subst h; rfl
  · cases h

def pD3 : Params := ⟨1, 2, 10, 10, by decide, by decide, by decide⟩
/-- five points 0..4 (complete layer-0 graph, every list full at 2M = 4), then the far
    point 100: all four neighbours prune the link back to it -/
def opsD3 : List (Op Int) :=
  [.add 1 0 0, .add 2 1 0, .add 3 2 0, .add 4 3 0, .add 5 4 0, .add 6 100 0]
/-- … then the five reachable vertices are removed -/
def opsD3N : List (Op Int) := opsD3 ++ [.remove 1, .remove 2, .remove 3, .remove 4, .remove 5]

/-- D3 also refutes clause 1: vertex 6 is live but has no in-link, so after the five
    reachable vertices are removed every search is empty (entry point tombstoned, nothing
    live reachable) — although searchLayer now walks through tombstones. -/
theorem hnsw_nonempty_false : ¬ NonEmptyFull toy := by
  intro h
  cases hr : run toy pD3.init opsD3N with
  | error e =>
    have : (match run toy pD3.init opsD3N with | .ok _ => true | .error _ => false) = true := by
      decide +kernel
    rw [hr] at this; cases this
  | ok s =>
    have key : (match run toy pD3.init opsD3N with
        | .ok s => answerIs (searchSingle toy s 100 1 toy.sc.zero [] 0) [] | .error _ => false) = true := by
      decide +kernel
    rw [hr] at key
    exact h pD3 opsD3N s (by decide +kernel) (by decide +kernel) hr (by decide +kernel)
      (100 : Int) 1 0 rfl rfl [] (eq_of_answerIs key) rfl

/-- `¬ Reachable` from the verified checker: a live vertex outside `reachSet`. -/
def unreachableB (r : Except Fault (State Int)) (v : Id) : Bool :=
  match r with
  | .ok s =>
    (match reachSet (nbrsAt s 0) 64 s.entry with
     | some rs => !rs.contains v && (liveIds s).contains v
     | none => false)
  | .error _ => false

/-- `Reachable` from the verified checker: every live vertex inside `reachSet`. -/
def reachableB (r : Except Fault (State Int)) : Bool :=
  match r with
  | .ok s =>
    (match reachSet (nbrsAt s 0) 64 s.entry with
     | some rs => (liveIds s).all fun v => rs.contains v
     | none => false)
  | .error _ => false

theorem not_reachable_of_unreachableB (p : Params) (ops : List (Op Int)) (v : Id)
    (h : unreachableB (run toy p.init ops) v = true) :
    ∀ s, run toy p.init ops = .ok s → ¬ Reachable s := by
  intro s hr hreach
  rw [hr] at h
  simp only [unreachableB] at h
  split at h
  · next rs hrs =>
    simp only [Bool.and_eq_true, Bool.not_eq_true', List.contains_eq_mem, decide_eq_false_iff_not,
      decide_eq_true_eq] at h
    exact h.1 ((reachSet_correct _ _ _ _ hrs v).2 (hreach v h.2))
  · cases h

theorem reachable_of_reachableB (p : Params) (ops : List (Op Int))
    (h : reachableB (run toy p.init ops) = true) :
    ∀ s, run toy p.init ops = .ok s → Reachable s := by
  intro s hr v hv
  rw [hr] at h
  simp only [reachableB] at h
  split at h
  · next rs hrs =>
    simp only [List.all_eq_true, List.contains_eq_mem, decide_eq_true_eq] at h
    exact (reachSet_correct _ _ _ _ hrs v).1 (h v hv)
  · cases h

/-- D3: nearest-M pruning leaves the last vertex without any in-link: unreachable,
    although nothing was removed, the entry point is live and ef (10) exceeds the index. -/
theorem hnsw_clusters_disconnect : ¬ ReachableFull toy := by
  intro h
  cases hr : run toy pD3.init opsD3 with
  | error e =>
    have : (match run toy pD3.init opsD3 with | .ok _ => true | .error _ => false) = true := by
      decide +kernel
    rw [hr] at this; cases this
  | ok s =>
    exact not_reachable_of_unreachableB pD3 opsD3 6 (by decide +kernel) s hr
      (h pD3 opsD3 s (by decide +kernel) (by decide +kernel) hr)

def pD21 : Params := ⟨1, 2, 2, 2, by decide, by decide, by decide⟩
/-- points 0..3 with efConstruction = M = 2: vertex 4 links to 2 and 3 only; both are
    removed (neither is the entry point), then flushed -/
def opsD21 : List (Op Int) :=
  [.add 1 0 0, .add 2 1 0, .add 3 2 0, .add 4 3 0, .remove 2, .remove 3, .flush 1]

/-- D21: with at most 2M vertices ever (no pruning), removing cut vertices is harmless while
    they are only tombstoned (they are walked through since f6a780e) but `Flush` drops their
    edges without reconnecting: a live vertex is unreachable afterwards. -/
theorem hnsw_removal_disconnects :
    (∀ s, run toy pD21.init opsD21.dropLast = .ok s → Reachable s) ∧
    (∀ s, run toy pD21.init opsD21 = .ok s → ¬ Reachable s) ∧
    residentsLe toy (2 * pD21.M) pD21.init opsD21 = true :=
  ⟨reachable_of_reachableB pD21 opsD21.dropLast (by decide +kernel),
   not_reachable_of_unreachableB pD21 opsD21 4 (by decide +kernel),
   by decide +kernel⟩

/-- D21 refutes clause 2 as the property words it: after the flush the index holds 2 ≤ 2M
    vertices, efConstruction = efSearch = 2, and the search for the point 3 (id 4, distance 0)
    answers id 1 (distance 3). -/
theorem hnsw_small_exact_since_flush_false : ¬ SmallExactSinceFlushFull toy := by
  intro h
  have hops : opsD21.dropLast ++ [Op.flush 1] ++ [] = opsD21 := rfl
  have hops' : opsD21.dropLast ++ [Op.flush 1] = opsD21 := rfl
  cases hr : run toy pD21.init opsD21 with
  | error e =>
    have : (match run toy pD21.init opsD21 with | .ok _ => true | .error _ => false) = true := by
      decide +kernel
    rw [hr] at this; cases this
  | ok s =>
    have key : (match run toy pD21.init opsD21 with
        | .ok s => answerIs (searchSingle toy s 3 1 0 [] 0) [⟨1, 3⟩] && decide (s.nodes.count ≤ 2)
        | .error _ => false) = true := by
      decide +kernel
    rw [hr] at key
    simp only [Bool.and_eq_true, decide_eq_true_eq] at key
    have := h pD21 opsD21.dropLast [] 1 s s 2 (by rw [hops]; decide +kernel)
      (by rw [hops]; decide +kernel) (by rw [hops']; exact hr) rfl (by decide)
      (by simp [residentsLe, along, key.2]) (by decide) (by decide)
      (3 : Int) 3 1 0 [] rfl rfl [⟨1, 3⟩] (eq_of_answerIs key.1)
    rw [hops] at this
    exact absurd (checkTopK_complete _ _ _ _ this) (by decide +kernel)

/-! ### why the repaired defects were defects (model variants) -/

/-- points 0, 1, 2; then the first inserted vertex — the entry point — is removed -/
def opsD2 : List (Op Int) := [.add 1 0 0, .add 2 1 0, .add 3 2 0, .remove 1]

def layerIds (r : Except Fault (List (Hit Nat))) : Option (List Id) :=
  match r with | .ok l => some (l.map (·.id)) | .error _ => none

/-- D2 (fixed by f6a780e + f98dc7f): after removing the entry point, `searchLayer` as it was
    BEFORE the fix returns nothing from the entry point although two vertices are live; the
    current `searchLayer` walks through the tombstone and returns both. -/
theorem hnsw_entry_removed_empty :
    (match run toy pD3.init opsD2 with
     | .ok s => (layerIds (searchLayerOld toy s 1 s.entry 10 0), layerIds (searchLayer toy s 1 s.entry 10 0),
                 liveIds s)
     | .error _ => (none, none, [])) = (some [], some [2, 3], [2, 3]) := by
  decide +kernel

def runAddsWith (rf : Bool) (s : State Int) : List (Id × Int × Nat) → Except Fault (State Int)
  | [] => .ok s
  | (i, v, l) :: t =>
    match addWith toy rf s i v l 0 with
    | .error e => .error e
    | .ok (s', _) => runAddsWith rf s' t

/-- number of layer-0 in-links of `v` -/
def inDegree0 (r : Except Fault (State Int)) (v : Id) : Option Nat :=
  match r with
  | .ok s => some ((s.nodes.keys.filter fun i =>
      match s.nodes.get? i with | some n => (n.edges.headD []).contains v | none => false).length)
  | .error _ => none

def linePts : List (Id × Int × Nat) := [(1,0,0),(2,1,0),(3,2,0),(4,3,0),(5,4,0),(6,5,0)]

/-- D1 (fixed by fb5d06f): M = 2, six points on a line.  With `insertNode` BEFORE
    `nodes[id] = node` the sixth vertex ends with no in-link at all (every neighbour pruned the
    unknown id); with the statements in the order the code has now it keeps in-links. -/
theorem hnsw_old_order_no_inlinks :
    inDegree0 (runAddsWith false (HNSW.init 1 2 10 10) linePts) 6 = some 0 ∧
    inDegree0 (runAddsWith true (HNSW.init 1 2 10 10) linePts) 6 = some 2 ∧
    registerFirst = true := by
  refine ⟨by decide +kernel, by decide +kernel, rfl⟩

/-! ### non-vacuity -/

/-- id 0 is a legal id (the index stores the first vector whose own id is 0 under key 0): a
    history in which the vertex 0 is the entry point, every resident vertex is removed without
    a Flush, and new vectors are added — the Add purges the tombstoned entry point 0 (pick 0:
    nothing is live), so the new vertices are linked and found. -/
def opsZero : List (Op Int) :=
  [.add 0 0 0, .add 5 10 0, .remove 0, .remove 5, .add 7 20 0 0, .add 8 30 0]

example : smallRegime toy 1 2 10 10 5 opsZero = true ∧ liveSpec toy 1 opsZero = [(7, 20), (8, 30)] ∧
    (match run toy pD3.init opsZero with
     | .ok s => (s.entry, liveIds s, complete0B s,
         match searchSingle toy s 31 2 0 [] 0 with
         | .ok (.ok r) => r.map (fun (h : Hit Nat) => h.id) | _ => [])
     | .error _ => (99, [], false, [])) = (7, [7, 8], true, [8, 7]) := by
  decide +kernel


-- the witnesses are inside the property's quantifier
example : freshAdds opsD3N = true ∧ validPicks toy pD3.init opsD3N = true ∧
    liveSpec toy 1 opsD3N = [(6, 100)] := by decide +kernel
example : freshAdds opsD21 = true ∧ validPicks toy pD21.init opsD21 = true ∧
    liveSpec toy 1 opsD21 = [(1, 0), (4, 3)] := by decide +kernel

/-- a history with levels > 0, removal of the ENTRY POINT, an Add that therefore purges the
    tombstones first (pick 3: the live vertex on maxLevel), another removal, a flush -/
def opsOK : List (Op Int) :=
  [.add 1 0 1, .add 2 10 0, .add 3 20 2, .add 4 30 0, .remove 1, .add 5 40 1 3, .remove 2,
   .flush 3, .add 6 25 0]

def stOK : State Int := match run toy pD3.init opsOK with | .ok s => s | .error _ => pD3.init

example : smallRegime toy 1 2 10 10 5 opsOK = true := by decide +kernel
example : complete0B stOK = true ∧ stOK.entry = 3 ∧ stOK.maxLevel = 2 ∧
    liveIds stOK = [3, 4, 5, 6] ∧ liveSpec toy 1 opsOK = [(3, 20), (4, 30), (5, 40), (6, 25)] := by
  decide +kernel
theorem stOK_run : run toy (HNSW.init 1 2 10 10) opsOK = .ok stOK := by
  have : (match run toy (HNSW.init 1 2 10 10) opsOK with | .ok _ => true | .error _ => false) = true := by
    decide +kernel
  simp only [stOK, pD3, Params.init]
  split <;> simp_all
-- all hypotheses of the history-level theorems are met by it:
example : Reachable stOK := hnsw_reachable_small toy 1 2 10 10 5 opsOK stOK (by decide +kernel) stOK_run
example : ∀ res, searchSingle toy stOK 24 2 0 [] 0 = .ok (.ok res) →
    IsTopK toy.sc.le 2 (Flat.cands toy (liveSpec toy 1 opsOK) 24 0 []) res :=
  fun res h => hnsw_small_exact_partial toy toy_ordered 1 2 10 10 5 opsOK stOK (by decide +kernel)
    stOK_run 24 24 2 0 [] 0 rfl rfl (by decide +kernel) res h
-- … and the search does complete, with the two nearest live points 25 (id 6) and 20 (id 3):
example : (match searchSingle toy stOK 24 2 0 [] 0 with
    | .ok (.ok r) => r.map (fun (h : Hit Nat) => (h.id, h.score)) | _ => []) = [(6, 1), (3, 4)] := by decide +kernel
-- the state right after the entry point was removed: still exact, reachable, non-empty
def stDead : State Int :=
  match run toy pD3.init (opsOK.take 5) with | .ok s => s | .error _ => pD3.init
example : isDeleted stDead stDead.entry = true ∧ complete0B stDead = true ∧
    (match searchSingle toy stDead 1 1 0 [] 0 with
     | .ok (.ok r) => r.map (fun (h : Hit Nat) => (h.id, h.score)) | _ => []) = [(2, 9)] := by
  decide +kernel

end Comet.HNSW
