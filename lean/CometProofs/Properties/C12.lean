/-
  C12 — HNSW never hides live vectors.

  ONLY property theorems and non-vacuity examples live here; helper lemmas are in
  CometProofs/HNSW*.lean, the model and the statement vocabulary (`Op`, `run`, `liveSpec`,
  `Reachable`, `entryLive`, `residentsLe`, …) in Comet/Vector/HNSW.lean.

  The three clauses of the property, at FULL strength, are the `def … : Prop` below
  (`NonEmptyFull`, `SmallExactFull`, `ReachableFull`).  The unchanged code violates all
  three; each violation is PROVED from a concrete witness on the integer line
  (`toy`: distance |a − b|) that is also replayed against the real code on every run
  (corpus/C12):
      hnsw_entry_removed_empty      ¬ NonEmptyFull     known finding D2
      hnsw_small_exact_false        ¬ SmallExactFull   known finding D2
      hnsw_clusters_disconnect      ¬ ReachableFull    known finding D3
      hnsw_removal_disconnects      ¬ Reachable, no pruning, entry live   known finding D21
      hnsw_old_order_no_inlinks     the statement order before fix fb5d06f loses every in-link (D1, fixed)
  What holds is proved by induction over arbitrary histories under explicit decidable
  hypotheses:
      hnsw_nonempty_partial         every history, size and ef; hypothesis `entryLive` (= ¬ trigger of D2)
      hnsw_small_exact_partial      `smallRegime`: entryLive, never more than n ≤ min (2M+1) efC vertices; ef ≥ n
      hnsw_reachable_small          same regime
  plus the graph-search theorems searchLayer_spec_{sound,complete,total} and the verified
  checker reachSet_correct.  The partial theorems speak about COMPLETED model runs / searches
  (`run … = .ok s`, `searchSingle … = .ok (.ok res)`): that no fault (nil lookup, fuel) occurs
  is proved for searchLayer (searchLayer_spec_total) but not for the greedy descent.
-/
import CometProofs.HNSWWeak
import CometProofs.HNSWFuel
namespace Comet.HNSW

variable {V S : Type}

/-! ## the verified graph checker used by the correspondence run -/

/-- `reachSet` (depth-first closure with fuel) decides reachability: whenever it
    answers, its answer is exactly the set of vertices reachable by `succ`-steps. -/
theorem reachSet_correct (succ : Id → List Id) (fuel : Nat) (e : Id) (r : List Id)
    (h : reachSet succ fuel e = some r) (v : Id) : v ∈ r ↔ Reach succ e v := by
  obtain ⟨h1, h2, _, h4⟩ := dfs_spec succ e fuel [e] [] r h
    (by intro x hx; rcases List.mem_singleton.1 hx with rfl; exact Reach.refl)
    (by intro x hx; cases hx) (by intro u hu; cases hu)
  constructor
  · exact h1 v
  · intro hv
    induction hv with
    | refl => exact h4 e (by simp)
    | step _ hw ih => exact h2 _ ih _ hw

/-! ## searchLayer (the graph search shared by insertion and query) -/

/-- **searchLayer_spec, soundness.** Whatever `searchLayer` returns are distinct, resident,
    non-deleted vertices that are reachable from the given entry point through non-deleted
    vertices of that layer (`liveSuccAt`), each carrying its distance to the query. -/
theorem searchLayer_spec_sound (m : Metric V S) (s : State V) (q : V) (ep : Id) (ef layer : Nat)
    (res : List (Hit S)) (h : searchLayer m s q ep ef layer = .ok res) :
    (∀ r ∈ res, Reach (liveSuccAt s layer) ep r.id ∧ isDeleted s r.id = false ∧
      ∃ n, s.nodes.get? r.id = some n ∧ r.score = m.dist q n.vec) ∧
    (res.map (·.id)).Nodup :=
  searchLayer_sound m s q ef layer ep res h

/-- **searchLayer_spec, completeness.** If `ef` is at least the number of vertices reachable
    from a non-deleted entry point through non-deleted vertices of the layer (`U`: any list
    that covers them), ALL of them are returned: the early exit, the admission test and the
    eviction never lose one. -/
theorem searchLayer_spec_complete (m : Metric V S) (s : State V) (q : V) (ep : Id) (ef layer : Nat)
    (U : List Id) (hU : ∀ v, Reach (liveSuccAt s layer) ep v → v ∈ U) (hlen : U.length ≤ ef)
    (hep : isDeleted s ep = false) (res : List (Hit S))
    (h : searchLayer m s q ep ef layer = .ok res) :
    ∀ v, Reach (liveSuccAt s layer) ep v → v ∈ res.map (·.id) :=
  searchLayer_complete m s q ef layer ep U hU hlen hep res h

/-- **searchLayer_spec, fuel lemma.** If the neighbour lists of the layer point to resident
    vertices and the entry vertex is resident (or soft-deleted), `searchLayer` completes:
    `|nodes| + 1` rounds suffice, no nil lookup and no access to an empty heap happens. -/
theorem searchLayer_spec_total (m : Metric V S) (s : State V) (q : V) (ep : Id) (ef layer : Nat)
    (hres : ∀ j w, w ∈ nbrsAt s layer j → s.nodes.contains w = true)
    (hep : isDeleted s ep = true ∨ s.nodes.contains ep = true) :
    ∃ res, searchLayer m s q ep ef layer = .ok res :=
  searchLayer_total m s q ef layer ep hres hep

/-- a soft-deleted entry point yields nothing at all (the mechanism of D2) -/
theorem searchLayer_deleted_entry (m : Metric V S) (s : State V) (q : V) (ep : Id) (ef layer : Nat)
    (hep : isDeleted s ep = true) : searchLayer m s q ep ef layer = .ok [] := by
  simp [searchLayer, hep]

/-! ## what holds: the three clauses on a state whose entry point is live and whose
    bottom layer is complete on the live vertices (decidable hypotheses `liveB`,
    `complete0B`; the correspondence run checks `complete0B` on the exported graph of
    every case that stays in the regime "entry point never soft-deleted, never more than
    2M+1 vertices, efConstruction never below the size") -/

/-- Clause 1 on a state (hypothesis: the entry point is resident and not soft-deleted):
    every completed unrestricted search is non-empty, for every `k ∈ ℤ` and every `ef`. -/
theorem hnsw_nonempty_state (m : Metric V S) (ord : m.sc.Ordered) (s : State V)
    (hentry : liveB s s.entry = true) (hml : s.maxLevel ≠ -1)
    (q q' : V) (k ef : Int) (hq : m.dimOf q = s.dim) (hpre : m.pre q = some q')
    (res : List (Hit S)) (h : searchSingle m s q k m.sc.zero [] ef = .ok (.ok res)) :
    res ≠ [] :=
  search_nonempty_state m ord s (liveB_iff.1 hentry) hml q q' k ef hq hpre res h

/-- Clause 2 on a state: entry point live, layer 0 complete on the live vertices, `ef` at
    least their number ⇒ every completed search (any `k ∈ ℤ`, threshold, id restriction)
    is an exact top-k of the live vertices, scored by the metric. -/
theorem hnsw_small_exact_state (m : Metric V S) (ord : m.sc.Ordered) (s : State V)
    (hcomp : complete0B s = true) (hentry : liveB s s.entry = true) (hml : s.maxLevel ≠ -1)
    (q q' : V) (k : Int) (thr : S) (F : List Id) (ef : Int)
    (hq : m.dimOf q = s.dim) (hpre : m.pre q = some q')
    (hef : (liveIds s).length ≤ efUsed s ef) (res : List (Hit S))
    (h : searchSingle m s q k thr F ef = .ok (.ok res)) :
    IsTopK m.sc.le k (Flat.cands m (stateLive s) q' thr F) res :=
  search_exact_state m ord s (complete0B_spec hcomp).1 (complete0B_spec hcomp).2
    (liveB_iff.1 hentry) hml q q' k thr F ef hq hpre hef res h

/-- Clause 3 on a state: entry point live and layer 0 complete ⇒ every live vertex is
    reachable from the entry point through live vertices of the bottom layer. -/
theorem hnsw_reachable_state (s : State V)
    (hcomp : complete0B s = true) (hentry : liveB s s.entry = true) : Reachable s :=
  reachable_state s (complete0B_spec hcomp).1 (liveB_iff.1 hentry)

/-! ## what holds along histories (the `…_partial` theorems): induction over ANY history of
    Add / Remove / Flush, any levels, any flush picks that Go's map order allows -/

/-- **Clause 1, partial — every history, every size, every ef.**  Hypothesis `entryLive`: the
    entry point is not soft-deleted at any add nor when the search runs (its negation is the
    trigger of D2 — so this is exactly the part of clause 1 that the code has).  Whenever a
    live vertex exists, every completed unrestricted search returns at least one hit. -/
theorem hnsw_nonempty_partial (m : Metric V S) (ord : m.sc.Ordered)
    (dim M efC efS : Nat) (ops : List (Op V)) (s : State V)
    (hfresh : freshAdds ops = true) (hpicks : validPicks m (HNSW.init dim M efC efS) ops = true)
    (hentry : entryLive m (HNSW.init dim M efC efS) ops = true)
    (hrun : run m (HNSW.init dim M efC efS) ops = .ok s) (hlive : liveIds s ≠ [])
    (q q' : V) (k ef : Int) (hq : m.dimOf q = dim) (hpre : m.pre q = some q')
    (res : List (Hit S)) (h : searchSingle m s q k m.sc.zero [] ef = .ok (.ok res)) :
    res ≠ [] := by
  simp only [freshAdds, Bool.and_eq_true] at hfresh
  obtain ⟨hw, hdim, hent⟩ := run_winv m ops (HNSW.init dim M efC efS) s (init_winv dim M efC efS)
    (fun i _ => by simp [HNSW.init, IdMap.contains]) ((nodupB_iff _).1 hfresh.2) hpicks hentry hrun
  obtain ⟨j, hj⟩ := List.exists_mem_of_ne_nil _ hlive
  have hcnt : s.nodes.count ≠ 0 := count_ne_zero_of_live (mem_liveIds.1 hj)
  have hml : s.maxLevel ≠ -1 := by have := hw.ml hcnt; omega
  exact search_nonempty_state m ord s ⟨hw.entry_res hcnt, hent⟩ hml q q' k ef
    (by rw [hdim]; exact hq) hpre res h

/-- **Clause 2, partial.**  Regime (`smallRegime`, decidable on the history): fresh non-zero
    ids, allowed flush picks, `entryLive`, and the index never holds more than
    `n ≤ min (2M+1) efConstruction` vertices (the bound the code gives: pruning starts at the
    `2M+2`-nd resident vertex; the property asks for `2M`).  Then every completed search with
    `ef ≥ n` — any `k ∈ ℤ`, threshold, id restriction — is an exact top-k of the flat
    specification's live list.  Invariant behind it (`Inv`, CometProofs/HNSWInv.lean): layer 0
    is the complete digraph on the live vertices; preserved by insertNode (no list overflows,
    `searchLayer` returns every live vertex), Remove and Flush (with re-election). -/
theorem hnsw_small_exact_partial (m : Metric V S) (ord : m.sc.Ordered)
    (dim M efC efS n : Nat) (ops : List (Op V)) (s : State V)
    (hreg : smallRegime m dim M efC efS n ops = true)
    (hrun : run m (HNSW.init dim M efC efS) ops = .ok s)
    (q q' : V) (k : Int) (thr : S) (F : List Id) (ef : Int)
    (hq : m.dimOf q = dim) (hpre : m.pre q = some q') (hef : n ≤ efUsed s ef)
    (res : List (Hit S)) (h : searchSingle m s q k thr F ef = .ok (.ok res)) :
    IsTopK m.sc.le k (Flat.cands m (liveSpec m dim ops) q' thr F) res :=
  regime_exact m ord dim M efC efS n ops s hreg hrun q q' k thr F ef hq hpre hef res h

/-- **Clause 3, partial.**  In the same regime every live vertex is reachable from the
    entry point through live vertices of the bottom layer. -/
theorem hnsw_reachable_small (m : Metric V S) (dim M efC efS n : Nat) (ops : List (Op V)) (s : State V)
    (hreg : smallRegime m dim M efC efS n ops = true)
    (hrun : run m (HNSW.init dim M efC efS) ops = .ok s) : Reachable s :=
  regime_reachable m dim M efC efS n ops s hreg hrun

/-- … and in that regime the model state is what the specification says: the live
    `(id, vector)` pairs of the graph are those of the flat specification, and the bottom
    layer is the complete digraph on them (what the driver checks on the exported graph). -/
theorem hnsw_small_live_eq_spec (m : Metric V S) (dim M efC efS n : Nat) (ops : List (Op V)) (s : State V)
    (hreg : smallRegime m dim M efC efS n ops = true)
    (hrun : run m (HNSW.init dim M efC efS) ops = .ok s) :
    (stateLive s).Perm (liveSpec m dim ops) ∧ Complete0 s :=
  ⟨(regime_facts m dim M efC efS n ops s hreg hrun).2.2.2.2.2.2.2,
   (regime_facts m dim M efC efS n ops s hreg hrun).1.comp⟩

/-! ## the full statements (kept visible; the first and third are FALSE for the code) -/

/-- the quantifier of the property: `M ≥ 2`, `efConstruction, efSearch ≥ M` -/
structure Params where
  dim : Nat
  M : Nat
  efC : Nat
  efS : Nat
  hM : 2 ≤ M
  hC : M ≤ efC
  hS : M ≤ efS

def Params.init (p : Params) : State V := HNSW.init p.dim p.M p.efC p.efS

/-- Clause 1, full strength: while a live vector exists, an unrestricted search is
    never empty — any history, whichever vectors were removed, flushed or not. -/
def NonEmptyFull (m : Metric V S) : Prop :=
  ∀ (p : Params) (ops : List (Op V)) (s : State V),
    freshAdds ops = true → validPicks m p.init ops = true → run m p.init ops = .ok s →
    liveSpec m p.dim ops ≠ [] →
    ∀ (q : V) (k ef : Int), m.dimOf q = p.dim → (m.pre q).isSome = true →
      ∃ res, searchSingle m s q k m.sc.zero [] ef = .ok (.ok res) ∧ res ≠ []

/-- Clause 2, full strength: while the index has held at most `2M` vectors and both
    ef parameters are at least that number, answers are exact k-NN of the live set,
    under any history. (Stated with "ever" instead of "since it was last empty or
    flushed": already this weaker claim is false.) -/
def SmallExactFull (m : Metric V S) : Prop :=
  ∀ (p : Params) (ops : List (Op V)) (s : State V) (n : Nat),
    freshAdds ops = true → validPicks m p.init ops = true → run m p.init ops = .ok s →
    n ≤ 2 * p.M → residentsLe m n p.init ops = true → n ≤ p.efC → n ≤ p.efS →
    ∀ (q q' : V) (k : Int) (thr : S) (F : List Id), m.dimOf q = p.dim → m.pre q = some q' →
      ∃ res, searchSingle m s q k thr F 0 = .ok (.ok res) ∧
        IsTopK m.sc.le k (Flat.cands m (liveSpec m p.dim ops) q' thr F) res

/-- Clause 3, full strength: every live vertex stays reachable from the entry point
    through the bottom layer. -/
def ReachableFull (m : Metric V S) : Prop :=
  ∀ (p : Params) (ops : List (Op V)) (s : State V),
    freshAdds ops = true → validPicks m p.init ops = true → run m p.init ops = .ok s →
    Reachable s

/-! ## proved negations (each witness is replayed on the real code: corpus/C12) -/

def pD2 : Params := ⟨1, 2, 10, 10, by decide, by decide, by decide⟩
/-- points 0, 1, 2; then the first inserted vertex — the entry point — is removed -/
def opsD2 : List (Op Int) := [.add 1 0 0, .add 2 1 0, .add 3 2 0, .remove 1]

def emptyAnswer (r : Except Fault (Except Err (List (Hit Nat)))) : Bool :=
  match r with | .ok (.ok []) => true | _ => false

/-- D2: after removing the entry point every search is empty although two vectors are live. -/
theorem hnsw_entry_removed_empty : ¬ NonEmptyFull toy := by
  intro h
  cases hr : run toy pD2.init opsD2 with
  | error e =>
    have : (match run toy pD2.init opsD2 with | .ok _ => true | .error _ => false) = true := by
      decide +kernel
    rw [hr] at this; cases this
  | ok s =>
    obtain ⟨res, h1, h2⟩ := h pD2 opsD2 s (by decide +kernel) (by decide +kernel) hr
      (by decide +kernel) (1 : Int) 2 0 rfl rfl
    have key : (match run toy pD2.init opsD2 with
        | .ok s => emptyAnswer (searchSingle toy s 1 2 toy.sc.zero [] 0) | .error _ => false) = true := by
      decide +kernel
    rw [hr] at key
    simp only at key
    rw [h1] at key
    cases res with
    | nil => exact h2 rfl
    | cons a t => simp [emptyAnswer] at key

/-- D2 also refutes the exactness clause (3 ≤ 2M = 4 vertices ever, ef = 10). -/
theorem hnsw_small_exact_false : ¬ SmallExactFull toy := by
  intro h
  cases hr : run toy pD2.init opsD2 with
  | error e =>
    have : (match run toy pD2.init opsD2 with | .ok _ => true | .error _ => false) = true := by
      decide +kernel
    rw [hr] at this; cases this
  | ok s =>
    obtain ⟨res, h1, h2⟩ := h pD2 opsD2 s 3 (by decide +kernel) (by decide +kernel) hr
      (by decide) (by decide +kernel) (by decide) (by decide) (1 : Int) 1 2 0 [] rfl rfl
    have key : (match run toy pD2.init opsD2 with
        | .ok s => emptyAnswer (searchSingle toy s 1 2 0 [] 0) | .error _ => false) = true := by
      decide +kernel
    rw [hr] at key
    simp only at key
    rw [h1] at key
    have hlen := h2.len
    cases res with
    | nil =>
      have : sanitizeK 2 (Flat.cands toy (liveSpec toy pD2.dim opsD2) 1 0 []).length = 2 := by
        decide +kernel
      rw [this] at hlen; cases hlen
    | cons a t => simp [emptyAnswer] at key

/-- `¬ Reachable` from the verified checker: a live vertex outside `reachSet`. -/
def unreachableB (r : Except Fault (State Int)) (v : Id) : Bool :=
  match r with
  | .ok s =>
    (match reachSet (liveSucc s) 64 s.entry with
     | some rs => !rs.contains v && (liveIds s).contains v
     | none => false)
  | .error _ => false

theorem not_reachable_of_unreachableB (p : Params) (ops : List (Op Int)) (v : Id)
    (h : unreachableB (run toy p.init ops) v = true) :
    ∀ s, run toy p.init ops = .ok s → ¬ Reachable s := by
  intro s hr hreach
  rw [hr] at h
  simp only [unreachableB] at h
  split at h
  · next rs hrs =>
    simp only [Bool.and_eq_true, Bool.not_eq_true', List.contains_eq_mem, decide_eq_false_iff_not,
      decide_eq_true_eq] at h
    exact h.1 ((reachSet_correct _ _ _ _ hrs v).2 (hreach v h.2).2)
  · cases h

def pD3 : Params := ⟨1, 2, 10, 10, by decide, by decide, by decide⟩
/-- five points 0..4 (complete layer-0 graph, every list full at 2M = 4), then the far
    point 100: all four neighbours prune the link back to it -/
def opsD3 : List (Op Int) :=
  [.add 1 0 0, .add 2 1 0, .add 3 2 0, .add 4 3 0, .add 5 4 0, .add 6 100 0]

/-- D3: nearest-M pruning leaves the last vertex without any in-link: unreachable,
    although nothing was removed, the entry point is live and ef (10) exceeds the index. -/
theorem hnsw_clusters_disconnect : ¬ ReachableFull toy := by
  intro h
  cases hr : run toy pD3.init opsD3 with
  | error e =>
    have : (match run toy pD3.init opsD3 with | .ok _ => true | .error _ => false) = true := by
      decide +kernel
    rw [hr] at this; cases this
  | ok s =>
    exact not_reachable_of_unreachableB pD3 opsD3 6 (by decide +kernel) s hr
      (h pD3 opsD3 s (by decide +kernel) (by decide +kernel) hr)

def pD21 : Params := ⟨1, 2, 2, 2, by decide, by decide, by decide⟩
/-- points 0..3 with efConstruction = M = 2: vertex 4 links to 2 and 3 only; both are
    removed (neither is the entry point), then flushed -/
def opsD21 : List (Op Int) :=
  [.add 1 0 0, .add 2 1 0, .add 3 2 0, .add 4 3 0, .remove 2, .remove 3, .flush 1]

/-- D21: with at most 2M vertices ever (no pruning) and a live entry point, removing
    cut vertices disconnects a live vertex — before and after `Flush`. -/
theorem hnsw_removal_disconnects :
    (∀ s, run toy pD21.init opsD21.dropLast = .ok s → ¬ Reachable s) ∧
    (∀ s, run toy pD21.init opsD21 = .ok s → ¬ Reachable s) ∧
    entryLive toy pD21.init opsD21 = true ∧ residentsLe toy (2 * pD21.M) pD21.init opsD21 = true :=
  ⟨not_reachable_of_unreachableB pD21 opsD21.dropLast 4 (by decide +kernel),
   not_reachable_of_unreachableB pD21 opsD21 4 (by decide +kernel),
   by decide +kernel, by decide +kernel⟩

/-! ### the repaired defect D1 (statement order of `HNSWIndex.Add` before fix fb5d06f) -/

def runAddsWith (rf : Bool) (s : State Int) : List (Id × Int × Nat) → Except Fault (State Int)
  | [] => .ok s
  | (i, v, l) :: t =>
    match addWith toy rf s i v l 0 with
    | .error e => .error e
    | .ok (s', _) => runAddsWith rf s' t

/-- number of layer-0 in-links of `v` -/
def inDegree0 (r : Except Fault (State Int)) (v : Id) : Option Nat :=
  match r with
  | .ok s => some ((s.nodes.keys.filter fun i =>
      match s.nodes.get? i with | some n => (n.edges.headD []).contains v | none => false).length)
  | .error _ => none

def linePts : List (Id × Int × Nat) := [(1,0,0),(2,1,0),(3,2,0),(4,3,0),(5,4,0),(6,5,0)]

/-- D1 (fixed): M = 2, six points on a line.  With `insertNode` BEFORE `nodes[id] = node`
    the sixth vertex ends with no in-link at all (every neighbour pruned the unknown id);
    with the statements in the order the code has now it keeps in-links. -/
theorem hnsw_old_order_no_inlinks :
    inDegree0 (runAddsWith false (HNSW.init 1 2 10 10) linePts) 6 = some 0 ∧
    inDegree0 (runAddsWith true (HNSW.init 1 2 10 10) linePts) 6 = some 2 ∧
    registerFirst = true := by
  refine ⟨by decide +kernel, by decide +kernel, rfl⟩

/-! ### non-vacuity of the witnesses: they are inside the property's quantifier -/

example : freshAdds opsD2 = true ∧ validPicks toy pD2.init opsD2 = true ∧
    liveSpec toy 1 opsD2 = [(2, 1), (3, 2)] := by decide +kernel
example : freshAdds opsD21 = true ∧ validPicks toy pD21.init opsD21 = true ∧
    liveSpec toy 1 opsD21 = [(1, 0), (4, 3)] := by decide +kernel

/-! ### non-vacuity of the partial theorems: a history with removals, a flush and levels > 0
    whose final state satisfies every hypothesis -/

def opsOK : List (Op Int) :=
  [.add 1 0 1, .add 2 10 0, .add 3 20 2, .add 4 30 0, .remove 2, .add 5 40 1, .flush 1, .add 6 25 0]

def stOK : State Int := match run toy pD2.init opsOK with | .ok s => s | .error _ => pD2.init

example : complete0B stOK = true ∧ liveB stOK stOK.entry = true ∧ stOK.maxLevel = 2 ∧
    liveIds stOK = [1, 3, 4, 5, 6] ∧ validPicks toy pD2.init opsOK = true ∧ freshAdds opsOK = true := by
  decide +kernel
-- the hypotheses of all three partial theorems hold of it:
example : Reachable stOK := hnsw_reachable_state stOK (by decide +kernel) (by decide +kernel)
example : ∀ res, searchSingle toy stOK 24 2 0 [] 0 = .ok (.ok res) →
    IsTopK toy.sc.le 2 (Flat.cands toy (stateLive stOK) 24 0 []) res :=
  fun res h => hnsw_small_exact_state toy toy_ordered stOK (by decide +kernel) (by decide +kernel)
    (by decide +kernel) 24 24 2 0 [] 0 (by decide +kernel) rfl (by decide +kernel) res h
-- the same history satisfies the regime of the history-level theorems with n = 5 = 2M+1:
example : smallRegime toy 1 2 10 10 5 opsOK = true := by decide +kernel
example : Reachable stOK := by
  have hr : run toy (HNSW.init 1 2 10 10) opsOK = .ok stOK := by
    have : (match run toy (HNSW.init 1 2 10 10) opsOK with | .ok _ => true | .error _ => false) = true := by
      decide +kernel
    simp only [stOK, pD2, Params.init]
    split <;> simp_all
  exact hnsw_reachable_small toy 1 2 10 10 5 opsOK stOK (by decide +kernel) hr
example : liveSpec toy 1 opsOK = [(1, 0), (3, 20), (4, 30), (5, 40), (6, 25)] := by decide +kernel
-- … and the search does complete, with the two nearest live points 25 (id 6) and 20 (id 3):
example : (match searchSingle toy stOK 24 2 0 [] 0 with
    | .ok (.ok r) => r.map (fun (h : Hit Nat) => (h.id, h.score)) | _ => []) = [(6, 1), (3, 4)] := by decide +kernel

end Comet.HNSW
