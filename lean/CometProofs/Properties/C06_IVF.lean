/-
  C06's vector-side visibility abstraction for the IVF index, as a corollary of two
  theorems proved elsewhere: C13's `ivf_refines_flat` (after any history the trained IVF
  model holds, over all its lists, exactly the flat model's entries, with the same
  soft-delete set) and `absFlat_*` (the flat model refines `Hybrid.VecIdx`).  Hence after
  every history the IVF model's visible content under each id is — up to the order of
  several entries under one id, which live in different lists — the visible content of
  the visibility model's state reached through the flat index on the same history.
-/
import CometProofs.Properties.C06_Flat
import CometProofs.Properties.C13
namespace Comet.Hybrid

variable {V S : Type}

/-- the visibility content of an IVF-index state -/
def absIVF (s : IVF.State V) : VecIdx V :=
  ⟨fun j => (s.lists.flatten.filter (fun p => p.1 == j)).map (·.2), fun j => s.deleted.contains j⟩

/-- after `Train` and any Add / Remove / Flush history, the IVF model and the flat model
    present the same tombstones and, under every id, the same stored vectors -/
theorem absIVF_eq_absFlat (m : Metric V S) (inf : S) (dim nlist n : Nat) (cs : List V)
    (hpos : 0 < nlist) (hn : nlist ≤ n) (hcs : cs.length = nlist) (ops : List (Flat.Op V)) (j : Id) :
    ((absIVF (IVF.trainedRun m inf dim nlist n cs ops)).entries j).Perm
      ((absFlat (Flat.run m (Flat.init dim) ops)).entries j) ∧
    (absIVF (IVF.trainedRun m inf dim nlist n cs ops)).deleted j =
      (absFlat (Flat.run m (Flat.init dim) ops)).deleted j := by
  obtain ⟨hp, hd, _⟩ := IVF.ivf_refines_flat m inf dim nlist n cs hpos hn hcs ops
  constructor
  · exact (hp.filter _).map _
  · simp only [absIVF, absFlat, hd]

/-- … hence the same visible content -/
theorem absIVF_visible (m : Metric V S) (inf : S) (dim nlist n : Nat) (cs : List V)
    (hpos : 0 < nlist) (hn : nlist ≤ n) (hcs : cs.length = nlist) (ops : List (Flat.Op V)) (j : Id) :
    ((absIVF (IVF.trainedRun m inf dim nlist n cs ops)).visible j).Perm
      ((absFlat (Flat.run m (Flat.init dim) ops)).visible j) := by
  obtain ⟨hp, hd⟩ := absIVF_eq_absFlat m inf dim nlist n cs hpos hn hcs ops j
  unfold VecIdx.visible
  rw [hd]
  split
  · exact List.Perm.refl _
  · exact hp

/-- **IVF refines the visibility model, every history**: what the trained IVF model shows
    under each id is what `Hybrid.VecIdx`, run on the same Add / Remove / Flush history,
    shows (as a multiset) -/
theorem absIVF_refines_vecIdx (m : Metric V S) (inf : S) (dim nlist n : Nat) (cs : List V)
    (hpos : 0 < nlist) (hn : nlist ≤ n) (hcs : cs.length = nlist) (ops : List (Flat.Op V)) (j : Id) :
    ((absIVF (IVF.trainedRun m inf dim nlist n cs ops)).visible j).Perm
      ((ops.foldl (vecStep (flatVpre m dim)) VecIdx.empty).visible j) := by
  have h := absIVF_visible m inf dim nlist n cs hpos hn hcs ops j
  rw [absFlat_run] at h
  exact h

end Comet.Hybrid
