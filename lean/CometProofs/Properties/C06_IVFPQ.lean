/-
  C06's vector-side visibility abstraction for the IVFPQ index, from C14's simulation
  (`IVFPQ.run_rel`: the inverted lists of the model are the per-list projections of a ghost
  flat index over stored records, with the same tombstones) and the flat refinement
  (`absFlat_run`): after any history following a successful Train, what the IVFPQ model
  shows under each id is — as a multiset, the entries of one id may sit in different lists —
  what `Hybrid.VecIdx`, run on the same history, shows.
-/
import CometProofs.Properties.C06_Flat
import CometProofs.IVFPQ
namespace Comet.Hybrid
open Comet.PQ Comet.IVFPQ

variable {S : Type}

/-- the visibility content of an IVFPQ-index state -/
def absIVFPQ (s : IVFPQ.State S) : VecIdx (Stored S) :=
  ⟨fun j => (s.lists.flatten.filter (fun p => p.1 == j)).map (·.2), fun j => s.deleted.contains j⟩

/-- one bucket more: the entry goes to exactly one of them -/
theorem split_flatten_cons (n : Nat) (x : Id × Stored S) (vs : List (Id × Stored S)) (hx : x.2.list < n) :
    (IVFPQ.split n (x :: vs)).flatten.Perm (x :: (IVFPQ.split n vs).flatten) := by
  induction n with
  | zero => omega
  | succ k ih =>
    simp only [IVFPQ.split, List.range_succ, List.map_append, List.map_cons, List.map_nil,
      List.flatten_append, List.flatten_cons, List.flatten_nil, List.append_nil] at ih ⊢
    by_cases hk : x.2.list = k
    · -- the new bucket takes it; the earlier ones are unchanged
      have hpre : (List.map (fun c => List.filter (fun p => p.2.list == c) (x :: vs)) (List.range k)) =
          (List.map (fun c => List.filter (fun p => p.2.list == c) vs) (List.range k)) := by
        apply List.map_congr_left
        intro c hc
        have hc' : c < k := List.mem_range.1 hc
        have : (x.2.list == c) = false := by simpa using (by omega : x.2.list ≠ c)
        simp [this]
      rw [hpre]
      have : (x.2.list == k) = true := by simpa using hk
      simp only [List.filter_cons, this, if_true]
      exact List.perm_middle
    · have hlt : x.2.list < k := by omega
      have hlast : List.filter (fun p => p.2.list == k) (x :: vs) = List.filter (fun p => p.2.list == k) vs := by
        have : (x.2.list == k) = false := by simpa using hk
        simp [this]
      rw [hlast]
      have := (ih hlt).append_right (List.filter (fun p => p.2.list == k) vs)
      simpa using this

theorem split_flatten_perm (n : Nat) (vs : List (Id × Stored S)) (h : ∀ p ∈ vs, p.2.list < n) :
    (IVFPQ.split n vs).flatten.Perm vs := by
  induction vs with
  | nil => simp [IVFPQ.split]
  | cons x t ih =>
    have hx := h x List.mem_cons_self
    have ht := ih (fun p hp => h p (List.mem_cons_of_mem _ hp))
    exact (split_flatten_cons n x t hx).trans (List.Perm.cons x ht)

/-- related states show the same content under every id (as multisets) and the same tombstones -/
theorem absIVFPQ_of_rel (s : IVFPQ.State S) (g : Flat.State (Stored S)) (h : IVFPQ.Rel s g) (j : Id) :
    ((absIVFPQ s).entries j).Perm ((absFlat g).entries j) ∧ (absIVFPQ s).deleted j = (absFlat g).deleted j := by
  constructor
  · simp only [absIVFPQ, absFlat, h.lists]
    exact ((split_flatten_perm s.nlist g.vecs h.bound).filter _).map _
  · simp only [absIVFPQ, absFlat, h.deleted]

/-- **IVFPQ refines the visibility model, every history after Train**: what the model shows under
    an id is (as a multiset) what `Hybrid.VecIdx` shows after the same Add / Remove / Flush
    history, with `vpre` = validation + preprocessing + assignment + residual encoding -/
theorem absIVFPQ_refines_vecIdx (m : Metric (List S) S) (A : Arith S)
    (s0 : IVFPQ.State S) (dim : Nat) (hrel0 : IVFPQ.Rel s0 (Flat.init dim))
    (htr : s0.trained = true) (hc : s0.cents.length = s0.nlist) (hn : 0 < s0.nlist)
    (ops : List (Flat.Op (List S))) (j : Id) :
    ((absIVFPQ (IVFPQ.run m A s0 ops)).visible j).Perm
      (((ops.map PQ.liftOp).foldl (vecStep (flatVpre (IVFPQ.mm m A s0) dim)) VecIdx.empty).visible j) := by
  obtain ⟨hrel, _⟩ := IVFPQ.run_rel m A s0 (Flat.init dim) ops hrel0 htr hc hn
  obtain ⟨hp, hd⟩ := absIVFPQ_of_rel _ _ hrel j
  have hrun := absFlat_run (IVFPQ.mm m A s0) (Flat.init dim) (ops.map PQ.liftOp)
  have hv : ((absIVFPQ (IVFPQ.run m A s0 ops)).visible j).Perm
      ((absFlat (Flat.run (IVFPQ.mm m A s0) (Flat.init dim) (ops.map PQ.liftOp))).visible j) := by
    unfold VecIdx.visible
    rw [hd]
    split
    · exact List.Perm.refl _
    · exact hp
  rw [hrun] at hv
  exact hv

/-- the state right after a successful Train satisfies the premises -/
theorem absIVFPQ_trained_premises (dim M nbits nlist n : Nat) (hnl : 0 < nlist) (cents : List (List S))
    (cbs : List (List (List S))) (s0 : IVFPQ.State S)
    (htrain : IVFPQ.train (IVFPQ.init dim M nbits nlist) n true cents cbs = (s0, .ok))
    (hcw : IVFPQ.centsWF nlist dim cents = true) :
    IVFPQ.Rel s0 (Flat.init dim) ∧ s0.trained = true ∧ s0.cents.length = s0.nlist ∧ 0 < s0.nlist := by
  have hs0 : s0 = { (IVFPQ.init dim M nbits nlist : IVFPQ.State S) with
      cents := cents, cbs := cbs, trained := true } := by
    simp only [IVFPQ.train] at htrain
    split at htrain
    · cases htrain
    · split at htrain
      · cases htrain
      · simp only [Bool.not_true, Bool.false_eq_true, if_false, Prod.mk.injEq] at htrain
        exact htrain.1.symm
  refine ⟨?_, by rw [hs0], ?_, by rw [hs0]; exact hnl⟩
  · rw [hs0]
    exact ⟨by simp [IVFPQ.init, Flat.init, IVFPQ.split_nil], rfl, rfl, by intro p hp; cases hp⟩
  · rw [hs0]
    simp only [IVFPQ.centsWF, Bool.and_eq_true, beq_iff_eq] at hcw
    exact hcw.1

end Comet.Hybrid
