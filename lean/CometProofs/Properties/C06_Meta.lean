/-
  C06's metadata-side visibility abstraction `Hybrid.MetaIdx` against the models C04 is
  proved about: the specification state of C04 (`Meta.Spec`: the live documents) maps
  onto `MetaIdx` so that every Add / Remove step commutes (`absMeta_add_ok`,
  `absMeta_add_rejected`, `absMeta_remove`), and — through C04's invariant `meta_inv`,
  which ties the bitmap-level model of metadata_index.go to that specification — an id
  is in the index's `allDocs` bitmap (what an empty filter list returns) exactly when the
  abstraction holds something under it (`meta_findable_iff_visible`).
-/
import Comet.Hybrid
import Comet.MetaSpec
import CometProofs.Properties.C04
namespace Comet.Hybrid
open Comet.Meta

/-- the visibility content of C04's specification state: the documents added under each
    id since its last removal, oldest first -/
def absMeta (sp : Meta.Spec) : MetaIdx Meta.Doc :=
  ⟨fun j => ((sp.docs.filter (fun p => p.1 == j)).map (·.2)).reverse⟩

theorem absMeta_init : absMeta {} = MetaIdx.empty := rfl

/-- an Add whose values all have supported types (`docOf kvs = some doc`) is the
    abstraction's successful add of `doc` -/
theorem absMeta_add_ok (sp : Meta.Spec) (id : Nat) (kvs : List (String × Option Value)) (doc : Meta.Doc)
    (h : docOf kvs = some doc) :
    absMeta (sp.step (.add id kvs)) = ((absMeta sp).add (fun _ => true) id doc).1 := by
  unfold absMeta MetaIdx.add Meta.Spec.step
  simp only [h, if_true, MetaIdx.mk.injEq]
  funext j
  by_cases hj : j = id
  · subst hj; simp
  · have hb : (id == j) = false := by simpa using fun e => hj e.symm
    simp [hb, hj]

/-- an Add carrying a value of unsupported type changes nothing (the abstraction's
    rejected add: `mok = false`) -/
theorem absMeta_add_rejected (sp : Meta.Spec) (id : Nat) (kvs : List (String × Option Value))
    (h : docOf kvs = none) (doc : Meta.Doc) :
    absMeta (sp.step (.add id kvs)) = ((absMeta sp).add (fun _ => false) id doc).1 ∧
    ((absMeta sp).add (fun _ => false) id doc).2 = some .other := by
  unfold MetaIdx.add Meta.Spec.step
  simp [h]

/-- Remove (hard) commutes with the abstraction -/
theorem absMeta_remove (sp : Meta.Spec) (id : Nat) :
    absMeta (sp.step (.remove id)) = (absMeta sp).remove id := by
  unfold absMeta MetaIdx.remove Meta.Spec.step
  simp only [MetaIdx.mk.injEq]
  funext j
  by_cases hj : j = id
  · subst hj
    simp [List.filter_filter]
  · simp only [hj, if_false, List.filter_filter]
    congr 2
    apply List.filter_congr
    intro p _
    by_cases hp : p.1 = j
    · have : p.1 ≠ id := fun e => hj (hp ▸ e)
      simp [hp]
      exact fun e => this (hp ▸ e)
    · have hb : (p.1 == j) = false := by simpa using hp
      simp [hb]

theorem filter_key_nil {β : Type} (l : List (Nat × β)) (d : Nat) :
    l.filter (fun p => p.1 == d) = [] ↔ l.lookup d = none := by
  induction l with
  | nil => simp
  | cons p t ih =>
    obtain ⟨k, v⟩ := p
    by_cases hk : d = k
    · subst hk; simp
    · have hb : (d == k) = false := by simpa using hk
      have hb' : (k == d) = false := by simpa using fun e : k = d => hk e.symm
      rw [List.lookup_cons, hb, List.filter_cons]
      simp only [hb', Bool.false_eq_true, if_false]
      exact ih

theorem absMeta_visible_nonempty (sp : Meta.Spec) (d : Nat) :
    (absMeta sp).visible d ≠ [] ↔ (sp.docs.lookup d).isSome = true := by
  unfold absMeta MetaIdx.visible
  simp only [ne_eq, List.reverse_eq_nil_iff, List.map_eq_nil_iff]
  rw [filter_key_nil]
  cases sp.docs.lookup d <;> simp

/-- **metadata findability = visibility**: on every reachable state of the bitmap-level
    model (histories adding only ids that are not live, as C04 quantifies), an id is in
    `allDocs` — the answer to an empty filter list — iff the abstraction holds a document
    under it. -/
theorem meta_findable_iff_visible (ops : List HOp) (hwf : wfHist {} ops = true) (d : Nat) :
    d ∈ (Meta.run ops).allDocs ↔ (absMeta (Meta.Spec.run ops)).visible d ≠ [] := by
  rw [absMeta_visible_nonempty]
  exact meta_inv_allDocs ops hwf d

example :
    let ops : List HOp := [.add 1 [("a", some (.str "x"))], .add 2 [("a", none)], .add 3 [("b", some (.str "y"))], .remove 3]
    (absMeta (Meta.Spec.run ops)).visible 1 = [[("a", .str "x")]] ∧
    (absMeta (Meta.Spec.run ops)).visible 2 = [] ∧ (absMeta (Meta.Spec.run ops)).visible 3 = [] := by
  decide

end Comet.Hybrid
