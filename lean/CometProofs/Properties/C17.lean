/-
  C17 — a storage directory is owned by at most one open store at a time.

  ONLY property theorems and non-vacuity examples live here; the model is
  Comet/Storage/Lock.lean (read its header: which Go line is which atomic step),
  the invariant and helper lemmas are in CometProofs/Lock.lean.

  Reading guide.  `Reachable present progs s log`: state `s` with trace `log`
  (newest event first) is reached from the initial state — directory absent/present,
  no LOCK, thread `t` about to run the calls `progs t` — by SOME sequence of atomic
  steps, each taken by an arbitrary enabled actor (a thread, or a background worker
  of a handle).  Nothing bounds the number of threads, calls or steps.  Failures of
  `open` are injected by the program (`Call.open (some pos)`), so every theorem about
  reachable states covers every failure position and every interleaving.
  `Between log o`: attempt `o` is between its successful O_EXCL create and the
  removal of its LOCK.  `Live s o`: `o` was returned by a successful open and no
  Close on it has passed the `closed` test-and-set.
  `Before log e₁ e₂`: event `e₁` was logged before `e₂`.

  Assumptions (Comet/Storage/Lock.lean): the O_CREATE|O_EXCL create is one atomic
  step (atomic test-and-set on one file system); the clean-up system calls (close,
  unlink of the just created LOCK) do not fail.
-/
import CometProofs.Lock
namespace Comet.Lock

variable {present : Bool} {progs : Nat → List Call} {s : State} {log : List Ev}

/-! ## lock_mutex -/

/-- **lock_mutex** (full): in every reachable state — every interleaving, every
    failure injection — the LOCK entry names `o` exactly when `o` is between its
    successful create and its remove; at most one attempt is in that window; every
    usable handle holds the LOCK; hence at most one open has succeeded and not been
    closed. -/
theorem lock_mutex (hr : Reachable present progs s log) :
    (∀ o, s.dir.lock = some o ↔ Between log o) ∧
    (∀ o o', Between log o → Between log o' → o = o') ∧
    (∀ o, Live s o → s.dir.lock = some o) ∧
    (∀ o o', Live s o → Live s o' → o = o') := by
  obtain ⟨I, L⟩ := reachable_inv hr
  have hlive : ∀ o, Live s o → s.dir.lock = some o := fun o ho => I.fd_lock o (I.live_fd o ho.1 ho.2).1
  refine ⟨L.lock_between, ?_, hlive, ?_⟩
  · intro o o' h h'
    have := (L.lock_between o).2 h
    rw [(L.lock_between o').2 h'] at this
    exact (Option.some.inj this).symm
  · intro o o' h h'
    have := hlive o h
    rw [hlive o' h'] at this
    exact (Option.some.inj this).symm

/-- The path-based `os.Remove(LOCK)` only ever removes the caller's own LOCK: whoever is
    about to execute it (clean-up of a failed open, or Close) is the holder. -/
theorem remove_only_own_lock (hr : Reachable present progs s log) (t : Nat) :
    (∀ r, (s.threads t).pc = .oCleanup r → s.dir.lock = some (t, (s.threads t).idx)) ∧
    (∀ h, (s.threads t).pc = .cRemove h → s.dir.lock = some h) := by
  obtain ⟨I, _⟩ := reachable_inv hr
  refine ⟨fun r hpc => ?_, fun h hpc => (I.remove_lock t h hpc).1⟩
  exact I.fd_lock _ (I.window_fd t (by simp [hpc, Pc.inWindow]))

/-- Background workers (flush worker incl. its final flush in Close, compaction worker)
    only ever run — and hence only write segment files — while their handle holds the
    LOCK: Close removes the LOCK after both have exited. -/
theorem worker_alive_under_lock (hr : Reachable present progs s log) (h : Owner)
    (hrun : (s.handles h).running ≠ 0) : s.dir.lock = some h := by
  obtain ⟨I, _⟩ := reachable_inv hr
  exact I.fd_lock h (I.running_fd h hrun).2

/-- `releaseLock`'s `p.lockFile == nil` early return is dead code on the Close path:
    Close reaches it only with the descriptor still held. -/
theorem close_release_never_skips (hr : Reachable present progs s log) (t : Nat) (h : Owner)
    (hpc : (s.threads t).pc = .cRelease h) : (s.handles h).lockFile = true :=
  release_lockfile (reachable_inv hr).1 t h hpc

/-! ## open_locked_fails_unchanged -/

/-- **open_locked_fails_unchanged** (full, whole call): on a locked directory an `open`
    — whatever failure is or is not injected — reports an error (`locked` unless the
    injected failure strikes first) and leaves the directory state and every handle
    exactly as they were (the `MkdirAll` of the existing directory is a no-op). -/
theorem open_locked_fails_unchanged (hr : Reachable present progs s log) {o' : Owner}
    (hlock : s.dir.lock = some o') {t : Nat} {f : Option OStep} {rest : List Call}
    (hidle : (s.threads t).pc = .idle) (htodo : (s.threads t).todo = .open f :: rest) :
    ∃ s', run s log (List.replicate (lockedOpenSteps f) (.thread t)) =
        some (s', Ev.ret t (s.threads t).idx (t, (s.threads t).idx) (lockedOpenResult f) ::
                  Ev.inv t (s.threads t).idx (.open f) :: log) ∧
      s'.dir = s.dir ∧ s'.handles = s.handles ∧
      (s'.threads t).results = lockedOpenResult f :: (s.threads t).results ∧
      (∀ t', t' ≠ t → s'.threads t' = s.threads t') := by
  have hp : s.dir.present = true := (reachable_inv hr).1.lock_present o' hlock
  by_cases h1 : f = some .mkdir
  · subst h1
    simp [lockedOpenSteps, lockedOpenResult, List.replicate, run, step, tstep, hidle, htodo, State.ret, upd]
    intro t' h; simp [h]
  · by_cases h2 : f = some .create
    · subst h2
      simp [lockedOpenSteps, lockedOpenResult, List.replicate, run, step, tstep, hidle, htodo, State.ret,
        State.goto, upd, dir_present_eq _ hp]
      intro t' h; simp [h]
    · have h3 : lockedOpenResult f = .errLocked := by
        unfold lockedOpenResult; split <;> simp_all
      have h4 : lockedOpenSteps f = 3 := by
        unfold lockedOpenSteps; split <;> simp_all
      simp [h3, h4, List.replicate, run, step, tstep, hidle, htodo, State.ret, State.goto, upd, h1, h2,
        hlock]
      refine ⟨?_, fun t' h => by simp [h]⟩
      cases hd : s.dir; simp_all

/-- … and under every interleaving: each atomic step an `open` takes while the LOCK is
    held by someone (its mkdir, its create) leaves directory and handles unchanged, and
    the create step ends the call with an error.  Racing losers therefore never modify
    the directory. -/
theorem open_steps_on_locked_dir_unchanged (hr : Reachable present progs s log) {o' : Owner}
    (hlock : s.dir.lock = some o') {t : Nat} {f : Option OStep}
    (hpc : (s.threads t).pc = .oMkdir f ∨ (s.threads t).pc = .oCreate f)
    {s' : State} {ev : List Ev} (hs : step s (.thread t) = some (s', ev)) :
    s'.dir = s.dir ∧ s'.handles = s.handles ∧
    ((s.threads t).pc = .oCreate f →
      (s'.threads t).pc = .idle ∧
      ((s'.threads t).results = .errLocked :: (s.threads t).results ∨
       (s'.threads t).results = .errCreate :: (s.threads t).results)) := by
  have hp : s.dir.present = true := (reachable_inv hr).1.lock_present o' hlock
  rcases hpc with hpc | hpc
  · simp only [step, tstep, hpc] at hs
    split at hs <;> cases hs
    · simp [State.ret, hpc]
    · refine ⟨?_, rfl, by simp [hpc]⟩
      cases hd : s.dir; simp_all [State.goto]
  · simp only [step, tstep, hpc, hlock] at hs
    split at hs <;> cases hs <;> simp [State.ret, upd]

/-! ## failed_open_leaves_no_lock -/

/-- **failed_open_leaves_no_lock** (full, every interleaving, every failure position):
    once an `open` has returned anything but a handle, its attempt is not (and never
    again) between create and remove — no LOCK of it is left behind. -/
theorem failed_open_leaves_no_lock (hr : Reachable present progs s log) {t i : Nat} {f : Option OStep}
    {o : Owner} {r : Res} (hinv : Ev.inv t i (.open f) ∈ log) (hret : Ev.ret t i o r ∈ log)
    (hfail : r ≠ .opened) :
    o = (t, i) ∧ ¬ Between log (t, i) ∧ s.dir.lock ≠ some (t, i) := by
  obtain ⟨_, L⟩ := reachable_inv hr
  have hk := L.ret_kind t i _ o r hinv hret
  simp only [Call.mayReturn] at hk
  obtain ⟨rfl, _⟩ := hk
  have hb := L.failed_no_lock t i r hret hfail
  exact ⟨rfl, hb, fun hl => hb ((L.lock_between _).1 hl)⟩

/-- … and per failure position, run on its own from an unlocked directory: the call
    reports the matching error, the directory has no LOCK afterwards, no segment file
    was touched, and every handle (its own included) is as before. -/
theorem failed_open_alone_leaves_no_lock (hr : Reachable present progs s log) {t : Nat} {p : OStep}
    {rest : List Call} (hlock : s.dir.lock = none)
    (hidle : (s.threads t).pc = .idle) (htodo : (s.threads t).todo = .open (some p) :: rest) :
    ∃ s' log', run s log (List.replicate (openFailSteps p) (.thread t)) = some (s', log') ∧
      s'.dir.lock = none ∧ s'.dir.writes = s.dir.writes ∧
      (s'.threads t).results = openFailResult p :: (s.threads t).results ∧
      s'.handles = s.handles := by
  have hfresh : s.handles (t, (s.threads t).idx) = {} :=
    (reachable_inv hr).1.fresh_handle (t, (s.threads t).idx) (Nat.le_refl _) (by simp [hidle, Pc.inWindow])
  cases p <;>
    simp [openFailSteps, openFailResult, List.replicate, run, step, tstep, hidle, htodo, State.ret,
      State.goto, State.setHandle, upd, hlock, hfresh] <;>
    funext o <;> by_cases ho : o = (t, (s.threads t).idx) <;> simp [ho, hfresh]

/-! ## close_releases -/

/-- **close_releases** (full, every interleaving): once a Close of `h` has returned
    successfully, the LOCK of `h` has been removed, `h` never holds it again and is no
    longer a usable handle. -/
theorem close_releases (hr : Reachable present progs s log) {t i : Nat} {h : Owner}
    (hret : Ev.ret t i h .closedOk ∈ log) :
    Ev.removeLock h ∈ log ∧ ¬ Between log h ∧ s.dir.lock ≠ some h ∧ ¬ Live s h := by
  obtain ⟨_, L⟩ := reachable_inv hr
  obtain ⟨hrm, hcl⟩ := L.closed_ok_released t i h hret
  have hb : ¬ Between log h := fun hb => hb.2 hrm
  exact ⟨hrm, hb, fun hl => hb ((L.lock_between _).1 hl), fun hl => by rw [hl.2] at hcl; cases hcl⟩

/-- an uncontended Close of a live handle runs to completion and leaves the directory
    without LOCK (nothing else changes) -/
theorem close_alone_releases (hr : Reachable present progs s log) {h : Owner} (hlive : Live s h)
    {t : Nat} {rest : List Call}
    (hidle : (s.threads t).pc = .idle) (htodo : (s.threads t).todo = .close h :: rest) :
    ∃ s' log', run s log (closeSched t h) = some (s', log') ∧
      s'.dir = { s.dir with lock := none } ∧
      (s'.threads t).results = .closedOk :: (s.threads t).results ∧
      (s'.threads t).pc = .idle ∧ (s'.threads t).todo = rest ∧ (s'.threads t).idx = (s.threads t).idx + 1 ∧
      (s'.handles h).closed = true ∧
      (∀ o, o ≠ h → s'.handles o = s.handles o) ∧ (∀ t', t' ≠ t → s'.threads t' = s.threads t') := by
  obtain ⟨I, _⟩ := reachable_inv hr
  have hpub := hlive.1
  have hcl := hlive.2
  have hlf := (I.live_fd h hpub hcl).2
  have hrun := (I.live_running h hpub hcl).1
  have hsig := (I.live_running h hpub hcl).2
  simp [closeSched, run, step, tstep, wstep, hidle, htodo, State.ret, State.goto, State.setHandle, upd,
    hpub, hcl, hlf, hrun, hsig]
  exact ⟨fun a b hne => by simp [hne], fun t' ht => by simp [ht]⟩

/-- an uninterrupted `open` of an unlocked directory succeeds -/
theorem open_alone_succeeds (hr : Reachable present progs s log) (hlock : s.dir.lock = none)
    {t : Nat} {rest : List Call}
    (hidle : (s.threads t).pc = .idle) (htodo : (s.threads t).todo = .open none :: rest) :
    ∃ s' log', run s log (openSched t) = some (s', log') ∧
      s'.dir = { s.dir with present := true, lock := some (t, (s.threads t).idx) } ∧
      (s'.threads t).results = .opened :: (s.threads t).results ∧
      Live s' (t, (s.threads t).idx) ∧
      (∀ o, o ≠ (t, (s.threads t).idx) → s'.handles o = s.handles o) := by
  have hfresh : s.handles (t, (s.threads t).idx) = {} :=
    (reachable_inv hr).1.fresh_handle (t, (s.threads t).idx) (Nat.le_refl _) (by simp [hidle, Pc.inWindow])
  simp [openSched, List.replicate, run, step, tstep, hidle, htodo, State.ret, State.goto, State.setHandle,
    upd, hlock, hfresh, Live]
  intro a b hne
  have : ¬ (a = t ∧ b = (s.threads t).idx) := fun h => hne h.1 h.2
  simp [this]

/-- … so that the next open succeeds: Close then open, uninterrupted, from any reachable
    state with a live handle. -/
theorem close_then_open_succeeds (hr : Reachable present progs s log) {h : Owner} (hlive : Live s h)
    {t : Nat} {rest : List Call}
    (hidle : (s.threads t).pc = .idle) (htodo : (s.threads t).todo = .close h :: .open none :: rest) :
    ∃ s' log', run s log (closeSched t h ++ openSched t) = some (s', log') ∧
      (s'.threads t).results = .opened :: .closedOk :: (s.threads t).results ∧
      s'.dir.lock = some (t, (s.threads t).idx + 1) ∧
      Live s' (t, (s.threads t).idx + 1) ∧ ¬ Live s' h := by
  obtain ⟨s1, log1, hrun1, hdir1, hres1, hpc1, htodo1, hidx1, hclosed1, hoth1, _⟩ :=
    close_alone_releases hr hlive hidle htodo
  have hr1 := hr.run hrun1
  have hlock1 : s1.dir.lock = none := by rw [hdir1]
  obtain ⟨s2, log2, hrun2, hdir2, hres2, hlive2, hoth2⟩ := open_alone_succeeds hr1 hlock1 hpc1 htodo1
  refine ⟨s2, log2, ?_, ?_, ?_, ?_, ?_⟩
  · rw [run_append, hrun1]; exact hrun2
  · rw [hres2, hres1]
  · rw [hdir2, hidx1]
  · rw [← hidx1]; exact hlive2
  · intro hl
    have hne : h ≠ (t, (s1.threads t).idx) := by
      intro heq
      have := (reachable_inv hr).1.pub_lt h hlive.1
      rw [heq] at this
      simp only [hidx1] at this
      omega
    have : (s2.handles h).closed = true := by rw [hoth2 h hne]; exact hclosed1
    rw [hl.2] at this; cases this

/-! ## close_idempotent_effect -/

/-- step form: a Close whose test-and-set finds `closed` already set reports the error
    and changes neither the directory nor any handle. -/
theorem close_idempotent_effect_step {t : Nat} {h : Owner} (hpc : (s.threads t).pc = .cTest h)
    (hclosed : (s.handles h).closed = true) :
    ∃ s', step s (.thread t) = some (s', [Ev.testSet t (s.threads t).idx h false,
                                         Ev.ret t (s.threads t).idx h .errAlreadyClosed]) ∧
      s'.dir = s.dir ∧ s'.handles = s.handles ∧ (s'.threads t).pc = .idle ∧
      (s'.threads t).results = .errAlreadyClosed :: (s.threads t).results := by
  simp [step, tstep, hpc, hclosed, State.ret, upd]

/-- whole call: after a Close of `h` has returned successfully, a further Close (by any
    thread) reports "already closed" and leaves directory and handles unchanged. -/
theorem close_idempotent_effect (hr : Reachable present progs s log) {t₀ i₀ : Nat} {h : Owner}
    (hdone : Ev.ret t₀ i₀ h .closedOk ∈ log) {t : Nat} {rest : List Call}
    (hidle : (s.threads t).pc = .idle) (htodo : (s.threads t).todo = .close h :: rest) :
    ∃ s', run s log [.thread t, .thread t] =
        some (s', Ev.ret t (s.threads t).idx h .errAlreadyClosed :: Ev.testSet t (s.threads t).idx h false ::
                  Ev.inv t (s.threads t).idx (.close h) :: log) ∧
      s'.dir = s.dir ∧ s'.handles = s.handles ∧
      (s'.threads t).results = .errAlreadyClosed :: (s.threads t).results := by
  obtain ⟨I, L⟩ := reachable_inv hr
  have hcl := (L.closed_ok_released t₀ i₀ h hdone).2
  have hpub := I.closed_pub h hcl
  simp [run, step, tstep, hidle, htodo, State.ret, upd, hcl, hpub]

/-! ## use_after_close_fails -/

/-- step form, for each public operation `k`: its `closed` test on a closed handle
    reports "storage is closed"; the body is never entered; nothing changes. -/
theorem use_after_close_fails_step (k : OpKind) {t : Nat} {h : Owner}
    (hpc : (s.threads t).pc = .pTest h k) (hclosed : (s.handles h).closed = true) :
    ∃ s', step s (.thread t) = some (s', [Ev.test t (s.threads t).idx h false,
                                         Ev.ret t (s.threads t).idx h .errClosed]) ∧
      s'.dir = s.dir ∧ s'.handles = s.handles ∧ (s'.threads t).pc = .idle ∧
      (s'.threads t).results = .errClosed :: (s.threads t).results := by
  simp [step, tstep, hpc, hclosed, State.ret, upd]

/-- whole call, for each public operation `k`: after a successful Close of `h` has
    returned, the operation fails cleanly. -/
theorem use_after_close_fails (k : OpKind) (hr : Reachable present progs s log) {t₀ i₀ : Nat} {h : Owner}
    (hdone : Ev.ret t₀ i₀ h .closedOk ∈ log) {t : Nat} {rest : List Call}
    (hidle : (s.threads t).pc = .idle) (htodo : (s.threads t).todo = .op h k :: rest) :
    ∃ s', run s log [.thread t, .thread t] =
        some (s', Ev.ret t (s.threads t).idx h .errClosed :: Ev.test t (s.threads t).idx h false ::
                  Ev.inv t (s.threads t).idx (.op h k) :: log) ∧
      s'.dir = s.dir ∧ s'.handles = s.handles ∧
      (s'.threads t).results = .errClosed :: (s.threads t).results := by
  obtain ⟨I, L⟩ := reachable_inv hr
  have hcl := (L.closed_ok_released t₀ i₀ h hdone).2
  have hpub := I.closed_pub h hcl
  simp [run, step, tstep, hidle, htodo, State.ret, upd, hcl, hpub]

/-- trace form, every interleaving: an operation on `h` that is INVOKED after a
    successful Close of `h` has RETURNED reports "storage is closed". -/
theorem use_after_close_fails_trace (hr : Reachable present progs s log) {l₂ l₁ : List Ev}
    {t i t₀ i₀ : Nat} {h o : Owner} {k : OpKind} {r : Res}
    (hsplit : log = l₂ ++ Ev.inv t i (.op h k) :: l₁)
    (hdone : Ev.ret t₀ i₀ h .closedOk ∈ l₁) (hret : Ev.ret t i o r ∈ log) :
    o = h ∧ r = .errClosed := by
  obtain ⟨_, L⟩ := reachable_inv hr
  have hinv : Ev.inv t i (.op h k) ∈ log := by rw [hsplit]; simp
  have hk := L.ret_kind t i _ o r hinv hret
  simp only [Call.mayReturn] at hk
  obtain ⟨rfl, hr'⟩ := hk
  refine ⟨rfl, hr'.resolve_left fun hok => ?_⟩
  subst hok
  -- the return found a passed test earlier in the trace …
  obtain ⟨m₂, m₁, hm⟩ := List.append_of_mem hret
  have hins := L.inside
  rw [hm] at hins
  have htest : Ev.test t i o true ∈ m₁ := by simpa [evOk, retOk] using TestsInsideCalls.at hins
  have htest' : Ev.test t i o true ∈ log := by rw [hm]; simp [htest]
  -- … which is not older than the invocation …
  have hins2 := L.inside
  rw [hsplit] at hins2
  have hnot : Ev.test t i o true ∉ l₁ := by
    have := TestsInsideCalls.at hins2
    simp only [evOk] at this
    exact this.1 o true
  rw [hsplit] at htest'
  have hin2 : Ev.test t i o true ∈ l₂ := by
    rcases List.mem_append.1 htest' with h2 | h2
    · exact h2
    · rcases List.mem_cons.1 h2 with h3 | h3
      · cases h3
      · exact absurd h3 hnot
  -- … so it saw the winning test-and-set of the Close that returned before the invocation
  obtain ⟨n₂, n₁, hn⟩ := List.append_of_mem hin2
  have hlin := L.lin o
  rw [hsplit, hn, List.append_assoc] at hlin
  have hhead := LinLegal.suffix hlin
  simp only [List.cons_append, LinLegal] at hhead
  have habs : absClosed o (n₁ ++ Ev.inv t i (.op o k) :: l₁) = false := by simpa using hhead.1
  obtain ⟨p₂, p₁, hp⟩ := List.append_of_mem hdone
  have hins3 := L.inside
  rw [hsplit, hp] at hins3
  have hins3' : TestsInsideCalls ((l₂ ++ Ev.inv t i (.op o k) :: p₂) ++ Ev.ret t₀ i₀ o .closedOk :: p₁) := by
    simpa using hins3
  have hts : Ev.testSet t₀ i₀ o true ∈ p₁ := by simpa [evOk, retOk] using TestsInsideCalls.at hins3'
  have : absClosed o (n₁ ++ Ev.inv t i (.op o k) :: l₁) = true :=
    absClosed_of_mem (t := t₀) (i := i₀) (by rw [hp]; simp [hts])
  rw [this] at habs; cases habs

/-! ## operations racing with Close -/

/-- **race clause, part 1** (full): in every reachable trace the atomic `closed` tests on a
    handle, in execution order, answer exactly like a sequential closable object
    (`LinLegal`); every test lies inside its own call and every return reports what
    its test decided (`TestsInsideCalls`); at most one Close per handle ever wins. So the
    calls are linearizable at their tests, in an order consistent with real time. -/
theorem op_race_close_linearizable (hr : Reachable present progs s log) :
    (∀ h, LinLegal h log) ∧ TestsInsideCalls log ∧ (∀ h, wins h log ≤ 1) := by
  obtain ⟨_, L⟩ := reachable_inv hr
  exact ⟨L.lin, L.inside, fun h => (wins_le_one (L.lin h)).1⟩

/-- **race clause, part 2** (full), in the property's words: a completed operation on `h`
    either failed with the closed error — and then a winning Close test-and-set preceded
    its own test — or it succeeded — and then its test preceded every winning Close
    test-and-set on `h`, i.e. it takes effect as if ordered before the Close.  (Its body
    may still run after that Close has returned: see `op_body_may_follow_close`.) -/
theorem op_race_close (hr : Reachable present progs s log) {t i : Nat} {h o : Owner} {k : OpKind} {r : Res}
    (hinv : Ev.inv t i (.op h k) ∈ log) (hret : Ev.ret t i o r ∈ log) :
    o = h ∧
    ((r = .errClosed ∧ ∃ t' i', Before log (Ev.testSet t' i' h true) (Ev.test t i h false)) ∨
     (r = .opOk ∧ Ev.test t i h true ∈ log ∧
        ∀ t' i', Ev.testSet t' i' h true ∈ log → Before log (Ev.test t i h true) (Ev.testSet t' i' h true))) := by
  obtain ⟨_, L⟩ := reachable_inv hr
  have hk := L.ret_kind t i _ o r hinv hret
  simp only [Call.mayReturn] at hk
  obtain ⟨rfl, hr'⟩ := hk
  refine ⟨rfl, ?_⟩
  obtain ⟨m₂, m₁, hm⟩ := List.append_of_mem hret
  have hins := L.inside
  rw [hm] at hins
  have hev := TestsInsideCalls.at hins
  rcases hr' with rfl | rfl
  · right
    have htest : Ev.test t i o true ∈ log := by
      rw [hm]; simp only [evOk, retOk] at hev; simp [hev]
    exact ⟨rfl, htest, fun t' i' hts => pass_before_close (L.lin o) htest hts⟩
  · left
    have htest : Ev.test t i o false ∈ log := by
      rw [hm]; simp only [evOk, retOk] at hev; simp [hev]
    exact ⟨rfl, fail_after_close (L.lin o) htest⟩

/-! ## non-vacuity: concrete schedules, evaluated by the kernel (`decide`)

  `after present progs sched` is the state and trace reached when the scheduler offers
  the actors of `sched` in turn (`reachable_after`: it is reachable).  `T t` = thread
  `t` takes its next atomic step; `W h a` = a background worker of `h` writes / exits. -/
section Examples

def T (t : Nat) : Actor := .thread t
def W (h : Owner) (a : WAct) : Actor := .worker h a

/-- goroutines (or processes) 0 and 1 race to open a fresh directory; later 0 closes
    (twice), 1 uses 0's handle and reopens -/
def progsA : Nat → List Call
  | 0 => [.open none, .close (0, 0), .close (0, 0)]
  | 1 => [.open none, .op (0, 0) .add, .op (0, 0) (.flush 1), .open none]
  | _ => []

/-- 1's mkdir runs first, 0 wins the O_EXCL create, 1 loses -/
def schedA1 : List Actor := [T 1, T 0, T 1, T 0, T 0, T 1, T 0, T 0, T 0, T 0]

/-- lock_mutex / open_locked_fails_unchanged are not vacuous: a reachable state with a
    live holder and a loser that got the locked error. -/
example : let p := after false progsA schedA1
    p.1.dir.lock = some (0, 0) ∧ Live p.1 (0, 0) ∧ Between p.2 (0, 0) ∧
    (p.1.threads 0).results = [.opened] ∧ (p.1.threads 1).results = [.errLocked] := by decide

/-- … continuing: 1 adds through 0's handle (passes the test, finishes), 0 closes
    (workers exit, LOCK removed), 0 closes again, 1's flush fails, 1 reopens. -/
def schedA2 : List Actor :=
  schedA1 ++ [T 1, T 1, T 1] ++ closeSched 0 (0, 0) ++ [T 0, T 0] ++ [T 1, T 1] ++ openSched 1

/-- close_releases / close_idempotent_effect / use_after_close_fails are not vacuous. -/
example : let p := after false progsA schedA2
    p.1.dir.lock = some (1, 3) ∧ Live p.1 (1, 3) ∧ ¬ Live p.1 (0, 0) ∧
    (p.1.threads 0).results = [.errAlreadyClosed, .closedOk, .opened] ∧
    (p.1.threads 1).results = [.opened, .errClosed, .opOk, .errLocked] ∧
    p.1.dir.writes = 0 := by decide

/-- every failure position: the failing open returns its error and leaves no LOCK,
    and a second goroutine can open afterwards -/
def progsF (p : OStep) : Nat → List Call
  | 0 => [.open (some p)]
  | 1 => [.open none]
  | _ => []

example : ∀ p : OStep, let q := after false (progsF p) (List.replicate 7 (T 0) ++ openSched 1)
    q.1.dir.lock = some (1, 0) ∧ (q.1.threads 0).results = [openFailResult p] ∧
    ¬ Between q.2 (0, 0) := by
  intro p; cases p <;> decide

/-- a failing open holds the LOCK for a while: a racing open inside that window gets the
    locked error, and afterwards the directory is free again (both failed, no LOCK) -/
example : let q := after true (progsF .readDir2) [T 0, T 0, T 0, T 0, T 0, T 1, T 1, T 1, T 0, T 0]
    q.1.dir.lock = none ∧ (q.1.threads 0).results = [.errReadDir2] ∧
    (q.1.threads 1).results = [.errLocked] := by decide

/-- an `open` that arrives while a Close is between its test-and-set and its remove
    (workers still running their final flush) is refused: ownership is released last -/
def progsC : Nat → List Call
  | 0 => [.open none, .close (0, 0)]
  | 1 => [.open none]
  | _ => []

def schedC : List Actor :=
  openSched 0 ++ [T 0, T 0, T 0, W (0, 0) .write, W (0, 0) .exit] ++ [T 1, T 1, T 1]

example : let q := after true progsC schedC
    q.1.dir.lock = some (0, 0) ∧ (q.1.handles (0, 0)).closed = true ∧ (q.1.handles (0, 0)).running = 1 ∧
    q.1.dir.writes = 1 ∧ (q.1.threads 1).results = [.errLocked] := by decide

/-- The race clause is stated as it is for a reason (a quirk of the code, kept in the
    model): an operation that passed the `closed` test can finish — and a Flush can
    write segment files — AFTER a concurrent Close has returned and released the LOCK. -/
def progsR : Nat → List Call
  | 0 => [.open none, .close (0, 0)]
  | 1 => [.op (0, 0) (.flush 1)]
  | _ => []

theorem op_body_may_follow_close :
    let q := after true progsR (openSched 0 ++ [T 1, T 1] ++ closeSched 0 (0, 0) ++ [T 1, T 1])
    (q.1.threads 0).results = [.closedOk, .opened] ∧ (q.1.threads 1).results = [.opOk] ∧
    q.1.dir.lock = none ∧ q.1.dir.writes = 1 ∧
    Before q.2 (Ev.ret 0 1 (0, 0) .closedOk) (Ev.ret 1 0 (0, 0) .opOk) ∧
    Before q.2 (Ev.test 1 0 (0, 0) true) (Ev.testSet 0 1 (0, 0) true) := by
  exact ⟨by decide, by decide, by decide, by decide,
    before_of_beforeB (by decide), before_of_beforeB (by decide)⟩

end Examples

end Comet.Lock
