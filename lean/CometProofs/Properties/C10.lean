/-
  C10 — a crash at any point leaves a directory that reopens consistently.

  ONLY property theorems and non-vacuity examples (model: Comet/Storage/{FS,Store,Crash}.lean,
  helpers: CometProofs/Storage/*.lean).

  Crash model. Every step of the store touches the directory through a list of FS steps
  (`fsStepsOf`; `exec_fs_eq`: the step's effect on the directory IS `applySteps` of that
  list). The process may die after any prefix of the list (`k`), and — the code never
  fsyncs — every file CREATED by the unfinished step may hold any prefix of its final
  gzip stream (`cuts : Name → Cut`, arbitrary): `crashImage s.fs (fsStepsOf s st) k cuts`.
  `recover` = the operator erases LOCK, the directory is opened with fresh templates.
  `XStep.crash` makes crash-and-recover a step of the global system, so `Reach` covers
  any number of crashes, in any session, inside flushes, worker writes and compactions.

  Status.
  * `crash_reopen_ok`, `crash_search_ok`: FULL (they hold for EVERY directory).
  * `crash_no_phantom`: FULL.  * `crash_ids_not_reused`: FULL.
  * all-or-nothing: full statement `CrashAllOrNothing` FALSE while templates are shared
    (`crash_partial_segment_leaks`, D13; witness replayed on the real code); partial
    `crash_segment_all_or_nothing_partial`: a segment with a missing / empty /
    header-less component, or whose FIRST-read component (hybrid) is truncated, is
    ignored as a whole; FULL `crash_load_requires_complete`: only a segment all of whose
    component files are complete (gzip trailer of the last one included, repair ae56580)
    is ever loaded and cached.
  * `crash_durable_kept` (partial): a segment complete before the crashed step began is
    found by the first search after recovery, unless the crashed step is the compaction's
    swap-and-delete (D14); `crash_durable_kept_every_search`: and by every search of every
    later state in which `loadLost` is still false and the document was not removed.
-/
import CometProofs.Storage.DurableAll
namespace Comet.Storage

/-! ## recovery and searches never fail (full) -/

/-- FULL. Whatever the directory looks like — any crash image, any garbage — recovery returns
    an open store. -/
theorem crash_reopen_ok (cfg : Cfg) (img : FS) (gh : Ghost) :
    (recover cfg img gh).2 = .ok ∧ running (recover cfg img gh).1 = true := by
  have hl : FS.has (FS.erase img .lock) .lock = false := by
    cases h : FS.has (FS.erase img .lock) .lock with
    | false => rfl
    | true => exact absurd ((names_erase _ _ _).mp ((has_iff _ _).mp h)).2 (by simp)
  unfold recover openOn
  simp [hl, running]

/-- FULL. On the recovered store — and after any further steps, as long as it is open — every
    search for a configured modality returns a result under every schedule; segments that
    fail to load are skipped. -/
theorem crash_search_ok (s : Store) (hrun : running s = true) (q : Q) (hq : s.cfg.tpl.has q = true)
    (sched : List SegEv) : ∃ l, (exec s (.search q sched)).2 = .ids l := by
  simp only [exec, execSearch]
  rw [if_neg (by simp [hrun]), if_neg (by simp [hq])]
  exact ⟨_, rfl⟩

/-- the driver's `recover` is the model's "crash step, then reopen" -/
theorem recover_is_crash_then_reopen (s : Store) (ho : s.opened = true) (st : Step) (k : Nat) (cuts : Name → Cut) :
    exec (xexec s (.crash st k cuts)) .reopen =
      recover s.cfg (crashImage s.fs (fsStepsOf s st) k cuts)
        (crashTo s (crashImage s.fs (fsStepsOf s st) k cuts)).gh := by
  simp [xexec, ho, exec, crashTo, recover]

/-! ## no phantom after a crash (full) -/

/-- FULL. After a crash anywhere (any step, any prefix of its file operations, any cut of the
    files it created), recovery, and any further history `rest`, every id a search returns was
    acknowledged by an Add before. -/
theorem crash_no_phantom {cfg : Cfg} {s : Store} (h : Reach cfg s) (st : Step) (k : Nat) (cuts : Name → Cut)
    (rest : List Step) (q : Q) (sched : List SegEv) (l : List Id)
    (hr : (exec (run (exec (xexec s (.crash st k cuts)) .reopen).1 rest) (.search q sched)).2 = .ids l) :
    ∀ i ∈ l, ∃ d ∈ (run (exec (xexec s (.crash st k cuts)) .reopen).1 rest).gh.acked, d.id = i := by
  have hreach : Reach cfg (run (exec (xexec s (.crash st k cuts)) .reopen).1 rest) :=
    reach_run_from (reach_step (reach_xexec h _) _) rest
  intro i hi
  have := search_result_sub (phInv_reach hreach) q sched l hr i hi
  obtain ⟨d, hd, rfl⟩ := List.mem_map.mp this
  exact ⟨d, hd, rfl⟩

/-- the acknowledged set does not grow by crashing and recovering: a document that was never
    added does not appear -/
theorem crash_adds_nothing (s : Store) (st : Step) (k : Nat) (cuts : Name → Cut) :
    (exec (xexec s (.crash st k cuts)) .reopen).1.gh.acked = s.gh.acked := by
  simp only [xexec]
  split
  · simp only [exec, crashTo, Bool.false_eq_true, if_false]
    unfold openOn; split <;> rfl
  · simp only [exec]
    split
    · rfl
    · unfold openOn; split <;> rfl

/-! ## identifiers are not reused after a crash (full) -/

/-- FULL. The recovered store's counter is at least every id naming ANY file of the image,
    orphans of half-written or half-deleted segments included; so the next id is larger. -/
theorem crash_ids_not_reused (cfg : Cfg) (img : FS) (gh : Ghost) :
    ∀ i ∈ FS.segIds img, i < (recover cfg img gh).1.counter + 1 := by
  intro i hi
  have hl : FS.has (FS.erase img .lock) .lock = false := by
    cases h : FS.has (FS.erase img .lock) .lock with
    | false => rfl
    | true => exact absurd ((names_erase _ _ _).mp ((has_iff _ _).mp h)).2 (by simp)
  have : (recover cfg img gh).1.counter = initCounter (FS.put (FS.erase img .lock) .lock ⟨.lock, .full⟩) := by
    unfold recover openOn; simp [hl]
  rw [this, initCounter_congr _ _ (segIds_put_lock _ _), initCounter_congr _ _ (segIds_erase_lock img)]
  exact Nat.lt_succ_of_le (le_initCounter _ _ hi)

/-- FULL, over whole histories: in every state reachable through any number of crashes, no
    nextSegmentID result was ≤ an id that had named a file, and no file was overwritten. -/
theorem crash_ids_never_reused {cfg : Cfg} {s : Store} (h : Reach cfg s) :
    s.gh.reused = false ∧ s.gh.overwrote = false :=
  ⟨(idInv_reach h).noReuse, (idInv_reach h).noOver⟩

/-! ## a damaged segment is ignored as a whole -/

/-- ids a search may legitimately return right after recovery: those of the segments that
    deserialise completely -/
def intactIds (tpl : Tpl) (fs : FS) (q : Q) : List Id :=
  ((listSegments fs).filter fun g => (loadSeg tpl fs g Shared.empty).1).flatMap fun g => segIdsOf fs g q

/-- FULL statement: after a crash and recovery, before anything is added, no sequence of searches
    returns an id outside the intact segments. -/
def CrashAllOrNothing : Prop :=
  ∀ (cfg : Cfg) (s : Store), Reach cfg s → s.opened = true →
    ∀ (st : Step) (k : Nat) (cuts : Name → Cut) (searches : List Step),
      (∀ x ∈ searches, ∃ q sched, x = .search q sched) →
      let s' := (exec (xexec s (.crash st k cuts)) .reopen).1
      ∀ (q : Q) (sched : List SegEv) (l : List Id),
        (exec (run s' searches) (.search q sched)).2 = .ids l →
        ∀ i ∈ l, i ∈ intactIds s'.cfg.tpl s'.fs q

def cfgTiny : Cfg := ⟨⟨true, true, true⟩, 1, 209715200, 5⟩
def docA : Doc := ⟨1, 3, 6, 2⟩
def docB : Doc := ⟨2, 3, 6, 2⟩

/-- D13 witness (corpus/C10/crash_d13_partial_segment_leaks.json): memtable limit 1; add a; Flush
    (segment 1 = {a}); add b; the next Flush writes a's memtable as segment 2 (content {a,b}) and
    the process dies after all its file operations with the un-synced text_2 short -/
def cutText2 : Name → Cut := fun n => if n = .seg .text 2 then .data else .full

/-- NEGATION (D13). After recovery the first vector search (segments 1, 2 in turn) returns {a};
    loading segment 2 has put its vector part into the shared templates before its text part
    failed; the second, identical search returns b — which is in no intact segment. -/
theorem crash_partial_segment_leaks : ¬ CrashAllOrNothing := by
  intro h
  have := h cfgTiny (run (Store.init cfgTiny) [.add docA, .flush, .add docB]) (reach_run _ _) (by decide)
    .flush 8 cutText2 [.search .vec (serialSched [1, 2])] (by
      intro x hx; simp at hx; exact ⟨_, _, hx⟩)
    .vec (serialSched [1, 2]) [1, 2] (by decide) 2 (by decide)
  revert this
  decide

/-- the first search after that recovery is still clean -/
example :
    let s' := (exec (xexec (run (Store.init cfgTiny) [.add docA, .flush, .add docB]) (.crash .flush 8 cutText2)) .reopen).1
    (exec s' (.search .vec (serialSched [1, 2]))).2 = .ids [1] ∧ intactIds s'.cfg.tpl s'.fs .vec = [1] := by
  decide

/-- PARTIAL. A segment with a missing, empty or header-truncated component file (for the
    configured templates), or whose hybrid component — the first one read — is truncated, is
    ignored as a whole: the load fails and the shared templates are untouched. -/
theorem crash_segment_all_or_nothing_partial (tpl : Tpl) (fs : FS) (id : Nat) (T : Shared)
    (h : openAll fs id (comps tpl) = none ∨
         ∃ f, FS.find fs (.seg .hybrid id) = some f ∧ f.cut = .data) :
    loadSeg tpl fs id T = (false, T) := by
  rcases h with h | ⟨f, hf, hc⟩
  · simp [loadSeg, h]
  · unfold loadSeg
    split
    · rfl
    · rename_i files hfiles
      have : ∃ rest, files = (Kind.hybrid, f) :: rest := by
        unfold comps at hfiles
        simp only [List.singleton_append, List.cons_append, openAll] at hfiles
        split at hfiles
        · rename_i f' rest hf' hr
          injection hfiles with hfiles
          have : f' = f := by
            unfold openable at hf'
            rw [hf] at hf'
            simp only at hf'
            split at hf'
            · cases hf'
            · injection hf' with hf'; exact hf'.symm
          subst this
          exact ⟨rest, hfiles.symm⟩
        · cases hfiles
      obtain ⟨rest, rfl⟩ := this
      simp [readAll, readComp, hc]

/-- FULL (since the repair ae56580, getIndex drains the MultiReader): a segment is loaded ONLY IF
    every component file the templates need is present and complete — header, data and trailer.
    A missing, empty or truncated component anywhere, the gzip trailer of the last file included,
    makes the load fail. (What a failing load may already have written into the shared templates
    is D13's subject, `crash_partial_segment_leaks`.) -/
theorem crash_load_requires_complete (tpl : Tpl) (fs : FS) (id : Nat) (T : Shared)
    (h : (loadSeg tpl fs id T).1 = true) : segComplete tpl fs id = true :=
  loadSeg_ok_complete tpl fs id T h

/-- … and conversely a complete segment (with payloads of the right kind, as every segment the
    store writes has) loads: `loadSeg_of_holds` in CometProofs/Storage/DurableLoad.lean. -/
example :
    let s := run (Store.init cfgTiny) [.add docA, .flush]
    segComplete s.cfg.tpl s.fs 1 = true ∧ (loadSeg s.cfg.tpl s.fs 1 Shared.empty).1 = true ∧
    -- the last component (metadata) short of its trailer only: rejected, but only after the
    -- whole content has been published into the templates
    (let fs' := recut [.seg .metadata 1] (fun _ => .trailer) s.fs
     (loadSeg s.cfg.tpl fs' 1 Shared.empty).1 = false ∧
     (loadSeg s.cfg.tpl fs' 1 Shared.empty).2 = (loadSeg s.cfg.tpl s.fs 1 Shared.empty).2) := by decide

/-! ## what was durable before the crash is still found -/

/-- PARTIAL. Let segment `g` be complete and hold `d` before the crashed step began (in a
    reachable open state). If the crashed step is not the compaction's swap-and-delete, then
    after recovery `d` is found, through every modality it carries, by the first search under
    every serialised schedule. -/
theorem crash_durable_kept {cfg : Cfg} {s : Store} (hr : Reach cfg s) (ho : s.opened = true)
    (g : Nat) (d : Doc) (hh : SegHolds cfg.tpl s.fs g d)
    (st : Step) (hns : st ≠ .bg .cswap) (k : Nat) (cuts : Name → Cut)
    (q : Q) (hq : Doc.matches cfg.tpl d q = true) (sched : List SegEv)
    (hs : SerialFor (exec (xexec s (.crash st k cuts)) .reopen).1 sched) :
    found (exec (xexec s (.crash st k cuts)) .reopen).1 q sched d := by
  have hc := reach_cfg hr
  rw [recover_is_crash_then_reopen s ho] at hs ⊢
  rw [hc] at hs ⊢
  have h1 : SegHolds cfg.tpl (FS.erase (crashImage s.fs (fsStepsOf s st) k cuts) .lock) g d := by
    have := segHolds_crash (idInv_reach hr) (by rw [hc]; exact hh) st hns k cuts
    rw [hc] at this; exact this
  unfold recover at hs ⊢
  exact found_after_open h1 hq (crash_reopen_ok cfg _ _).2 sched hs

/-- PARTIAL, every search. … and after recovery and ANY continuation `xs` without a compaction swap,
    in every state in which the store is open, no segment load has lost live content so far and `d`
    was not removed, EVERY serialised search finds `d`. -/
theorem crash_durable_kept_every_search {cfg : Cfg} {s : Store} (hr : Reach cfg s) (ho : s.opened = true)
    (g : Nat) (d : Doc) (hh : SegHolds cfg.tpl s.fs g d)
    (st : Step) (hns : st ≠ .bg .cswap) (k : Nat) (cuts : Name → Cut)
    (xs : List XStep) (hx : ∀ x ∈ xs, noSwap x = true)
    (hrun2 : running (xrun (xexec s (.crash st k cuts)) (.step .reopen :: xs)) = true)
    (hl2 : (xrun (xexec s (.crash st k cuts)) (.step .reopen :: xs)).gh.loadLost = false)
    (hrem : d.id ∉ (xrun (xexec s (.crash st k cuts)) (.step .reopen :: xs)).gh.removed)
    (q : Q) (hq : Doc.matches cfg.tpl d q = true) (sched : List SegEv)
    (hs : SerialFor (xrun (xexec s (.crash st k cuts)) (.step .reopen :: xs)) sched) :
    found (xrun (xexec s (.crash st k cuts)) (.step .reopen :: xs)) q sched d := by
  have hc := reach_cfg hr
  -- right after the crash nothing is open: the invariant is just "the files are intact"
  have h1 : KInv g d (xexec s (.crash st k cuts)) := by
    simp only [xexec, ho, if_true]
    exact ⟨segHolds_crash (idInv_reach hr) (by rw [hc]; exact hh) st hns k cuts, fun hop => by cases hop⟩
  have hr1 : Reach cfg (xexec s (.crash st k cuts)) := reach_xexec hr _
  have h2 := kInv_xrun (.step .reopen :: xs) hr1 h1 (by
    intro x hxm
    rcases List.mem_cons.mp hxm with rfl | hxm
    · rfl
    · exact hx x hxm)
  have hr2 := reach_xrun hr1 (.step .reopen :: xs)
  exact found_of_kInv (visInv_reach hr2) h2 hrun2 hl2 hrem q (by rw [reach_cfg hr2]; exact hq) sched hs

/-- non-vacuity of `crash_durable_kept`: two completed flushes, then a crash 3 file operations
    into the third, every created file cut in its data: both earlier documents are found -/
example :
    let s := run (Store.init cfgTiny) [.add docA, .flush, .add docB, .flush, .add ⟨3, 3, 6, 2⟩]
    let s' := (exec (xexec s (.crash .flush 3 (fun _ => .data))) .reopen).1
    s.opened = true ∧ s'.segs.map (·.id) = [1, 2, 3] ∧
    (exec s' (.search .vec (serialSched [3, 1, 2]))).2 = .ids [1, 2] ∧
    (exec s' (.search .txt (serialSched [2, 3, 1]))).2 = .ids [1, 2] := by decide

/-- D14 in a crash: a compaction (threshold 2) dies in its swap after deleting its first source —
    the merged segment 3 holds what the templates held, here {a, b}; with one more add before
    the compaction it would not (`store_compaction_loses` in C08) -/
example :
    let cfg : Cfg := ⟨⟨true, true, true⟩, 104857600, 209715200, 2⟩
    let s := run (Store.init cfg) [.add docA, .rotate, .flush, .add docB, .rotate, .flush, .trigger,
      .bg .cwake, .bg .clist, .bg .cload, .bg .cload, .bg .cwrite]
    let s' := (exec (xexec s (.crash (.bg .cswap) 4 (fun _ => .full))) .reopen).1
    s'.segs.map (·.id) = [2, 3] ∧ FS.segIds s'.fs = [2, 2, 2, 2, 3, 3, 3, 3] := by decide

end Comet.Storage
